"""C05 - compiled control flow and closures mean what the source says (DESIGN 5/C05).

TLC enumerates the program families of spec/C05.tla while running the reference machine MiniJS on each
(invariants on every state), harness/render.py turns each AST into source, the engine runs it with the
host function `log`, and TLC judges (log, completion | error) by running MiniJS again next to the
observation.  Python only schedules: it never computes an expected value.
"""
import json, os, random, itertools, time
from harness import tlc, engine, render
from checks import c05_gen
from harness.common import Machinery

ENUM_CFG = ("INIT EnumInit\nNEXT MachineNext\nCONSTRAINT EnumEmit\nINVARIANT Invariants\nINVARIANT EnumTerminates\n"
            "INVARIANT NewFamilyCoverage\nINVARIANT Round3Coverage\nINVARIANT Round4Coverage\nPROPERTY LogAppendOnly\nCHECK_DEADLOCK FALSE\n")
JUDGE_REF_CFG = ("INIT JudgeInit\nNEXT MachineNext\nCONSTRAINT JudgeEmit\nINVARIANT Invariants\n"
                 "PROPERTY LogAppendOnly\nCHECK_DEADLOCK FALSE\n")
# as-is runs model the engine's defects (a skipped finally is one of them): only well-formedness is an invariant there
JUDGE_ASIS_CFG = "INIT JudgeInit\nNEXT MachineNext\nCONSTRAINT JudgeEmit\nINVARIANT AsIsInvariants\nCHECK_DEADLOCK FALSE\n"
NOT_JUDGEABLE = ("unsupported", "bound", "stuck")
SHARDS = int(os.environ.get("VERIF_JUDGE_SHARDS", "10"))       # judge JVMs in parallel (each may take up to 3 GB)


def key(c):
    return json.dumps(c, sort_keys=True)


def timed(rep, phase, t0):
    """wall seconds per phase, for the evidence file (information only)"""
    d = rep.notes.setdefault("phase_seconds", {})
    d[phase] = round(d.get(phase, 0.0) + time.time() - t0, 1)


def enumerate_programs(rep, module, tier, tag="enum", cfg=ENUM_CFG, env=None, timeout=1500):
    """model-check MiniJS on every family program of `module` and collect the printed programs"""
    e = {"TIER": tier}
    e.update(env or {})
    t0 = time.time()
    res = tlc.run(rep.pid, module, cfg, env=e, timeout=timeout, tag=tag, heap="4g")
    timed(rep, "tlc_enumerate+invariants", t0)
    rep.add_tlc(module + "." + tag + " (MiniJS invariants on every state of every family program)", res)
    seen, cases = set(), []
    for c in res.records:
        if "prog" not in c:
            continue
        k = key([c.get("fam"), c.get("par")])
        if k in seen:
            continue
        seen.add(k)
        cases.append({"fam": c.get("fam"), "par": c.get("par"), "prog": c["prog"], "steps": c.get("steps")})
    cases.sort(key=lambda c: key([c["fam"], c["par"]]))
    for i, c in enumerate(cases):
        c["id"] = i
    return cases


def run_engine(rep, cases, tag="eng", hashseed="0", procs=None, driver="checks.c05_driver:driver"):
    inp = [{"id": c["id"], "prog": c["prog"], "dl": c.get("dl", 0), "dc": c.get("dc", 0)} for c in cases]
    t0 = time.time()
    res = engine.run_cases(rep.pid, inp, driver=driver, tag=tag, hashseed=hashseed, procs=procs)
    timed(rep, "engine", t0)
    out = {r["id"]: r for r in res}
    # the wall-clock watchdog is a last resort that an overloaded machine can trip (the deterministic guards are the
    # virtual time limit and the step cap): such a verdict is re-run alone with a generous watchdog before it counts
    again = [dict(c, wall=600.0) for c in inp if out[c["id"]]["out"].get("o") == "hang" and "wall" in str(out[c["id"]]["out"].get("why", ""))]
    if again:
        rep.notes["wall_clock_reruns"] = rep.notes.get("wall_clock_reruns", 0) + len(again)
        for r in engine.run_cases(rep.pid, again, driver=driver, tag=tag + "_rerun", hashseed=hashseed, procs=1):
            out[r["id"]] = r
    return out


def _judge_pass(rep, module, recs, cfg, tag, count=True):
    if not recs:
        return {}
    t0 = time.time()
    verdicts, st, tr, wall = tlc.judge(rep.pid, module, recs, cfg, shards=min(SHARDS, max(1, len(recs) // 25)), tag=tag)
    timed(rep, "tlc_judge", t0)
    if count:
        rep.add_judge(len(recs), st, tr)
    else:
        rep.states += st
        rep.transitions += tr
    got = {v["id"]: v for v in verdicts}
    if len(got) != len(recs):
        raise Machinery("judge %s/%s returned %d verdicts for %d records" % (module, tag, len(got), len(recs)))
    return got


def judge(rep, module, recs, tag="judge", enumerated=True):
    """recs: [{id, prog, log, out, pos}].  Three-way verdict per DESIGN 2.3.
    Returns {id: {"v": "pass" | "known" | "violation" | "skip", "devs": [...], "exp": {...}, "asis": {...}}}"""
    for r in recs:
        r["devs"] = []
    ref = _judge_pass(rep, module, recs, JUDGE_REF_CFG, tag + "_ref")
    out, todo = {}, []
    for r in recs:
        v = ref[r["id"]]
        if v["o"] in NOT_JUDGEABLE:
            if enumerated:
                raise Machinery("reference machine could not run an enumerated program (%s): id %s" % (v["o"], r["id"]))
            out[r["id"]] = {"v": "skip", "devs": [], "exp": v["exp"], "why": v["o"]}
        elif v["ok"]:
            out[r["id"]] = {"v": "pass", "devs": [], "exp": v["exp"]}
        else:
            todo.append(r)
    # as-is evaluation with every named deviation on
    asis_recs = [dict(r, devs=["*"]) for r in todo]
    asis = _judge_pass(rep, module, asis_recs, JUDGE_ASIS_CFG, tag + "_asis", count=False)
    sub_recs, sub_of = [], {}
    for r in todo:
        a = asis[r["id"]]
        fired = sorted(a["fired"])
        e = {"v": "violation", "devs": [], "exp": ref[r["id"]]["exp"], "asis": a["exp"], "fired": fired}
        out[r["id"]] = e
        if a["o"] in ("unsupported", "stuck"):
            raise Machinery("as-is machine stuck on id %s: %s" % (r["id"], a["exp"]))
        if a["ok"] and len(fired) == 1:
            e["v"], e["devs"] = "known", fired
        elif len(fired) >= 2:
            # which of the fired deviations are needed?  smallest subset whose as-is run explains the observation
            e["_allok"] = a["ok"]
            subs = [list(s) for n in range(1, len(fired)) for s in itertools.combinations(fired, n)]
            for k, s in enumerate(subs[:30]):
                sid = "%s#%d" % (r["id"], k)
                sub_recs.append(dict(r, id=sid, devs=s))
                sub_of[sid] = (r["id"], s)
    subs = _judge_pass(rep, module, sub_recs, JUDGE_ASIS_CFG, tag + "_subsets", count=False)
    best = {}
    for sid, v in subs.items():
        rid, s = sub_of[sid]
        if v["ok"] and (rid not in best or len(s) < len(best[rid])):
            best[rid] = s
    for rid, e in out.items():
        if "_allok" in e:
            allok = e.pop("_allok")
            if rid in best:
                e["v"], e["devs"] = "known", best[rid]
            elif allok:
                e["v"], e["devs"] = "known", e["fired"]
    return out


def report(rep, cases, results, verdicts, label=lambda c: "%s %s" % (c.get("fam"), json.dumps(c.get("par"), sort_keys=True))):
    byid = {c["id"]: c for c in cases}
    npass = 0
    for cid, v in sorted(verdicts.items(), key=lambda kv: str(kv[0])):
        c, r = byid[cid], results[cid]
        if v["v"] == "pass":
            npass += 1
            if len(rep.samples) < 4 and npass % 211 == 1:
                rep.sample({"case": label(c), "source": render.render(c["prog"])[0], "reference": v["exp"],
                            "engine": {"log": r["log"], "out": r["out"]}, "verdict": "pass"})
            continue
        if v["v"] == "skip":
            rep.notes["not_judged_outside_bounds"] = rep.notes.get("not_judged_outside_bounds", 0) + 1
            continue
        detail = {"case": label(c), "source": render.render(c["prog"], c.get("dl", 0), c.get("dc", 0))[0],
                  "expected": v["exp"], "as_is_model": v.get("asis"), "fired": v.get("fired"),
                  "actual": {"log": r["log"], "out": r["out"]}, "prog": c["prog"]}
        if v["v"] == "known":
            devs = v["devs"]
            unlisted = [d for d in devs if d not in rep.findings]
            if unlisted:
                rep.mismatch(label(c), detail, dev=unlisted[0])
            else:
                rep.mismatch(label(c), detail, dev=devs[0])
                for d in devs[1:]:
                    rep.notes.setdefault("also_fired", {}).setdefault(d, 0)
                    rep.notes["also_fired"][d] += 1
        else:
            rep.mismatch(label(c), detail, dev="")
    return npass


TRACE_CFG = "SPECIFICATION Spec\nCONSTRAINT Report\nINVARIANT ShadowSane\nCHECK_DEADLOCK FALSE\n"


def trace_stage(rep, cases, nmax, label=lambda c: "%s %s" % (c.get("fam"), json.dumps(c.get("par"), sort_keys=True))):
    """code -> spec: every instruction the engine executes for (a spread of) the enumerated programs is validated against the
    lead's total trace specification spec/JsVM_Trace.tla (operand / handler / frame depths at every step, jump targets, the
    throw rule: next instruction = catch address of the innermost handler, frames above it gone, depth = depth at TRY_START + 1,
    no native loop resumes).  One corrupted trace must be rejected (binding self-test)."""
    if not cases or nmax <= 0:
        return
    step = max(1, len(cases) // nmax)
    sel = cases[::step][:nmax]
    tcases = [{"id": "t:%s" % c["id"], "src": render.render(c["prog"])[0], "limit": 8000} for c in sel]
    t0 = time.time()
    tres = engine.run_cases(rep.pid, tcases, driver="checks.trace_driver:driver", tag="traces", timeout=3000)
    timed(rep, "engine_traces", t0)
    traces = [{"id": r["id"], "ev": r["ev"], "end": r["end"]} for r in tres if r["ev"] and not r["over"]]
    if len(traces) < len(tcases) * 0.9:
        raise Machinery("too many traces truncated: %d of %d usable" % (len(traces), len(tcases)))
    base = next((t for t in traces if len(t["ev"]) > 40), None)
    muts = []
    if base is not None:
        m = json.loads(json.dumps(base))
        m["ev"][20]["sl"] += 1
        m["id"] = "selftest:sl"
        muts.append(m)
    t0 = time.time()
    tv, st, tr, _ = tlc.judge(rep.pid, "JsVM_Trace", traces + muts, TRACE_CFG, shards=min(SHARDS, max(1, len(traces) // 40)), tag="trace_judge")
    timed(rep, "tlc_trace_judge", t0)
    rep.add_judge(len(traces), st, tr)
    rep.notes["trace_events"] = rep.notes.get("trace_events", 0) + sum(len(t["ev"]) for t in traces)
    byid = {"t:%s" % c["id"]: c for c in sel}
    src = {t["id"]: t["src"] for t in tcases}
    seen = set()
    for v in tv:
        if v["id"] in seen:
            continue
        seen.add(v["id"])
        if v["id"].startswith("selftest:"):
            if v["ok"]:
                raise Machinery("JsVM_Trace accepted a corrupted trace: binding is vacuous")
            continue
        if not v["ok"]:
            rep.mismatch("trace " + label(byid[v["id"]]), {"verdict": "instruction trace rejected", "clause": v.get("why"), "source": src[v["id"]]})
    if muts and "selftest:sl" not in seen:
        raise Machinery("self-test trace was not judged")
    rep.spaces.append({"space": "instruction traces validated against JsVM_Trace", "cases": len(traces), "complete": False})


def run(rep):
    fams = os.environ.get("C05_FAMS")            # development aid: restrict the families
    cases = enumerate_programs(rep, "C05", rep.tier, env={"FAMS": fams} if fams else None)
    if len(cases) < 500 and not fams:
        raise Machinery("enumeration produced only %d programs" % len(cases))
    fams = {}
    for c in cases:
        fams[c["fam"]] = fams.get(c["fam"], 0) + 1
    rep.spaces.append({"space": "C05 program families (TLC-enumerated): " + ", ".join("%s=%d" % kv for kv in sorted(fams.items())),
                       "cases": len(cases), "complete": True})
    # seeded random larger programs (generated as ASTs; the reference outcome is computed by TLC in the judge run)
    nrand = int(os.environ.get("C05_NRAND", "300" if rep.tier == "quick" else "3000"))
    rnd = random.Random(rep.seed)
    rcases = [{"id": "r%d" % i, "fam": "RND", "par": {"seed": rep.seed, "n": i}, "prog": c05_gen.random_program(rnd, forms=True)}
              for i in range(nrand)]
    allc = cases + rcases
    results = run_engine(rep, allc)
    recs = [{"id": c["id"], "prog": c["prog"], "log": results[c["id"]]["log"], "out": results[c["id"]]["out"],
             "pos": results[c["id"]]["pos"]} for c in allc]
    verdicts = judge(rep, "C05", recs, enumerated=False)
    for c in cases:
        if verdicts[c["id"]]["v"] == "skip":
            raise Machinery("reference machine could not run an enumerated program (%s): %s" % (verdicts[c["id"]].get("why"), c["par"]))
    report(rep, allc, results, verdicts)
    rverdicts = {c["id"]: verdicts[c["id"]] for c in rcases}
    rrecs = rcases
    trace_stage(rep, [c for c in cases if c["fam"] in ("CF", "CL", "CH", "IR", "XA", "FP", "LS", "CP", "TX", "UL")], int(os.environ.get("C05_NTRACE", "250" if rep.tier == "quick" else "1500")))
    skipped = sum(1 for v in rverdicts.values() if v["v"] == "skip")
    if nrand and skipped * 3 > nrand:
        raise Machinery("%d of %d random programs fall outside the step bound: generator and bound disagree" % (skipped, nrand))
    rep.spaces.append({"space": "seeded random programs (functions, bounded loops, recursion, closures, labelled exits, try/finally)",
                       "cases": nrand, "judged": nrand - skipped, "complete": False})
    rep.evaluations = len(recs)
    rep.exhaustive = True          # every TLC-enumerated family was completed; the random part is a sample by nature
    rep.assumptions += ["MiniJS.tla is the ECMAScript strict-mode semantics of the fragment (DESIGN 4.2, 4.4)",
                        "harness/render.py prints the AST faithfully (fully parenthesised, one statement per line)"]
