-------------------------------- MODULE C04 --------------------------------
(* C04 - eval fails only with JSError: positioned JSSyntaxError or a runtime JSError.  *)
(*   MC    : LexerFSM over all class strings up to length N (four 13-class alphabets):   *)
(*           progress (position strictly increases, at most one epsilon move per          *)
(*           character), position sanity, the deviations explain every difference        *)
(*           between the as-is machine and the reference.                                 *)
(*   Enum  : the same strings (S->C), the adversarial argument vectors of the built-in    *)
(*           grid, the literal / statement families (long numeric literals, braced         *)
(*           unicode escapes, statement head x misplaced operand, misplaced jumps).        *)
(*           nesting shape x depth (front-end work bounded), flat chains that nest the     *)
(*           syntax tree; hostile argument classes (mutating callbacks, hooks, cyclic /    *)
(*           deep values, texts of 5000 characters), receivers, operator forms, the use    *)
(*           of every object a call returns; jump x scope path (targets of break / continue *)
(*           across blocks, loops, labels and function / arrow boundaries).                *)
(*   Judge : token streams / error positions of the real lexer, outcome typing of every   *)
(*           evaluation (front-end soup, corpus prefixes, mutations, built-in grid).      *)
EXTENDS LexerFSM, JsGrammar, JsVal, Json, IOUtils

Tier  == IF "TIER" \in DOMAIN IOEnv THEN IOEnv.TIER ELSE "quick"
Quick == Tier = "quick"
EnvInt(nm, dflt) == IF nm \in DOMAIN IOEnv THEN
                      (CHOOSE nn \in 0..9 : ToString(nn) = IOEnv[nm]) ELSE dflt
\* ---------------- alphabets (13 classes each) -------------------------------------------------
AlphaA == <<"sp", "nl", "g", "1", "q", "Q", "bs", "/", "*", "[", "]", "+", "#">>      \* comments, strings, regex
AlphaB == <<"0", "1", "9", "x", "e", "a", "u", ".", "+", "q", "bs", "{", "}">>         \* numbers, escapes
AlphaC == <<"=", "<", ">", "!", "&", "*", "+", "/", "g", "b", "o", "0", "7">>          \* punctuators, radix prefixes
AlphaD == <<"ud", "1", "0", ".", "e", "x", "g", "q", "bs", "u", "sp", "+", "/">>       \* decimal digits of other scripts (class ud)
Alpha(pf) == CASE pf = "A" -> AlphaA [] pf = "B" -> AlphaB [] pf = "C" -> AlphaC [] pf = "D" -> AlphaD
Profiles == IF "PROFILE" \in DOMAIN IOEnv THEN {IOEnv.PROFILE} ELSE {"A", "B", "C", "D"}
MaxLen == EnvInt("MAXLEN", IF Quick THEN 4 ELSE 6)
\* sequences the reference would read as ES2021 tokens the engine does not have (&&= ||=): not generated
HasSubseq(inp, pat) == \E si \in 1..(Len(inp) - Len(pat) + 1) : SubSeq(inp, si, si + Len(pat) - 1) = pat
Supported(inp) == ~HasSubseq(inp, <<"&", "&", "=">>)

\* ---------------- model checking + enumeration of class strings ------------------------------
VARIABLES ph, pf, inp, rec_i
vars == <<ph, pf, inp, rec_i>>
McInit == ph = "build" /\ pf \in Profiles /\ inp = <<>> /\ rec_i = 0
McNext ==
  /\ ph = "build"
  /\ \/ /\ Len(inp) < MaxLen
        /\ \E ci \in 1..13 : inp' = Append(inp, Alpha(pf)[ci])
        /\ UNCHANGED <<ph, pf, rec_i>>
     \/ /\ ph' = "done" /\ UNCHANGED <<pf, inp, rec_i>>
\* laws of the machine on every complete input, pure-lexer mode and regex-aware mode, reference and as-is
DevsExplain2(rf, ai) == ai.fired = {} => (ai.out = rf.out /\ ai.err = rf.err)
McLaws == ph = "done" =>
            LET r1 == Lex(inp, FALSE, {})  r2 == Lex(inp, TRUE, {})  r3 == Lex(inp, FALSE, LexDevs)  r4 == Lex(inp, TRUE, LexDevs) IN
            /\ ResultSane(inp, r1) /\ ResultSane(inp, r2) /\ ResultSane(inp, r3) /\ ResultSane(inp, r4)
            /\ DevsExplain2(r1, r3) /\ DevsExplain2(r2, r4)
            /\ r1.fired = {} /\ r2.fired = {}
\* an error, once raised, is final and lies at or before the current position (checked on every prefix too)
McPrefix == ph = "build" => LET st == RunFrom(St0(TRUE), inp, {}) IN st.pos = Len(inp) /\ st.mxi <= 1
\* alphabet D shares twelve classes with A / B / C: only its strings that contain the class ud are replayed into the engine
\* (the laws are checked on all of them)
HasUd(cs) == \E ci \in 1..Len(cs) : cs[ci] = "ud"
McEmit == ph # "done" \/ ~Supported(inp) \/ inp = <<>> \/ (pf = "D" /\ ~HasUd(inp))
          \/ PrintT(ToJson([kind |-> "cls", pf |-> pf, cls |-> inp]))

\* ---------------- the argument grid of the built-in check -----------------------------------
\* An argument class is a name the driver renders as JavaScript text (ARG_SRC / arg_src of checks/c04_driver.py).
\*   core    : the values the property names (missing = the shorter vector); sparen = "(" and sbrack = "[" are strings that are
\*             malformed as a pattern (match / search / split / replace / RegExp take patterns)
\*   mirror  : the negative counterpart of every numeric core value (-0, -(2^31 + 1), -2^53, -1e21, -0.5), true, the empty string
\*   kind    : objects of the built-in kinds (a regular expression, an ArrayBuffer, a typed array, a non-empty array)
\*   routed  : every numeric value reached by one of the three other routes to ToNumber: s_<v> = the string of the number
\*             ('-Infinity'), v_<v> = an object whose valueOf returns it, a_<v> = the one-element array [v]
SeqSet(sq) == {sq[ai] : ai \in 1..Len(sq)}
CoreClasses == <<"undefined", "null", "nan", "inf", "ninf", "m1", "zero", "p31", "p53", "e21", "half", "s7", "sx", "sparen", "sbrack", "obj", "arr", "fn">>
MirrorClasses == <<"nzero", "n31", "n53", "ne21", "nhalf", "true", "sempty">>
KindClasses == <<"regex", "abuf", "tarr", "arr12">>
NumVals == <<"nan", "inf", "ninf", "m1", "zero", "nzero", "p31", "n31", "p53", "n53", "e21", "ne21", "half", "nhalf">>
Routes == <<"s", "v", "a">>
AllRouted == {rt \o "_" \o nv : rt \in SeqSet(Routes), nv \in SeqSet(NumVals)}
\* quick: every route, and over the three routes every sign / magnitude class
QuickRouted == {"s_inf", "s_ninf", "s_nan", "s_e21", "s_nzero", "v_ninf", "v_nan", "v_p31", "v_nhalf", "a_ninf", "a_m1", "a_p53"}
Routed == IF Quick THEN QuickRouted ELSE AllRouted
CoreSet == SeqSet(CoreClasses)
\*   small   : in-range small positive integers (the values with which a constructor or an index-taking method succeeds: bounds
\*             arithmetic), and a string that is the JSON text of nested arrays (the text a reviver walks)
SmallClasses == <<"one", "three", "sjson">>
\*   key     : strings of characters that the HOST's character predicates and conversions accept (str.isdigit / isdecimal / isnumeric,
\*             int(), float()) but the ECMAScript grammar of numeric strings and array indices does not: superscript two, circled two
\*             (isdigit, not decimal: int() raises), ARABIC-INDIC three (decimal digit of another script: int() answers 3), vulgar one
\*             half (isnumeric only), '1_0' (the host's digit separator).  As property keys of element reads / stores / in / delete
\*             (operator forms) and as arguments of every function they are names / NaN, never indices or numbers.
KeyClasses == <<"k_sup", "k_circ", "k_arab", "k_frac", "k_us">>
ExtraSet == SeqSet(MirrorClasses) \cup SeqSet(KindClasses) \cup SeqSet(SmallClasses) \cup Routed \cup SeqSet(KeyClasses)
PlainSet == CoreSet \cup ExtraSet
\* Hostile classes: arguments with behaviour or structure (rendered by the driver, HOSTILE_SRC of checks/c04_driver.py).
\*   fn_<m>     : a callback that MUTATES the array being iterated (the receiver, its `this`, the array handed to it as third / fourth
\*                argument) while the built-in that called it is still running: push, pop, length = 0, splice, sort, reverse, a store
\*                beyond the end, shift.  At most MutBudget mutations per program.
\*   hook_<m>   : an object whose valueOf / toString / toJSON mutate the receiver when a built-in converts the object
\*   harr_<m>   : an array one of whose elements has such hooks (and one element is a getter) mutating the array itself: join, concat,
\*                String(), JSON.stringify run them while walking the array
\*   cyc_* deep_* : a cyclic array / object; an array / object nested DeepLevels deep (beyond the host's recursion limit)
\*   t_*        : texts of HostileSize characters: decimal digits, with a sign, radix-prefixed (hex, octal, binary), a fraction, an
\*                exponent of many digits (positive, negative), nested brackets / braces (JSON text), nested parentheses (a pattern)
\*   (round 4) mutation kind x CONTAINER kind: the eight kinds above change an array; oadd / odel change the SET OF PROPERTIES of any
\*                object (add a property with a new name, delete the first enumerable one) - the receiver, the callback's this (the
\*                holder a reviver / replacer / toJSON walks), the container whose member the hook is.
\*   hobj_<m>   : a plain object one member of which has the hooks (valueOf / toString / toJSON) and another is a getter, all adding
\*                a property to / deleting one from the object itself: JSON.stringify, Object.keys / values / entries / assign /
\*                defineProperties, for-in run them while walking the object's property table
ArrMutKinds == <<"push", "pop", "len0", "splice", "sort", "rev", "store", "shift">>
ObjMutKinds == <<"oadd", "odel">>
MutKinds == ArrMutKinds \o ObjMutKinds
MutClasses == {"fn_" \o mk : mk \in SeqSet(MutKinds)}
HookKinds == {"push", "len0"} \cup SeqSet(ObjMutKinds)
HobjClasses == {"hobj_" \o hk : hk \in SeqSet(ObjMutKinds)}
HookClasses == {"hook_" \o hk : hk \in HookKinds} \cup {"harr_" \o hk : hk \in HookKinds} \cup HobjClasses
StructClasses == {"cyc_arr", "cyc_obj", "deep_arr", "deep_obj"}
TextClasses == {"t_dec", "t_neg", "t_hex", "t_oct", "t_bin", "t_frac", "t_exp", "t_nexp", "t_brackets", "t_braces", "t_parens"}
RadixTexts == {"t_hex", "t_oct", "t_bin"}
HostileSet == MutClasses \cup HookClasses \cup StructClasses \cup TextClasses
HostileSize == 5000                  \* characters of a t_* text (beyond the host's 4300-digit integer conversion limit)
DeepLevels == 1400                   \* nesting of deep_* (beyond the host's default recursion limit of 1000 frames)
MutBudget == 40
ArgSet == PlainSet \cup HostileSet
\* The quick sub-grid: the full product of the core classes, every other plain class in either position next to each of three
\* benign leads, every plain class in the third position after three lead pairs (number, number / object, name / buffer, offset);
\* every hostile class alone, first (before a number), second (after a number, a pattern that matches, an array, a JSON text) and third.
\* Thorough: the full product of the plain classes for lengths <= 2, (leads x leads x every class) for length 3, every hostile class
\* in either position next to every hostile lead and six core values (undefined, Infinity, '7' - a radix -, {}, [], a function).
Lead == {"zero", "sx", "obj"}
LeadPairs == {<<"zero", "zero">>, <<"obj", "sx">>, <<"abuf", "zero">>}
HostileLeads == {"zero", "regex", "arr12", "sjson"}
HostileMates == IF Quick THEN HostileLeads ELSE HostileLeads \cup {"undefined", "inf", "s7", "obj", "arr", "fn"}
\* (a callback does not stand third: no built-in takes one there; hooks, structures and texts do: thisArg, indent, inserted element)
ThirdHostile == HostileSet \ MutClasses
Pairs == (IF Quick THEN {<<xa, ya>> : xa \in CoreSet, ya \in CoreSet} \cup {<<xa, ya>> : xa \in Lead, ya \in ExtraSet}
                        \cup {<<xa, ya>> : xa \in ExtraSet, ya \in Lead}
          ELSE {<<xa, ya>> : xa \in PlainSet, ya \in PlainSet})
         \cup {<<hc, ya>> : hc \in HostileSet, ya \in (IF Quick THEN {"zero"} ELSE HostileMates)}
         \cup {<<xa, hc>> : xa \in (IF Quick THEN HostileLeads \ {"zero"} ELSE HostileMates), hc \in HostileSet}
Triples == (IF Quick THEN {lp \o <<za>> : lp \in LeadPairs, za \in PlainSet}
            ELSE {<<xa, ya, za>> : xa \in Lead \cup {"abuf"}, ya \in Lead, za \in PlainSet})
           \cup {<<xa, "zero", hc>> : xa \in (IF Quick THEN {"zero"} ELSE HostileLeads), hc \in ThirdHostile}
ArgVectors == {<<>>} \cup {<<xa>> : xa \in ArgSet} \cup Pairs \cup Triples
\* the vectors given (quick tier) to the receivers that vary the shape / value of a receiver kind (empty array, empty string,
\* NaN, -Infinity, 1e21): every class alone, and the core classes after each lead.  Thorough: all vectors.
ShortVector(av) == Len(av) <= 1 \/ (Len(av) = 2 /\ av[1] \in Lead /\ av[2] \in CoreSet)
\* the vectors given to the hostile receivers (cyclic, deep, self-mutating arrays ...): nothing, a benign value, a mutating callback
TinySet == {"undefined", "zero", "one", "sx", "obj", "fn", "arr12"} \cup MutClasses
TinyVector(av) == Len(av) = 0 \/ (Len(av) = 1 /\ av[1] \in TinySet)
\* small integers (class i<n> = the number n): (buffer, byteOffset [, length]) for everything callable on the global object (the
\* typed-array constructors build a VIEW whose bounds are byte / element arithmetic), and (start, end) pairs for the receivers
\* with indexed elements (array, string, typed arrays, buffer)
SmallInts == IF Quick THEN <<"zero", "one", "i2", "three", "i4", "i8", "i9">>
             ELSE <<"zero", "one", "i2", "three", "i4", "i5", "i6", "i7", "i8", "i9", "i16", "i17">>
SmallIntSet == SeqSet(SmallInts)
ViewVectors == {<<"abuf", of>> : of \in SmallIntSet} \cup {<<"abuf", of, ln>> : of \in SmallIntSet, ln \in SmallIntSet}
SmallPairs == {<<xa, ya>> : xa \in SmallIntSet, ya \in SmallIntSet}
AllVectors == ArgVectors \cup ViewVectors \cup SmallPairs
AllClasses == ArgSet \cup SmallIntSet
\* the pairs given to the binary operator forms (element store, call, construct): a lead and a core value, or any class and a number
OpPair(av) == Len(av) = 2 /\ ((av[1] \in Lead /\ av[2] \in CoreSet) \/ av[2] = "zero")
\* the vectors after which (quick tier) an object returned by the call is used (UseOps): one argument at most, a lead and a core value,
\* everything that starts with a buffer (views), the small-integer vectors.  Thorough: all.
UseVector(av) == ~Quick \/ Len(av) <= 1 \/ av \in ViewVectors \/ av \in SmallPairs \/ av[1] = "abuf"
                 \/ (Len(av) = 2 /\ av[1] \in Lead /\ av[2] \in CoreSet)
\* which receivers get a vector: groups
Grp(cond, gn) == IF cond THEN <<gn>> ELSE <<>>
VecGroups(av) == Grp(av \in ArgVectors, "kinds") \o Grp(av \in ArgVectors /\ (~Quick \/ ShortVector(av)), "variants")
                 \o Grp(av \in ArgVectors /\ TinyVector(av), "hostile") \o Grp(av \in ViewVectors, "global")
                 \o Grp(av \in SmallPairs, "indexed") \o Grp(av \in ArgVectors /\ OpPair(av), "oppair") \o Grp(UseVector(av), "use")
\* ---- receivers (rendered by the driver, RECEIVERS of checks/c04_driver.py) ----
KindReceivers == {"global", "Math", "JSON", "Object", "Array", "Number", "String", "Boolean", "Date", "RegExp", "Function", "Error", "console",
                  "str", "arr", "num", "int", "obj", "fn", "regex", "tarr", "f64", "abuf", "err", "bool", "native", "arrow"}
VariantReceivers == {"arr0", "str0", "numnan", "numninf", "nume21"}
\* hostile receivers: a cyclic array / object, a deep array / object, an array whose elements' hooks mutate it, a string of HostileSize
\* digits, the integer 2^53 and the largest double (intermediate results of * and ** leave the doubles)
HostileReceivers == {"r_cyc_arr", "r_cyc_obj", "r_deep_arr", "r_deep_obj", "r_harr_push", "r_harr_len0", "r_digits", "r_p53", "r_max"}
                    \cup {"r_hobj_" \o hk : hk \in SeqSet(ObjMutKinds)}
IndexedReceivers == {"arr", "str", "tarr", "f64", "abuf"}
PrimReceivers == {"str", "num", "int", "bool", "str0", "numnan", "numninf", "nume21", "r_digits", "r_p53", "r_max"}
CallableReceivers == {"fn", "arrow", "native"}
AllReceivers == KindReceivers \cup VariantReceivers \cup HostileReceivers
RecvGroups(rn) == Grp(rn \in KindReceivers, "kinds") \o Grp(rn \in VariantReceivers, "variants") \o Grp(rn \in HostileReceivers, "hostile")
                  \o Grp(rn = "global", "global") \o Grp(rn \in IndexedReceivers, "indexed") \o Grp(rn \in PrimReceivers, "prim")
                  \o Grp(rn \in CallableReceivers, "callable") \o Grp(rn # "global", "any")
\* ---- operator forms on a receiver (pseudo-functions of the grid): @R the receiver, @0 @1 the arguments.  A host exception from an
\*      element store, a length store, an operator or a conversion escapes from eval like one from a method.
Operators == {
  [n |-> "get", ar |-> 1, g |-> "any", t |-> "@R[@0]"],                 [n |-> "set", ar |-> 2, g |-> "any", t |-> "@R[@0] = @1"],
  [n |-> "set1", ar |-> 1, g |-> "any", t |-> "@R[@0] = 1"],            [n |-> "setlen", ar |-> 1, g |-> "any", t |-> "@R.length = @0"],
  [n |-> "delete", ar |-> 1, g |-> "any", t |-> "delete @R[@0]"],        [n |-> "in", ar |-> 1, g |-> "any", t |-> "@0 in @R"],
  [n |-> "instanceof", ar |-> 1, g |-> "any", t |-> "@0 instanceof @R"], [n |-> "eq", ar |-> 1, g |-> "any", t |-> "@R == @0"],
  [n |-> "add", ar |-> 1, g |-> "any", t |-> "@R + @0"],                [n |-> "less", ar |-> 1, g |-> "any", t |-> "@R < @0"],
  [n |-> "string", ar |-> 0, g |-> "any", t |-> "String(@R)"],          [n |-> "concat", ar |-> 0, g |-> "any", t |-> "@R + ''"],
  [n |-> "number", ar |-> 0, g |-> "any", t |-> "+@R"],                 [n |-> "json", ar |-> 0, g |-> "any", t |-> "JSON.stringify(@R)"],
  [n |-> "forin", ar |-> 0, g |-> "any", t |-> "for (var k in @R) { @R[k]; }"],
  [n |-> "forof", ar |-> 0, g |-> "any", t |-> "for (var v of @R) { v; }"],
  [n |-> "keys", ar |-> 0, g |-> "any", t |-> "Object.keys(@R)"],       [n |-> "spread", ar |-> 0, g |-> "any", t |-> "Math.max.apply(null, @R)"],
  [n |-> "arrconcat", ar |-> 0, g |-> "any", t |-> "[].concat(@R, [@R])"], [n |-> "key", ar |-> 0, g |-> "any", t |-> "var o = {}; o[@R] = 1; o[@R]"],
  [n |-> "walk", ar |-> 0, g |-> "any", t |-> "for (var i = 0; i < @R.length && i < 64; i++) { @R[i] = @R[i]; }"],
  [n |-> "call", ar |-> 2, g |-> "callable", t |-> "@R(@0, @1)"],       [n |-> "new", ar |-> 2, g |-> "callable", t |-> "new @R(@0, @1)"],
  [n |-> "apply", ar |-> 1, g |-> "callable", t |-> "@R.apply(null, @0)"],
  [n |-> "pow", ar |-> 1, g |-> "prim", t |-> "@R ** @0"],              [n |-> "powr", ar |-> 1, g |-> "prim", t |-> "(@0) ** @R"],
  [n |-> "mul", ar |-> 1, g |-> "prim", t |-> "@R * @0"],               [n |-> "div", ar |-> 1, g |-> "prim", t |-> "@R / @0"],
  [n |-> "mod", ar |-> 1, g |-> "prim", t |-> "@R % @0"],               [n |-> "sub", ar |-> 1, g |-> "prim", t |-> "@R - @0"],
  [n |-> "shl", ar |-> 1, g |-> "prim", t |-> "@R << @0"],              [n |-> "shru", ar |-> 1, g |-> "prim", t |-> "@R >>> @0"],
  [n |-> "and", ar |-> 1, g |-> "prim", t |-> "@R & @0"],               [n |-> "neg", ar |-> 0, g |-> "prim", t |-> "-@R"],
  [n |-> "not", ar |-> 0, g |-> "prim", t |-> "~@R"],                   [n |-> "inc", ar |-> 0, g |-> "prim", t |-> "var x = @R; x++; ++x"],
  [n |-> "powself", ar |-> 0, g |-> "prim", t |-> "@R ** @R * @R"],
  \* (round 4) an UNCAUGHT throw of the receiver: the exception leaves eval through the embedding API, which reads the thrown value
  [n |-> "throw", ar |-> 0, g |-> "any", t |-> "throw @R"],
  \* (round 4) the receiver in the roles the reflective built-ins give an object: prototype, property descriptor, source, target
  [n |-> "asproto", ar |-> 0, g |-> "any", t |-> "var o = Object.create(@R); 'y' in o; o.y; o.y = 1; for (var k in o) { o[k]; } throw o"],
  [n |-> "asdesc", ar |-> 0, g |-> "any", t |-> "Object.defineProperty({}, 'x', @R)"]}
\* ---- the use of a call's result: when a call of the grid returns an object, these statements are run on it (@U) in the same
\*      context, each under its own try / catch (a JSError of one does not stop the next; a host exception escapes): every element is
\*      read and stored back, one element is stored beyond the end, the object is enumerated and converted, and the methods that
\*      read or write elements are called.  "A store on an object built earlier" for every construction form of the grid.
UseOps == <<"for (var i = 0; i < @U.length && i < 64; i++) { var t = @U[i]; @U[i] = t; }", "@U[@U.length] = 1;", "for (var k in @U) { @U[k]; }",
           "String(@U);", "JSON.stringify(@U);", "if (typeof @U.set === 'function' && typeof @U.subarray === 'function') { @U.set([1, 2]); @U.set(@U.subarray(1), 1); }",
           "if (typeof @U.subarray === 'function') { var s = @U.subarray(1); for (var j = 0; j < s.length && j < 64; j++) { s[j] = 1; } }",
           "if (typeof @U.fill === 'function') { @U.fill(1); }", "if (typeof @U.reverse === 'function') { @U.reverse(); }",
           "if (typeof @U.sort === 'function') { @U.sort(); }", "if (typeof @U.slice === 'function') { @U.slice(1); }",
           "if (typeof @U.exec === 'function') { @U.exec('aa'); @U.lastIndex = -1; @U.test('aa'); }",
           "if (typeof @U.getTime === 'function') { @U.toISOString(); }", "if (typeof @U === 'function') { @U(); new @U(); }">>
\* (round 4) The use of a returned object is widened from the 14 statements above to the whole operator space and to the argument
\* positions of the reflective built-ins:
\*   UseOpForms : every operator form of the group "any" (element read / store, delete, in, instanceof, comparison, conversion,
\*                enumeration ...) with the RESULT as its receiver @R and benign operands (a name, an index; a stored value)
\*   UseArgShapes x UseNamespaces : the result as first / second / third argument (and as both) of EVERY function of the namespaces
\*                whose functions take objects as prototypes, descriptors, sources, targets, replacers (the functions are discovered at
\*                run time like everything else in the grid: @F = one discovered function of the namespace)
\*   UseFinal   : statements that are NOT under a try / catch (each is an evaluation of its own, after the others): an uncaught throw
\*                of the result - the embedding API reads the thrown value's properties when it builds the JSError
UseOperands(nn) == CASE nn = 0 -> {<<>>} [] nn = 1 -> {<<"sx">>, <<"zero">>} [] OTHER -> {<<"sx", "one">>, <<"zero", "one">>}
UseOpSet == UNION {{[n |-> op.n, t |-> op.t, a |-> av] : av \in UseOperands(op.ar)} : op \in {ox \in Operators : ox.g = "any" /\ ox.n # "throw"}}
UseNamespaces == {"Object", "JSON"}
UseArgShapes == <<"@F(@U)", "@F({}, @U)", "@F({}, 'x', @U)", "@F(@U, @U)">>
UseFinal == <<"throw @U;", "var o = Object.create(@U); 'y' in o; throw o;">>
HugeVals == {"p31", "p53", "e21"}
\* Calls that legitimately allocate memory proportional to a numeric argument are not made with 2^31: gigabytes that a host can
\* provide (whether it does is a property of the machine, and the replay would really allocate them).  They ARE made with 2^53 and 1e21:
\* no host can provide that, the engine has to refuse with a JSError (a host MemoryError / OverflowError is a host exception like any other).
Huge == {"p31"} \cup {rt \o "_p31" : rt \in SeqSet(Routes)}
Allocating == {"repeat", "Array", "ArrayBuffer", "Int8Array", "Uint8Array", "Uint8ClampedArray", "Int16Array", "Uint16Array",
               "Int32Array", "Uint32Array", "Float32Array", "Float64Array", "padStart", "padEnd", "fill", "from", "constructor", "op:setlen"}
\* A text of HostileSize nested brackets given to a function that compiles its argument as source is source nested deeper than the
\* documented limit: outside the property (the same text as a JSON text or as a pattern is data, and inside it).
Compiling == {"eval", "Function"}
NestedTexts == {"t_brackets", "t_braces", "t_parens"}
CallSupported(fname, args) == /\ ~(fname \in Allocating /\ \E ai \in 1..Len(args) : args[ai] \in Huge)
                              /\ ~(fname \in Compiling /\ \E ai \in 1..Len(args) : args[ai] \in NestedTexts)
GridItem(kd, nm, sq, gs, nn) == [kind |-> kd, pf |-> nm, cls |-> sq, to |-> gs, ar |-> nn]
GridItems == {GridItem("vec", "", av, VecGroups(av), Len(av)) : av \in AllVectors}
             \cup {GridItem("recv", rn, <<>>, RecvGroups(rn), 0) : rn \in AllReceivers}
             \cup {GridItem("op", op.n, <<op.t>>, <<op.g>>, op.ar) : op \in Operators}
             \cup {GridItem("use", "", <<UseOps[ui]>>, <<>>, ui) : ui \in 1..Len(UseOps)}
             \cup {GridItem("useop", uo.n, <<uo.t>>, uo.a, Len(uo.a)) : uo \in UseOpSet}
             \cup {GridItem("usearg", ns, <<UseArgShapes[ui]>>, <<>>, ui) : ns \in UseNamespaces, ui \in 1..Len(UseArgShapes)}
             \cup {GridItem("usefin", "", <<UseFinal[ui]>>, <<>>, ui) : ui \in 1..Len(UseFinal)}
             \cup {GridItem("huge", hc, <<>>, <<>>, 0) : hc \in Huge} \cup {GridItem("allocating", fc, <<>>, <<>>, 0) : fc \in Allocating}
             \cup {GridItem("compiling", fc, <<>>, <<>>, 0) : fc \in Compiling} \cup {GridItem("nested", tc, <<>>, <<>>, 0) : tc \in NestedTexts}
             \cup {GridItem("param", "HostileSize", <<>>, <<>>, HostileSize), GridItem("param", "DeepLevels", <<>>, <<>>, DeepLevels),
                   GridItem("param", "MutBudget", <<>>, <<>>, MutBudget)}
GridInit == ph = "start" /\ pf = "" /\ inp = <<>> /\ rec_i = 0
GridNext == ph = "start" /\ ph' = "item" /\ (\E gi \in GridItems : inp' = gi) /\ UNCHANGED <<pf, rec_i>>
GridEmit == ph # "item" \/ PrintT(ToJson(inp))
\* laws of the grid itself (both tiers): every value the property names is a class; every class stands alone, in the first and in
\* the second position of a pair and in the third position; every numeric value has its negative mirror; every route is present
\* with a negative infinity; a routed huge value is huge; the sub-grid of the quick tier is a sub-grid; every mutation kind has its
\* callback, every hook kind its object and its array; every vector reaches a receiver and every receiver gets vectors; the operator
\* forms mention the receiver and as many arguments as their arity; the hostile sizes are beyond the host's limits
Named == {"undefined", "null", "nan", "inf", "ninf", "m1", "p31", "p53", "e21", "half", "s7", "obj", "arr", "fn"}
MirrorOf == [nv \in SeqSet(NumVals) |->
               CASE nv = "inf" -> "ninf" [] nv = "ninf" -> "inf" [] nv = "zero" -> "nzero" [] nv = "nzero" -> "zero" [] nv = "p31" -> "n31" [] nv = "n31" -> "p31"
                 [] nv = "p53" -> "n53" [] nv = "n53" -> "p53" [] nv = "e21" -> "ne21" [] nv = "ne21" -> "e21" [] nv = "half" -> "nhalf" [] nv = "nhalf" -> "half"
                 [] OTHER -> nv]
HasSub(tx, pat) == \E si \in 1..(Len(tx) - Len(pat) + 1) : SubSeq(tx, si, si + Len(pat) - 1) = pat
SeqHas(sq, el) == \E si \in 1..Len(sq) : sq[si] = el
GridLaw == ph = "start" =>
             /\ Named \subseteq ArgSet /\ SeqSet(NumVals) \subseteq ArgSet /\ AllRouted \cap ArgSet = Routed /\ QuickRouted \subseteq AllRouted
             /\ \A nv \in SeqSet(NumVals) : MirrorOf[nv] \in ArgSet /\ MirrorOf[MirrorOf[nv]] = nv
             /\ \A ac \in ArgSet : /\ <<ac>> \in ArgVectors
                                   /\ \E av \in ArgVectors : Len(av) = 2 /\ av[1] = ac
                                   /\ \E av \in ArgVectors : Len(av) = 2 /\ av[2] = ac
                                   /\ ac \notin MutClasses => \E av \in ArgVectors : Len(av) = 3 /\ av[3] = ac
             /\ \A rt \in SeqSet(Routes) : (rt \o "_ninf") \in Routed /\ \E hv \in HugeVals : (rt \o "_" \o hv) \in Routed
             /\ \A av \in AllVectors : Len(av) <= 3 /\ \A ai \in 1..Len(av) : av[ai] \in AllClasses
             /\ Huge \cap AllRouted = {rc \in AllRouted : \E rt \in SeqSet(Routes) : rc = rt \o "_p31"} /\ Huge \subseteq ArgSet \cup AllRouted
             /\ \E hv \in HugeVals \ Huge : hv \in Named
             /\ \E av \in ArgVectors : ~ShortVector(av)
             /\ Cardinality(PlainSet) = Len(CoreClasses) + Len(MirrorClasses) + Len(KindClasses) + Len(SmallClasses) + Cardinality(Routed) + Len(KeyClasses)
             /\ \A kc \in SeqSet(KeyClasses) : <<kc>> \in ArgVectors /\ <<kc, "zero">> \in ArgVectors /\ OpPair(<<kc, "zero">>) /\ SeqHas(VecGroups(<<kc>>), "variants")
             /\ \A op \in Operators : op.n \in {"get", "set", "set1", "delete", "in"} => op.g = "any"
             /\ PlainSet \cap HostileSet = {}
             /\ Cardinality(HostileSet) = Len(MutKinds) + 2 * Cardinality(HookKinds) + Len(ObjMutKinds) + Cardinality(StructClasses) + Cardinality(TextClasses)
             \* (round 4) every mutation kind of either container kind has its callback and its hook object; every object mutation has its
             \* self-mutating object, as an argument and as a receiver; the widened use contains every operator form that takes any receiver,
             \* with every operand vector of its arity, the result in every argument position of a shape, and an uncaught statement
             /\ SeqSet(ArrMutKinds) \cap SeqSet(ObjMutKinds) = {} /\ Len(ObjMutKinds) >= 2
             /\ \A mk \in SeqSet(ObjMutKinds) : /\ {"fn_" \o mk, "hook_" \o mk, "harr_" \o mk, "hobj_" \o mk} \subseteq HostileSet
                                                 /\ ("r_hobj_" \o mk) \in HostileReceivers /\ ("fn_" \o mk) \in TinySet
             /\ \A op \in Operators : (op.g = "any" /\ op.n # "throw") => \E uo \in UseOpSet : uo.n = op.n /\ Len(uo.a) = op.ar
             /\ \A uo \in UseOpSet : \A ai \in 1..Len(uo.a) : uo.a[ai] \in PlainSet
             /\ \E op \in Operators : op.g = "any" /\ HasSub(op.t, "throw @R")
             /\ \A ui \in 1..Len(UseArgShapes) : HasSub(UseArgShapes[ui], "@U") /\ HasSub(UseArgShapes[ui], "@F(")
             /\ \A ui \in 1..Len(UseFinal) : HasSub(UseFinal[ui], "@U") /\ HasSub(UseFinal[ui], "throw")
             /\ UseNamespaces \subseteq KindReceivers
             /\ HookKinds \subseteq SeqSet(MutKinds) /\ RadixTexts \subseteq TextClasses /\ NestedTexts \subseteq TextClasses /\ HostileLeads \subseteq PlainSet /\ TinySet \subseteq ArgSet
             /\ \A hc \in HostileSet : \A ld \in HostileLeads \ {"zero"} : <<ld, hc>> \in ArgVectors
             /\ \A mc \in MutClasses : \A rn \in HostileReceivers : \E av \in ArgVectors : av = <<mc>> /\ SeqHas(VecGroups(av), "hostile")
             /\ \A av \in AllVectors : VecGroups(av) # <<>> /\ VecGroups(av) # <<"use">>
             /\ \A av \in ViewVectors : UseVector(av)
             /\ \A za \in PlainSet : \E av \in ArgVectors : Len(av) = 3 /\ av[1] = "abuf" /\ av[3] = za /\ UseVector(av)
             /\ \A rn \in AllReceivers : \E av \in AllVectors : \E gi \in 1..Len(RecvGroups(rn)) : SeqHas(VecGroups(av), RecvGroups(rn)[gi])
             /\ \A of \in SmallIntSet : \A ln \in SmallIntSet : <<"abuf", of, ln>> \in ViewVectors
             /\ {"zero", "one", "three"} \subseteq SmallIntSet /\ Cardinality(SmallIntSet) = Len(SmallInts)
             /\ \A op \in Operators : /\ HasSub(op.t, "@R") /\ op.ar \in 0..2 /\ op.g \in {"any", "prim", "callable"}
                                      /\ (op.ar >= 1 <=> HasSub(op.t, "@0")) /\ (op.ar = 2 <=> HasSub(op.t, "@1"))
             /\ Cardinality({op.n : op \in Operators}) = Cardinality(Operators)
             /\ \A ui \in 1..Len(UseOps) : HasSub(UseOps[ui], "@U")
             /\ HostileSize > 4300 /\ DeepLevels > 1000 /\ MutBudget >= 8
             /\ PrimReceivers \cup CallableReceivers \cup IndexedReceivers \subseteq AllReceivers

\* ---------------- literal / statement families (S->C) -----------------------------------------------------------
\* (a) numeric literals of many digits: form x number of digits x digit x embedding.  The text is rendered by the driver
\*     (LONG_FORMS / LONG_EMBEDS of checks/c04_driver.py: n digits of the radix in the named position).  A numeric literal
\*     of any length is a number (Infinity or the rounded value): 309 digits is where a decimal integer leaves the doubles,
\*     400 / 401 is the engine's own switch of conversion routine, 4300 / 4301 the host's integer-string conversion limit.
LongForms == {"dec", "decdot", "frac", "dotfrac", "intfrac", "exp", "expneg", "exphuge", "decexp", "hex", "hexup", "oct", "bin"}
LongLens == IF Quick THEN {309, 400, 401, 4300, 4301, 5000, 20000}
            ELSE {17, 22, 308, 309, 310, 400, 401, 1100, 4299, 4300, 4301, 4302, 5000, 20000, 50000}
LongDigits == {"lo", "hi"}                            \* the digit 1 / the largest digit of the radix
LongEmbeds == {"expr", "neg", "arg", "key", "index"}
NumberEmbeds == {"expr", "neg", "arg"}                \* the value of the program is the value of the literal (or its negation / absolute value)
\* every case is a record [kind, name, src, ds, n, digit, embed] (fields a family does not use are empty)
LongCases == {[kind |-> "long", name |-> fm, src |-> "", ds |-> <<>>, n |-> nn, digit |-> dg, embed |-> em] :
                 fm \in LongForms, nn \in LongLens, dg \in LongDigits, em \in LongEmbeds}

\* (b) braced unicode escapes \u{H}: hex digit sequences x carrier.  A code point is at most 0x10FFFF; leading zeros are allowed,
\*     at least one digit is required.
Rp(dd, nn) == [ii \in 1..nn |-> dd]
EscDigits == {<<>>, <<0>>, <<4, 1>>, Rp(0, 6) \o <<4, 1>>, <<13, 8, 0, 0>>, <<13, 15, 15, 15>>, Rp(15, 4), <<1>> \o Rp(0, 4), <<1, 15, 6, 0, 0>>,
              <<1, 0>> \o Rp(15, 4), <<0, 0, 1, 0>> \o Rp(15, 4), <<1, 1>> \o Rp(0, 4), Rp(15, 6), <<7>> \o Rp(15, 7), <<8>> \o Rp(0, 7),
              Rp(15, 8), <<1>> \o Rp(0, 8), <<1>> \o Rp(0, 16), Rp(15, 18), Rp(0, 20) \o <<1>>}
HexUp == <<"0", "1", "2", "3", "4", "5", "6", "7", "8", "9", "A", "B", "C", "D", "E", "F">>
HexLo == <<"0", "1", "2", "3", "4", "5", "6", "7", "8", "9", "a", "b", "c", "d", "e", "f">>
RECURSIVE EscText(_, _)
EscText(ds, tbl) == IF ds = <<>> THEN "" ELSE tbl[Head(ds) + 1] \o EscText(Tail(ds), tbl)
RECURSIVE EscStrip(_)
EscStrip(ds) == IF ds # <<>> /\ Head(ds) = 0 THEN EscStrip(Tail(ds)) ELSE ds
RECURSIVE EscVal(_)
EscVal(ds) == IF ds = <<>> THEN 0 ELSE EscVal(SubSeq(ds, 1, Len(ds) - 1)) * 16 + ds[Len(ds)]
EscOk(ds) == LET sg == EscStrip(ds) IN ds # <<>> /\ Len(sg) <= 6 /\ EscVal(sg) <= 1114111
EscCarriers == {[n |-> "sq", pre |-> "'\\u{", post |-> "}'", tbl |-> HexUp],
                [n |-> "dq", pre |-> "\"\\u{", post |-> "}\"", tbl |-> HexLo],
                [n |-> "sqmid", pre |-> "var t = 'a\\u{", post |-> "}b'; t", tbl |-> HexUp],
                [n |-> "dqcat", pre |-> "\"\\u{41}\" + \"\\u{", post |-> "}\"", tbl |-> HexUp],
                [n |-> "key", pre |-> "({'\\u{", post |-> "}': 1})", tbl |-> HexUp],
                [n |-> "ident", pre |-> "var \\u{", post |-> "} = 1", tbl |-> HexUp],
                [n |-> "identpart", pre |-> "var a\\u{", post |-> "} = 1", tbl |-> HexUp],
                [n |-> "prop", pre |-> "({}).\\u{", post |-> "}", tbl |-> HexUp],
                [n |-> "regex", pre |-> "/\\u{", post |-> "}/.test('a')", tbl |-> HexUp],
                [n |-> "regexu", pre |-> "/\\u{", post |-> "}/u.test('a')", tbl |-> HexLo],
                [n |-> "regexcls", pre |-> "/[\\u{", post |-> "}]/u.test('a')", tbl |-> HexUp],
                [n |-> "newregexp", pre |-> "new RegExp('\\\\u{", post |-> "}', 'u').test('a')", tbl |-> HexUp]}
StringCarriers == {"sq", "dq", "sqmid", "dqcat"}      \* the program is a string literal (or a concatenation of two): its value is a string
EscCases == {[kind |-> "esc", name |-> ca.n, src |-> ca.pre \o EscText(dd, ca.tbl) \o ca.post, ds |-> dd, n |-> 0, digit |-> "", embed |-> ""] :
                ca \in EscCarriers, dd \in EscDigits}

\* (c) statement head x misplaced operand: every position of a statement (or expression) that requires a binding, a reference
\*     or a label, filled with every kind of operand.  Outcome typing only (+ position sanity of a front-end error).
StmtHeads == {[n |-> "forin", pre |-> "for (", post |-> " in {}) {}"],            [n |-> "forof", pre |-> "for (", post |-> " of []) {}"],
              [n |-> "forinvar", pre |-> "for (var ", post |-> " in {a: 1}) {}"],  [n |-> "forofvar", pre |-> "for (var ", post |-> " of [1]) {}"],
              [n |-> "forin1", pre |-> "for (", post |-> " in {a: 1}) ;"],        [n |-> "forof1", pre |-> "for (", post |-> " of [1]) ;"],
              [n |-> "forinit", pre |-> "for (", post |-> "; false; ) {}"],        [n |-> "forvarinit", pre |-> "for (var ", post |-> "; false; ) {}"],
              [n |-> "forinfn", pre |-> "function h() { for (", post |-> " in {a: 1}) {} } h()"],
              [n |-> "catch", pre |-> "try { throw 1 } catch (", post |-> ") {}"], [n |-> "catchbare", pre |-> "try { throw 1 } catch ", post |-> " {}"],
              [n |-> "var", pre |-> "var ", post |-> " = 1"],                       [n |-> "varbare", pre |-> "var ", post |-> ""],
              [n |-> "fnparam", pre |-> "function h(", post |-> ") {}"],           [n |-> "fnexprparam", pre |-> "(function (", post |-> ") {})"],
              [n |-> "arrowparams", pre |-> "(", post |-> ") => 1"],               [n |-> "arrowparam", pre |-> "", post |-> " => 1"],
              [n |-> "fnname", pre |-> "function ", post |-> "() {}"],             [n |-> "fnexprname", pre |-> "(function ", post |-> "() {})"],
              [n |-> "assign", pre |-> "", post |-> " = 1"],                        [n |-> "opassign", pre |-> "", post |-> " += 1"],
              [n |-> "postinc", pre |-> "", post |-> "++"],                         [n |-> "preinc", pre |-> "++", post |-> ""],
              [n |-> "predec", pre |-> "--", post |-> ""],                          [n |-> "delete", pre |-> "delete ", post |-> ""],
              [n |-> "label", pre |-> "", post |-> ": ;"],                          [n |-> "labelloop", pre |-> "", post |-> ": while (0) ;"],
              [n |-> "break", pre |-> "x: while (0) { break ", post |-> " }"],    [n |-> "continue", pre |-> "x: while (0) { continue ", post |-> " }"],
              [n |-> "breaktop", pre |-> "break ", post |-> ";"],                  [n |-> "continuetop", pre |-> "continue ", post |-> ";"],
              [n |-> "objkey", pre |-> "({", post |-> ": 1})"],                    [n |-> "objshort", pre |-> "({", post |-> "})"],
              [n |-> "getter", pre |-> "({get ", post |-> "() {}})"],              [n |-> "setterparam", pre |-> "({set a(", post |-> ") {}})"],
              [n |-> "member", pre |-> "a.", post |-> ""],                          [n |-> "new", pre |-> "new ", post |-> ""],
              [n |-> "case", pre |-> "switch (1) { case ", post |-> ": }"],        [n |-> "default", pre |-> "switch (1) { default ", post |-> ": }"],
              [n |-> "arraypat", pre |-> "[", post |-> "] = [1]"],                 [n |-> "objpat", pre |-> "({a: ", post |-> "} = {a: 1})"],
              [n |-> "forinright", pre |-> "for (a in ", post |-> ") {}"],         [n |-> "throw", pre |-> "throw ", post |-> ""],
              [n |-> "return", pre |-> "return ", post |-> ""],                     [n |-> "let", pre |-> "let ", post |-> " = 1"],
              [n |-> "forlet", pre |-> "for (let ", post |-> " of []) {}"],        [n |-> "forconst", pre |-> "for (const ", post |-> " in {}) {}"]}
Operands == {"", "1", "1.5", "'s'", "null", "true", "this", "f()", "a.b()", "new f", "a+b", "-a", "typeof a", "a++", "(1)", "(a)", "((a))",
             "a = 1", "(a = 1)", "a, b", "(a, b)", "a ? b : c", "[a]", "[a, b]", "{a}", "({a})", "{a: b}", "a.b", "a[0]", "f().a", "this.a",
             "a", "x", "in", "of", "var", "var a", "function", "function(){}", "x => x", "()", "...a", "/r/", "NaN", "arguments", "get",
             "a b", "a;", "a)", "(a", "{", "}", ";", ",", "=", "'", "\\u0061", "a\nb", "/* c */ a", "// c"}
StmtCases == {[kind |-> "stmt", name |-> hd.n, src |-> hd.pre \o op \o hd.post, ds |-> <<>>, n |-> 0, digit |-> "", embed |-> ""] :
                 hd \in StmtHeads, op \in Operands}

\* (d) misplaced jumps: break / continue / return (with a known label x, an unknown label y) x every place a statement can stand
Jumps == {"break", "continue", "return", "return 1", "break x", "continue x", "break y", "continue y", "break\nx", "throw 1"}
Places == {<<"", ";">>, <<"{ ", "; }">>, <<"x: ", ";">>, <<"x: { ", "; }">>, <<"x: x: ", ";">>, <<"a: x: c: ", ";">>, <<"if (1) ", ";">>, <<"x: if (1) ", ";">>,
           <<"if (0) ", "; else ", ";">>, <<"switch (1) { case 1: ", "; }">>, <<"x: switch (1) { default: ", "; }">>,
           <<"switch (1) { case 1: while (0) {} ", "; }">>, <<"function h() { ", "; } h()">>, <<"(function () { ", "; })()">>,
           <<"while (1) { (function(){ ", "; })(); break; }">>, <<"x: while (1) { (function(){ ", "; })(); break; }">>,
           <<"try { ", "; } catch (e) {}">>, <<"try { throw 1 } catch (e) { ", "; }">>, <<"try {} finally { ", "; }">>, <<"x: try { ", "; } finally {}">>,
           <<"while (1) { try { ", "; } finally { break; } }">>, <<"while (1) { ", "; break; }">>, <<"x: while (1) { ", "; break; }">>,
           <<"do { ", "; } while (0)">>, <<"x: do ", "; while (0)">>, <<"do x: ", "; while (0)">>, <<"for (;;) { ", "; break; }">>, <<"x: for (;;) ", ";">>,
           <<"for (var k in {a: 1}) { ", "; }">>, <<"for (var k of [1]) { ", "; }">>, <<"x: for (var k in {a: 1}) { ", "; }">>,
           <<"(() => { ", "; })()">>, <<"var g = () => ", ";">>, <<"x: y: while (1) { ", "; break; }">>, <<"x: { while (1) { ", "; break; } }">>,
           <<"while (1) { x: { ", "; } break; }">>, <<"while (0) x: ", ";">>, <<"function h() { x: while (1) { ", "; break; } } h()">>,
           <<"x: function g() { ", "; }">>, <<"var o = { m: function() { ", "; } }; o.m()">>, <<"var o = { get a() { ", "; } }; o.a">>,
           <<"new (function() { ", "; })()">>, <<"[1].forEach(function() { ", "; })">>,
           <<"while (1) { switch (1) { case 1: ", "; } break; }">>, <<"x: while (1) { switch (1) { case 1: ", "; } break; }">>,
           <<"new Function('", "')()">>}
RECURSIVE Fill(_, _)
Fill(pieces, jp) == IF Len(pieces) = 1 THEN pieces[1] ELSE pieces[1] \o jp \o Fill(Tail(pieces), jp)
JumpCases == {[kind |-> "stmt", name |-> jp, src |-> Fill(pl, jp), ds |-> <<>>, n |-> 0, digit |-> "", embed |-> ""] : jp \in Jumps, pl \in Places}

\* (e) line terminator x lexical context.  ECMA-262 LineTerminator = LF, CR, LS (U+2028), PS (U+2029); CR LF is one line break.
\*     Every one of them ends a single-line comment and may not stand in a regular expression literal; LF and CR may not stand in
\*     a string literal (LS / PS may, since ES2019); backslash + line terminator sequence inside a string is a line continuation.
\*     The text is pre \o <the terminator> \o post, rendered by the driver (LT_TEXT: TLA+ source is ASCII).
LineTerms == {"lf", "cr", "crlf", "ls", "ps"}
LtContexts == {[n |-> "comment", pre |-> "// c", post |-> "@"],          [n |-> "comment2", pre |-> "var a = 1; // c", post |-> "a = ;"],
               [n |-> "string", pre |-> "'a", post |-> "b'"],            [n |-> "dstring", pre |-> "var t = \"a", post |-> "b\"; t"],
               [n |-> "regex", pre |-> "/a", post |-> "b/.test('a')"],   [n |-> "regexcls", pre |-> "/[a", post |-> "]/.test('a')"],
               [n |-> "regexesc", pre |-> "/a\\", post |-> "b/.test('a')"],
               [n |-> "strcont", pre |-> "'a\\", post |-> "b'"],         [n |-> "ws", pre |-> "1", post |-> "+ 1"],
               [n |-> "commentws", pre |-> "1 // c", post |-> "+ 1"],    [n |-> "blockcomment", pre |-> "/* c", post |-> "*/ 1"],
               [n |-> "after", pre |-> "a = 1", post |-> "@"],           [n |-> "aftertwo", pre |-> "a = 1;", post |-> "b = 2;" ],
               [n |-> "postfix", pre |-> "var c = 1; c", post |-> "++c"], [n |-> "return", pre |-> "(function () { return", post |-> "1 })()"],
               [n |-> "unterminated", pre |-> "a = 1;", post |-> "'abc"]}
LtMustReject(ctx, lt) == \/ ctx \in {"comment", "comment2", "regex", "regexcls", "regexesc"}
                         \/ ctx \in {"string", "dstring"} /\ lt \in {"lf", "cr", "crlf"}
LtMustBeString(ctx, lt) == ctx = "strcont" \/ (ctx \in {"string", "dstring"} /\ lt \in {"ls", "ps"})
LtCases == {[kind |-> "lt", name |-> cx.n, src |-> cx.pre, ds |-> <<>>, n |-> 0, digit |-> lt, embed |-> cx.post] : cx \in LtContexts, lt \in LineTerms}

\* (f) nesting shape x depth, inside the documented limit (the property quantifies over every source nested no deeper than 30).
\*     A shape is an opening and a closing text around a hole; `so` is the sort of the shape itself, `si` the sort of its hole
\*     ("E" expression, "S" statement).  Families: functions (expression, named, arrow, arrow with a block, method, getter,
\*     constructor, callback, declaration, capturing a variable of the outermost function), brackets and operators, statements.
\*     A mix rotates several shapes over the levels (level i takes shape i mod length).  Judged: outcome typing, and the work of
\*     the front end (host-level calls made by lexer / parser / compiler, counted by the driver) is at most proportional to
\*     (length of the text) x (nesting depth): "the front end never hangs" for inputs inside the limit.
NestShapes == {
  [n |-> "fexpr",    so |-> "E", si |-> "E", open |-> "(function () { return ", close |-> " })()"],
  [n |-> "fnamed",   so |-> "E", si |-> "E", open |-> "(function g(p) { return ", close |-> " })(1)"],
  [n |-> "arrow",    so |-> "E", si |-> "E", open |-> "(() => ", close |-> ")()"],
  [n |-> "arrowblk", so |-> "E", si |-> "E", open |-> "((p) => { return ", close |-> " })(1)"],
  [n |-> "method",   so |-> "E", si |-> "E", open |-> "({ m: function () { return ", close |-> " } }).m()"],
  [n |-> "getter",   so |-> "E", si |-> "E", open |-> "({ get g() { return ", close |-> " } }).g"],
  [n |-> "ctor",     so |-> "E", si |-> "E", open |-> "(new (function () { this.v = ", close |-> "; })()).v"],
  [n |-> "callback", so |-> "E", si |-> "E", open |-> "[0].map(function (e) { return ", close |-> " })[0]"],
  [n |-> "fcapture", so |-> "E", si |-> "E", open |-> "(function (a) { return q + a + ", close |-> " })(1)"],
  [n |-> "fbody",    so |-> "E", si |-> "S", open |-> "(function () { ", close |-> " })()"],
  [n |-> "arrowbody", so |-> "E", si |-> "S", open |-> "(() => { ", close |-> " })()"],
  [n |-> "fdecl",    so |-> "S", si |-> "S", open |-> "function f() { ", close |-> " } f();"],
  [n |-> "fdeclvar", so |-> "S", si |-> "S", open |-> "var h = function () { var w = q; ", close |-> " return w; }; h();"],
  [n |-> "estmt",    so |-> "S", si |-> "E", open |-> "q = ", close |-> ";"],
  [n |-> "paren",    so |-> "E", si |-> "E", open |-> "(", close |-> ")"],
  [n |-> "array",    so |-> "E", si |-> "E", open |-> "[", close |-> "]"],
  [n |-> "object",   so |-> "E", si |-> "E", open |-> "({ a: ", close |-> " })"],
  [n |-> "call",     so |-> "E", si |-> "E", open |-> "Math.abs(", close |-> ")"],
  [n |-> "index",    so |-> "E", si |-> "E", open |-> "[0, 1][", close |-> "]"],
  [n |-> "cond",     so |-> "E", si |-> "E", open |-> "(q ? ", close |-> " : 0)"],
  [n |-> "neg",      so |-> "E", si |-> "E", open |-> "-(", close |-> ")"],
  [n |-> "plus",     so |-> "E", si |-> "E", open |-> "(1 + ", close |-> ")"],
  [n |-> "assign",   so |-> "E", si |-> "E", open |-> "(q = ", close |-> ")"],
  [n |-> "comma",    so |-> "E", si |-> "E", open |-> "(0, ", close |-> ")"],
  [n |-> "typeof",   so |-> "E", si |-> "E", open |-> "typeof (", close |-> ")"],
  [n |-> "newobj",   so |-> "E", si |-> "E", open |-> "new Object(", close |-> ")"],
  [n |-> "block",    so |-> "S", si |-> "S", open |-> "{ ", close |-> " }"],
  [n |-> "if",       so |-> "S", si |-> "S", open |-> "if (q) { ", close |-> " }"],
  [n |-> "ifelse",   so |-> "S", si |-> "S", open |-> "if (!q) {} else { ", close |-> " }"],
  [n |-> "while",    so |-> "S", si |-> "S", open |-> "while (q) { ", close |-> " break; }"],
  [n |-> "dowhile",  so |-> "S", si |-> "S", open |-> "do { ", close |-> " } while (!q);"],
  [n |-> "for",      so |-> "S", si |-> "S", open |-> "for (var i = 0; i < 1; i++) { ", close |-> " }"],
  [n |-> "forin",    so |-> "S", si |-> "S", open |-> "for (var k in {a: 1}) { ", close |-> " }"],
  [n |-> "forof",    so |-> "S", si |-> "S", open |-> "for (var v of [1]) { ", close |-> " }"],
  [n |-> "try",      so |-> "S", si |-> "S", open |-> "try { ", close |-> " } catch (e) {}"],
  [n |-> "catch",    so |-> "S", si |-> "S", open |-> "try { throw 1; } catch (e) { ", close |-> " }"],
  [n |-> "finally",  so |-> "S", si |-> "S", open |-> "try {} finally { ", close |-> " }"],
  [n |-> "switch",   so |-> "S", si |-> "S", open |-> "switch (q) { case 1: ", close |-> " }"]}
NestShape(nm) == CHOOSE sh \in NestShapes : sh.n = nm
NestMixes == {[n |-> "mixfn",    of |-> <<"fexpr", "arrow", "method", "getter", "callback", "fnamed", "arrowblk", "ctor">>],
              [n |-> "mixfnstmt", of |-> <<"fbody", "fdecl", "estmt", "arrowbody", "fdeclvar", "estmt">>],
              [n |-> "mixexpr",  of |-> <<"paren", "array", "object", "call", "index", "cond", "neg", "plus", "assign", "comma", "typeof", "newobj">>],
              [n |-> "mixstmt",  of |-> <<"block", "if", "ifelse", "while", "dowhile", "for", "forin", "forof", "try", "catch", "finally", "switch">>],
              [n |-> "mixall",   of |-> <<"fbody", "if", "estmt", "array", "arrow", "object", "fcapture", "fbody", "try", "for", "fdecl", "estmt", "paren", "getter">>],
              [n |-> "mixcapture", of |-> <<"fcapture", "fbody", "estmt", "arrow", "fbody", "fdeclvar", "estmt", "callback">>]}
NestDepths == IF Quick THEN {1, 2, 3, 5, 8, 12, 16, 20, 24, 28, 30} ELSE 1..30
NestLimit == 30                                        \* the documented limit the property names
\* every nest program runs inside a function that declares q (so that q is a captured local at every level, not a global)
NestPre(srt) == IF srt = "E" THEN "(function () { var q = 1; return " ELSE "(function () { var q = 1; "
NestPost(srt) == IF srt = "E" THEN "; })()" ELSE " return q; })()"
NestCore(srt) == IF srt = "E" THEN "q" ELSE "q = q + 1;"
RECURSIVE NestText(_, _, _)
NestText(shs, lvl, dd) == IF lvl > dd THEN NestCore(shs[((lvl - 2) % Len(shs)) + 1].si)
                          ELSE LET sh == shs[((lvl - 1) % Len(shs)) + 1] IN sh.open \o NestText(shs, lvl + 1, dd) \o sh.close
NestProgram(shs, dd) == NestPre(shs[1].so) \o NestText(shs, 1, dd) \o NestPost(shs[1].so)
\* a rotation is well sorted when the hole of every shape takes the sort of the next one (cyclically)
WellSorted(shs) == \A li \in 1..Len(shs) : shs[li].si = shs[(li % Len(shs)) + 1].so
NestLists == {[n |-> sh.n, of |-> <<sh>>] : sh \in {sx \in NestShapes : sx.so = sx.si}}
             \cup {[n |-> mx.n, of |-> [li \in 1..Len(mx.of) |-> NestShape(mx.of[li])]] : mx \in NestMixes}
\* the bound on the work of the front end: host-level calls <= WorkFactor x (characters + 16) x (depth + 2).  (On the tree as checked
\* the largest quotient is 26 for every shape but `finally`, whose body the compiler emits twice per level: 145 at depth 12, where the
\* engine's own program-size limit ends the doubling with a JSError.)
WorkFactor == 200
WorkBound(slen, dd) == WorkFactor * (slen + 16) * (dd + 2)
\* ds = <<the count at which the driver stops counting (bound + 1), length of the text>>
NestCase(nl, dd) == LET tx == NestProgram(nl.of, dd) IN
                    [kind |-> "nest", name |-> nl.n, src |-> tx, ds |-> <<WorkBound(Len(tx), dd) + 1, Len(tx)>>, n |-> dd, digit |-> "", embed |-> ""]
NestCases == {NestCase(nl, dd) : nl \in NestLists, dd \in NestDepths}

\* (g) flat source that nests the syntax tree: a unit repeated n times between a prefix and a suffix (left-deep operator chains,
\*     call / member / index chains, assignment and conditional chains, prefix operators, if / else-if / label chains without a
\*     bracket) and wide constructs (statements, elements, properties, arguments, parameters, cases, declarations).  No bracket is
\*     nested, so the documented exemption (parser recursion on bracket nesting) does not apply: outcome typing.  The text is
\*     src \o digit^n \o embed, rendered by the driver.
ChainKinds == {
  [n |-> "plus", pre |-> "1", unit |-> " + 1", post |-> ""],                   [n |-> "minus", pre |-> "1", unit |-> "-1", post |-> ""],
  [n |-> "mul", pre |-> "1", unit |-> "*1", post |-> ""],                       [n |-> "pow", pre |-> "1", unit |-> "**1", post |-> ""],
  [n |-> "and", pre |-> "1", unit |-> "&&1", post |-> ""],                      [n |-> "or", pre |-> "0", unit |-> "||0", post |-> ""],
  [n |-> "bitor", pre |-> "1", unit |-> "|1", post |-> ""],                     [n |-> "shift", pre |-> "1", unit |-> "<<1", post |-> ""],
  [n |-> "less", pre |-> "1", unit |-> "<1", post |-> ""],                      [n |-> "equal", pre |-> "1", unit |-> "===1", post |-> ""],
  [n |-> "in", pre |-> "1", unit |-> " in {}", post |-> ""],                    [n |-> "instanceof", pre |-> "1", unit |-> " instanceof Object", post |-> ""],
  [n |-> "comma", pre |-> "1", unit |-> ",1", post |-> ""],                     [n |-> "strcat", pre |-> "''", unit |-> "+'a'", post |-> ""],
  [n |-> "assign", pre |-> "var x; x", unit |-> "=x", post |-> "=1"],           [n |-> "opassign", pre |-> "var x = 1; x", unit |-> "+=x", post |-> ""],
  [n |-> "cond", pre |-> "1", unit |-> "?1:1", post |-> ""],                    [n |-> "condright", pre |-> "", unit |-> "1?1:", post |-> "1"],
  [n |-> "call", pre |-> "var f = function () { return f }; f", unit |-> "()", post |-> ""],
  [n |-> "member", pre |-> "var a = {}; a.b = a; a", unit |-> ".b", post |-> ""],
  [n |-> "index", pre |-> "var a = []; a[0] = a; a", unit |-> "[0]", post |-> ""],
  [n |-> "methodcall", pre |-> "'a'", unit |-> ".trim()", post |-> ""],
  [n |-> "not", pre |-> "", unit |-> "!", post |-> "1"],                        [n |-> "neg", pre |-> "", unit |-> "- ", post |-> "1"],
  [n |-> "typeof", pre |-> "", unit |-> "typeof ", post |-> "1"],               [n |-> "void", pre |-> "", unit |-> "void ", post |-> "1"],
  [n |-> "delete", pre |-> "", unit |-> "delete ", post |-> "a"],               [n |-> "new", pre |-> "var F = function () {}; ", unit |-> "new ", post |-> "F"],
  [n |-> "postfix", pre |-> "var x = 1; x", unit |-> "++;x", post |-> ""],
  [n |-> "arrow", pre |-> "var f = ", unit |-> "x=>", post |-> "1"],
  [n |-> "if", pre |-> "", unit |-> "if(1)", post |-> "1"],                     [n |-> "elseif", pre |-> "", unit |-> "if(0)1;else ", post |-> "1"],
  [n |-> "while", pre |-> "", unit |-> "while(0)", post |-> "1"],               [n |-> "label", pre |-> "", unit |-> "a:", post |-> "1"],
  [n |-> "forhead", pre |-> "", unit |-> "for(;0;)", post |-> "1"],             [n |-> "with", pre |-> "", unit |-> "with({})", post |-> "1"],
  [n |-> "stmts", pre |-> "", unit |-> "1;", post |-> ""],                      [n |-> "empties", pre |-> "", unit |-> ";", post |-> ""],
  [n |-> "lines", pre |-> "", unit |-> "\n", post |-> "1"],                     [n |-> "comments", pre |-> "", unit |-> "/**/", post |-> "1"],
  [n |-> "elems", pre |-> "[", unit |-> "1,", post |-> "]"],                    [n |-> "holes", pre |-> "[", unit |-> ",", post |-> "]"],
  [n |-> "props", pre |-> "({", unit |-> "a:1,", post |-> "})"],                [n |-> "getters", pre |-> "({", unit |-> "get a(){return 1},", post |-> "})"],
  [n |-> "args", pre |-> "Math.max(", unit |-> "1,", post |-> "1)"],            [n |-> "params", pre |-> "(function(", unit |-> "a,", post |-> "a){})"],
  [n |-> "cases", pre |-> "switch(1){", unit |-> "case 1:", post |-> "}"],      [n |-> "decls", pre |-> "var a=1", unit |-> ",a=1", post |-> ""],
  [n |-> "functions", pre |-> "", unit |-> "function f(){} ", post |-> ""],     [n |-> "trycatch", pre |-> "", unit |-> "try{}catch(e){} ", post |-> ""],
  [n |-> "regexes", pre |-> "", unit |-> "/a/;", post |-> ""],                  [n |-> "strings", pre |-> "", unit |-> "'a';", post |-> ""],
  [n |-> "escapes", pre |-> "'", unit |-> "\\\\", post |-> "'"],               [n |-> "parens", pre |-> "", unit |-> "(1);", post |-> ""]}
ChainLens == IF Quick THEN {100, 1000, 5000} ELSE {30, 100, 300, 600, 900, 1000, 1100, 1500, 3000, 5000, 10000}
ChainCases == {[kind |-> "chain", name |-> ck.n, src |-> ck.pre, ds |-> <<>>, n |-> nn, digit |-> ck.unit, embed |-> ck.post] :
                  ck \in ChainKinds, nn \in ChainLens}

\* (h) jump x scope path: the target of a break / continue is looked up among the statements that enclose it INSIDE ITS OWN FUNCTION.
\*     A program is a path of frames (outermost first), each an opening and a closing text on lines of their own, around a jump:
\*     loops (c = "L"), switch ("W"), labelled statements that are not loops ("B"), statements that neither offer a target nor end
\*     the search ("T": block, if, else, try, catch, finally), and the function boundaries - ordinary functions in every form
\*     ("F": expression, declaration, callback, method, getter, setter, constructor) and arrow functions with a block body ("A").
\*     lab = the label of the frame ("" = none).  The hole is the jump alone ("plain") or the jump after a completed sibling loop
\*     ("sib": the sibling's target must be gone).  Line 1 declares the counter of the loops, frame i opens on line i + 1, the jump
\*     stands on line depth + 2.  ECMA-262 13.8.1 / 13.9.1 / 13.13.1 (early errors): an unlabelled break needs an enclosing loop or
\*     switch, an unlabelled continue an enclosing loop, `break L` an enclosing statement labelled L, `continue L` an enclosing LOOP
\*     labelled L - all without crossing a function boundary; a label may not be nested in a statement with the same label (same
\*     function).  A program that breaks one of them is malformed: the front end must raise a JSSyntaxError on the line of the
\*     jump (of the second label).  `return` outside a function is accepted by this engine on purpose (the program is evaluated like
\*     a function body; the value is the result of eval): not judged.
ScopeFrames == <<
  [n |-> "while",    c |-> "L", lab |-> "",  open |-> "while (n-- > 0) {", close |-> "}"],
  [n |-> "dowhile",  c |-> "L", lab |-> "",  open |-> "do {", close |-> "} while (n-- > 0);"],
  [n |-> "for",      c |-> "L", lab |-> "",  open |-> "for (var i = 0; i < 2; i++) {", close |-> "}"],
  [n |-> "forin",    c |-> "L", lab |-> "",  open |-> "for (var k in {a: 1, b: 2}) {", close |-> "}"],
  [n |-> "forof",    c |-> "L", lab |-> "",  open |-> "for (var v of [1, 2]) {", close |-> "}"],
  [n |-> "switch",   c |-> "W", lab |-> "",  open |-> "switch (1) { case 1:", close |-> "}"],
  [n |-> "switchdef", c |-> "W", lab |-> "", open |-> "switch (1) { default:", close |-> "}"],
  [n |-> "lblock",   c |-> "B", lab |-> "x", open |-> "x: {", close |-> "}"],
  [n |-> "lif",      c |-> "B", lab |-> "x", open |-> "x: if (1) {", close |-> "}"],
  [n |-> "lwhile",   c |-> "L", lab |-> "x", open |-> "x: while (n-- > 0) {", close |-> "}"],
  [n |-> "lfor",     c |-> "L", lab |-> "x", open |-> "x: for (var j = 0; j < 2; j++) {", close |-> "}"],
  [n |-> "lforin",   c |-> "L", lab |-> "x", open |-> "x: for (var m in {a: 1}) {", close |-> "}"],
  [n |-> "lswitch",  c |-> "W", lab |-> "x", open |-> "x: switch (1) { case 1:", close |-> "}"],
  [n |-> "block",    c |-> "T", lab |-> "",  open |-> "{", close |-> "}"],
  [n |-> "if",       c |-> "T", lab |-> "",  open |-> "if (1) {", close |-> "}"],
  [n |-> "else",     c |-> "T", lab |-> "",  open |-> "if (0) {} else {", close |-> "}"],
  [n |-> "try",      c |-> "T", lab |-> "",  open |-> "try {", close |-> "} catch (e) {}"],
  [n |-> "catch",    c |-> "T", lab |-> "",  open |-> "try { throw 1; } catch (e) {", close |-> "}"],
  [n |-> "finally",  c |-> "T", lab |-> "",  open |-> "try {} finally {", close |-> "}"],
  [n |-> "fexpr",    c |-> "F", lab |-> "",  open |-> "(function () {", close |-> "})();"],
  [n |-> "fdecl",    c |-> "F", lab |-> "",  open |-> "function f() {", close |-> "} f();"],
  [n |-> "cbfn",     c |-> "F", lab |-> "",  open |-> "[1].forEach(function () {", close |-> "});"],
  [n |-> "method",   c |-> "F", lab |-> "",  open |-> "({ m: function () {", close |-> "} }).m();"],
  [n |-> "getter",   c |-> "F", lab |-> "",  open |-> "({ get a() {", close |-> "} }).a;"],
  [n |-> "setter",   c |-> "F", lab |-> "",  open |-> "({ set a(w) {", close |-> "} }).a = 1;"],
  [n |-> "ctor",     c |-> "F", lab |-> "",  open |-> "new (function () {", close |-> "})();"],
  [n |-> "arrow",    c |-> "A", lab |-> "",  open |-> "(() => {", close |-> "})();"],
  [n |-> "arrowvar", c |-> "A", lab |-> "",  open |-> "var g = (p) => {", close |-> "}; g(1);"],
  [n |-> "cbarrow",  c |-> "A", lab |-> "",  open |-> "[1, 2].forEach(e => {", close |-> "});"]>>
ScopeCats == {"L", "W", "B", "T", "F", "A"}
ScopeAll == 1..Len(ScopeFrames)
\* the representative frames of the deepest level of a tier: every category, a labelled loop and a labelled statement that is no loop
ScopeRedNames == {"while", "forof", "switch", "lblock", "lwhile", "if", "finally", "fexpr", "arrow"}
ScopeRed == {fi \in ScopeAll : ScopeFrames[fi].n \in ScopeRedNames}
ScopeJumps == {"break", "continue", "break x", "continue x", "break y", "continue y", "return"}
JumpKind(jp) == CASE jp \in {"break", "break x", "break y"} -> "break" [] jp \in {"continue", "continue x", "continue y"} -> "continue" [] OTHER -> "return"
JumpLabel(jp) == CASE jp \in {"break x", "continue x"} -> "x" [] jp \in {"break y", "continue y"} -> "y" [] OTHER -> ""
ScopeHoles == <<[n |-> "plain", pre |-> ""], [n |-> "sib", pre |-> "while (0) { break; } "]>>
RECURSIVE ScopePaths(_, _)
ScopePaths(fs, dd) == IF dd = 0 THEN {<<>>} ELSE {<<fi>> \o pt : fi \in fs, pt \in ScopePaths(fs, dd - 1)}
\* quick: the full product of the frames up to depth 2 and the representative frames at depth 3 (sibling hole: one level less);
\* thorough: the full product up to depth 3 (sibling hole: up to depth 2)
ScopePlainPaths == ScopePaths(ScopeAll, 0) \cup ScopePaths(ScopeAll, 1) \cup ScopePaths(ScopeAll, 2)
                   \cup ScopePaths(IF Quick THEN ScopeRed ELSE ScopeAll, 3)
ScopeSibPaths == ScopePaths(ScopeAll, 0) \cup ScopePaths(ScopeAll, 1) \cup ScopePaths(IF Quick THEN ScopeRed ELSE ScopeAll, 2)
RECURSIVE ScopeOpen(_)
ScopeOpen(pt) == IF pt = <<>> THEN "" ELSE ScopeFrames[Head(pt)].open \o "\n" \o ScopeOpen(Tail(pt))
RECURSIVE ScopeClose(_)
ScopeClose(pt) == IF pt = <<>> THEN "" ELSE ScopeClose(Tail(pt)) \o "\n" \o ScopeFrames[Head(pt)].close
ScopeText(pt, jp, hi) == "var n = 2;\n" \o ScopeOpen(pt) \o ScopeHoles[hi].pre \o jp \o ";" \o ScopeClose(pt)
\* ds = <<index of the hole form>> \o the path (indices into ScopeFrames), name = the jump: what the judge reads
ScopeCase(pt, jp, hi) == [kind |-> "scope", name |-> jp, src |-> ScopeText(pt, jp, hi), ds |-> <<hi>> \o pt, n |-> Len(pt), digit |-> "", embed |-> ""]
ScopeCases == {ScopeCase(pt, jp, 1) : pt \in ScopePlainPaths, jp \in ScopeJumps} \cup {ScopeCase(pt, jp, 2) : pt \in ScopeSibPaths, jp \in ScopeJumps}
\* ---- the reference: targets visible from the jump ----
IsBoundary(fi) == ScopeFrames[fi].c \in {"F", "A"}
\* the frames of the innermost function (after the last boundary of the path)
ScopeInner(pt) == LET bs == {pi \in 1..Len(pt) : IsBoundary(pt[pi])}
                      lb == IF bs = {} THEN 0 ELSE CHOOSE pi \in bs : \A pj \in bs : pj <= pi
                  IN SubSeq(pt, lb + 1, Len(pt))
JumpOk(pt, jp) == LET sc == ScopeInner(pt)  lb == JumpLabel(jp)  kd == JumpKind(jp) IN
                  CASE kd = "return" -> TRUE
                    [] kd = "break" /\ lb = "" -> \E si \in 1..Len(sc) : ScopeFrames[sc[si]].c \in {"L", "W"}
                    [] kd = "continue" /\ lb = "" -> \E si \in 1..Len(sc) : ScopeFrames[sc[si]].c = "L"
                    [] kd = "break" /\ lb # "" -> \E si \in 1..Len(sc) : ScopeFrames[sc[si]].lab = lb
                    [] OTHER -> \E si \in 1..Len(sc) : ScopeFrames[sc[si]].lab = lb /\ ScopeFrames[sc[si]].c = "L"
\* positions (in the path) of a label nested in a statement with the same label, no function boundary between the two
DupLabelAt(pt) == {pj \in 1..Len(pt) : /\ ScopeFrames[pt[pj]].lab # ""
                                        /\ \E pi \in 1..(pj - 1) : /\ ScopeFrames[pt[pi]].lab = ScopeFrames[pt[pj]].lab
                                                                   /\ \A pk \in pi..pj : ~IsBoundary(pt[pk])}

FamCases == LongCases \cup EscCases \cup StmtCases \cup JumpCases \cup LtCases \cup NestCases \cup ChainCases \cup ScopeCases
FamInit == ph = "fstart" /\ pf = "" /\ inp = <<>> /\ rec_i = 0
FamNext == ph = "fstart" /\ ph' = "fam" /\ (\E cs \in FamCases : inp' = cs) /\ UNCHANGED <<pf, rec_i>>
FamEmit == ph # "fam" \/ PrintT(ToJson(inp))
\* laws of the families' own reference: the validity of an escape value agrees with the code point range wherever the value fits
\* an integer; every rendered program is a non-empty text; the families have the announced sizes
FamLaw == /\ ph = "fam" /\ inp.kind = "esc" =>
               /\ (Len(inp.ds) \in 1..6 => (EscOk(inp.ds) <=> EscVal(inp.ds) <= 1114111))
               /\ (EscOk(inp.ds) => EscOk(<<0>> \o inp.ds)) /\ (inp.ds # <<>> /\ ~EscOk(inp.ds) => ~EscOk(<<0>> \o inp.ds))
               /\ (inp.ds = <<>> => ~EscOk(inp.ds))
               /\ (Len(EscStrip(inp.ds)) >= 7 => ~EscOk(inp.ds))
               /\ inp.src # ""
          /\ ph = "fam" /\ inp.kind = "stmt" => inp.src # ""
          /\ ph = "fam" /\ inp.kind = "lt" => ~(LtMustReject(inp.name, inp.digit) /\ LtMustBeString(inp.name, inp.digit))
          /\ ph = "fam" /\ inp.kind = "nest" => inp.n \in 1..NestLimit /\ inp.ds[2] = Len(inp.src) /\ inp.ds[1] > WorkBound(inp.ds[2], inp.n)
          /\ ph = "fam" /\ inp.kind = "chain" => inp.n >= 1 /\ inp.digit # ""
          /\ ph = "fam" /\ inp.kind = "scope" => /\ Len(inp.ds) = inp.n + 1 /\ inp.ds[1] \in 1..Len(ScopeHoles) /\ inp.name \in ScopeJumps
                                                 /\ \A di \in 2..Len(inp.ds) : inp.ds[di] \in ScopeAll
                                                 \* a function boundary directly around the jump hides every target
                                                 /\ (inp.n >= 1 /\ IsBoundary(inp.ds[Len(inp.ds)]) /\ JumpKind(inp.name) # "return" => ~JumpOk(Tail(inp.ds), inp.name))
                                                 \* a frame that is no boundary never takes a target away
                                                 /\ (inp.n >= 1 /\ ~IsBoundary(inp.ds[Len(inp.ds)]) /\ JumpOk(SubSeq(inp.ds, 2, Len(inp.ds) - 1), inp.name)
                                                        => JumpOk(Tail(inp.ds), inp.name))
          /\ ph = "fstart" => /\ Cardinality(LongCases) = Cardinality(LongForms) * Cardinality(LongLens) * 10
                              /\ Cardinality(EscCases) = Cardinality(EscCarriers) * Cardinality(EscDigits)
                              /\ \E ec \in EscCases : EscOk(ec.ds) /\ EscVal(EscStrip(ec.ds)) = 1114111
                              /\ \E ec \in EscCases : ~EscOk(ec.ds) /\ EscStrip(ec.ds) = <<1, 1, 0, 0, 0, 0>>
                              \* nesting: every rotation is well sorted, every shape occurs (alone or in a rotation), the limit itself is a depth,
                              \* a shallow and a deep level are present for every list, and the bound fits TLC's integers
                              /\ \A nl \in NestLists : WellSorted(nl.of) /\ nl.of[1].so = nl.of[Len(nl.of)].si
                              /\ \A sh \in NestShapes : \E nl \in NestLists : \E li \in 1..Len(nl.of) : nl.of[li] = sh
                              /\ \A mx \in NestMixes : \A li \in 1..Len(mx.of) : \E sh \in NestShapes : sh.n = mx.of[li]
                              /\ {1, NestLimit} \subseteq NestDepths /\ NestDepths \subseteq 1..NestLimit
                              /\ Cardinality(NestCases) = Cardinality(NestLists) * Cardinality(NestDepths)
                              /\ WorkBound(4000, NestLimit) < 2147483647 \div 4
                              /\ Cardinality(ChainCases) = Cardinality(ChainKinds) * Cardinality(ChainLens)
                              /\ \E nn \in ChainLens : nn >= 1000        \* beyond the host's default recursion limit
                              \* jump x scope: every category of frame is among the representatives of the deepest level (with a labelled loop
                              \* and a labelled statement that is no loop), the representatives are frames, names are unique, only x is a label,
                              \* every (outer, middle, inner) triple of categories is a path, both holes and every jump at every depth
                              /\ \A cc \in ScopeCats : \E fi \in ScopeRed : ScopeFrames[fi].c = cc
                              /\ \A fi \in ScopeAll : ScopeFrames[fi].c \in ScopeCats /\ ScopeFrames[fi].lab \in {"", "x"} /\ (ScopeFrames[fi].c = "B" => ScopeFrames[fi].lab = "x")
                              /\ \E fi \in ScopeRed : ScopeFrames[fi].c = "L" /\ ScopeFrames[fi].lab = "x"
                              /\ Cardinality(ScopeRed) = Cardinality(ScopeRedNames) /\ Cardinality({ScopeFrames[fi].n : fi \in ScopeAll}) = Len(ScopeFrames)
                              /\ \A c1 \in ScopeCats, c2 \in ScopeCats, c3 \in ScopeCats : \E pt \in ScopePlainPaths :
                                    Len(pt) = 3 /\ ScopeFrames[pt[1]].c = c1 /\ ScopeFrames[pt[2]].c = c2 /\ ScopeFrames[pt[3]].c = c3
                              /\ \A f1 \in ScopeAll, f2 \in ScopeAll : <<f1, f2>> \in ScopePlainPaths
                              /\ \A c1 \in ScopeCats, c2 \in ScopeCats : \E pt \in ScopeSibPaths : Len(pt) = 2 /\ ScopeFrames[pt[1]].c = c1 /\ ScopeFrames[pt[2]].c = c2
                              /\ Cardinality(ScopeCases) = (Cardinality(ScopePlainPaths) + Cardinality(ScopeSibPaths)) * Cardinality(ScopeJumps)
                              /\ \A jp \in ScopeJumps : JumpKind(jp) = "return" \/ ~JumpOk(<<>>, jp)
                              /\ \E pt \in ScopePlainPaths : DupLabelAt(pt) # {}

\* ---------------- token sequences over the expression vocabulary (S->C, acceptor) ---------------------------
\* Bound <= 4: within it JsGrammar!ParseStmtsD covers every ECMAScript program over this vocabulary (arrow functions
\* with two parameters and destructuring patterns need more tokens).
ExprVocab == <<"a", "b", "1", "+", "-", "*", "**", "=", "+=", "++", "!", "typeof", "new", "this", "(", ")", "[", "]", ",", ".",
               "?", ":", "=>", ";", "in">>
TokMax == IF Quick THEN 3 ELSE 4
RECURSIVE SeqsUpTo(_)
SeqsUpTo(nn) == IF nn = 0 THEN {<<>>} ELSE LET sm == SeqsUpTo(nn - 1) IN sm \cup {Append(sq, ExprVocab[vi]) : sq \in sm, vi \in 1..Len(ExprVocab)}
TokInit == ph = "tstart" /\ pf = "" /\ inp = <<>> /\ rec_i = 0
TokNext == \/ ph = "tstart" /\ ph' = "tfirst" /\ (\E vi \in 1..Len(ExprVocab) : inp' = <<ExprVocab[vi]>>) /\ UNCHANGED <<pf, rec_i>>
           \/ ph = "tfirst" /\ ph' = "tseq" /\ (\E sq \in SeqsUpTo(TokMax - 1) : inp' = inp \o sq) /\ UNCHANGED <<pf, rec_i>>
TokEmit == ph # "tseq" \/ PrintT(ToJson([kind |-> "toks", pf |-> "", cls |-> inp]))
\* the acceptor is total, answers with a token index, and accepts a program followed by a separator
TokLaw == ph = "tseq" => LET res == ParseStmtsD(inp, {}) IN
            /\ (res.ok => res.at = 0) /\ (~res.ok => res.at >= 1 /\ res.at <= Len(inp) + 1)
            /\ (res.ok => ParseStmtsD(inp \o <<";">>, {}).ok)                     \* a trailing separator never hurts
            /\ (res.ok => ParseStmtsD(inp, ParserDevs).ok)                        \* the as-is parser accepts a superset

\* ---------------- Judge ------------------------------------------------------------------------
\* records: [id, kind, cls, toks, lex, out, lens, fname, args, vk, ds, lens2]
\*   lens2 = line lengths when LF is taken for the only line terminator (kind "lt"; lens there counts LF, CR, CR LF, LS, PS)
\*   vk   = kind of the value Context.eval returned ("num", "str", "bool", "none", "obj"; "" when not observed)
\*   ds   = hex digits of the escape (kind "esc")
\*   lex  = [o: "tokens" | "syntax" | other, line, col]      what Lexer(src).tokenize() did   (kind "cls")
\*   toks = tokens of the real lexer as [k, line, col]
\*   out  = [o, line, col, steps, type, where]               what Context.eval(src) did (steps = interpreter steps executed)
\*   lens = line lengths of the source                        (position sanity for arbitrary text)
Recs == ndJsonDeserialize(IOEnv.OBS_FILE)
Pass == [v |-> "pass", dev |-> "", why |-> ""]
Mis(dv, wy) == [v |-> "mismatch", dev |-> dv, why |-> wy]
PickDev(fs) == IF fs = {} THEN "" ELSE CHOOSE dd \in fs : TRUE
PosSaneL(lens, line, col) == line >= 1 /\ line <= Len(lens) /\ col >= 1 /\ col <= lens[line] + 1

\* host exceptions that are recorded findings.  Identity = (exception type, innermost engine frame file:function,
\* kind of case, built-in name, argument classes that reach it); each deviation is one root cause.
AnyArg == {"*"}
HostSites == {
  [dev |-> "Dev_ToPythonCycle", type |-> "RecursionError", where |-> {"context.py:_to_python", "context.py:<dictcomp>", "context.py:<listcomp>"},
   kinds |-> {"call", "src", "cls"}, fnames |-> AnyArg, args |-> AnyArg],
  [dev |-> "Dev_ArrayLengthArg", type |-> "TypeError", where |-> {"context.py:constructor_fn"},
   kinds |-> {"call"}, fnames |-> {"ArrayBuffer"}, args |-> {"undefined", "null", "obj", "arr", "fn"}],
  [dev |-> "Dev_ArrayLengthArg", type |-> "ValueError", where |-> {"context.py:constructor_fn", "values.py:__init__"},
   kinds |-> {"call"}, fnames |-> {"ArrayBuffer"}, args |-> {"nan", "sx", "m1"}],
  [dev |-> "Dev_ArrayLengthArg", type |-> "OverflowError", where |-> {"context.py:constructor_fn", "values.py:__init__"},
   kinds |-> {"call"}, fnames |-> {"ArrayBuffer"}, args |-> {"inf", "ninf"}],
  [dev |-> "Dev_ArrayLengthArg", type |-> "OverflowError", where |-> {"context.py:array_constructor", "values.py:__init__"},
   kinds |-> {"call"}, fnames |-> {"Array", "constructor"}, args |-> {"inf", "ninf"}],
  [dev |-> "Dev_ArrayLengthArg", type |-> "ValueError", where |-> {"context.py:array_constructor", "values.py:__init__"},
   kinds |-> {"call"}, fnames |-> {"Array", "constructor"}, args |-> {"nan", "m1"}],
  [dev |-> "Dev_ArrayLengthArg", type |-> "MemoryError", where |-> {"values.py:__init__"},
   kinds |-> {"call"}, fnames |-> {"Array", "ArrayBuffer", "constructor"}, args |-> {"m1", "ninf"}],
  [dev |-> "Dev_CompilerSyntaxError", type |-> "SyntaxError", where |-> {"compiler.py:_compile_statement"},
   kinds |-> {"src", "cls"}, fnames |-> AnyArg, args |-> AnyArg],
  [dev |-> "Dev_ToPrimitiveBound", type |-> "TypeError", where |-> {"vm.py:_to_primitive"},
   kinds |-> {"call", "src", "cls"}, fnames |-> AnyArg, args |-> AnyArg],
  \* StringToNumber of a radix-prefixed text ("0x" + hundreds of digits): float(int(text, 16)) beyond the doubles
  [dev |-> "Dev_RadixStringOverflow", type |-> "OverflowError", where |-> {"values.py:_string_to_number"},
   kinds |-> {"call"}, fnames |-> AnyArg, args |-> RadixTexts],
  \* an element read / store converts a property name made of digits with int() (vm.py _array_index, since 0c2d1c1): the host's limit of 4300 digits
  [dev |-> "Dev_ArrayIndexDigits", type |-> "ValueError", where |-> {"vm.py:_array_index"},
   kinds |-> {"call"}, fnames |-> {"op:get", "op:set", "op:set1"}, args |-> {"t_dec"}],
  \* `key in array` converts a key made of digits with int(): the host's limit of 4300 digits
  [dev |-> "Dev_InOperatorDigits", type |-> "ValueError", where |-> {"vm.py:_execute_opcode"},
   kinds |-> {"call"}, fnames |-> {"op:in"}, args |-> {"t_dec"}],
  \* String.prototype.repeat multiplies the host string by any finite count: a result no host can hold
  [dev |-> "Dev_RepeatCount", type |-> "OverflowError", where |-> {"vm.py:repeat"},
   kinds |-> {"call"}, fnames |-> {"repeat"}, args |-> {"e21", "s_e21"}],
  [dev |-> "Dev_RepeatCount", type |-> "MemoryError", where |-> {"vm.py:repeat"},
   kinds |-> {"call"}, fnames |-> {"repeat"}, args |-> {"p53", "s_p53"}],
  [dev |-> "Dev_RegExpError", type |-> "RegExpError", where |-> {"parser.py:parse", "parser.py:_parse_alternative", "parser.py:_parse_escape",
                                                                "parser.py:_parse_atom", "parser.py:_parse_quantifier", "parser.py:_parse_group",
                                                                "parser.py:_parse_char_class", "parser.py:_parse_term", "parser.py:_parse_disjunction"},
   kinds |-> {"call", "src", "cls"}, fnames |-> AnyArg, args |-> AnyArg]
}
HostDevOf(r) ==
  LET S == {hs \in HostSites :
              /\ r.out.o = "host" /\ hs.type = r.out.type /\ r.out.where \in hs.where /\ r.kind \in hs.kinds
              /\ (hs.fnames = AnyArg \/ r.fname \in hs.fnames)
              /\ (hs.args = AnyArg \/ \E ai \in 1..Len(r.args) : r.args[ai] \in hs.args)}
  IN IF S = {} THEN "" ELSE (CHOOSE hs \in S : TRUE).dev

\* typing of an evaluation outcome.  A JSSyntaxError raised before the first interpreter step is a front-end
\* error and must carry a position inside the source text (or at its end); one raised while running (JSON.parse,
\* new RegExp, eval of a string) is a runtime error of the JSError family.
Typing(r, lens) ==
  LET out == r.out IN
  IF ~InJSErrorFamily(out) THEN Mis(HostDevOf(r), "outcome outside the JSError family")
  ELSE IF out.o = "syntax" /\ out.steps = 0 /\ ~PosSaneL(lens, out.line, out.col) THEN Mis("", "syntax error position outside the source")
  ELSE Pass

\* does the real lexer's answer match a run of the machine ?
LexMatches(cls, lex, toks, st) ==
  IF st.err.k = "none" THEN lex.o = "tokens" /\ toks = st.out
  ELSE lex.o = "syntax" /\ ErrPosOK(cls, st.err, lex.line, lex.col)
\* must the whole program be rejected because of the lexical error the regex-aware machine finds ?
\*  R1: no '/' token was produced before the error and the error is not about a regular expression
\*  R2: the unterminated regular expression is the first token of the program
MustReject(st) ==
  /\ st.err.k # "none" /\ st.err.lenient = ""
  /\ IF st.err.k = "unterminated-regex" THEN st.out = <<>>
     ELSE \A ti \in 1..Len(st.out) : st.out[ti].k \notin {"/", "/=", "regex"}
JudgeCls(r) ==
  LET ref == Lex(r.cls, FALSE, {})
      lens == [li \in 1..(1 + NlCount(r.cls)) |->
                 LET starts == LineStarts(r.cls) IN
                 (IF li < Len(starts) THEN starts[li + 1] - 1 ELSE Len(r.cls)) - starts[li]]
      ty == Typing(r, lens) IN
  IF ~LexMatches(r.cls, r.lex, r.toks, ref)
  THEN LET asis == Lex(r.cls, FALSE, LexDevs) IN
       IF r.lex.o \notin {"tokens", "syntax"} THEN Mis("", "lexer raised a host exception")
       ELSE IF asis.fired # {} /\ LexMatches(r.cls, r.lex, r.toks, asis) THEN Mis(PickDev(asis.fired), "lexer: as-is rule")
       ELSE IF ref.err.k # "none" /\ ref.err.lenient # "" /\ r.lex.o = "tokens" THEN Mis(ref.err.lenient, "lexer: malformed text accepted (opaque deviation)")
       ELSE IF asis.err.k # "none" /\ asis.err.lenient # "" /\ r.lex.o = "tokens" THEN Mis(asis.err.lenient, "lexer: malformed text accepted (opaque deviation)")
       ELSE Mis("", IF ref.err.k = "none" THEN "token stream differs" ELSE "lexical error not reported at the offending token")
  ELSE IF ty.v # "pass" THEN ty
  ELSE LET rx == Lex(r.cls, TRUE, {}) IN
       IF MustReject(rx) /\ r.out.o # "syntax"
       THEN LET ax == Lex(r.cls, TRUE, LexDevs) IN
            IF ax.err.k = "none" /\ ax.fired # {} THEN Mis(PickDev(ax.fired), "malformed source accepted")
            ELSE Mis("", "malformed source accepted")
       ELSE IF MustReject(rx) /\ OffsetOf(r.cls, r.out.line, r.out.col) > EolOf(r.cls, rx.err.s1) + 1
       THEN Mis("", "error reported after the offending token")
       ELSE Pass

JudgeSrc(r) == Typing(r, r.lens)
\* text of a token sequence = tokens joined by one blank: 0-based offset of the end of token ti (end of text beyond the last)
RECURSIVE TokStart(_, _)
TokStart(ts, ti) == IF ti <= 1 THEN 0 ELSE TokStart(ts, ti - 1) + Len(ts[ti - 1]) + 1
TokEndOff(ts, ti) == IF ti > Len(ts) THEN TokStart(ts, Len(ts)) + Len(ts[Len(ts)]) ELSE TokStart(ts, ti) + Len(ts[ti])
JudgeToks(r) ==
  LET ty == Typing(r, r.lens)
      ref == ParseStmtsD(r.toks, {}) IN
  IF ty.v # "pass" THEN ty
  ELSE IF ref.ok THEN Pass                  \* the engine may implement a subset: acceptance of valid text is not demanded here
  ELSE IF r.out.o = "syntax"
       THEN IF r.out.steps = 0 /\ r.out.line = 1 /\ r.out.col - 1 <= TokEndOff(r.toks, ref.at) THEN Pass
            ELSE Mis("", "syntax error reported after the first token that cannot continue a program")
  ELSE LET S1 == {dd \in ParserDevs : ParseStmtsD(r.toks, {dd}).ok} IN
       IF S1 # {} THEN Mis(CHOOSE dd \in S1 : TRUE, "malformed token sequence accepted (as-is parser rule)")
       ELSE IF ParseStmtsD(r.toks, ParserDevs).ok THEN Mis(CHOOSE dd \in ParserDevs : TRUE, "malformed token sequence accepted (as-is parser rules)")
       ELSE Mis("", "malformed token sequence accepted")
\* a call of the grid (a method, a global function, an operator form); lex = the outcome of the use of its result (o = "none" when the
\* call did not return an object), fin = the outcomes of the uncaught use statements (empty when there was no use)
JudgeCall(r) ==
  IF ~CallSupported(r.fname, r.args) THEN [v |-> "unsupported", dev |-> "", why |-> "allocating call with a huge argument / compiling call with a nested text"]
  ELSE LET ty == Typing(r, <<0>>) IN
       IF ty.v # "pass" THEN ty
       ELSE IF r.lex.o # "none" /\ ~InJSErrorFamily(r.lex)
            THEN Mis(HostDevOf([r EXCEPT !.out = r.lex]), "use of the object a call returned: outcome outside the JSError family")
       \* fin = the outcomes of the uncaught use statements (UseFinal), each an evaluation of its own
       ELSE LET badf == {fi \in 1..Len(r.fin) : ~InJSErrorFamily(r.fin[fi])} IN
            IF badf = {} THEN Pass
            ELSE Mis(HostDevOf([r EXCEPT !.out = r.fin[CHOOSE fi \in badf : \A fj \in badf : fi <= fj]]),
                     "uncaught use of the object a call returned: outcome outside the JSError family")

\* a numeric literal of many digits (fname = form, args = <<embedding, digit>>) is a number
JudgeLong(r) ==
  LET ty == Typing(r, r.lens) IN
  IF ty.v # "pass" THEN ty
  ELSE IF r.out.o # "value" THEN Mis("", "a numeric literal of many digits is not evaluated")
  ELSE IF r.args[1] \in NumberEmbeds /\ r.vk # "num" THEN Mis("", "the value of a numeric literal of many digits is not a number")
  ELSE Pass
\* \u{H} (fname = carrier): in a string literal a string if H <= 0x10FFFF, a front-end JSSyntaxError otherwise; elsewhere
\* (identifiers: not supported by the engine; regular expressions: a runtime error is allowed) outcome typing only
JudgeEsc(r) ==
  LET ty == Typing(r, r.lens) IN
  IF ty.v # "pass" THEN ty
  ELSE IF r.fname \notin StringCarriers THEN Pass
  ELSE IF EscOk(r.ds) THEN (IF r.out.o = "value" /\ r.vk = "str" THEN Pass
                            ELSE Mis("", "a string literal with a code point escape <= 0x10FFFF is not a string"))
  ELSE IF r.out.o = "syntax" /\ r.out.steps = 0 THEN Pass
  ELSE Mis("", "a code point escape beyond 0x10FFFF (or without digits) accepted in a string literal")
\* statement head x misplaced operand, misplaced jumps: outcome typing, position sanity of a front-end error
JudgeStmt(r) == Typing(r, r.lens)
\* nesting shape x depth (fname = shape or rotation, ds = <<front-end work counted by the driver, length of the text, depth>>):
\* outcome typing (a count stopped at the bound arrives as the outcome "hang"), and the work stays within the bound
JudgeNest(r) ==
  LET ty == Typing(r, r.lens) IN
  IF ty.v # "pass" THEN ty
  ELSE IF Len(r.ds) # 3 \/ r.ds[3] \notin 1..NestLimit THEN [v |-> "unsupported", dev |-> "", why |-> "nest record without work / length / depth"]
  ELSE IF r.ds[1] > WorkBound(r.ds[2], r.ds[3]) THEN Mis("", "front-end work beyond the bound (length x depth): the front end hangs on nested source")
  ELSE Pass
\* flat source that nests the syntax tree: outcome typing
JudgeChain(r) == Typing(r, r.lens)

\* jump x scope path (fname = the jump, ds = <<hole form>> \o path).  The lines on which the program is malformed: the line of the
\* jump when it has no target inside its function, the line of a label nested in a statement with the same label.  Malformed =>
\* a front-end JSSyntaxError on one of these lines (with a duplicated label the jump's own line is accepted too: which of the two
\* statements a labelled jump means is then not defined).  As-is rule Dev_DuplicateLabel: a nested label with the name of an
\* enclosing one is accepted (the jump resolves to the innermost).
JudgeScope(r) ==
  LET ty == Typing(r, r.lens) IN
  IF ty.v # "pass" THEN ty
  ELSE IF Len(r.ds) < 1 \/ r.fname \notin ScopeJumps \/ \E di \in 2..Len(r.ds) : r.ds[di] \notin ScopeAll
       THEN [v |-> "unsupported", dev |-> "", why |-> "scope record without path / jump"]
  ELSE LET pt == Tail(r.ds)
           jline == Len(pt) + 2
           dups == {pj + 1 : pj \in DupLabelAt(pt)}
           bad == dups \cup (IF JumpOk(pt, r.fname) THEN {} ELSE {jline}) IN
       IF bad = {} THEN Pass
       ELSE IF r.out.o = "syntax" /\ r.out.steps = 0
            THEN (IF r.out.line \in bad \/ (dups # {} /\ r.out.line = jline) THEN Pass
                  ELSE Mis("", "the syntax error does not locate the jump without a target (the nested duplicate label)"))
       ELSE IF dups # {} /\ JumpOk(pt, r.fname) THEN Mis("Dev_DuplicateLabel", "a label nested in a statement with the same label is accepted")
       ELSE Mis("", "a break / continue without a target inside its own function is not rejected by the front end")
\* line terminator x context (fname = context, args = <<terminator>>).  As-is rule Dev_LineTerminatorLFOnly: the lexer knows LF
\* only (CR, LS, PS do not end a comment, a string or a regular expression literal, and do not advance the line).
JudgeLt(r) ==
  LET out == r.out
      lt == r.args[1]
      asis == lt \in {"cr", "ls", "ps"}
      dv == IF asis THEN "Dev_LineTerminatorLFOnly" ELSE "" IN
  IF ~InJSErrorFamily(out) THEN Mis(HostDevOf(r), "outcome outside the JSError family")
  ELSE IF out.o = "syntax" /\ out.steps = 0 /\ ~PosSaneL(r.lens, out.line, out.col)
       THEN (IF asis /\ PosSaneL(r.lens2, out.line, out.col) THEN Mis(dv, "syntax error position: lines counted by LF only")
             ELSE Mis("", "syntax error position outside the source"))
  ELSE IF LtMustReject(r.fname, lt) /\ ~(out.o = "syntax" /\ out.steps = 0)
       THEN (IF out.o = "value" THEN Mis(dv, "a line terminator inside a comment / string / regular expression literal does not end it")
             ELSE Mis("", "malformed source not rejected by the front end"))
  ELSE IF LtMustBeString(r.fname, lt) /\ ~(out.o = "value" /\ r.vk = "str") THEN Mis("", "a string literal with a line continuation / LS / PS is not a string")
  ELSE Pass

Verdict(r) ==
  CASE r.kind = "cls" -> JudgeCls(r)
    [] r.kind = "lt" -> JudgeLt(r)
    [] r.kind = "long" -> JudgeLong(r)
    [] r.kind = "esc" -> JudgeEsc(r)
    [] r.kind = "stmt" -> JudgeStmt(r)
    [] r.kind = "nest" -> JudgeNest(r)
    [] r.kind = "chain" -> JudgeChain(r)
    [] r.kind = "scope" -> JudgeScope(r)
    [] r.kind = "src" -> JudgeSrc(r)
    [] r.kind = "call" -> JudgeCall(r)
    [] r.kind = "toks" -> JudgeToks(r)
    [] OTHER -> [v |-> "unsupported", dev |-> "", why |-> "unknown kind"]
JudgeInit == /\ rec_i \in 1..Len(Recs) /\ ph = "judge" /\ pf = "" /\ inp = <<>>
             /\ LET r == Recs[rec_i]  vd == Verdict(r)
                IN PrintT(ToJson([id |-> r.id, v |-> vd.v, dev |-> vd.dev, why |-> vd.why]))
JudgeNext == UNCHANGED vars
=============================================================================
