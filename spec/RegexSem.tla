------------------------------ MODULE RegexSem ------------------------------
(* ECMAScript regular expressions (ECMA-262 22.2.2, non-unicode mode) as a reference      *)
(* semantics executable by TLC.  Variable-free library module.                             *)
(*                                                                                         *)
(*  AST (tagged records, children in x):                                                   *)
(*    chr(c) any cls(neg,items) sh(c) bol eol wb nwb eps                                   *)
(*    cat(a,b) alt(a,b) rep(a,min,max,g) grp(n,a) ncg(a) bref(n) la(neg,a) lb(neg,a)       *)
(*  Matcher: M(node, state, direction, cx) = the ORDERED LIST of result states              *)
(*    (end position, captures) in backtracking priority order.  This is the               *)
(*    continuation matcher of 22.2.2 with the continuation factored out: a continuation    *)
(*    is tried on the elements in order, the first one it accepts is the match.            *)
(*  cx = [s |-> subject code units, f |-> [i, m, s] flags, devs |-> set of named            *)
(*    deviations switched on (as-is behaviour of the engine, DESIGN 2.3)].                  *)
EXTENDS Naturals, Integers, Sequences, FiniteSets, TLC, Str
LOCAL SX == INSTANCE SequencesExt      \* SX!FoldLeft (Java-overridden); named: its Min/Max on sets clash with Str's

\* ---- AST constructors ------------------------------------------------------------------
Chr(c)          == [t |-> "chr", c |-> c]
AnyC            == [t |-> "any"]
Cls(neg, items) == [t |-> "cls", neg |-> neg, items |-> items]  \* items: seq of [lo, hi]; [lo |-> -1, hi |-> letter] = \d \w \s ...
Sh(c)           == [t |-> "sh", c |-> c]                        \* c = code of d D w W s S
Bol == [t |-> "bol"]   Eol == [t |-> "eol"]   Wb == [t |-> "wb"]   Nwb == [t |-> "nwb"]   Eps == [t |-> "eps"]
Cat(a, b)       == [t |-> "cat", x |-> <<a, b>>]
Alt(a, b)       == [t |-> "alt", x |-> <<a, b>>]
Rep(a, mn, mx, g) == [t |-> "rep", min |-> mn, max |-> mx, g |-> g, x |-> <<a>>]   \* mx = -1: unbounded
Grp(n, a)       == [t |-> "grp", n |-> n, x |-> <<a>>]
Ncg(a)          == [t |-> "ncg", x |-> <<a>>]
Bref(n)         == [t |-> "bref", n |-> n]
La(neg, a)      == [t |-> "la", neg |-> neg, x |-> <<a>>]
Lb(neg, a)      == [t |-> "lb", neg |-> neg, x |-> <<a>>]
Rng(lo, hi)     == [lo |-> lo, hi |-> hi]
ShItem(c)       == [lo |-> -1, hi |-> c]

Flags(i, m, s)  == [i |-> i, m |-> m, s |-> s]
NoFlags         == Flags(FALSE, FALSE, FALSE)
NoCap           == <<-1, -1>>

Leaves == {"chr", "any", "cls", "sh", "bol", "eol", "wb", "nwb", "eps", "bref"}
Unary  == {"rep", "grp", "ncg", "la", "lb"}
Binary == {"cat", "alt"}

RECURSIVE GroupsIn(_)
GroupsIn(a) == IF a.t = "grp" THEN {a.n} \cup GroupsIn(a.x[1])
               ELSE IF a.t \in Binary THEN GroupsIn(a.x[1]) \cup GroupsIn(a.x[2])
               ELSE IF a.t \in Unary THEN GroupsIn(a.x[1])
               ELSE {}
RECURSIVE BrefsIn(_)
BrefsIn(a) == IF a.t = "bref" THEN {a.n}
              ELSE IF a.t \in Binary THEN BrefsIn(a.x[1]) \cup BrefsIn(a.x[2])
              ELSE IF a.t \in Unary THEN BrefsIn(a.x[1])
              ELSE {}
SetMax(S) == IF S = {} THEN 0 ELSE CHOOSE m \in S : \A k \in S : k <= m
NCaps(a) == SetMax(GroupsIn(a))
RECURSIVE Size(_)          \* number of operator nodes
Size(a) == IF a.t \in Binary THEN 1 + Size(a.x[1]) + Size(a.x[2])
           ELSE IF a.t \in Unary THEN 1 + Size(a.x[1]) ELSE 0
RECURSIVE Kinds(_)
Kinds(a) == IF a.t \in Binary THEN {a.t} \cup Kinds(a.x[1]) \cup Kinds(a.x[2])
            ELSE IF a.t \in Unary THEN {a.t} \cup Kinds(a.x[1]) ELSE {a.t}

\* ---- characters -------------------------------------------------------------------------
LineTerm == {10, 13, 8232, 8233}
IsWordUnit(c) == (c >= 48 /\ c <= 57) \/ (c >= 65 /\ c <= 90) \/ (c >= 97 /\ c <= 122) \/ c = 95
\* Canonicalize (22.2.2.7.3, non-unicode): toUpperCase; judged on ASCII only (documented restriction, DESIGN 4.4.6)
Canon(c, f) == IF f.i THEN UpperAscii(c) ELSE c
ShHas(letter, c) ==
  CASE letter = 100 -> IsDigitUnit(c)          [] letter = 68 -> ~IsDigitUnit(c)
    [] letter = 119 -> IsWordUnit(c)           [] letter = 87 -> ~IsWordUnit(c)
    [] letter = 115 -> c \in WhiteSpace        [] letter = 83 -> c \notin WhiteSpace
    [] OTHER -> FALSE
\* CharacterSetMatcher: some member a of the set has Canonicalize(a) = Canonicalize(ch).
\* On ASCII the members with the same canonical form as ch are ch, its upper and its lower case.
ItemHas(it, c, f) ==
  IF it.lo = -1 THEN ShHas(it.hi, c)            \* the shorthand sets are closed under ASCII case
  ELSE IF f.i THEN \E v \in {c, UpperAscii(c), LowerAscii(c)} : it.lo <= v /\ v <= it.hi
  ELSE it.lo <= c /\ c <= it.hi
UnitOK(a, c, f, devs) ==
  CASE a.t = "chr" -> Canon(a.c, f) = Canon(c, f)
    [] a.t = "any" -> f.s \/ c \notin LineTerm
    [] a.t = "sh"  -> ShHas(a.c, c)
    [] a.t = "cls" -> IF a.neg /\ f.i /\ "Dev_NegClassIgnoreCase" \in devs
                      THEN \* as-is (regex/vm.py RANGE_NEG): only the lower-cased unit is looked up in the ranges
                           ~(\E k \in 1..Len(a.items) : ItemHas(a.items[k], LowerAscii(c), NoFlags))
                      ELSE LET hit == \E k \in 1..Len(a.items) : ItemHas(a.items[k], c, f)
                           IN IF a.neg THEN ~hit ELSE hit
    [] OTHER -> FALSE
IsWordAt(s, e) == e >= 1 /\ e <= Len(s) /\ IsWordUnit(s[e])        \* the unit *before* position e is s[e]

\* ---- the matcher ---------------------------------------------------------------------------
St(e, c) == [e |-> e, c |-> c]
Dedupe(q) == IF Len(q) <= 1 THEN q
             ELSE SX!FoldLeft(LAMBDA acc, r : IF \E j \in 1..Len(acc) : acc[j] = r THEN acc ELSE Append(acc, r), <<>>, q)
ResetCaps(c, gs) == IF gs = {} THEN c ELSE [k \in 1..Len(c) |-> IF k \in gs THEN NoCap ELSE c[k]]

\* May the node match without consuming?  (the engine's RegexCompiler._needs_advance_check, used
\* only by the as-is rules below; the reference itself never needs it)
RECURSIVE NeedsAdv(_)
NeedsAdv(a) ==
  CASE a.t \in {"chr", "any", "cls", "sh"} -> FALSE
    [] a.t \in {"bol", "eol", "wb", "nwb", "la", "lb", "bref", "eps"} -> TRUE
    [] a.t \in {"grp", "ncg"} -> NeedsAdv(a.x[1])
    [] a.t = "rep" -> a.min = 0 \/ NeedsAdv(a.x[1])
    [] a.t = "cat" -> NeedsAdv(a.x[1]) /\ NeedsAdv(a.x[2])
    [] a.t = "alt" -> NeedsAdv(a.x[1]) \/ NeedsAdv(a.x[2])
    [] OTHER -> TRUE

RECURSIVE M(_, _, _, _), MAll(_, _, _, _, _), RM(_, _, _, _, _, _, _, _), RMAll(_, _, _, _, _, _, _, _, _),
          Copies(_, _, _, _, _), OptAsIs(_, _, _, _, _, _), OptChain(_, _, _, _, _, _, _)

\* all results of `a` started from each state of sts (in order) = sequencing
MAll(a, sts, k, d, cx) == IF k > Len(sts) THEN <<>> ELSE M(a, sts[k], d, cx) \o MAll(a, sts, k + 1, d, cx)

M(a, st, d, cx) ==
  CASE a.t = "eps" -> <<st>>
    [] a.t \in {"chr", "any", "cls", "sh"} ->
         LET p == IF d = 1 THEN st.e + 1 ELSE st.e                 \* 1-based index of the unit looked at
         IN IF p >= 1 /\ p <= Len(cx.s) /\ UnitOK(a, cx.s[p], cx.f, cx.devs) THEN <<St(st.e + d, st.c)>> ELSE <<>>
    [] a.t = "bol" -> IF "Dev_BolMEnd" \in cx.devs
                      THEN \* as-is (regex/vm.py LINE_START_M): never at the end of the input
                           (IF st.e = 0 \/ (cx.f.m /\ st.e < Len(cx.s) /\ cx.s[st.e] \in LineTerm) THEN <<st>> ELSE <<>>)
                      ELSE IF st.e = 0 \/ (cx.f.m /\ cx.s[st.e] \in LineTerm) THEN <<st>> ELSE <<>>
    [] a.t = "eol" -> IF st.e = Len(cx.s) \/ (cx.f.m /\ cx.s[st.e + 1] \in LineTerm) THEN <<st>> ELSE <<>>
    [] a.t = "wb"  -> IF IsWordAt(cx.s, st.e) # IsWordAt(cx.s, st.e + 1) THEN <<st>> ELSE <<>>
    [] a.t = "nwb" -> IF IsWordAt(cx.s, st.e) = IsWordAt(cx.s, st.e + 1) THEN <<st>> ELSE <<>>
    [] a.t = "cat" -> LET fst == IF d = 1 THEN a.x[1] ELSE a.x[2]
                          snd == IF d = 1 THEN a.x[2] ELSE a.x[1]
                      IN MAll(snd, M(fst, st, d, cx), 1, d, cx)
    [] a.t = "alt" -> M(a.x[1], st, d, cx) \o M(a.x[2], st, d, cx)
    [] a.t = "ncg" -> M(a.x[1], st, d, cx)
    [] a.t = "grp" -> LET rs == M(a.x[1], st, d, cx)
                      IN [k \in 1..Len(rs) |->
                            St(rs[k].e, [rs[k].c EXCEPT ![a.n] = IF d = 1 THEN <<st.e, rs[k].e>> ELSE <<rs[k].e, st.e>>])]
    [] a.t = "bref" ->
         LET cp == st.c[a.n] IN
         IF cp = NoCap THEN <<st>>                                       \* undefined capture: matches empty
         ELSE LET n  == cp[2] - cp[1]
                  ne == st.e + d * n
                  lo == IF d = 1 THEN st.e ELSE ne
              IN IF ne < 0 \/ ne > Len(cx.s) THEN <<>>
                 ELSE IF \A j \in 1..n : Canon(cx.s[cp[1] + j], cx.f) = Canon(cx.s[lo + j], cx.f)
                      THEN <<St(ne, st.c)>> ELSE <<>>
    [] a.t = "la" -> LET rs == M(a.x[1], st, 1, cx)
                     IN IF a.neg THEN (IF rs = <<>> THEN <<st>> ELSE <<>>)
                        ELSE (IF rs = <<>> THEN <<>> ELSE <<St(st.e, rs[1].c)>>)
    [] a.t = "lb" ->
         IF "Dev_LbForwardCaptures" \in cx.devs
         THEN \* residual as-is rule once the sub-matchers share the main loop (proposed_fixes/C09-lookaround-one-loop): for
              \* start = e, e-1, .., 0 run the body *forward*; the first result (in priority order) that ends at e wins, its captures stay
              LET Ends(b) == SelectSeq(M(a.x[1], St(b, st.c), 1, cx), LAMBDA r : r.e = st.e)
                  hits == {b \in 0..st.e : Ends(b) # <<>>}
              IN IF hits = {} THEN (IF a.neg THEN <<st>> ELSE <<>>)
                 ELSE (IF a.neg THEN <<>> ELSE <<St(st.e, Ends(SetMax(hits))[1].c)>>)
         ELSE IF "Dev_LbForward" \in cx.devs
         THEN \* as-is (regex/vm.py _execute_lookbehind): for start = e, e-1, .., 0 run the body *forward*
              \* from start, look only at its first result, succeed iff that one ends at e; captures dropped
              LET hit == \E b \in 0..st.e : LET rs == M(a.x[1], St(b, [k \in 1..Len(st.c) |-> NoCap]), 1, cx)
                                            IN rs # <<>> /\ rs[1].e = st.e
              IN IF hit # a.neg THEN <<st>> ELSE <<>>
         ELSE LET rs == M(a.x[1], st, -1, cx)
              IN IF a.neg THEN (IF rs = <<>> THEN <<st>> ELSE <<>>)
                 ELSE (IF rs = <<>> THEN <<>> ELSE <<St(st.e, rs[1].c)>>)
    [] a.t = "rep" ->
         LET gs == GroupsIn(a.x[1])
             counted == ~(a.min = 0 /\ a.max = 1) /\ ~(a.min <= 1 /\ a.max = -1)
         IN IF counted /\ "Dev_CountedUnroll" \in cx.devs
            THEN \* as-is (regex/compiler.py _compile_range/_compile_at_least): min plain copies of the body
                 \* (no capture reset), then a star, respectively max-min independent optionals
                 LET pre == Copies(a.x[1], a.min, <<st>>, d, cx)
                 IN IF a.max = -1 THEN Dedupe(RMAll(a.x[1], gs, 0, -1, a.g, pre, 1, d, cx))
                    ELSE Dedupe(OptChain(a.x[1], gs, a.g, a.max - a.min, pre, d, cx))
            ELSE IF a.min = 0 /\ a.max = 1 /\ "Dev_OptionalEmpty" \in cx.devs
            THEN OptAsIs(a.x[1], gs, a.g, st, d, cx)
            ELSE RM(a.x[1], gs, a.min, a.max, a.g, st, d, cx)

\* RepeatMatcher (22.2.2.3.1): captures of the body are cleared at the start of every iteration; once
\* min has reached 0 an iteration that consumes nothing is rejected.
RM(b, gs, mn, mx, g, st, d, cx) ==
  IF mx = 0 THEN <<st>>
  ELSE LET it == M(b, St(st.e, ResetCaps(st.c, gs)), d, cx)
           \* as-is (regex/compiler.py _compile_plus): CHECK_ADVANCE also guards the mandatory first iteration of +
           strict == mn = 0 \/ ("Dev_PlusAdvance" \in cx.devs /\ mx = -1)
           ok == IF strict THEN SelectSeq(it, LAMBDA r : r.e # st.e) ELSE it
           deeper == Dedupe(RMAll(b, gs, IF mn = 0 THEN 0 ELSE mn - 1, IF mx = -1 THEN -1 ELSE mx - 1, g, ok, 1, d, cx))
       IN IF mn > 0 THEN deeper ELSE IF g THEN deeper \o <<st>> ELSE <<st>> \o deeper
RMAll(b, gs, mn, mx, g, sts, k, d, cx) ==
  IF k > Len(sts) THEN <<>> ELSE RM(b, gs, mn, mx, g, sts[k], d, cx) \o RMAll(b, gs, mn, mx, g, sts, k + 1, d, cx)

\* ---- as-is lowering of counted quantifiers (named deviations, used only when switched on) ----
Copies(b, n, sts, d, cx) == IF n = 0 THEN sts ELSE Copies(b, n - 1, MAll(b, sts, 1, d, cx), d, cx)
\* one `?` as the engine compiles it: greedy = reset; [set_pos]; split; body; [reset if no advance]
\*                                    lazy   = split(skip first, *unreset*); [set_pos]; reset; body; [reset if no advance]
OptAsIs(b, gs, g, st, d, cx) ==
  LET st0 == St(st.e, ResetCaps(st.c, gs))
      zw  == gs # {} /\ NeedsAdv(b)
      it  == M(b, st0, d, cx)
      it2 == IF zw THEN [k \in 1..Len(it) |-> IF it[k].e = st.e THEN St(it[k].e, ResetCaps(it[k].c, gs)) ELSE it[k]] ELSE it
  IN IF g THEN it2 \o <<st0>> ELSE <<st>> \o it2
RECURSIVE OptAll(_, _, _, _, _, _, _)
OptAll(b, gs, g, sts, k, d, cx) ==
  IF k > Len(sts) THEN <<>> ELSE OptAsIs(b, gs, g, sts[k], d, cx) \o OptAll(b, gs, g, sts, k + 1, d, cx)
OptChain(b, gs, g, n, sts, d, cx) == IF n = 0 THEN sts ELSE OptChain(b, gs, g, n - 1, Dedupe(OptAll(b, gs, g, sts, 1, d, cx)), d, cx)

\* ---- where the engine's matcher is known to deviate (structural predicates used by the judges) ---------------
\* exact as-is rules are switched on through cx.devs above; these say on which trees each of them can matter
RECURSIVE HasNegClass(_)
HasNegClass(a) == \/ a.t = "cls" /\ a.neg
                  \/ a.t \in Unary /\ HasNegClass(a.x[1])
                  \/ a.t \in Binary /\ (HasNegClass(a.x[1]) \/ HasNegClass(a.x[2]))
RECURSIVE RepsIn(_)
RepsIn(a) == (IF a.t = "rep" THEN {<<a.min, a.max, NeedsAdv(a.x[1])>>} ELSE {})
             \cup (IF a.t \in Binary THEN RepsIn(a.x[1]) \cup RepsIn(a.x[2]) ELSE IF a.t \in Unary THEN RepsIn(a.x[1]) ELSE {})
Applicable(a, f) ==
  (IF \E r \in RepsIn(a) : ~(r[1] = 0 /\ r[2] = 1) /\ ~(r[1] <= 1 /\ r[2] = -1) THEN {"Dev_CountedUnroll"} ELSE {})
  \cup (IF \E r \in RepsIn(a) : r[1] >= 1 /\ r[2] = -1 /\ r[3] THEN {"Dev_PlusAdvance"} ELSE {})
  \cup (IF \E r \in RepsIn(a) : r[1] = 0 /\ r[2] = 1 THEN {"Dev_OptionalEmpty"} ELSE {})
  \cup (IF "lb" \in Kinds(a) THEN {"Dev_LbForward", "Dev_LbForwardCaptures"} ELSE {})
  \cup (IF "bol" \in Kinds(a) /\ f.m THEN {"Dev_BolMEnd"} ELSE {})
  \cup (IF f.i /\ HasNegClass(a) THEN {"Dev_NegClassIgnoreCase"} ELSE {})
\* ... and input-class deviations for the two sub-matchers, which skip the opcodes they do not know
\* (regex/vm.py _execute_lookahead: only CHAR, DOT, SAVE_START/END, SPLIT, JUMP, MATCH are interpreted)
RECURSIVE SubOK(_, _, _)
SubOK(a, f, kind) ==                     \* is the node interpreted faithfully by sub-matcher `kind` ("la" / "lb") ?
  CASE a.t = "chr" -> TRUE
    [] a.t = "any" -> ~f.s
    [] a.t = "sh" -> kind = "lb" /\ a.c \in {100, 119}
    [] a.t \in {"cat", "alt"} -> SubOK(a.x[1], f, kind) /\ SubOK(a.x[2], f, kind)
    [] a.t = "ncg" -> SubOK(a.x[1], f, kind)
    [] a.t = "grp" -> kind = "la" /\ SubOK(a.x[1], f, kind)
    [] a.t = "rep" -> /\ SubOK(a.x[1], f, kind) /\ ~NeedsAdv(a.x[1]) /\ GroupsIn(a.x[1]) = {}      \* no SET_POS/CHECK_ADVANCE/SAVE_RESET needed
    [] a.t = "eps" -> TRUE
    [] OTHER -> FALSE
RECURSIVE SubBad(_, _, _)
SubBad(a, f, kind) ==                    \* some lookaround of that kind has a body the sub-matcher mis-executes
  \/ a.t = kind /\ ~SubOK(a.x[1], f, kind)
  \/ a.t \in Unary /\ SubBad(a.x[1], f, kind)
  \/ a.t \in Binary /\ (SubBad(a.x[1], f, kind) \/ SubBad(a.x[2], f, kind))
\* does a backreference precede (in pattern text) the group it names?  (regex/parser.py counts groups while parsing)
RECURSIVE Fwd(_, _)
Fwd(a, n) == IF a.t = "bref" THEN [bad |-> a.n > n, n |-> n]
             ELSE IF a.t = "grp" THEN Fwd(a.x[1], n + 1)
             ELSE IF a.t \in Unary THEN Fwd(a.x[1], n)
             ELSE IF a.t \in Binary THEN LET l == Fwd(a.x[1], n)  r == Fwd(a.x[2], l.n) IN [bad |-> l.bad \/ r.bad, n |-> r.n]
             ELSE [bad |-> FALSE, n |-> n]
\* a lookaround body with a loop that relies on CHECK_ADVANCE (which the sub-matchers skip): spins until the stack limit
RECURSIVE HasSpin(_, _, _), SpinBad(_, _)
\* a loop whose body consumes nothing *as the sub-matcher executes it* (it can match empty, or it is an opcode the sub-matcher skips)
HasSpin(a, f, kind) == \/ a.t = "rep" /\ a.max = -1 /\ (NeedsAdv(a.x[1]) \/ ~SubOK(a.x[1], f, kind))
                       \/ a.t \in Unary /\ HasSpin(a.x[1], f, kind)
                       \/ a.t \in Binary /\ (HasSpin(a.x[1], f, kind) \/ HasSpin(a.x[2], f, kind))
SpinBad(a, f) == \/ a.t \in {"la", "lb"} /\ HasSpin(a.x[1], f, a.t)
                 \/ a.t \in Unary /\ SpinBad(a.x[1], f)
                 \/ a.t \in Binary /\ (SpinBad(a.x[1], f) \/ SpinBad(a.x[2], f))

\* ---- match attempts ---------------------------------------------------------------------------
NoMatch == [ok |-> FALSE, index |-> -1, end |-> -1, caps |-> <<>>]
Cx(s, f, devs) == [s |-> s, f |-> f, devs |-> devs]
\* all results of one attempt at position i
AttemptAll(ast, s, f, i, devs) == M(ast, St(i, [k \in 1..NCaps(ast) |-> NoCap]), 1, Cx(s, f, devs))
Attempt(ast, s, f, i, devs) ==
  LET rs == AttemptAll(ast, s, f, i, devs)
  IN IF rs = <<>> THEN NoMatch ELSE [ok |-> TRUE, index |-> i, end |-> rs[1].e, caps |-> rs[1].c]
RECURSIVE Search(_, _, _, _, _)
Search(ast, s, f, from, devs) ==
  IF from > Len(s) THEN NoMatch
  ELSE LET r == Attempt(ast, s, f, from, devs) IN IF r.ok THEN r ELSE Search(ast, s, f, from + 1, devs)

\* the texts an exec() result shows: <<match, capture 1, ...>>; an undefined capture is <<-1>>
UndefText == <<-1>>
CapText(s, cp) == IF cp = NoCap THEN UndefText ELSE Slice(s, cp[1], cp[2])
GroupTexts(s, r) == <<Slice(s, r.index, r.end)>> \o [k \in 1..Len(r.caps) |-> CapText(s, r.caps[k])]

\* ---- Render: AST -> pattern text (code units) ---------------------------------------------------
SyntaxUnits == {94, 36, 92, 46, 42, 43, 63, 40, 41, 91, 93, 123, 125, 124, 47}    \* ^ $ \ . * + ? ( ) [ ] { } | /
RChar(c) == IF c = 10 THEN <<92, 110>> ELSE IF c \in SyntaxUnits THEN <<92, c>> ELSE <<c>>
RClassChar(c) == IF c = 10 THEN <<92, 110>> ELSE IF c \in {92, 93, 94, 45} THEN <<92, c>> ELSE <<c>>
RItem(it) == IF it.lo = -1 THEN <<92, it.hi>>
             ELSE IF it.lo = it.hi THEN RClassChar(it.lo) ELSE RClassChar(it.lo) \o <<45>> \o RClassChar(it.hi)
RQuant(mn, mx, g) ==
  (CASE mn = 0 /\ mx = -1 -> <<42>>  [] mn = 1 /\ mx = -1 -> <<43>>  [] mn = 0 /\ mx = 1 -> <<63>>
     [] mn = mx -> <<123>> \o DigitsOf(mn) \o <<125>>
     [] mx = -1 -> <<123>> \o DigitsOf(mn) \o <<44, 125>>
     [] OTHER -> <<123>> \o DigitsOf(mn) \o <<44>> \o DigitsOf(mx) \o <<125>>) \o (IF g THEN <<>> ELSE <<63>>)
NcWrap(u) == <<40, 63, 58>> \o u \o <<41>>
RECURSIVE R(_, _), EndsBref(_)
\* lvl 0: inside a disjunction; 1: inside an alternative; 2: operand of a quantifier (must be one Atom)
R(a, lvl) ==
  CASE a.t = "chr" -> RChar(a.c)
    [] a.t = "any" -> <<46>>
    [] a.t = "sh"  -> <<92, a.c>>
    [] a.t = "cls" -> <<91>> \o (IF a.neg THEN <<94>> ELSE <<>>) \o Flatten([k \in 1..Len(a.items) |-> RItem(a.items[k])]) \o <<93>>
    [] a.t = "bref" -> <<92>> \o DigitsOf(a.n)
    [] a.t = "grp" -> <<40>> \o R(a.x[1], 0) \o <<41>>
    [] a.t = "ncg" -> NcWrap(R(a.x[1], 0))
    [] OTHER ->
        LET u == CASE a.t = "eps" -> <<>>
                   [] a.t = "bol" -> <<94>>   [] a.t = "eol" -> <<36>>
                   [] a.t = "wb"  -> <<92, 98>>  [] a.t = "nwb" -> <<92, 66>>
                   [] a.t = "la"  -> <<40, 63>> \o (IF a.neg THEN <<33>> ELSE <<61>>) \o R(a.x[1], 0) \o <<41>>
                   [] a.t = "lb"  -> <<40, 63, 60>> \o (IF a.neg THEN <<33>> ELSE <<61>>) \o R(a.x[1], 0) \o <<41>>
                   [] a.t = "rep" -> R(a.x[1], 2) \o RQuant(a.min, a.max, a.g)
                   [] a.t = "cat" -> LET l == R(a.x[1], 1)  r == R(a.x[2], 1)
                                     IN IF r # <<>> /\ IsDigitUnit(r[1]) /\ EndsBref(a.x[1]) THEN l \o NcWrap(r) ELSE l \o r
                   [] a.t = "alt" -> R(a.x[1], 0) \o <<124>> \o R(a.x[2], 0)
            wrap == lvl = 2 \/ (a.t = "alt" /\ lvl = 1)
        IN IF wrap THEN NcWrap(u) ELSE u
EndsBref(a) == IF a.t = "bref" THEN TRUE
               ELSE IF a.t = "cat" THEN (IF R(a.x[2], 1) = <<>> THEN EndsBref(a.x[1]) ELSE EndsBref(a.x[2]))
               ELSE FALSE
Render(a) == R(a, 0)

\* ---- Renumber: capture groups numbered by their opening parenthesis, left to right ----------------
RECURSIVE Ren(_, _)        \* -> [a |-> ast, n |-> groups used so far]
Ren(a, n) ==
  IF a.t = "grp" THEN LET r == Ren(a.x[1], n + 1) IN [a |-> Grp(n + 1, r.a), n |-> r.n]
  ELSE IF a.t \in Unary THEN LET r == Ren(a.x[1], n) IN [a |-> [a EXCEPT !.x = <<r.a>>], n |-> r.n]
  ELSE IF a.t \in Binary THEN LET r1 == Ren(a.x[1], n)  r2 == Ren(a.x[2], r1.n)
                              IN [a |-> [a EXCEPT !.x = <<r1.a, r2.a>>], n |-> r2.n]
  ELSE [a |-> a, n |-> n]
Renumber(a) == Ren(a, 0).a
WellNumbered(a) == Renumber(a) = a /\ \A k \in BrefsIn(a) : k >= 1 /\ k <= NCaps(a)

\* ---- Pattern grammar: text -> AST (acceptor) -------------------------------------------------------
\* mode "strict": the grammar of 22.2.1 (non-unicode, no named groups);  option "B": the B.1.2 additions.
\* A pattern the two modes disagree on is implementation-defined territory ("outside", not judged).
IsB(md) == "B" \in md
HexVal(c) == IF c >= 48 /\ c <= 57 THEN c - 48 ELSE IF c >= 97 /\ c <= 102 THEN c - 87 ELSE IF c >= 65 /\ c <= 70 THEN c - 55 ELSE -1
IsIdContinueAscii(c) == IsWordUnit(c)            \* UnicodeIDContinue restricted to ASCII ($ is not ID_Continue)
IsAsciiLetter(c) == (c >= 65 /\ c <= 90) \/ (c >= 97 /\ c <= 122)
At(p, i) == IF i >= 1 /\ i <= Len(p) THEN p[i] ELSE -1
PFail == [ok |-> FALSE, i |-> 0, a |-> Eps, ng |-> 0, mb |-> 0]
POk(i, a, ng, mb) == [ok |-> TRUE, i |-> i, a |-> a, ng |-> ng, mb |-> mb]
RECURSIVE DigitsEnd(_, _)
DigitsEnd(p, i) == IF IsDigitUnit(At(p, i)) THEN DigitsEnd(p, i + 1) ELSE i     \* first index >= i that is not a digit
\* {n} {n,} {n,m} at i ?   -> [ok, min, max, i (after the brace), big]
Brace(p, i) ==
  LET none == [ok |-> FALSE, min |-> 0, max |-> 0, i |-> i, big |-> FALSE] IN
  IF At(p, i) # 123 THEN none
  ELSE LET j == DigitsEnd(p, i + 1) IN
       IF j = i + 1 THEN none
       ELSE LET big1 == j - (i + 1) > 9
                mn == IF big1 THEN 0 ELSE DigitsVal(SubSeq(p, i + 1, j - 1)) IN
            IF At(p, j) = 125 THEN [ok |-> TRUE, min |-> mn, max |-> mn, i |-> j + 1, big |-> big1]
            ELSE IF At(p, j) # 44 THEN none
            ELSE LET k == DigitsEnd(p, j + 1) IN
                 IF At(p, k) # 125 THEN none
                 ELSE IF k = j + 1 THEN [ok |-> TRUE, min |-> mn, max |-> -1, i |-> k + 1, big |-> big1]
                 ELSE LET big2 == k - (j + 1) > 9
                          mx == IF big2 THEN 0 ELSE DigitsVal(SubSeq(p, j + 1, k - 1))
                      IN [ok |-> TRUE, min |-> mn, max |-> mx, i |-> k + 1, big |-> big1 \/ big2]

\* CharacterEscape after the backslash, at i (shared by atoms and classes) -> [ok, c, i]
EscFail == [ok |-> FALSE, c |-> 0, i |-> 0]
CharEscape(p, i, md, inClass) ==
  LET c == At(p, i) IN
  IF c = -1 THEN EscFail
  ELSE IF c = 110 THEN [ok |-> TRUE, c |-> 10, i |-> i + 1]
  ELSE IF c = 116 THEN [ok |-> TRUE, c |-> 9, i |-> i + 1]
  ELSE IF c = 114 THEN [ok |-> TRUE, c |-> 13, i |-> i + 1]
  ELSE IF c = 102 THEN [ok |-> TRUE, c |-> 12, i |-> i + 1]
  ELSE IF c = 118 THEN [ok |-> TRUE, c |-> 11, i |-> i + 1]
  ELSE IF c = 48 /\ ~IsDigitUnit(At(p, i + 1)) THEN [ok |-> TRUE, c |-> 0, i |-> i + 1]
  ELSE IF c = 99 /\ IsAsciiLetter(At(p, i + 1)) THEN [ok |-> TRUE, c |-> At(p, i + 1) % 32, i |-> i + 2]
  ELSE IF c = 120 /\ HexVal(At(p, i + 1)) >= 0 /\ HexVal(At(p, i + 2)) >= 0
       THEN [ok |-> TRUE, c |-> 16 * HexVal(At(p, i + 1)) + HexVal(At(p, i + 2)), i |-> i + 3]
  ELSE IF c = 117 /\ \A k \in 1..4 : HexVal(At(p, i + k)) >= 0
       THEN [ok |-> TRUE, c |-> 4096 * HexVal(At(p, i + 1)) + 256 * HexVal(At(p, i + 2)) + 16 * HexVal(At(p, i + 3)) + HexVal(At(p, i + 4)), i |-> i + 5]
  ELSE IF ~IsIdContinueAscii(c) THEN [ok |-> TRUE, c |-> c, i |-> i + 1]         \* IdentityEscape
  ELSE IF IsB(md) /\ (c # 99 \/ inClass) THEN [ok |-> TRUE, c |-> c, i |-> i + 1]   \* B.1.2: any character but c (value not judged)
  ELSE EscFail

\* ClassAtom at i -> [ok, it (item), sh (is a class escape like \d), i]
ClassAtom(p, i, md) ==
  LET c == At(p, i)  bad == [ok |-> FALSE, it |-> Rng(0, 0), sh |-> FALSE, i |-> 0] IN
  IF c = -1 \/ c = 93 THEN bad
  ELSE IF c # 92 THEN [ok |-> TRUE, it |-> Rng(c, c), sh |-> FALSE, i |-> i + 1]
  ELSE LET e == At(p, i + 1) IN
       IF e \in {100, 68, 119, 87, 115, 83} THEN [ok |-> TRUE, it |-> ShItem(e), sh |-> TRUE, i |-> i + 2]
       ELSE IF e = 98 THEN [ok |-> TRUE, it |-> Rng(8, 8), sh |-> FALSE, i |-> i + 2]
       ELSE IF e = 45 THEN [ok |-> TRUE, it |-> Rng(45, 45), sh |-> FALSE, i |-> i + 2]
       ELSE IF IsB(md) /\ e = 99 THEN [ok |-> TRUE, it |-> Rng(92, 92), sh |-> FALSE, i |-> i + 1]   \* \c not followed by a control letter: the backslash itself
       ELSE IF IsB(md) /\ IsDigitUnit(e) THEN [ok |-> TRUE, it |-> Rng(0, 0), sh |-> FALSE, i |-> DigitsEnd(p, i + 1)]  \* legacy octal (value not judged)
       ELSE LET ce == CharEscape(p, i + 1, md, TRUE)
            IN IF ce.ok THEN [ok |-> TRUE, it |-> Rng(ce.c, ce.c), sh |-> FALSE, i |-> ce.i] ELSE bad
RECURSIVE ClassItems(_, _, _, _)       \* after "[" and optional "^": -> [ok, items, i (after "]")]
ClassItems(p, i, md, acc) ==
  IF At(p, i) = -1 THEN [ok |-> FALSE, items |-> <<>>, i |-> 0]
  ELSE IF At(p, i) = 93 THEN [ok |-> TRUE, items |-> acc, i |-> i + 1]
  ELSE LET a1 == ClassAtom(p, i, md) IN
       IF ~a1.ok THEN [ok |-> FALSE, items |-> <<>>, i |-> 0]
       ELSE IF At(p, a1.i) = 45 /\ At(p, a1.i + 1) \notin {93, -1}
       THEN LET a2 == ClassAtom(p, a1.i + 1, md) IN
            IF ~a2.ok THEN [ok |-> FALSE, items |-> <<>>, i |-> 0]
            ELSE IF a1.sh \/ a2.sh
                 THEN (IF IsB(md) THEN ClassItems(p, a2.i, md, acc \o <<a1.it, Rng(45, 45), a2.it>>)
                       ELSE [ok |-> FALSE, items |-> <<>>, i |-> 0])
            ELSE IF a1.it.lo > a2.it.lo /\ "rangeOrder" \notin md THEN [ok |-> FALSE, items |-> <<>>, i |-> 0]            \* range out of order
            ELSE ClassItems(p, a2.i, md, Append(acc, Rng(a1.it.lo, a2.it.lo)))
       ELSE ClassItems(p, a1.i, md, Append(acc, a1.it))

RECURSIVE PDisj(_, _, _, _, _), PAlt(_, _, _, _, _, _), PTerm(_, _, _, _, _)
MkCat(ts) == IF ts = <<>> THEN Eps ELSE SX!FoldLeft(LAMBDA acc, k : Cat(ts[Len(ts) - k], acc), ts[Len(ts)], [k \in 1..(Len(ts) - 1) |-> k])
\* Quantifier after an atom ending at i (atom = r)
WithQuant(p, r, md) ==
  LET c == At(p, r.i)
      br == Brace(p, r.i)
      q == IF c = 42 THEN [ok |-> TRUE, min |-> 0, max |-> -1, i |-> r.i + 1, big |-> FALSE]
           ELSE IF c = 43 THEN [ok |-> TRUE, min |-> 1, max |-> -1, i |-> r.i + 1, big |-> FALSE]
           ELSE IF c = 63 THEN [ok |-> TRUE, min |-> 0, max |-> 1, i |-> r.i + 1, big |-> FALSE]
           ELSE br
  IN IF ~q.ok THEN r
     ELSE IF q.max # -1 /\ q.max < q.min /\ ~q.big /\ "quantOrder" \notin md THEN PFail                       \* numbers out of order
     ELSE LET lazy == At(p, q.i) = 63
          IN POk(IF lazy THEN q.i + 1 ELSE q.i, Rep(r.a, q.min, q.max, ~lazy), r.ng, r.mb)
Group(p, i, ng, mb, md, mk(_), quant) ==          \* body at i, then ")"
  LET b == PDisj(p, i, ng, mb, md) IN
  IF ~b.ok \/ At(p, b.i) # 41 THEN PFail
  ELSE LET r == POk(b.i + 1, mk(b.a), b.ng, b.mb) IN IF quant THEN WithQuant(p, r, md) ELSE r
PTerm(p, i, ng, mb, md) ==
  LET c == At(p, i) IN
  CASE c = 94 -> (IF "asQuant" \in md THEN WithQuant(p, POk(i + 1, Bol, ng, mb), md) ELSE POk(i + 1, Bol, ng, mb))
    [] c = 36 -> (IF "asQuant" \in md THEN WithQuant(p, POk(i + 1, Eol, ng, mb), md) ELSE POk(i + 1, Eol, ng, mb))
    [] c = 46 -> WithQuant(p, POk(i + 1, AnyC, ng, mb), md)
    [] c \in {42, 43, 63, 41, 124, -1} -> PFail                                   \* nothing to repeat / not a term
    [] c = 123 -> IF IsB(md) /\ ~Brace(p, i).ok THEN WithQuant(p, POk(i + 1, Chr(c), ng, mb), md) ELSE PFail
    [] c \in {125, 93} -> IF IsB(md) THEN WithQuant(p, POk(i + 1, Chr(c), ng, mb), md) ELSE PFail
    [] c = 91 -> LET neg == At(p, i + 1) = 94
                     ci == ClassItems(p, IF neg THEN i + 2 ELSE i + 1, md, <<>>)
                 IN IF ci.ok THEN WithQuant(p, POk(ci.i, Cls(neg, ci.items), ng, mb), md) ELSE PFail
    [] c = 40 ->
         IF At(p, i + 1) # 63 THEN Group(p, i + 1, ng + 1, mb, md, LAMBDA b : Grp(ng + 1, b), TRUE)
         ELSE LET k == At(p, i + 2) IN
              IF k = 58 THEN Group(p, i + 3, ng, mb, md, LAMBDA b : Ncg(b), TRUE)
              ELSE IF k = 61 THEN Group(p, i + 3, ng, mb, md, LAMBDA b : La(FALSE, b), IsB(md))      \* B.1.2: lookaheads are quantifiable
              ELSE IF k = 33 THEN Group(p, i + 3, ng, mb, md, LAMBDA b : La(TRUE, b), IsB(md))
              ELSE IF k = 60 /\ At(p, i + 3) = 61 THEN Group(p, i + 4, ng, mb, md, LAMBDA b : Lb(FALSE, b), "lbQuant" \in md)
              ELSE IF k = 60 /\ At(p, i + 3) = 33 THEN Group(p, i + 4, ng, mb, md, LAMBDA b : Lb(TRUE, b), "lbQuant" \in md)
              ELSE PFail                                                              \* incl. named groups: not in the supported syntax
    [] c = 92 ->
         LET e == At(p, i + 1) IN
         IF e = 98 THEN (IF "asQuant" \in md THEN WithQuant(p, POk(i + 2, Wb, ng, mb), md) ELSE POk(i + 2, Wb, ng, mb))
         ELSE IF e = 66 THEN (IF "asQuant" \in md THEN WithQuant(p, POk(i + 2, Nwb, ng, mb), md) ELSE POk(i + 2, Nwb, ng, mb))
         ELSE IF e \in {100, 68, 119, 87, 115, 83} THEN WithQuant(p, POk(i + 2, Sh(e), ng, mb), md)
         ELSE IF e >= 49 /\ e <= 57
              THEN LET j == DigitsEnd(p, i + 1)
                       n == IF j - (i + 1) > 9 THEN 1000000 ELSE DigitsVal(SubSeq(p, i + 1, j - 1))
                   IN WithQuant(p, POk(j, Bref(n), ng, Max(mb, n)), md)
         ELSE IF IsB(md) /\ e = 99 /\ ~IsAsciiLetter(At(p, i + 2)) THEN WithQuant(p, POk(i + 1, Chr(92), ng, mb), md)
         ELSE IF IsB(md) /\ e = 48 THEN WithQuant(p, POk(DigitsEnd(p, i + 1), Chr(0), ng, mb), md)  \* legacy octal (value not judged)
         ELSE LET ce == CharEscape(p, i + 1, md, FALSE)
              IN IF ce.ok THEN WithQuant(p, POk(ce.i, Chr(ce.c), ng, mb), md) ELSE PFail
    [] OTHER -> WithQuant(p, POk(i + 1, Chr(c), ng, mb), md)
PAlt(p, i, ng, mb, md, acc) ==
  IF At(p, i) \in {-1, 124, 41} THEN POk(i, MkCat(acc), ng, mb)
  ELSE LET t == PTerm(p, i, ng, mb, md) IN IF ~t.ok THEN PFail ELSE PAlt(p, t.i, t.ng, t.mb, md, Append(acc, t.a))
PDisj(p, i, ng, mb, md) ==
  LET l == PAlt(p, i, ng, mb, md, <<>>) IN
  IF ~l.ok THEN PFail
  ELSE IF At(p, l.i) # 124 THEN l
  ELSE LET r == PDisj(p, l.i + 1, l.ng, l.mb, md) IN IF ~r.ok THEN PFail ELSE POk(r.i, Alt(l.a, r.a), r.ng, r.mb)

\* md: set of options.  "B": the Annex B grammar;  "rangeOrder" / "quantOrder" / "lbQuant" / "asQuant" (a quantifier after ^ $ \b \B) / "fwdRef": one early error or
\* restriction relaxed (used by C10 to name the rule an engine gets wrong)
ParseOpt(p, md) ==
  LET r == PDisj(p, 1, 0, 0, md) IN
  IF ~r.ok \/ r.i # Len(p) + 1 THEN PFail
  ELSE IF r.mb > r.ng THEN (IF IsB(md) THEN r ELSE PFail)       \* \n beyond the groups: legacy octal in B.1.2, else an early error
  ELSE r
ParseMode(p, annexB) == ParseOpt(p, IF annexB THEN {"B"} ELSE {})
Parse(p) == ParseOpt(p, {})
\* "accept": in the grammar of 22.2.1;  "reject": not even in the B.1.2 grammar;  "outside": implementation-defined
Classify(p) == IF ParseMode(p, FALSE).ok THEN "accept" ELSE IF ParseMode(p, TRUE).ok THEN "outside" ELSE "reject"

\* normal form for the round-trip law: (?:x) is x, sequences and alternations nest to the right, eps vanishes in sequences
RECURSIVE Norm(_), CatList(_), AltList(_)
CatList(a) == IF a.t = "cat" THEN CatList(a.x[1]) \o CatList(a.x[2])
              ELSE IF a.t = "ncg" THEN CatList(a.x[1])
              ELSE IF a.t = "eps" THEN <<>> ELSE <<Norm(a)>>
AltList(a) == IF a.t = "alt" THEN AltList(a.x[1]) \o AltList(a.x[2])
              ELSE IF a.t = "ncg" THEN AltList(a.x[1])
              ELSE LET n == Norm(a) IN IF n.t = "alt" THEN AltList(n) ELSE <<n>>     \* (?:|(?:a|b)) collapses to an alternation
Norm(a) ==
  CASE a.t = "ncg" -> Norm(a.x[1])
    [] a.t = "cat" -> MkCat(CatList(a))
    [] a.t = "alt" -> LET ts == AltList(a) IN SX!FoldLeft(LAMBDA acc, k : Alt(ts[Len(ts) - k], acc), ts[Len(ts)], [k \in 1..(Len(ts) - 1) |-> k])
    [] a.t \in {"rep", "grp", "la", "lb"} -> [a EXCEPT !.x = <<Norm(a.x[1])>>]
    [] OTHER -> a
=============================================================================
