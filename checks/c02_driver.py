"""C02 driver: renders bodies / recursion shapes, runs them with the depth recorder on."""
from harness import bytecode

INNER_OPEN = {
    "while": "var j=0; while(j<2){ j++; ", "dowhile": "var j=0; do { j++; ", "for": "for (var j=1;j<3;j++){ ",
    "forin": "var j=0; for (var k in {a:1,b:2,c:3}){ j++; ", "forof": "var j=0; for (var v of [7,8,9]){ j++; ",
    "switch": "var j=1; switch(j){ case 0: acc+=1; case 1: ", "block": "var j=1; blk: { ", "none": "var j=1; { ",
    # every update form on every storage class a name can have (cv: global, or a variable of the enclosing function in the
    # places closure_loop / func_loop; lv: declared here; ob.p / ar[0]: member and element targets)
    "updates": ("var j=0; var lv=0; while(j<2){ j++; ++cv; cv++; --cv; cv--; cv+=1; cv-=1; ++lv; lv++; --lv; lv--; lv+=1; "
                "++ob.p; ob.p++; --ob.p; ob.p--; ob.p+=1; ++ar[0]; ar[0]++; --ar[0]; ar[0]--; ar[0]+=1; acc = acc + (++cv) - (cv--) + (lv++) - (--lv); "),
}
INNER_CLOSE = {"updates": " acc+=1 }", "while": " acc+=1 }", "dowhile": " acc+=1 } while(j<2);", "for": " acc+=1 }", "forin": " acc+=1 }",
               "forof": " acc+=1 }", "switch": " acc+=2; break; default: acc+=3 }", "block": " acc+=1 }", "none": " acc+=1 }"}
ENCL = {
    "none": ("", ""), "if": ("if (o<5) { ", " }"),
    "try_catch": ("try { ", " } catch (e1) { acc+=5 }"),
    "try_finally": ("try { ", " } finally { acc+=7 }"),
    "try_catch_finally": ("try { ", " } catch (e2) { acc+=5 } finally { acc+=7 }"),
    "in_catch": ("try { throw 1 } catch (e3) { ", " }"),
    "in_finally": ("try { acc+=1 } finally { ", " }"),
    "finally_after_throw": ("try { try { throw 2 } finally { ", " } } catch (e4) { acc+=17 }"),
    "catch_rethrow_finally": ("try { try { throw 2 } catch (e5) { throw 3 } finally { ", " } } catch (e6) { acc+=19 }"),
    "switch": ("switch (o) { case 0: case 1: ", " break; default: acc+=11 }"),
    "forin": ("for (var kk in {x:1,y:2}) { ", " }"),
    "forof": ("for (var vv of [1,2]) { ", " }"),
    # a finally block that overrides the pending completion (return value, exception, jump) with a jump of its own
    "finally_continue": ("try { ", " } finally { continue outer }"),
    "finally_break": ("try { ", " } finally { break outer }"),
    "finally_continue_in_forin": ("for (var kk in {x:1,y:2}) { try { ", " } finally { continue } }"),
    "finally_return": ("try { ", " } finally { return acc }"),
}


def exit_stmt(b):
    e, inner = b["exit"], b["inner"]
    if e == "none":
        return "acc+=1;"
    if e == "break":
        return "if (j==1) break%s;" % (" blk" if inner == "block" else "")
    if e == "continue":
        return "if (j==1) continue;"
    if e == "break_outer":
        return "if (j==1) break outer;"
    if e == "continue_outer":
        return "if (j==1) continue outer;"
    if e == "return":
        return "if (j==1) return acc;"
    if e == "return_midexpr":
        return "if (j==1) return 1 + [acc, 2, (function(){ return 3 })()].length;"
    if e == "throw":
        return "if (j==1) throw 9;"
    if e == "throw_midexpr":
        return "if (j==1) acc = 1 + [acc, 2 * thrower()].length;"
    raise ValueError(e)


def render_core(b):
    eo, ec = ENCL[b["encl"]]
    return "outer: for (var o=0;o<2;o++) { " + eo + INNER_OPEN[b["inner"]] + exit_stmt(b) + INNER_CLOSE[b["inner"]] + ec + " }"


def render_body(b):
    # a throw that nothing inside B catches is caught around B; bodies that do not throw get no handler of their own
    # (a function whose only stack-holding construct is the one under test)
    if b["exit"] not in ("throw", "throw_midexpr"):
        return render_core(b)
    return "try { " + render_core(b) + " } catch (eB) { acc+=13 }"


def render_program(b, n):
    B = render_body(b)
    pre = "function thrower(){ throw 4 } function id2(a,b){ return b } var acc=0; var sink=0; var cv=0; var ob={p:0}; var ar=[0]; "
    p = b["place"]
    if p in ("closure_loop", "func_loop"):
        # the N rounds run INSIDE one activation (what a round leaves behind is not discarded by a return in between);
        # closure_loop: cv belongs to the enclosing function and is reached through a closure slot
        loop = "function(n){ for (var it=0; it<n; it++) { %s } return acc }" % B
        if p == "closure_loop":
            return pre + "var body = (function(){ var cv = 0; var keep = function(){ return cv }; return %s })(); sink = 1 + body(%d); acc" % (loop, n)
        return pre + "var body = %s; sink = 1 + body(%d); acc" % (loop, n)
    if p.endswith("_catch_outside"):
        # the throw leaves the function that the native / call is running; the handler is in the iterating frame
        C = render_core(b)
        kind = p[:-len("_catch_outside")]
        fn, call = {
            "cb": ("", "[1].forEach(function(){ %s });" % C),
            "getter": ("var holder = { get g(){ %s return acc } };" % C, "sink = 1 + holder.g;"),
            "valueof": ("var vobj = { valueOf: function(){ %s return 1 } };" % C, "sink = 1 + vobj;"),
            "call": ("function body(){ %s return acc }" % C, "sink = [1, body.call(null)].length;"),
            "sort": ("", "[2,1].sort(function(a,b){ %s return a-b });" % C),
            "func": ("function body(){ %s return acc }" % C, "sink = 1 + body();"),
            "ctor": ("function Ctor(){ %s this.a = acc }" % C, "sink = [new Ctor()].length;"),
        }[kind]
        return pre + fn + " for (var it=0; it<%d; it++) { try { %s } catch (eO) { acc+=23 } } acc" % (n, call)
    if p == "inline":
        return pre + "for (var it=0; it<%d; it++) { %s } acc" % (n, B)
    fn = "function body(){ %s return acc }" % B
    if p == "func_stmt":
        call = "body();"
    elif p == "func_operand":
        call = "sink = 1 + body();"
    elif p == "func_arg":
        call = "sink = id2(1, body());"
    elif p == "func_array":
        call = "sink = [1, 2, body()].length;"
    elif p == "callback":
        call = "[1].forEach(function(){ %s });" % B
        fn = ""
    elif p == "getter":
        fn = "var holder = { get g(){ %s return acc } };" % B
        call = "sink = 1 + holder.g;"
    elif p == "ctor":
        fn = "function Ctor(){ %s this.a = acc }" % B
        call = "sink = [new Ctor()].length;"
    else:
        raise ValueError(p)
    return pre + fn + " for (var it=0; it<%d; it++) { %s } acc" % (n, call)


SHAPES = {
    "self": "var n=0; function f(){ n++; f() } f()",
    "mutual": "var n=0; function f(){ n++; g() } function g(){ n++; f() } f()",
    "forEach": "var n=0; function f(){ n++; [1].forEach(f) } f()",
    "map": "var n=0; function f(){ n++; [1].map(f) } f()",
    "filter": "var n=0; function f(){ n++; [1].filter(f) } f()",
    "reduce": "var n=0; function f(){ n++; [1,2].reduce(f) } f()",
    "sort": "var n=0; function f(){ n++; [2,1].sort(f); return 0 } f()",
    "some": "var n=0; function f(){ n++; [1].some(f) } f()",
    "every": "var n=0; function f(){ n++; [1].every(f) } f()",
    "find": "var n=0; function f(){ n++; [1].find(f) } f()",
    "getter": "var n=0; var o={ get x(){ n++; return this.x } }; o.x",
    "setter": "var n=0; var o={ set x(v){ n++; this.x = v } }; o.x = 1",
    "valueOf": "var n=0; var o={ valueOf: function(){ n++; return o + 1 } }; o + 1",
    "call": "var n=0; function f(){ n++; f.call(null) } f()",
    "apply": "var n=0; function f(){ n++; f.apply(null, []) } f()",
    "bind": "var n=0; function f(){ n++; f.bind(null)() } f()",
    "new": "var n=0; function F(){ n++; new F() } new F()",
    "eval": "var n=0; function f(){ n++; (1,eval)('f()') } f()",
    "Function": "var n=0; function f(){ n++; new Function('f()')() } f()",
    "operands": "var n=0; function f(){ n++; return [1,2,3,4,5,6,7,8,[9,[10,f()]]] } f()",
    "arrow": "var n=0; var f = () => { n++; return 1 + f() }; f()",
    "method": "var n=0; var o = { m: function(){ n++; return this.m() } }; o.m()",
    "ctor_mutual": "var n=0; function A(){ n++; new B() } function B(){ n++; new A() } new A()",
    "ctor_method": "var n=0; function P(){ n++; this.go() } P.prototype.go = function(){ n++; new P() }; new P()",
    "bound_fn": "var n=0; var b; function f(){ n++; b() } b = f.bind(null); b()",
    "toString": "var n=0; var o={ toString: function(){ n++; return '' + o } }; '' + o",
    "forEach_mutual": "var n=0; function f(){ n++; [1].forEach(g) } function g(){ n++; [1].map(f) } f()",
}


# recursion that does not pass through a built-in, STARTED from script code a built-in is running (the frames are pushed by the
# nested interpreter loop that runs callbacks, accessors and conversions): entry x kind of recursion
REC_KINDS = {
    "self": ("function r(){ n++; r() }", "r()"),
    "mutual": ("function r(){ n++; q() } function q(){ n++; r() }", "r()"),
    "method": ("var ro = { m: function(){ n++; return this.m() } };", "ro.m()"),
    "ctor": ("function R(){ n++; new R() }", "new R()"),
    "operands": ("function r(){ n++; return [1,2,3,[4,[5, r()]]] }", "r()"),
}
ENTRIES = {
    "forEach": "[1].forEach(function(){ START });", "map": "[1].map(function(){ START });", "reduce": "[1,2].reduce(function(){ START });",
    "sort": "[2,1].sort(function(){ START; return 0 });", "getter": "var eo = { get g(){ START; return 1 } }; eo.g;",
    "setter": "var eo = { set s(v){ START } }; eo.s = 1;", "valueOf": "var eo = { valueOf: function(){ START; return 1 } }; eo + 1;",
    "toString": "var eo = { toString: function(){ START; return '' } }; '' + eo;", "call": "(function(){ START }).call(null);",
    "apply": "(function(){ START }).apply(null, []);", "bind": "(function(){ START }).bind(null)();",
    "replace": "'a'.replace(/a/, function(){ START; return 'b' });",
    "nested": "[1].forEach(function(){ [1].map(function(){ START }) });", "eval": "(1,eval)('START');", "Function": "new Function('START')();",
}
for _e, _w in ENTRIES.items():
    for _k, (_def, _start) in REC_KINDS.items():
        SHAPES["in_%s:%s" % (_e, _k)] = "var n=0; %s %s" % (_def, _w.replace("START", _start))


class Recorder:
    """depth statistics at loop back-edges (a backward JUMP / JUMP_IF_TRUE) per (function, target)"""
    def __init__(self):
        self.edges = {}
        self.maxd = self.maxh = self.maxf = 0
        self.fids = {}

    def __call__(self, kind, vm, op, arg, frame, _):
        if kind not in ("main", "cb"):
            return
        d, h, f = len(vm.stack), len(vm.exception_handlers), len(vm.call_stack)
        if d > self.maxd:
            self.maxd = d
        if h > self.maxh:
            self.maxh = h
        if f > self.maxf:
            self.maxf = f
        nm = op.name
        if (nm == "JUMP" or nm == "JUMP_IF_TRUE") and arg is not None and arg < frame.ip:
            key = (self.fids.setdefault(id(frame.func), len(self.fids)), arg)
            e = self.edges.get(key)
            rel = d - frame.bp
            if e is None:
                self.edges[key] = [1, rel, rel, h, h, f, f]
            else:
                e[0] += 1
                if rel < e[1]: e[1] = rel
                if rel > e[2]: e[2] = rel
                if h < e[3]: e[3] = h
                if h > e[4]: e[4] = h
                if f < e[5]: e[5] = f
                if f > e[6]: e[6] = f


def driver(case, api):
    if case["kind"] == "export":
        out = []
        for b in case["bodies"]:
            src = render_program(b["b"], 2)
            for f in bytecode.export(src):
                f["id"] = "%s#f%d" % (b["name"], f["fid"])
                out.append(f)
        return {"id": case["id"], "funcs": out}
    if case["kind"] == "body":
        runs = []
        for n in case["ns"]:
            src = render_program(case["b"], n)
            ctx = api.new_context(memory_limit=case["m"], time_limit=120.0)
            rec = Recorder()
            api.steps.user = None
            out = None

            def go(ctx=ctx, src=src):
                return ctx.eval(src)
            # install recorder after reset (api.run resets the step counters)
            res = run_with(api, go, rec)
            runs.append({"n": n, "o": res["o"], "info": (res.get("type", "") + " " + res.get("msg", ""))[:120],
                         "maxd": rec.maxd, "maxh": rec.maxh, "maxf": rec.maxf,
                         "edges": [{"cnt": e[0], "dmin": e[1], "dmax": e[2], "hmin": e[3], "hmax": e[4], "fmin": e[5], "fmax": e[6]}
                                   for _, e in sorted(rec.edges.items())]})
        return {"id": case["id"], "kind": "body", "runs": runs, "src": render_program(case["b"], 2)}
    if case["kind"] == "shape":
        # tl = 0: no time limit configured; a runaway script is then ended by the step cap and reported as a hang
        ctx = api.new_context(memory_limit=case["m"], time_limit=(120.0 if case.get("tl", 1) else None))
        rec = Recorder()
        res = run_with(api, lambda: ctx.eval(SHAPES[case["s"]]), rec, cap=(60_000_000 if case.get("tl", 1) else 4_000_000))
        try:
            levels = int(ctx.get("n") or 0)
        except Exception:
            levels = -1
        return {"id": case["id"], "kind": "shape", "s": case["s"], "m": case["m"], "o": res["o"],
                "info": (res.get("type", "") + " " + res.get("msg", ""))[:120], "levels": levels, "maxf": rec.maxf}
    raise ValueError(case["kind"])


def run_with(api, fn, rec, cap=60_000_000):
    orig_reset = api.steps.reset

    def reset_and_hook(*a, **k):
        orig_reset(*a, **k)
        api.steps.user = rec
    api.steps.reset = reset_and_hook
    try:
        return api.run(fn, wall=90.0, cap=cap)
    finally:
        api.steps.reset = orig_reset
        api.steps.user = None
