"""C11 driver (runs inside the engine child): execute one boundary trace on a fresh Context.

A trace is a sequence of events whose inputs come from the specification (spec/C11.tla, or a seeded
generator emitting the same spec-level JSON).  The driver renders / builds the inputs, performs the
operation and records what came back.  It computes no expectation.

Python values travel in the "pw" format (spec/Boundary.tla): none | bool b | int sg m (sign + 16-bit
limbs, exact) | float w (four 16-bit words) | str u (UTF-16 code units) | list e | dict p [{kk, v}].
JavaScript values travel in the harness wire format (harness/wire.py).
"""
import math
from harness import wire

NAMES = ("a", "b")


# ---------------- pw <-> Python ---------------------------------------------------------------------
def pw_to_py(w):
    k = w["k"]
    if k == "none":
        return None
    if k == "bool":
        return bool(w["b"])
    if k == "int":
        n = 0
        for i, limb in enumerate(w["m"]):
            n += int(limb) << (16 * i)
        return -n if w["sg"] else n
    if k == "float":
        return wire.words_dbl(w["w"])
    if k == "str":
        return wire.from_units(w["u"])
    if k == "list":
        if w.get("sh") and w["e"]:
            one = pw_to_py(w["e"][0])            # the same object at every position (shared sub-object)
            return [one for _ in w["e"]]
        return [pw_to_py(e) for e in w["e"]]
    if k == "dict":
        d = {}
        for p in w["p"]:
            d[pw_to_py(p["kk"])] = pw_to_py(p["v"])
        if len(d) != len(w["p"]):
            raise ValueError("keys of a generated dict collide as Python keys: %r" % (w,))
        return d
    raise ValueError("cannot build a Python value of kind " + k)


def py_to_pw(v, depth=0):
    """classify what Context.get / Context.eval handed back"""
    if v is None:
        return {"k": "none"}
    if isinstance(v, bool):
        return {"k": "bool", "b": v}
    if isinstance(v, int):
        m, limbs = abs(v), []
        while m:
            limbs.append(m & 0xFFFF)
            m >>= 16
        if len(limbs) > 80:
            return {"k": "hostval", "t": "int(huge)"}
        return {"k": "int", "sg": 1 if v < 0 else 0, "m": limbs}
    if isinstance(v, float):
        return {"k": "float", "w": wire.dbl_words(v)}
    if isinstance(v, str):
        return {"k": "str", "u": wire.units(v)}
    if depth > 60:
        return {"k": "deep"}
    if isinstance(v, list):
        return {"k": "list", "e": [py_to_pw(e, depth + 1) for e in v]}
    if isinstance(v, dict):
        return {"k": "dict", "p": [{"kk": py_to_pw(k, depth + 1), "v": py_to_pw(x, depth + 1)} for k, x in v.items()]}
    return {"k": "hostval", "t": type(v).__name__}


# ---------------- JavaScript literals -----------------------------------------------------------------
def js_str(u):
    out = []
    for c in u:
        if 32 <= c < 127 and c not in (34, 39, 92):
            out.append(chr(c))
        else:
            out.append("\\u%04x" % c)
    return '"' + "".join(out) + '"'


def js_num(w):
    x = wire.words_dbl(w)
    if x != x:
        return "NaN"
    if x in (float("inf"), float("-inf")):
        return "Infinity" if x > 0 else "-Infinity"
    if x == 0:
        return "-0" if math.copysign(1, x) < 0 else "0"
    if x == int(x) and abs(x) < 2 ** 63:
        return str(int(x))
    return repr(x)


def js_lit(w):
    k = w["k"]
    if k == "undef":
        return "undefined"
    if k == "null":
        return "null"
    if k == "bool":
        return "true" if w["b"] else "false"
    if k == "num":
        return js_num(w["w"])
    if k == "str":
        return js_str(w["u"])
    if k == "arr":
        return "[" + ", ".join(js_lit(e) for e in w["e"]) + "]"
    if k == "obj":
        return "{" + ", ".join(js_str(p["n"]) + ": " + js_lit(p["v"]) for p in w["p"]) + "}"
    raise ValueError("cannot render kind " + k)


def mutate(obj, depth=0):
    """in-place mutation of a Python structure, two levels deep (so a shallow copy is not enough)"""
    if isinstance(obj, list):
        for e in obj[:1]:
            if depth < 2:
                mutate(e, depth + 1)
        obj.append("MUTATED")
    elif isinstance(obj, dict):
        for e in list(obj.values())[:1]:
            if depth < 2:
                mutate(e, depth + 1)
        obj["MUTATED"] = "MUTATED"


def expr_source(form, e):
    if form == "lit":
        return "(" + js_lit(e) + ")"
    assigns = "".join("o[%s] = %s; " % (js_str(p["n"]), js_lit(p["v"])) for p in e["p"])
    if form == "inherit":        # own data properties on top of an inherited one
        return "(function(){ var o = Object.create({inherited: 1}); " + assigns + "return o; })()"
    if form == "accessor":       # own data properties next to an accessor property
        return "(function(){ var o = {get acc(){ return 1; }}; " + assigns + "return o; })()"
    raise ValueError("unknown expression form " + form)


GETTER = "function () { return 7; }"
SETTER = "function (v) { }"


def descriptor_source(act, v):
    """a fully permissive descriptor (the engine keeps no attributes; ECMA-262 defaults them to false)"""
    if act == "data":
        return "{value: %s, writable: true, enumerable: true, configurable: true}" % js_lit(v)
    body = {"get": "get: " + GETTER, "set": "set: " + SETTER, "getset": "get: %s, set: %s" % (GETTER, SETTER)}[act]
    return "{%s, enumerable: true, configurable: true}" % body


def step_source(target, st):
    act, n = st["act"], js_str(st["n"])
    if act == "assign":          # on an accessor without setter the write is refused (TypeError) or ignored: both leave no data property
        return "try { %s[%s] = %s; } catch (e) { }" % (target, n, js_lit(st["v"]))
    if act == "delete":
        return "delete %s[%s];" % (target, n)
    if act not in ("data", "get", "set", "getset"):
        raise ValueError("unknown property step " + act)
    if st["via"] == "many":
        return "Object.defineProperties(%s, {%s: %s});" % (target, n, descriptor_source(act, st["v"]))
    return "Object.defineProperty(%s, %s, %s);" % (target, n, descriptor_source(act, st["v"]))


def create_source(ev):
    descs = ", ".join("%s: %s" % (js_str(d["n"]), descriptor_source(d["act"], d["v"])) for d in ev["descs"])
    obj = "Object.create({inherited: 1}, {%s})" % descs
    return "var %s = %s;" % (ev["nm"], "[" + obj + "]" if ev["wrap"] else obj)


# scripts that declare or merely mention a name (what each form MEANS for the binding is said by spec/C11.tla DeclEffect)
DECL_SOURCES = {
    "var": "var %(n)s;",
    "block": "{ var %(n)s; }",
    "deadblock": "var dq = 1; if (dq > 1) { var %(n)s; } dq + 1;",
    "forinit": "for (var %(n)s; false; ) { }",
    "forin": "for (var %(n)s in {}) { }",
    "multi": "var zz, %(n)s;",
    "trycatch": "try { var %(n)s; } catch (e) { }",
    "while": "while (false) { var %(n)s; }",
    "switch": "switch (1) { case 2: var %(n)s; }",
    "labeled": "lbl: { var %(n)s; }",
    "evalvar": "eval('var %(n)s;');",
    "selfinit": "var %(n)s = %(n)s;",
    "other": "var zz;",
    "fnlocal": "(function () { var %(n)s = 1; return %(n)s; })();",
    "fnparam": "(function (%(n)s) { %(n)s = 1; return %(n)s; })(2);",
    "typeof": "typeof %(n)s;",
    "catchparam": "try { throw 1; } catch (%(n)s) { }",
    "fndecl": "function gq() { var %(n)s = 3; return %(n)s; } gq();",
    "newfunc": "new Function('var %(n)s = 1; return %(n)s;')();",
}


def call_source(form, args):
    a = [js_lit(x) for x in args]
    if form == "call":
        return "log(h(%s))" % ", ".join(a)
    if form == "method":
        return "var o = {h: h}; log(o.h(%s))" % ", ".join(a)
    if form == "fcall":
        return "log(h.call(%s))" % ", ".join(["null"] + a)
    if form == "apply":
        return "log(h.apply(null, [%s]))" % ", ".join(a)
    if form == "bind":
        return "var hb = h.bind(null, %s); log(hb(%s))" % (a[0], ", ".join(a[1:]))
    if form == "foreach":
        return "log([%s].forEach(h))" % ", ".join(a)
    if form == "map":
        return "log([%s].map(h))" % ", ".join(a)
    raise ValueError("unknown call form " + form)


def callee_source(ev):
    """how the function value f is obtained from the exposed callable h"""
    t = js_lit(ev["thisv"])
    if ev["mk"] == "direct":
        return "var f = h;"
    if ev["mk"] == "bind":
        return "var f = h.bind(%s);" % ", ".join([t] + [js_lit(x) for x in ev["pre"]])
    if ev["mk"] == "bindbind":
        return "var f = h.bind(%s).bind(%s);" % (", ".join([t] + [js_lit(x) for x in ev["pre"]]),
                                                  ", ".join([t] + [js_lit(x) for x in ev["pre2"]]))
    raise ValueError("unknown callee form " + ev["mk"])


def invoke_source(form, args, thisv):
    a = [js_lit(x) for x in args]
    if form == "call":
        return "log(f(%s));" % ", ".join(a)
    if form == "method":
        return "var o = {m: f}; log(o.m(%s));" % ", ".join(a)
    if form == "fcall":
        return "log(f.call(%s));" % ", ".join([js_lit(thisv)] + a)
    if form == "apply":
        return "log(f.apply(%s, [%s]));" % (js_lit(thisv), ", ".join(a))
    if form == "foreach":
        return "log([%s].forEach(f));" % ", ".join(a)
    if form == "map":
        return "log([%s].map(f));" % ", ".join(a)
    raise ValueError("unknown invocation form " + form)


def run_trace(case, api):
    """case = {id, ev: [event]} -> {tid, ev: [event + observation]}"""
    ctx = api.new_context(time_limit=1000.0, raw=False)
    held = {}
    out_evs = []

    def run(fn):
        return api.run(fn, tick=0.001, cap=400000, wall=120.0)

    for ev in case["ev"]:
        ev = dict(ev)
        op = ev["op"]
        if op == "set":
            obj = pw_to_py(ev["v"])
            held[ev["nm"]] = obj
            r = run(lambda: ctx.set(ev["nm"], obj))
            ev["o"] = r["o"]
        elif op == "get":
            r = run(lambda: ctx.get(ev["nm"]))
            ev["o"] = r["o"]
            ev["out"] = py_to_pw(r["pv"]) if r["o"] == "value" else {"k": "none"}
        elif op == "jsview":
            del api.log[:]
            r = run(lambda: ctx.eval("log(%s)" % ev["nm"]))
            ev["o"] = r["o"]
            ev["got"] = api.log[0][0] if (api.log and api.log[0]) else {"k": "nolog"}
        elif op == "evalname":
            r = run(lambda: ctx.eval(ev["nm"]))
            ev["o"] = r["o"]
            ev["out"] = py_to_pw(r["pv"]) if r["o"] == "value" else {"k": "none"}
        elif op == "evalexpr":
            src = expr_source(ev["form"], ev["e"])
            r = run(lambda: ctx.eval(src))
            ev["o"] = r["o"]
            ev["out"] = py_to_pw(r["pv"]) if r["o"] == "value" else {"k": "none"}
        elif op == "evalset":
            src = "var %s = %s;" % (ev["nm"], js_lit(ev["e"]))
            r = run(lambda: ctx.eval(src))
            ev["o"] = r["o"]
        elif op == "evalmut":
            if ev["how"] == "push":
                src = "%s.push(%d);" % (ev["nm"], ev["x"])
            else:
                src = "%s.zk = %d;" % (ev["nm"], ev["x"])
            r = run(lambda: ctx.eval(src))
            ev["o"] = r["o"]
        elif op == "evaldecl":
            src = DECL_SOURCES[ev["form"]] % {"n": ev["nm"]}
            r = run(lambda: ctx.eval(src))
            ev["o"] = r["o"]
        elif op == "defprops":
            target = ev["nm"] if ev["path"] == "top" else ev["nm"] + "[0]"
            src = " ".join(step_source(target, st) for st in ev["steps"])
            r = run(lambda: ctx.eval(src))
            ev["o"] = r["o"]
        elif op == "evalcreate":
            src = create_source(ev)
            r = run(lambda: ctx.eval(src))
            ev["o"] = r["o"]
        elif op == "mutret":
            def f():
                got = ctx.get(ev["nm"])
                mutate(got)
                got2 = ctx.eval(ev["nm"])
                mutate(got2)
            r = run(f)
            ev["o"] = r["o"]
        elif op == "mutpassed":
            r = run(lambda: mutate(held.get(ev["nm"])))
            ev["o"] = r["o"]
        elif op == "hostcall":
            calls = []
            ret = pw_to_py(ev["ret"])

            def h(*a):
                calls.append([wire.to_wire(x) for x in a])
                return ret
            ctx.set("h", h)
            del api.log[:]
            src = call_source(ev["form"], ev["args"])
            r = run(lambda: ctx.eval(src))
            ev["o"] = r["o"]
            ev["calls"] = calls
            ev["got"] = api.log[0][0] if (api.log and api.log[0]) else {"k": "nolog"}
        elif op == "callseq":
            calls = []
            rets = [pw_to_py(x) for x in ev["rets"]]

            def h(*a):
                calls.append([wire.to_wire(x) for x in a])
                return rets[(len(calls) - 1) % len(rets)]       # the input says what the n-th call returns
            ctx.set("h", h)
            del api.log[:]
            steps = [callee_source(ev)] + [invoke_source(iv["form"], iv["args"], ev["thisv"]) for iv in ev["inv"]]
            if not ev["split"]:
                steps = [" ".join(steps)]

            def f():
                for src in steps:            # one context: the function value lives on between the evals
                    ctx.eval(src)
            r = run(f)
            ev["o"] = r["o"]
            ev["calls"] = calls
            ev["gots"] = [(e[0] if e else {"k": "nolog"}) for e in api.log]
        else:
            raise ValueError("unknown event " + op)
        if ev.get("o") not in (None, "value"):
            ev["err"] = " ".join("%s=%s" % (k, v) for k, v in r.items() if k in ("name", "msg", "type", "where")) or "-"
        out_evs.append(ev)
    return {"id": case["id"], "tid": case["id"], "ev": out_evs}
