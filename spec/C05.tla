-------------------------------- MODULE C05 --------------------------------
(* C05 - compiled control flow and closures mean what the source says.                       *)
(*   Families : program families (ASTs) defined here and enumerated by TLC                    *)
(*   Enum     : runs the reference machine MiniJS on every family program, checking the       *)
(*              machine's invariants on every state, and prints the program                   *)
(*   Judge    : re-runs MiniJS on a program next to what the real engine did (log, outcome)   *)
(*              under a given set of named deviations and prints whether they agree           *)
EXTENDS MiniJS, Json, IOUtils

Tier == IF "TIER" \in DOMAIN IOEnv THEN IOEnv.TIER ELSE "quick"
Quick == Tier = "quick"
MaxSteps == 1000

\* ======================= family CF: loop kind x exit kind x enclosing construct x placement =====
N == Var("n")
Plus(a, b) == Bin("+", a, b)
Set(x, e) == SExpr(Asg(x, e))
Inc(x) == Set(x, Plus(Var(x), ENum(1)))
LoopKinds == {"while", "dowhile", "for", "forin", "forof", "switch", "block"}
IsLoop(kd) == kd \in {"while", "dowhile", "for", "forin", "forof"}
ExitKinds == {"none", "break", "continue", "breakL", "continueL", "breakM", "continueM", "return", "returnv", "throw"}
EnclKinds == {"none", "if", "while", "dowhile", "for", "forin", "forof", "switch", "block", "trycatch", "tryfinally", "trycatchfinally"}
\* placement: where the construct sits and how the enclosing call is used
Places == {"top", "cb", "cbmap", "stmt", "left", "right", "arg", "elem", "prop", "cond", "asgsrc", "varinit", "retval"}
InFunction(pl) == pl # "top"

ExitStmt(ex) ==
  CASE ex = "break" -> SBreak("") [] ex = "continue" -> SCont("")
    [] ex = "breakL" -> SBreak("L") [] ex = "continueL" -> SCont("L")
    [] ex = "breakM" -> SBreak("M") [] ex = "continueM" -> SCont("M")
    [] ex = "return" -> SRet(NoE) [] ex = "returnv" -> SRet(ENum(5))
    [] ex = "throw" -> SThrow(ENum(9))
\* the body of the construct under test: counts, logs, leaves early on the trigger round, logs again
Body(ex, trig) ==
  <<Inc("n"), SLog(N)>> \o (IF ex = "none" THEN <<>> ELSE <<SIf(Bin("==", N, ENum(trig)), SBlock(<<ExitStmt(ex)>>), NoS)>>)
  \o <<SLog(Plus(N, ENum(10)))>>
Construct(kd, body) ==
  CASE kd = "while" -> SWhile(Bin("<", N, ENum(3)), SBlock(body))
    [] kd = "dowhile" -> SDo(SBlock(body), Bin("<", N, ENum(3)))
    [] kd = "for" -> SFor(SVar1("i", ENum(0)), Bin("<", Var("i"), ENum(3)), Asg("i", Plus(Var("i"), ENum(1))), SBlock(body))
    [] kd = "forin" -> SForIn(TRUE, "k", Obj(<<"a", "b", "c">>, <<ENum(1), ENum(2), ENum(3)>>), SBlock(body))
    [] kd = "forof" -> SForOf(TRUE, "v", Arr(<<ENum(7), ENum(8), ENum(9)>>), SBlock(body))
    [] kd = "switch" -> SSwitch(ENum(1), <<Case(ENum(0), <<SLog(EStr("c0"))>>), Case(ENum(1), body), Case(ENum(2), <<SLog(EStr("c2"))>>)>>)
    [] kd = "block" -> SBlock(body)
\* the construct, labelled L when the exit names it, preceded by the reset of its counter
Inner(kd, ex) ==
  LET c0 == Construct(kd, Body(ex, IF IsLoop(kd) THEN 2 ELSE 1))
      c1 == IF ex \in {"breakL", "continueL"} \/ kd = "block" THEN SLabel("L", c0) ELSE c0
  IN <<Set("n", ENum(0)), c1, SLog(ENum(3))>>
\* an enclosing construct running `inner` (twice when it is a loop), labelled M when the exit names it
M == Var("m")
EnclBody(inner) == <<Inc("m"), SLog(Plus(M, ENum(100)))>> \o inner \o <<SLog(Plus(M, ENum(200)))>>
Enclose(en, ex, inner) ==
  LET lab(s) == IF ex \in {"breakM", "continueM"} THEN SLabel("M", s) ELSE s IN
  CASE en = "none" -> inner
    [] en = "if" -> <<lab(SIf(Bin("<", M, ENum(1)), SBlock(inner), SBlock(<<SLog(EStr("else"))>>)))>>
    [] en = "while" -> <<lab(SWhile(Bin("<", M, ENum(2)), SBlock(EnclBody(inner))))>>
    [] en = "dowhile" -> <<lab(SDo(SBlock(EnclBody(inner)), Bin("<", M, ENum(2))))>>
    [] en = "for" -> <<lab(SFor(SVar1("j", ENum(0)), Bin("<", Var("j"), ENum(2)), Asg("j", Plus(Var("j"), ENum(1))), SBlock(EnclBody(inner))))>>
    [] en = "forin" -> <<lab(SForIn(TRUE, "q", Obj(<<"x", "y">>, <<ENum(1), ENum(2)>>), SBlock(EnclBody(inner))))>>
    [] en = "forof" -> <<lab(SForOf(TRUE, "w", Arr(<<ENum(4), ENum(5)>>), SBlock(EnclBody(inner))))>>
    [] en = "switch" -> <<lab(SSwitch(ENum(2), <<Case(ENum(1), <<SLog(EStr("s1"))>>), Case(ENum(2), inner), Case(ENum(3), <<SLog(EStr("s3"))>>)>>))>>
    [] en = "block" -> <<lab(SBlock(inner))>>
    [] en = "trycatch" -> <<lab(STry(SBlock(inner), "e", SBlock(<<SLog(EStr("catch")), SLog(Var("e"))>>), NoS))>>
    [] en = "tryfinally" -> <<lab(STry(SBlock(inner), "e", NoS, SBlock(<<SLog(EStr("finally"))>>)))>>
    [] en = "trycatchfinally" -> <<lab(STry(SBlock(inner), "e", SBlock(<<SLog(EStr("catch")), SLog(Var("e"))>>), SBlock(<<SLog(EStr("finally"))>>)))>>
EnclIsLoop(en) == en \in {"while", "dowhile", "for", "forin", "forof"}
\* which combinations are programs of the language (a `break` needs a breakable target, ...)
CFValid(c) ==
  /\ (c.ex = "break" => IsLoop(c.kd) \/ c.kd = "switch" \/ EnclIsLoop(c.en) \/ c.en = "switch")
  /\ (c.ex = "continue" => IsLoop(c.kd) \/ EnclIsLoop(c.en))
  /\ (c.ex = "continueL" => IsLoop(c.kd))
  /\ (c.ex = "breakM" => c.en # "none")
  /\ (c.ex = "continueM" => EnclIsLoop(c.en))
  /\ (c.ex \in {"return", "returnv"} => InFunction(c.pl))
  /\ (c.ex = "return" => c.pl \notin {"left", "right", "arg", "retval"})          \* undefined + 100 is NaN: outside the fragment
  /\ (c.guard => c.ex = "throw")
Core(c) == <<SVar(<<Decl("n", ENum(0)), Decl("m", ENum(0))>>)>> \o Enclose(c.en, c.ex, Inner(c.kd, c.ex)) \o <<SLog(ENum(4))>>
FBody(c) == Core(c) \o <<SRet(ENum(7))>>
F == Var("f")
CallF == Call(F, <<>>)
UseSite(pl) ==
  CASE pl = "stmt" -> <<SExpr(CallF)>>
    [] pl = "left" -> <<SLog(Plus(CallF, ENum(100)))>>
    [] pl = "right" -> <<SLog(Plus(ENum(100), CallF))>>
    [] pl = "arg" -> <<SLog(Call(Var("g"), <<ENum(1), CallF, ENum(2)>>))>>
    [] pl = "elem" -> <<SLog(Mem(Arr(<<ENum(1), CallF, ENum(3)>>), ENum(1)))>>
    [] pl = "prop" -> <<SLog(Dot(Obj(<<"a", "b">>, <<ENum(1), CallF>>), "b"))>>
    [] pl = "cond" -> <<SIf(Bin("==", CallF, ENum(7)), SBlock(<<SLog(EStr("T"))>>), SBlock(<<SLog(EStr("F"))>>))>>
    [] pl = "asgsrc" -> <<SExpr(Asg("x", CallF)), SLog(Var("x"))>>
    [] pl = "varinit" -> <<SVar1("y", CallF), SLog(Var("y"))>>
    [] pl = "retval" -> <<SLog(Call(Fun("", <<>>, <<SRet(Plus(CallF, ENum(1000)))>>), <<>>))>>
    [] pl = "cb" -> <<SExpr(Call(Dot(Arr(<<ENum(1), ENum(2)>>), "forEach"), <<F>>))>>
    [] pl = "cbmap" -> <<SLog(Dot(Call(Dot(Arr(<<ENum(1), ENum(2)>>), "map"), <<F>>), "length"))>>
Guarded(g, ss) == IF g THEN <<STry(SBlock(ss), "e", SBlock(<<SLog(EStr("caught")), SLog(Var("e"))>>), NoS)>> ELSE ss
CFProg(c) ==
  IF c.pl = "top"
  THEN Prog(Guarded(c.guard, Core(c)) \o <<SLog(ENum(50))>>)
  ELSE Prog(<<SVar1("x", ENum(0)),
              SFun("g", <<"a", "b", "c">>, <<SRet(Plus(Plus(Var("a"), Var("b")), Var("c")))>>),
              SFun("f", <<>>, FBody(c))>>
            \o Guarded(c.guard, UseSite(c.pl)) \o <<SLog(ENum(50))>>)

\* quick tier: every pair (construct, exit) x enclosing at the plain call site, every (construct, exit) x placement
\* without enclosing construct, every enclosing x placement for three exits; thorough: the full product
CFAll == [kd : LoopKinds, ex : ExitKinds, en : EnclKinds, pl : Places, guard : BOOLEAN]
CFQuickSel(c) ==
  \/ c.pl = "stmt"
  \/ c.en = "none"
  \/ (c.kd \in {"while", "forin", "switch"} /\ c.ex \in {"break", "returnv", "throw", "continueM"} /\ c.pl \in {"top", "left", "arg", "cb"})
CFCases == {c \in CFAll : CFValid(c) /\ (c.ex = "throw" => (c.guard \/ c.pl \in {"top", "stmt"})) /\ (~Quick \/ CFQuickSel(c))}

\* ======================= the case space ===========================================================
FamilyProg(cs) == CASE cs.fam = "CF" -> CFProg(cs.c)
AllCases == {[fam |-> "CF", c |-> c] : c \in CFCases}

\* ======================= state machine around MiniJS ===============================================
VARIABLES rec_i, cur, mst                \* rec_i: judged record; cur: enumerated case; mst: machine state
vars == <<rec_i, cur, mst>>
Invariants == KontWF(mst) /\ FinallyOnce(mst) /\ TryAccounting(mst)
LogAppendOnly == [][IsPrefix(mst.log, mst'.log)]_vars
MachineNext == ~Halted(mst) /\ mst' = Step(mst, MaxSteps) /\ UNCHANGED <<rec_i, cur>>

\* ---------------- Enum: every family program runs on the reference machine -------------------------
EnumInit == /\ rec_i = 0 /\ cur \in AllCases /\ mst = InitState(FamilyProg(cur), {})
\* law of the families: every program terminates inside the fragment within the step bound
EnumTerminates == Halted(mst) => mst.out.o \in {"value", "throw"}
EnumEmit == ~Halted(mst) \/ PrintT(ToJson([fam |-> cur.fam, par |-> cur.c, prog |-> FamilyProg(cur), steps |-> mst.steps]))

\* ---------------- Judge ---------------------------------------------------------------------------------
Recs == ndJsonDeserialize(IOEnv.OBS_FILE)                 \* [id, prog, devs, log, out, pos]
\* named deviations (as-is rules of the engine for recorded findings); "*" selects all of them
AllDevs == {"Dev_NoFnHoist", "Dev_NoGlobalVarHoist", "Dev_VarRedecl"}
DevsOf(r) == LET S == {r.devs[j] : j \in 1..Len(r.devs)} IN IF "*" \in S THEN AllDevs ELSE S
PosOf(r, nid, fld) == LET S == {j \in 1..Len(r.pos) : r.pos[j][1] = nid}
                      IN IF S = {} THEN -1 ELSE r.pos[CHOOSE j \in S : TRUE][IF fld = "line" THEN 2 ELSE 3]
\* a value of the machine against the projected engine value
ValMatches(r, v, a) ==
  CASE v.t = "int" -> a.t = "int" /\ a.i = v.i
    [] v.t = "str" -> a.t = "str" /\ a.s = v.s
    [] v.t = "bool" -> a.t = "bool" /\ a.b = v.b
    [] v.t \in {"undef", "null"} -> a.t = v.t
    [] v.t = "ref" -> a.t = "ref" /\ a.h = v.h
    [] v.t = "loc" -> a.t = "int" /\ a.i = PosOf(r, v.nid, v.f)
    [] OTHER -> FALSE
LogMatches(r, lg, alog) == Len(lg) = Len(alog) /\ \A j \in 1..Len(lg) : ValMatches(r, lg[j], alog[j])
LogPrefixMatches(r, lg, alog) == Len(lg) <= Len(alog) /\ \A j \in 1..Len(lg) : ValMatches(r, lg[j], alog[j])
Contains(big, small) == \E j \in 0..(Len(big) - Len(small)) : SubSeq(big, j + 1, j + Len(small)) = small
OutMatches(r, out, aout) ==
  CASE out.o = "value" -> aout.o = "value" /\ ValMatches(r, out.v, aout.v)
    [] out.o = "throw" -> aout.o = "jserror" /\ Contains(aout.msg, out.msg)      \* the JSError describes the thrown value
    [] OTHER -> FALSE
Agrees(r, ms) ==
  IF ms.out.o = "opaque"                   \* from here the as-is behaviour depends on interpreter internals:
  THEN LogPrefixMatches(r, ms.log, r.log) /\ r.out.o \in {"value", "jserror", "timelimit"}
  ELSE LogMatches(r, ms.log, r.log) /\ OutMatches(r, ms.out, r.out)
JudgeInit == /\ rec_i \in 1..Len(Recs) /\ cur = <<>> /\ mst = InitState(Recs[rec_i].prog, DevsOf(Recs[rec_i]))
JudgeEmit == ~Halted(mst) \/
  PrintT(ToJson([id |-> Recs[rec_i].id, ok |-> Agrees(Recs[rec_i], mst), o |-> mst.out.o, fired |-> mst.fired,
                 exp |-> [log |-> mst.log, out |-> mst.out], steps |-> mst.steps]))
=============================================================================
