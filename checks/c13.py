"""C13 - parsing respects the grammar: precedence, layout, rejection (DESIGN 5/C13, notes/C13.md)."""
import json, os, random
from harness import tlc, engine, wire
from harness import render_expr as R
from harness.common import Machinery

ENUM_CFG = "INIT EnumInit\nNEXT EnumNext\nCONSTRAINT EnumEmit\nINVARIANT LawsHold\nCHECK_DEADLOCK FALSE\n"
JUDGE_CFG = "INIT JudgeInit\nNEXT JudgeNext\nCHECK_DEADLOCK FALSE\n"
DRIVER = "checks.c13_driver:driver"
ERR_TREE = {"t": "error", "op": "", "kids": []}
TEXT_KINDS = ("tprog", "cdel", "sbad", "utdel", "rxdel", "rxnl")     # programs with holes filled by the specification
PRE_EXPR = "var a=6,b=3,c=2,p=5,q=2,r=1,x=7,y=1,z=2,k=0;\n"
PRE_PROG = "var a=1,b=2,c=3,d=4;\n"
PRE_LPOS = "var a=1,b=2;function f(v){return v;}\n"


def all_parens(toks):
    """marked sequence -> every optional pair written as parentheses"""
    return ["(" if t in ("(?", "(:") else ")" if t in ("?)", ":)") else t for t in toks]


def norm_out(o):
    """evaluation outcome -> the record the judge reads (every field always present)"""
    if o["o"] == "value":
        return {"o": "value", "v": o["v"], "name": ""}
    if o["o"] == "jserror":
        return {"o": "jserror", "v": {"k": "undef"}, "name": o.get("name", "")}
    if o["o"] == "host":
        return {"o": "host:" + o.get("type", "") + "@" + o.get("where", ""), "v": {"k": "undef"}, "name": ""}
    return {"o": o["o"], "v": {"k": "undef"}, "name": ""}


def norm_act(p):
    if p["o"] == "tree":
        return {"o": "tree", "t": p.get("t", ERR_TREE)}
    if p["o"] == "syntax":
        return {"o": "syntax", "t": ERR_TREE}
    return {"o": "host:" + p.get("type", "") + "@" + p.get("where", ""), "t": ERR_TREE}


NOEV = {"o": "none", "v": {"k": "undef"}, "name": ""}


def rec(i, kind, a=(), toks=(), u=(), lay=(), act=None, act0=None, ev0=None, ev1=None, ast0="", ast1="", u0=()):
    return {"id": i, "kind": kind, "a": list(a), "toks": list(toks), "u": list(u), "u0": list(u0), "lay": list(lay),
            "act": act or {"o": "none", "t": ERR_TREE}, "act0": act0 or {"o": "none", "t": ERR_TREE}, "ev0": ev0 or NOEV, "ev1": ev1 or NOEV, "ast0": ast0, "ast1": ast1}


def run(rep):
    quick = rep.tier == "quick"
    rng = random.Random(rep.seed)
    # the thorough tier is processed in batches of root constructors (memory: ~80k cases per batch)
    batches = [(1, 99)] if quick else [(1, 6), (7, 12), (13, 18), (19, 24), (25, 30), (31, 37), (38, 44), (45, 49), (50, 52), (53, 99)]
    totals = {"kinds": {}, "nvar": 0, "npv": 0, "notjudged": 0, "records": 0}
    for lo, hi in batches:
        run_batch(rep, rng, quick, lo, hi, totals)
    kinds = totals["kinds"]
    if kinds.get("tree", 0) < 5000 or kinds.get("rej", 0) < 1000 or kinds.get("delbr", 0) < 1000:
        raise Machinery("enumeration too small: %r" % kinds)
    for k, n in sorted(kinds.items()):
        rep.spaces.append({"space": "C13 " + k + " (TLC-enumerated)", "cases": n, "complete": True})
    rep.spaces.append({"space": "seeded layout variants of enumerated trees (redundant parentheses, trivia)", "cases": totals["nvar"],
                       "complete": False})
    rep.spaces.append({"space": "seeded layout variants of the statement-level programs", "cases": totals["npv"], "complete": False})
    rep.evaluations = totals["records"]
    rep.exhaustive = False          # the enumerated spaces are complete, the layout variants are seeded samples
    rep.notes["not_judged_deletions_healed"] = totals["notjudged"]
    rep.notes["rule"] = ("tree equality is judged by JsGrammar.ParseExpr on the token sequence; rejection only for the "
                         "named classes (closing bracket / terminator deleted, non-reference target, unary base of **); comment / string / "
                         "regex texts are chosen by the specification over an alphabet and judged on the rendered text by LexerFSM; numeric literals "
                         "are the product of their lexical parts (mantissa shape x exponent letter x sign x digits x value; radix prefix x "
                         "digit case x zeros), alone and written into every position (nctx); regex / string literals as operands in every bracketed "
                         "position, base without and variant with the optional parentheses (lpos); member chains mixing .name and [expr] as callee of new / call")
    rep.assumptions += ["JsGrammar.tla transcribes the ECMA-262 expression grammar for the supported operators (strict mode)",
                        "calls and array literals as assignment targets, missing statement separators: not judged"]


def run_batch(rep, rng, quick, lo, hi, totals):
    # 1. TLC enumerates the case space and checks the laws of the grammar on every case
    res = tlc_run_retry(rep, "C13", ENUM_CFG, env={"TIER": rep.tier, "O1LO": lo, "O1HI": hi}, timeout=1500, tag="enum")
    rep.add_tlc("C13.Enum+Laws(JsGrammar) roots %d..%d" % (lo, hi), res)
    seen, cases = set(), []
    for c in res.records:
        k = json.dumps(c, sort_keys=True)
        if k not in seen:
            seen.add(k)
            cases.append(c)
    res.records = None
    res.stdout = ""
    del seen
    cases.sort(key=lambda c: json.dumps(c, sort_keys=True))
    kinds = totals["kinds"]
    for c in cases:
        kinds[c["kind"]] = kinds.get(c["kind"], 0) + 1

    # 2. engine cases
    ecases, plan = [], []        # plan[i] = how to turn the engine result into judge records

    def add(parse=(), mode="expr", evals=(), **info):
        i = len(ecases)
        ecases.append({"id": i, "parse": list(parse), "mode": mode, "evals": list(evals)})
        plan.append(info)
        return i

    trees = [c for c in cases if c["kind"] == "tree"]
    for c in cases:
        kd = c["kind"]
        if kd == "tree":
            base = R.strip_marks(c["toks"])
            add(parse=[R.render_tokens(base)], what="tokens", kind=kd, a=c["a"], toks=base)
        elif kd in ("rej", "unexp", "delbr"):
            add(parse=[R.render_tokens(c["toks"])], what="tokens", kind=kd, a=c["a"], toks=c["toks"])
        elif kd in ("prog", "pdelbr", "pdelterm"):
            src = R.render_tokens(c["toks"])
            add(parse=[src], mode="prog", what="text", kind=kd, a=c["a"], toks=c["toks"], u=wire.units(src))
        elif kd == "stm":
            # statement nesting: the tree (re-shaped) and the value of the trace variable
            src = R.render_tokens(c["toks"])
            add(parse=[src], mode="stmt", evals=[src], what="stm", kind=kd, a=c["a"], toks=c["toks"])
        elif kd == "cmt":
            # a comment chosen by the specification written into a program: base (hole empty) and variant
            s0 = R.render_holes(c["toks"], {"<L1>": wire.from_units(c["u0"]), "<L2>": wire.from_units(c["u2"])})
            s1 = R.render_holes(c["toks"], {"<L1>": wire.from_units(c["u"]), "<L2>": wire.from_units(c["u2"])})
            add(parse=[s0, s1], mode="prog", evals=[PRE_PROG + s0, PRE_PROG + s1], what="cmt", kind=kd, a=c["a"], toks=c["toks"],
                u=wire.units(s1), u0=wire.units(s0))
        elif kd == "lpos":
            # a literal chosen by the specification as an operand in a bracketed position: base = optional pairs dropped
            fill = {"<L1>": wire.from_units(c["u"])}
            s0 = R.render_holes(R.strip_marks(c["toks"]), fill)
            s1 = R.render_holes(all_parens(c["toks"]), fill)
            add(parse=[s0, s1], mode="prog", evals=[PRE_LPOS + s0, PRE_LPOS + s1], what="lpos", kind=kd, a=c["a"], toks=c["toks"],
                u=wire.units(s1), u0=wire.units(s0))
        elif kd == "nctx":
            # a numeric literal spelling chosen by the specification written into a position: base = canonical spelling
            s0 = R.render_holes(c["toks"], {"<L1>": wire.from_units(c["u0"])})
            s1 = R.render_holes(c["toks"], {"<L1>": wire.from_units(c["u"])})
            add(evals=[s0, s1], what="nctx", kind=kd, a=c["a"], toks=c["toks"], u=wire.units(s1), u0=wire.units(s0))
        elif kd in TEXT_KINDS:
            src = R.render_holes(c["toks"], {"<L1>": wire.from_units(c["u"]), "<L2>": wire.from_units(c["u2"])})
            add(parse=[src], mode="prog", what="text", kind=kd, a=c["a"], toks=c["toks"], u=wire.units(src))
        elif kd in ("num", "str", "strb"):
            s1 = wire.from_units(c["u"])
            s0 = wire.from_units(c["u0"])
            add(evals=["var r = " + s0 + "; r", "var r = " + s1 + "; r"], what="lit", kind=kd, a=c["a"], u=c["u"])
    # seeded layout variants (redundant parentheses + trivia) of enumerated trees
    pairs = [c for c in trees if c["a"][0] <= 2]
    triples = [c for c in trees if c["a"][0] > 2]
    chosen = [(c, j) for c in pairs for j in range(1 if quick else 4)]
    chosen += [(c, j) for c in triples if c["a"][0] == 5 for j in range(2)]       # every member chain
    ntr = 4000 if quick else 10000
    chosen += [(c, 0) for c in (rng.sample(triples, ntr) if len(triples) > ntr else triples)]
    nvar = 0
    for c, j in chosen:
        base = R.strip_marks(c["toks"])
        vseed = rng.getrandbits(48)
        vt = (nvar % 97 == 5)                 # a few variants use VT / FF as white space
        lay = R.variant(c["toks"], vseed, parens=True, vtff=vt)
        s0, s1 = R.render_tokens(base), R.render_layout(lay)
        add(parse=[s0, s1], evals=[PRE_EXPR + s0, PRE_EXPR + s1], what="variant", kind="variant", a=c["a"], toks=base, lay=lay)
        nvar += 1
    progs = [c for c in cases if c["kind"] == "prog"]
    npv = 0
    for c in progs:
        for j in range(20 if quick else 200):
            lay = R.variant(c["toks"], rng.getrandbits(48), parens=False, vtff=(j % 19 == 7))
            s0, s1 = R.render_tokens(c["toks"]), R.render_layout(lay)
            add(parse=[s0, s1], mode="prog", evals=[PRE_PROG + s0, PRE_PROG + s1], what="pvariant", kind="pvariant", a=c["a"],
                toks=c["toks"], lay=lay)
            npv += 1
    # ... and of a sample of the statement-nesting programs
    stms = [c for c in cases if c["kind"] == "stm"]
    nsv = 150 if quick else 1500
    for c in (rng.sample(stms, nsv) if len(stms) > nsv else stms):
        lay = R.variant(c["toks"], rng.getrandbits(48), parens=False, vtff=False)
        s0, s1 = R.render_tokens(c["toks"]), R.render_layout(lay)
        add(parse=[s0, s1], mode="prog", evals=[s0, s1], what="pvariant", kind="pvariant", a=c["a"], toks=c["toks"], lay=lay)
        npv += 1
    totals["nvar"] += nvar
    totals["npv"] += npv
    del cases, trees, pairs, triples, chosen

    results = engine.run_cases(rep.pid, ecases, driver=DRIVER)
    if len(results) != len(ecases):
        raise Machinery("engine returned %d results for %d cases" % (len(results), len(ecases)))
    # 3. judge records
    recs = []
    for r in results:
        info = plan[r["id"]]
        w = info["what"]
        if w == "tokens":
            recs.append(rec(r["id"], info["kind"], a=info["a"], toks=info["toks"], act=norm_act(r["parsed"][0])))
        elif w == "text":
            recs.append(rec(r["id"], info["kind"], a=info["a"], toks=info["toks"], u=info["u"], act=norm_act(r["parsed"][0])))
        elif w == "stm":
            recs.append(rec(r["id"], "stm", a=info["a"], toks=info["toks"], act=norm_act(r["parsed"][0]), ev1=norm_out(r["evals"][0])))
        elif w == "lit":
            recs.append(rec(r["id"], info["kind"], a=info["a"], u=info["u"], ev0=norm_out(r["evals"][0]), ev1=norm_out(r["evals"][1])))
        elif w == "nctx":
            recs.append(rec(r["id"], "nctx", a=info["a"], toks=info["toks"], u=info["u"], u0=info["u0"],
                            ev0=norm_out(r["evals"][0]), ev1=norm_out(r["evals"][1])))
        elif w == "cmt":
            p0, p1 = r["parsed"]
            recs.append(rec(r["id"], "cmt", a=info["a"], toks=info["toks"], u=info["u"], u0=info["u0"],
                            ast0=p0.get("ast", "") if p0["o"] == "tree" else p0["o"], ast1=p1.get("ast", "") if p1["o"] == "tree" else p1["o"],
                            ev0=norm_out(r["evals"][0]), ev1=norm_out(r["evals"][1])))
        elif w == "lpos":
            p0, p1 = r["parsed"]
            recs.append(rec(r["id"], "lpos", a=info["a"], toks=info["toks"], u=info["u"], u0=info["u0"], act0=norm_act(p0), act=norm_act(p1),
                            ast0=p0.get("ast", ""), ast1=p1.get("ast", ""), ev0=norm_out(r["evals"][0]), ev1=norm_out(r["evals"][1])))
        elif w == "variant":
            recs.append(rec(r["id"], "variant", a=info["a"], toks=info["toks"], lay=info["lay"], act0=norm_act(r["parsed"][0]),
                            act=norm_act(r["parsed"][1]),
                            ev0=norm_out(r["evals"][0]), ev1=norm_out(r["evals"][1])))
        elif w == "pvariant":
            p0, p1 = r["parsed"]
            recs.append(rec(r["id"], "pvariant", a=info["a"], toks=info["toks"], lay=info["lay"],
                            ast0=p0.get("ast", ""), ast1=p1.get("ast", "") if p1["o"] == "tree" else p1["o"],
                            ev0=norm_out(r["evals"][0]), ev1=norm_out(r["evals"][1])))
    del results, plan
    verdicts, st, tr, wall = judge_retry(rep, recs)
    rep.add_judge(len(recs), st, tr)
    totals["records"] += len(recs)
    got = {v["id"]: v for v in verdicts}
    if len(got) != len(recs):
        raise Machinery("judge returned %d verdicts for %d records" % (len(got), len(recs)))
    rmap = {r["id"]: r for r in recs}
    for i in sorted(got):
        v, r = got[i], rmap[i]
        if v["v"] == "pass":
            if len(rep.samples) < 5 and i % 4999 == 7:
                rep.sample({"case": show(r, ecases[i]), "verdict": "pass"})
            continue
        if v["v"] == "notjudged":
            totals["notjudged"] += 1
            from harness.common import workdir
            with open(os.path.join(workdir(rep.pid), "notjudged.txt"), "a") as f:       # scratch, for triage
                f.write(show(r, ecases[i]) + "\n")
            continue
        if v["v"] == "unsupported":
            raise Machinery("judge called a generated case unsupported (%s): %s" % (v["why"], show(r, ecases[i])))
        rep.mismatch(show(r, ecases[i]), {"why": v["why"], "kind": r["kind"], "a": r["a"], "src": (ecases[i]["parse"] or ecases[i]["evals"])[-1],
                                          "dev": v.get("dev", ""), "act": r["act"], "ev0": r["ev0"], "ev1": r["ev1"], "case": {"m": r["kind"]}},
                     dev=v.get("dev", ""))


def tlc_run_retry(rep, module, cfg, **kw):
    """tlc.run, once more if the JVM died or reported an error without a verdict (machine under memory pressure)"""
    kw.setdefault("heap", "3g")                      # the default (a quarter of the RAM) is far more than these runs need
    res = tlc.run(rep.pid, module, cfg, **kw)
    if (res.errors or res.rc not in (0, 12, 13)) and not res.violated:
        import sys
        from harness.common import workdir
        with open(os.path.join(workdir(rep.pid), "tlc_errors.txt"), "a") as f:
            f.write("rc=%s errors=%r tag=%s\n" % (res.rc, res.errors, kw.get("tag")))
            f.write("\n".join(l for l in res.stdout.splitlines() if not l.startswith('"{'))[-3000:] + "\n----\n")
        print("TLC run %s failed (rc=%s), retrying once" % (kw.get("tag"), res.rc), file=sys.stderr)
        res = tlc.run(rep.pid, module, cfg, **kw)
    return res


def judge_retry(rep, recs, module="C13"):
    """the judge is a pure function of the records: a transient JVM failure (loaded machine) is retried once"""
    from harness.common import workdir
    orig = tlc.run

    def logged(*a, **k):
        res = orig(*a, **k)
        if res.errors or res.rc != 0:
            with open(os.path.join(workdir(rep.pid), "judge_errors.txt"), "a") as f:
                f.write("rc=%s errors=%r\n" % (res.rc, res.errors))
                f.write("\n".join(l for l in res.stdout.splitlines() if not l.startswith('"{'))[-3000:] + "\n----\n")
        return res
    tlc.run = logged
    try:
        try:
            return tlc.judge(rep.pid, module, recs, JUDGE_CFG, timeout=1700)
        except Machinery as e:
            import sys
            print("judge failed once, retrying with 8 shards (see .work/%s/judge_errors.txt)" % rep.pid, file=sys.stderr)
            return tlc.judge(rep.pid, module, recs, JUDGE_CFG, timeout=1700, shards=8, tag="judge_retry")
    finally:
        tlc.run = orig


def show(r, ec):
    src = (ec["parse"] or ec["evals"])[-1]
    return "%s %s: %s" % (r["kind"], r["a"], src.replace("\n", "\\n")[:160])
