------------------------------- MODULE MiniJS -------------------------------
(* Small-step reference machine for the MiniJS fragment (DESIGN 4.2, appendix A.1).        *)
(*                                                                                         *)
(*   state  st = [ctl, env, k, heap, log, steps, hist, cs, devs, fired, flag, out]         *)
(*   ctl    = [m |-> "S", s, labs] | [m |-> "E", x] | [m |-> "V", v] | [m |-> "C", c]      *)
(*            | [m |-> "halt"]                                                             *)
(*   env    = heap address of the current environment record                              *)
(*   k      = continuation: sequence of frames, top at the end                            *)
(*   heap   = sequence of records: env (vars, parent), fun (code, captured env), arr, obj, *)
(*            err.  Environments are heap records shared by reference, fresh per           *)
(*            activation.                                                                  *)
(*   log    = values passed to the host function log(v), projected (references by kind)    *)
(*   hist   = history counters per activation of a try statement that has a finally        *)
(*   cs     = catch scopes already created per (environment, try statement): as-is rule     *)
(*            Dev_CatchParamShared only                                                     *)
(*   devs   = set of named deviations switched on ({} = ECMAScript reference semantics)     *)
(*   fired  = deviations whose as-is rule was reached and changed something on this run     *)
(*                                                                                         *)
(* The module is variable-free: Step(st) is a function on machine states; C05 / C07 / C15    *)
(* wrap it in a state machine so that TLC checks the invariants on every state.             *)
EXTENDS MiniAst

\* ---------------- small helpers ---------------------------------------------------------------
Digits == "0123456789"
Dig(d) == SubSeq(Digits, d + 1, d + 1)
RECURSIVE NatStr(_)
NatStr(n) == IF n < 10 THEN Dig(n) ELSE NatStr(n \div 10) \o Dig(n % 10)
IntStr(n) == IF n < 0 THEN "-" \o NatStr(0 - n) ELSE NatStr(n)
IsDigitCh(c) == \E d \in 0..9 : Dig(d) = c
DigitOf(c) == CHOOSE d \in 0..9 : Dig(d) = c
RECURSIVE StrNat(_)
StrNat(x) == IF Len(x) = 0 THEN 0 ELSE StrNat(SubSeq(x, 1, Len(x) - 1)) * 10 + DigitOf(SubSeq(x, Len(x), Len(x)))
IsIndexStr(x) == /\ Len(x) >= 1 /\ Len(x) <= 4
                 /\ \A j \in 1..Len(x) : IsDigitCh(SubSeq(x, j, j))
                 /\ (Len(x) = 1 \/ SubSeq(x, 1, 1) # "0")
Arg(a, j) == IF j <= Len(a) THEN a[j] ELSE VUndef
LastIdx(sq, P(_)) == LET S == {j \in 1..Len(sq) : P(sq[j])} IN CHOOSE j \in S : \A q \in S : q <= j
IsPrefix(a, b) == Len(a) <= Len(b) /\ SubSeq(b, 1, Len(a)) = a

\* ---------------- heap records -------------------------------------------------------------------
HEnv(vars, par) == [h |-> "env", vars |-> vars, par |-> par]
HFun(fn, env)   == [h |-> "fun", fn |-> fn, env |-> env]
HArr(es)        == [h |-> "arr", es |-> es]
HObj(ks, kd, vs) == [h |-> "obj", ks |-> ks, kd |-> kd, vs |-> vs]     \* own properties in insertion order; kd: init / get / set
HErr(cls, msg, site, rt) == [h |-> "err", cls |-> cls, msg |-> msg, site |-> site, rt |-> rt, infn |-> FALSE]
                                  \* site: node of the last throw; rt: raised by the machine itself; infn: thrown inside a function
ErrCtors == {"Error", "TypeError", "ReferenceError", "RangeError", "SyntaxError"}
ArrMethods == {"forEach", "map", "push", "sort"}
\* (C07, round 4) more built-ins that run script code.  As for sort, only the part of their behaviour up to the FIRST call of the
\* script function is inside the fragment (frame "natsort": a callback that returns is "unsupported"): the receiver / arguments
\* decide whether and with which arguments the function is called first; a throw in it abandons the built-in.
C07NbArr == {"filter", "some", "every", "find", "findIndex", "reduce"}
C07NbStr == {"replace", "replaceAll"}
\* position (from 0) of the first occurrence of t in s, -1 if there is none
C07StrFind(s, t) == LET S == {j \in 0..(Len(s) - Len(t)) : SubSeq(s, j + 1, j + Len(t)) = t}
                    IN IF S = {} THEN 0 - 1 ELSE CHOOSE j \in S : \A q \in S : j <= q
BuiltinNames == ErrCtors \cup {"log", "undefined"}
Builtin(x) == IF x = "undefined" THEN VUndef ELSE VNat(x)

RECURSIVE LookupEnv(_, _, _)
LookupEnv(heap, a, x) == IF a = 0 THEN 0 ELSE IF x \in DOMAIN heap[a].vars THEN a ELSE LookupEnv(heap, heap[a].par, x)

\* ---------------- primitive operations -------------------------------------------------------------
Truthy(v) == CASE v.t = "int" -> v.i # 0 [] v.t = "bool" -> v.b [] v.t = "str" -> v.s # ""
               [] v.t \in {"undef", "null"} -> FALSE [] OTHER -> TRUE
IsPrim(v) == v.t \in {"int", "bool", "str", "undef", "null"}
ToStr(v) == CASE v.t = "int" -> IntStr(v.i) [] v.t = "str" -> v.s [] v.t = "bool" -> (IF v.b THEN "true" ELSE "false")
              [] v.t = "undef" -> "undefined" [] v.t = "null" -> "null" [] OTHER -> "?"
TypeOfV(heap, v) == CASE v.t \in {"int", "loc"} -> "number" [] v.t = "str" -> "string" [] v.t = "bool" -> "boolean"
                      [] v.t = "undef" -> "undefined" [] v.t = "null" -> "object" [] v.t = "nat" -> "function"
                      [] v.t = "ref" -> (IF heap[v.r].h = "fun" THEN "function" ELSE "object")
                      [] OTHER -> "?"
StrictEq(a, b) == IF a.t # b.t THEN FALSE
                  ELSE CASE a.t = "int" -> a.i = b.i [] a.t = "str" -> a.s = b.s [] a.t = "bool" -> a.b = b.b
                         [] a.t = "ref" -> a.r = b.r [] a.t = "nat" -> a.n = b.n [] OTHER -> TRUE
\* result of a binary operator on the supported operand kinds, Unsup otherwise (never generated)
BinOp(o, a, b) ==
  CASE o = "+" -> IF a.t = "int" /\ b.t = "int" THEN VInt(a.i + b.i)
                  ELSE IF (a.t = "str" \/ b.t = "str") /\ IsPrim(a) /\ IsPrim(b) THEN VStr(ToStr(a) \o ToStr(b)) ELSE Unsup
    [] o \in {"-", "*", "<", ">", "<=", ">="} ->
         IF a.t = "int" /\ b.t = "int"
         THEN (CASE o = "-" -> VInt(a.i - b.i) [] o = "*" -> (IF a.i * b.i = 0 /\ (a.i < 0 \/ b.i < 0) THEN Unsup ELSE VInt(a.i * b.i))     \* -0 is not an integer
                 [] o = "<" -> VBool(a.i < b.i)
                 [] o = ">" -> VBool(a.i > b.i) [] o = "<=" -> VBool(a.i <= b.i) [] o = ">=" -> VBool(a.i >= b.i))
         ELSE Unsup
    [] o \in {"===", "!=="} -> IF a.t = "loc" \/ b.t = "loc" THEN Unsup ELSE VBool(StrictEq(a, b) = (o = "==="))
    [] o \in {"==", "!="} ->
         IF a.t = "loc" \/ b.t = "loc" THEN Unsup
         ELSE IF a.t = b.t THEN VBool(StrictEq(a, b) = (o = "=="))
         ELSE IF a.t \in {"undef", "null"} /\ b.t \in {"undef", "null"} THEN VBool(o = "==")
         ELSE IF a.t \in {"undef", "null"} \/ b.t \in {"undef", "null"} THEN VBool(o = "!=")
         ELSE Unsup
    [] OTHER -> Unsup
\* what the host function log records: primitives as they are, references by kind
Proj(heap, v) == CASE v.t = "ref" -> [t |-> "ref", h |-> (IF heap[v.r].h = "err" THEN "obj" ELSE heap[v.r].h)]
                   [] v.t = "nat" -> [t |-> "ref", h |-> "fun"]
                   [] OTHER -> v

\* ---------------- property access -------------------------------------------------------------------
KeyOf(v) == IF v.t = "str" THEN v.s ELSE IF v.t = "int" /\ v.i >= 0 THEN IntStr(v.i) ELSE "?"
IdxOf(v) == IF v.t = "int" THEN v.i ELSE IF v.t = "str" /\ IsIndexStr(v.s) THEN StrNat(v.s) ELSE -1
ThrowMark == [t |-> "throwmark"]                               \* GetProp on undefined / null
GetProp(heap, ov, pv) ==
  IF ov.t \in {"undef", "null"} THEN ThrowMark
  ELSE IF ov.t = "str" THEN (IF pv = VStr("length") THEN VInt(Len(ov.s))
                             ELSE IF pv.t = "str" /\ pv.s \in C07NbStr THEN VNat(pv.s) ELSE Unsup)
  ELSE IF ov.t # "ref" THEN Unsup
  ELSE LET ho == heap[ov.r] IN
    CASE ho.h = "arr" -> IF pv = VStr("length") THEN VInt(Len(ho.es))
                         ELSE IF pv.t = "str" /\ pv.s \in ArrMethods \cup C07NbArr THEN VNat(pv.s)
                         ELSE LET ix == IdxOf(pv) IN
                              IF ix >= 0 /\ ix < Len(ho.es) THEN ho.es[ix + 1]
                              ELSE IF ix >= Len(ho.es) THEN VUndef ELSE Unsup
      [] ho.h = "obj" -> LET key == KeyOf(pv)  S == {j \in 1..Len(ho.ks) : ho.ks[j] = key /\ ho.kd[j] # "set"}
                         IN IF key = "?" THEN Unsup ELSE IF S = {} THEN VUndef
                            ELSE LET j == CHOOSE q \in S : TRUE IN
                                 IF ho.kd[j] = "get" THEN [t |-> "getter", fn |-> ho.vs[j]] ELSE ho.vs[j]
      [] ho.h = "err" -> (CASE pv = VStr("name") -> VStr(ho.cls) [] pv = VStr("message") -> VStr(ho.msg)
                            [] pv = VStr("lineNumber") -> VLoc(ho.site, "line")
                            [] pv = VStr("columnNumber") -> VLoc(ho.site, "col")
                            [] OTHER -> Unsup)
      [] OTHER -> Unsup
\* own enumerable string keys in for-in order (arrays: indices ascending; objects: insertion order)
KeysOf(heap, ov) ==
  IF ov.t \in {"undef", "null"} THEN <<>>
  ELSE IF ov.t # "ref" THEN <<Unsup>>
  ELSE LET ho == heap[ov.r] IN
    CASE ho.h = "arr" -> [j \in 1..Len(ho.es) |-> VStr(IntStr(j - 1))]
      [] ho.h = "obj" -> LET first == SelectSeq([j \in 1..Len(ho.ks) |-> j], LAMBDA j : \A q \in 1..(j - 1) : ho.ks[q] # ho.ks[j])
                         IN [j \in 1..Len(first) |-> VStr(ho.ks[first[j]])]
      [] OTHER -> <<Unsup>>
ElemsOf(heap, ov) == IF ov.t = "ref" /\ heap[ov.r].h = "arr" THEN heap[ov.r].es ELSE <<Unsup>>

\* ---------------- machine plumbing ---------------------------------------------------------------------
D(st, name) == name \in st.devs
Fire(st, name) == [st EXCEPT !.fired = @ \cup {name}]
HaltWith(st, out) == [st EXCEPT !.ctl = [m |-> "halt"], !.out = out]
Flag(st) == [st EXCEPT !.flag = "unsup"]
Ret(st, v) == IF v.t = "unsup" THEN HaltWith(st, [o |-> "unsupported"]) ELSE [st EXCEPT !.ctl = [m |-> "V", v |-> v]]
Cmp(st, c) == [st EXCEPT !.ctl = [m |-> "C", c |-> c]]
Ev(st, x) == [st EXCEPT !.ctl = [m |-> "E", x |-> x]]
ExL(st, s, labs) == [st EXCEPT !.ctl = [m |-> "S", s |-> s, labs |-> labs]]
Ex(st, s) == ExL(st, s, {})
Push(st, fr) == [st EXCEPT !.k = Append(@, fr)]
Pop(st) == [st EXCEPT !.k = SubSeq(@, 1, Len(@) - 1)]
Top(st) == st.k[Len(st.k)]
Repl(st, fr) == [st EXCEPT !.k[Len(st.k)] = fr]
Alloc(st, recs) == [st EXCEPT !.heap = @ \o recs]              \* new addresses Len(st.heap)+1 ..
\* an opaque deviation: the as-is behaviour from here on depends on interpreter internals
Opaque(st, name) == HaltWith(Fire(st, name), [o |-> "opaque", dev |-> name])

InFn(st) == \E j \in 1..Len(st.k) : st.k[j].f = "callret"
\* Dev_LocAfterLoopBody (as-is): an error raised by the engine while it evaluates the condition of a do-while or the update
\* expression of a for statement - code that the compiler emits AFTER the loop body - carries the location of the last
\* statement compiled before it (a statement of the body) instead of the loop statement's; the error object is tagged (lt)
LoopTailFrames == {"seq", "ifdone", "loop", "iter", "swbody", "label", "callret", "scope", "try", "fin"}
InLoopTail(st) ==
  LET S == {j \in 1..Len(st.k) : st.k[j].f \in LoopTailFrames} IN
  S # {} /\ LET fr == st.k[CHOOSE j \in S : \A q \in S : q <= j] IN
            /\ fr.f = "loop"
            /\ ((fr.w.s = "dowhile" /\ fr.ph = "test") \/ (fr.w.s = "for" /\ fr.ph = "upd"))
            /\ ~(fr.w.b.s = "block" /\ fr.w.b.b = <<>>)
ThrowErr(st, cls, nid) ==
  LET er == IF D(st, "Dev_LocAfterLoopBody") /\ InLoopTail(st)
            THEN [h |-> "err", cls |-> cls, msg |-> "", site |-> nid, rt |-> TRUE, infn |-> FALSE, lt |-> TRUE]
            ELSE HErr(cls, "", nid, TRUE)
  IN Cmp(Alloc(st, <<er>>), CThrow(VRef(Len(st.heap) + 1)))
\* as-is rules for the location properties of error objects (recorded findings):
\*   Dev_NoRuntimeLoc  : errors raised by the engine itself carry no location of their own (None, or the location of an
\*                       unrelated earlier throw statement that happens to precede them in the source map)
\*   Dev_NoLocInFunctions : only the top-level code of a script has a source map; a throw inside a function sets nothing
\*   Dev_LocNextStatement : the location is looked up one instruction too late: when another statement follows the raising
\*                          one in the bytecode, that statement's position is reported (some line / column, not the right one)
AsIsLoc(st, ov, r) ==
  IF r.t # "loc" THEN [v |-> r, d |-> ""]
  ELSE LET ho == st.heap[ov.r] IN
       IF ho.rt /\ "lt" \in DOMAIN ho /\ D(st, "Dev_LocAfterLoopBody") THEN [v |-> [t |-> "anyloc"], d |-> "Dev_LocAfterLoopBody"]
       ELSE IF ho.rt /\ D(st, "Dev_NoRuntimeLoc") THEN [v |-> [t |-> "anyloc"], d |-> "Dev_NoRuntimeLoc"]
       ELSE IF ~ho.rt /\ ho.infn /\ D(st, "Dev_NoLocInFunctions") THEN [v |-> [t |-> "hostnone"], d |-> "Dev_NoLocInFunctions"]
       ELSE IF D(st, "Dev_LocNextStatement") THEN [v |-> [t |-> "anyloc"], d |-> "Dev_LocNextStatement"]
       ELSE [v |-> r, d |-> ""]
\* normal completion with value v of a loop / switch / labelled / try statement.
\* Dev_CompletionTail (as-is): only expression statements, blocks and if statements in tail position produce the completion
\* value of a script; every other statement completes with undefined, and a statement list yields its last statement's value.
CmpN(st, v) == IF D(st, "Dev_CompletionTail") /\ v.t \notin {"undef", "empty"}
               THEN Cmp(IF InFn(st) THEN st ELSE Fire(st, "Dev_CompletionTail"), CN(VUndef))
               ELSE Cmp(st, CN(v))
\* as-is: a name that ECMAScript binds before the script runs is still unbound (nothing is hoisted at top level)
FireUnbound(st, x) == LET s1 == IF x \in st.hv /\ D(st, "Dev_NoGlobalVarHoist") THEN Fire(st, "Dev_NoGlobalVarHoist") ELSE st
                      IN IF x \in st.hf /\ D(st, "Dev_NoFnHoist") THEN Fire(s1, "Dev_NoFnHoist") ELSE s1
\* assignment to a declared variable (resolution along the environment chain)
SetVar(st, x, v) ==
  LET a == LookupEnv(st.heap, st.env, x) IN
  IF a # 0 THEN [st EXCEPT !.heap[a].vars[x] = v]
  ELSE IF st.env \in {1, st.pl} /\ (D(st, "Dev_NoGlobalVarHoist") \/ D(st, "Dev_NoFnHoist"))
       THEN [st EXCEPT !.heap[1].vars = (x :> v) @@ @]          \* as-is: the declaration creates the global here
  ELSE Flag([st EXCEPT !.heap[1].vars = (x :> v) @@ @])       \* assignment to an undeclared name: never generated
\* own-property write
SetProp(st, ov, pv, v) ==
  IF ov.t # "ref" THEN Flag(st)
  ELSE LET ho == st.heap[ov.r] IN
    CASE ho.h = "arr" -> LET ix == IdxOf(pv) IN
                         IF ix >= 0 /\ ix < Len(ho.es) THEN [st EXCEPT !.heap[ov.r].es[ix + 1] = v]
                         ELSE IF ix = Len(ho.es) THEN [st EXCEPT !.heap[ov.r].es = Append(@, v)]
                         ELSE Flag(st)
      [] ho.h = "obj" -> LET key == KeyOf(pv)  S == {j \in 1..Len(ho.ks) : ho.ks[j] = key} IN
                         IF key = "?" \/ \E j \in S : ho.kd[j] # "init" THEN Flag(st)        \* accessors: see SetterOf
                         ELSE IF S = {} THEN [st EXCEPT !.heap[ov.r].ks = Append(@, key), !.heap[ov.r].kd = Append(@, "init"),
                                                        !.heap[ov.r].vs = Append(@, v)]
                         ELSE [st EXCEPT !.heap[ov.r].vs[CHOOSE j \in S : TRUE] = v]
      [] OTHER -> Flag(st)

\* the setter function of an accessor property, or VUndef
SetterOf(heap, ov, pv) ==
  IF ov.t = "ref" /\ heap[ov.r].h = "obj"
  THEN LET ho == heap[ov.r]  S == {j \in 1..Len(ho.ks) : ho.ks[j] = KeyOf(pv) /\ ho.kd[j] = "set"}
       IN IF S = {} THEN VUndef ELSE ho.vs[CHOOSE j \in S : TRUE]
  ELSE VUndef

\* ---------------- calls ---------------------------------------------------------------------------------
FdeclAsFun(d) == [e |-> "fun", name |-> d.name, params |-> d.params, body |-> d.body, arrow |-> FALSE]
\* FunctionDeclarationInstantiation: parameters, arguments, hoisted var names, hoisted function declarations
CallClosure(st, fref, args) ==
  LET clo == st.heap[fref]
      fn  == clo.fn
      fds == FunDecls(fn.body)
      base == Len(st.heap)
      \* Dev_ArrowArguments (as-is): an arrow function gets an arguments object of its own, like any other function
      \* (ECMAScript: `arguments` inside an arrow is the binding of the enclosing function, or unbound at script level)
      ownargs == ~fn.arrow \/ D(st, "Dev_ArrowArguments")
      argsAddr == base + 1
      envAddr == IF ownargs THEN base + 2 ELSE base + 1
      hoist == ~D(st, "Dev_NoFnHoist")
      PS == {fn.params[j] : j \in 1..Len(fn.params)}
      FS == {fds[j].name : j \in 1..Len(fds)}
      AS == IF ownargs THEN {"arguments"} ELSE {}
      VS == VarNamesL(fn.body)
      \* Dev_OwnNameSlot (as-is): a `var` of the body that has the function's own name starts as the function itself
      \* (the own name and the variable share one slot; ECMAScript: the variable shadows the name and starts undefined)
      ownslot == D(st, "Dev_OwnNameSlot") /\ ~fn.arrow /\ fn.name # "" /\ fn.name \in VS \ (PS \cup FS \cup AS)
      ArgFor(x) == LET j == LastIdx(fn.params, LAMBDA p : p = x) IN Arg(args, j)
      vars == [x \in PS \cup FS \cup AS \cup VS |->
                 IF x \in FS /\ hoist THEN VRef(envAddr + LastIdx(fds, LAMBDA d : d.name = x))
                 ELSE IF x \in PS THEN ArgFor(x)
                 ELSE IF x \in AS THEN VRef(argsAddr)
                 ELSE IF ownslot /\ x = fn.name THEN VRef(fref) ELSE VUndef]
      envrec == IF fn.arrow THEN [h |-> "env", vars |-> vars, par |-> clo.env, arrow |-> TRUE] ELSE HEnv(vars, clo.env)
      recs == (IF ownargs THEN <<HArr(args)>> ELSE <<>>) \o <<envrec>>
              \o (IF hoist THEN [j \in 1..Len(fds) |-> HFun(FdeclAsFun(fds[j]), envAddr)] ELSE <<>>)
      s1 == Alloc(st, recs)
      s2 == IF ~hoist /\ Len(fds) > 0 THEN Fire(s1, "Dev_NoFnHoist") ELSE s1
      s3 == IF ownslot THEN Fire(s2, "Dev_OwnNameSlot") ELSE s2
  IN Ex(Push([s3 EXCEPT !.env = envAddr], [f |-> "callret", env |-> st.env]), SBlock(fn.body))

RECURSIVE NatIter(_), DoCall(_, _, _, _, _)
\* st has a "nat" frame on top: run the callback on the next element, or finish
DoCall(st, fv, thisv, args, nid) ==
  IF fv.t = "ref" /\ st.heap[fv.r].h = "fun" THEN CallClosure(st, fv.r, args)
  ELSE IF fv.t # "nat" THEN ThrowErr(st, "TypeError", nid)
  ELSE CASE fv.n = "log" -> LET pv == Proj(st.heap, Arg(args, 1))
                                s1 == IF pv.t = "loc" /\ pv.nid = 0 THEN Flag(st) ELSE st
                            IN Ret([s1 EXCEPT !.log = Append(@, pv)], VUndef)
         [] fv.n \in ErrCtors -> LET mv == Arg(args, 1)
                                     msg == IF mv.t = "undef" THEN "" ELSE ToStr(mv)
                                 IN Ret(Alloc(st, <<HErr(fv.n, msg, 0, FALSE)>>), VRef(Len(st.heap) + 1))
         [] fv.n = "push" -> IF thisv.t = "ref" /\ st.heap[thisv.r].h = "arr"
                             THEN Ret([st EXCEPT !.heap[thisv.r].es = Append(@, Arg(args, 1))], VInt(Len(st.heap[thisv.r].es) + 1))
                             ELSE Ret(st, Unsup)
         [] fv.n = "sort" ->                                \* only a comparator that throws at once is inside the fragment
              IF thisv.t = "ref" /\ st.heap[thisv.r].h = "arr"
              THEN (IF Len(st.heap[thisv.r].es) < 2 THEN Ret(st, thisv)
                    ELSE DoCall(Push(st, [f |-> "natsort"]), Arg(args, 1), VUndef, <<st.heap[thisv.r].es[1], st.heap[thisv.r].es[2]>>, nid))
              ELSE Ret(st, Unsup)
         [] fv.n \in {"forEach", "map"} ->
              IF thisv.t = "ref" /\ st.heap[thisv.r].h = "arr"
              THEN NatIter(Push(st, [f |-> "nat", n |-> fv.n, arr |-> thisv.r, fn |-> Arg(args, 1), idx |-> 0,
                                     len |-> Len(st.heap[thisv.r].es), acc |-> <<>>, nid |-> nid]))
              ELSE Ret(st, Unsup)
         [] fv.n \in C07NbArr ->                            \* first call: (element 0, 0, array); reduce with an initial value: (initial, element 0, 0, array)
              IF thisv.t = "ref" /\ st.heap[thisv.r].h = "arr" /\ Len(st.heap[thisv.r].es) >= 1 /\ (fv.n = "reduce" => Len(args) >= 2)
              THEN LET e1 == st.heap[thisv.r].es[1] IN
                   DoCall(Push(st, [f |-> "natsort"]), Arg(args, 1), VUndef,
                          IF fv.n = "reduce" THEN <<args[2], e1, VInt(0), thisv>> ELSE <<e1, VInt(0), thisv>>, nid)
              ELSE Ret(st, Unsup)
         [] fv.n \in C07NbStr ->                            \* string search value that occurs, function replacer: (match, position, string)
              LET sv == Arg(args, 1)  fn == Arg(args, 2) IN
              IF thisv.t = "str" /\ sv.t = "str" /\ fn.t = "ref" /\ st.heap[fn.r].h = "fun" /\ C07StrFind(thisv.s, sv.s) >= 0
              THEN DoCall(Push(st, [f |-> "natsort"]), fn, VUndef, <<sv, VInt(C07StrFind(thisv.s, sv.s)), thisv>>, nid)
              ELSE Ret(st, Unsup)
         [] OTHER -> Ret(st, Unsup)
NatIter(st) ==
  LET fr == Top(st)  es == st.heap[fr.arr].es IN
  IF fr.idx < fr.len /\ fr.idx < Len(es)
  THEN DoCall(Repl(st, [fr EXCEPT !.idx = @ + 1]), fr.fn, VUndef, <<es[fr.idx + 1], VInt(fr.idx), VRef(fr.arr)>>, fr.nid)
  ELSE IF fr.n = "forEach" THEN Ret(Pop(st), VUndef)
  ELSE Ret(Alloc(Pop(st), <<HArr(fr.acc)>>), VRef(Len(st.heap) + 1))

\* (C07, round 4) the function that ToPrimitive (no hint) calls first on an ordinary object: its own valueOf if it has one (a
\* function), otherwise its own toString; VUndef when the object is not of that kind (then `+` stays outside the fragment)
C07ConvFn(heap, v) ==
  IF v.t = "ref" /\ heap[v.r].h = "obj"
  THEN LET ho == heap[v.r]
           own(key) == {j \in 1..Len(ho.ks) : ho.ks[j] = key}
           pick(key) == ho.vs[CHOOSE j \in own(key) : TRUE]
           isfn(w) == w.t = "ref" /\ heap[w.r].h = "fun"
       IN IF \E j \in 1..Len(ho.kd) : ho.kd[j] # "init" THEN VUndef
          ELSE IF own("valueOf") # {} THEN (IF isfn(pick("valueOf")) THEN pick("valueOf") ELSE VUndef)
          ELSE IF own("toString") # {} /\ isfn(pick("toString")) THEN pick("toString") ELSE VUndef
  ELSE VUndef

RetOrThrow(st, ov, r, nid) ==
  IF r.t = "throwmark" THEN ThrowErr(st, "TypeError", nid)
  ELSE IF r.t = "getter" THEN DoCall(st, r.fn, ov, <<>>, nid)                        \* accessor property: run the getter
  ELSE LET q == AsIsLoc(st, ov, r) IN Ret(IF q.d = "" THEN st ELSE Fire(st, q.d), q.v)

\* evaluate the next argument of a call / new, or perform it  (frame "args" on top)
ArgsNext(st) ==
  LET fr == Top(st) IN
  IF fr.rest # <<>> THEN Ev(Repl(st, [fr EXCEPT !.rest = Tail(@)]), Head(fr.rest))
  ELSE IF fr.new
       THEN (IF fr.fv.t = "nat" /\ fr.fv.n \in ErrCtors THEN DoCall(Pop(st), fr.fv, VUndef, fr.done, fr.nid)
             ELSE IF fr.fv.t = "ref" \/ fr.fv.t = "nat" THEN Ret(st, Unsup)              \* user constructors: C08
             ELSE ThrowErr(Pop(st), "TypeError", fr.nid))
       ELSE DoCall(Pop(st), fr.fv, fr.this, fr.done, fr.nid)
ArgsFrame(fv, thisv, x, isnew) == [f |-> "args", fv |-> fv, this |-> thisv, done |-> <<>>, rest |-> x.a, nid |-> x.nid, new |-> isnew]

\* ---------------- loops -----------------------------------------------------------------------------------
\* the loop frame [f |-> "loop", ph, w, labs, v] is on top
LoopBody(st) == LET fr == Top(st) IN Ex(Repl(st, [fr EXCEPT !.ph = "body"]), fr.w.b)
LoopTest(st) == LET fr == Top(st)  s1 == Repl(st, [fr EXCEPT !.ph = "test"]) IN
                IF fr.w.s = "for" /\ fr.w.c.e = "none" THEN LoopBody(s1) ELSE Ev(s1, fr.w.c)
LoopAfterBody(st) == LET fr == Top(st) IN
                     IF fr.w.s = "for" /\ fr.w.u.e # "none" THEN Ev(Repl(st, [fr EXCEPT !.ph = "upd"]), fr.w.u)
                     ELSE LoopTest(st)
\* the iteration frame [f |-> "iter", w, labs, items, idx, v] is on top: bind the next item or finish
IterNext(st) ==
  LET fr == Top(st) IN
  IF fr.idx < Len(fr.items)
  THEN LET it == fr.items[fr.idx + 1] IN
       IF it.t = "unsup" THEN Ret(st, Unsup)
       ELSE Ex(SetVar(Repl(st, [fr EXCEPT !.idx = @ + 1]), fr.w.x, it), fr.w.b)
  ELSE CmpN(Pop(st), fr.v)
\* completion c of the body of the loop-like frame fr (on top of st); after(s) continues with the next round
BodyDone(st, fr, c, after(_)) ==
  LET v2 == IF c.v.t # "empty" THEN c.v ELSE fr.v IN
  IF c.c = "normal" \/ (c.c = "continue" /\ (c.lab = "" \/ c.lab \in fr.labs)) THEN after(Repl(st, [fr EXCEPT !.v = v2]))
  ELSE IF c.c = "break" /\ c.lab = "" THEN CmpN(Pop(st), v2)
  ELSE Cmp(Pop(st), UpdateEmpty(c, fr.v))

\* ---------------- switch -----------------------------------------------------------------------------------
\* frames: "swtest" [w, dv, idx] while a case test is evaluated, "swbody" [w, idx, v] while clause idx runs
RECURSIVE SwNextTest(_, _, _, _)
SwRun(st, w, idx, v) == IF idx > Len(w.cs) THEN CmpN(st, v)
                        ELSE Ex(Push(st, [f |-> "swbody", w |-> w, idx |-> idx, v |-> v]), SBlock(w.cs[idx].b))
SwNextTest(st, w, dv, idx) ==                              \* st without a switch frame; idx = first clause to consider
  IF idx > Len(w.cs)
  THEN LET DS == {j \in 1..Len(w.cs) : w.cs[j].t.e = "none"} IN
       IF DS = {} THEN Cmp(st, CN(VUndef)) ELSE SwRun(st, w, CHOOSE j \in DS : TRUE, VUndef)
  ELSE IF w.cs[idx].t.e = "none"
       THEN (IF D(st, "Dev_SwitchDefaultOrder")            \* as-is: reaching the default clause jumps to it; later tests are never tried
             THEN SwRun(IF \E j \in (idx + 1)..Len(w.cs) : w.cs[j].t.e # "none" THEN Fire(st, "Dev_SwitchDefaultOrder") ELSE st, w, idx, VUndef)
             ELSE SwNextTest(st, w, dv, idx + 1))
  ELSE Ev(Push(st, [f |-> "swtest", w |-> w, dv |-> dv, idx |-> idx]), w.cs[idx].t)

\* ---------------- statements ----------------------------------------------------------------------------------
RECURSIVE VarDecls(_, _)
VarDecls(st, ds) ==
  IF ds = <<>> THEN Cmp(st, CN(Empty))
  ELSE IF Head(ds).i.e = "none"
       THEN (IF D(st, "Dev_VarRedecl")                     \* as-is: `var x;` stores undefined
             THEN LET a == LookupEnv(st.heap, st.env, Head(ds).x)
                      chg == a = 0 \/ st.heap[a].vars[Head(ds).x] # VUndef
                  IN VarDecls(SetVar(IF chg /\ a # 0 THEN Fire(st, "Dev_VarRedecl") ELSE st, Head(ds).x, VUndef), Tail(ds))
             ELSE VarDecls(st, Tail(ds)))
       ELSE Ev(Push(st, [f |-> "vardecl", x |-> Head(ds).x, rest |-> Tail(ds)]), Head(ds).i)

StepS(st, s, labs) ==
  CASE s.s = "expr" -> Ev(Push(st, [f |-> "exprstmt"]), s.x)
    [] s.s = "var" -> VarDecls(st, s.ds)
    [] s.s = "fdecl" -> IF D(st, "Dev_NoFnHoist")           \* as-is: the declaration is evaluated in place
                        THEN Cmp(SetVar(Alloc(Fire(st, "Dev_NoFnHoist"), <<HFun(FdeclAsFun(s), IF st.pl # 0 /\ st.env = st.pl THEN 1 ELSE st.env)>>),
                                        s.name, VRef(Len(st.heap) + 1)), CN(Empty))
                        ELSE Cmp(st, CN(Empty))
    [] s.s = "empty" -> Cmp(st, CN(Empty))
    [] s.s = "block" -> IF s.b = <<>> THEN Cmp(st, CN(Empty))
                        ELSE Ex(Push(st, [f |-> "seq", rest |-> Tail(s.b), v |-> Empty]), Head(s.b))
    [] s.s = "if" -> Ev(Push(st, [f |-> "if", a |-> s.a, b |-> s.b]), s.c)
    [] s.s = "while" -> LoopTest(Push(st, [f |-> "loop", ph |-> "test", w |-> s, labs |-> labs, v |-> VUndef]))
    [] s.s = "dowhile" -> LoopBody(Push(st, [f |-> "loop", ph |-> "body", w |-> s, labs |-> labs, v |-> VUndef]))
    [] s.s = "for" -> LET s1 == Push(st, [f |-> "loop", ph |-> "init", w |-> s, labs |-> labs, v |-> VUndef]) IN
                      IF s.i.s = "none" THEN LoopTest(s1) ELSE Ex(s1, s.i)
    [] s.s \in {"forin", "forof"} -> Ev(Push(st, [f |-> "iterobj", w |-> s, labs |-> labs]), s.o)
    [] s.s = "switch" -> Ev(Push(st, [f |-> "swdisc", w |-> s]), s.d)
    [] s.s = "label" -> ExL(Push(st, [f |-> "label", l |-> s.l]), s.b, labs \cup {s.l})
    [] s.s = "break" -> Cmp(st, CBreak(s.l))
    [] s.s = "continue" -> Cmp(st, CCont(s.l))
    [] s.s = "return" -> IF s.x.e = "none" THEN Cmp(st, CRet(VUndef)) ELSE Ev(Push(st, [f |-> "ret"]), s.x)
    [] s.s = "throw" -> Ev(Push(st, [f |-> "throw", nid |-> s.nid]), s.x)
    [] s.s = "try" ->
         LET hasf == s.f.s # "none"
             id == IF hasf THEN Len(st.hist) + 1 ELSE 0
             s1 == IF hasf THEN [st EXCEPT !.hist = Append(@, [fin |-> 0, done |-> FALSE])] ELSE st
         IN Ex(Push(s1, [f |-> "try", t |-> s, ph |-> "block", id |-> id]), s.b)
    [] OTHER -> HaltWith(st, [o |-> "unsupported"])

\* ---------------- expressions ---------------------------------------------------------------------------------
StepE(st, x) ==
  CASE x.e = "num" -> Ret(st, VInt(x.n))
    [] x.e = "str" -> Ret(st, VStr(x.s))
    [] x.e = "bool" -> Ret(st, VBool(x.b))
    [] x.e = "undef" -> Ret(st, VUndef)
    [] x.e = "null" -> Ret(st, VNull)
    [] x.e = "var" -> LET a == LookupEnv(st.heap, st.env, x.x) IN
                      IF a # 0 THEN Ret(IF x.x = "arguments" /\ "arrow" \in DOMAIN st.heap[a] THEN Fire(st, "Dev_ArrowArguments") ELSE st,
                                        st.heap[a].vars[x.x])
                      ELSE IF x.x \in BuiltinNames THEN Ret(st, Builtin(x.x))
                      ELSE ThrowErr(FireUnbound(st, x.x), "ReferenceError", x.nid)
    [] x.e = "bin" -> Ev(Push(st, [f |-> "binl", o |-> x.o, r |-> x.r]), x.l)
    [] x.e = "un" -> IF x.o = "typeof" /\ x.x.e = "var" /\ LookupEnv(st.heap, st.env, x.x.x) = 0 /\ x.x.x \notin BuiltinNames
                     THEN Ret(FireUnbound(st, x.x.x), VStr("undefined"))
                     ELSE Ev(Push(st, [f |-> "un", o |-> x.o]), x.x)
    [] x.e = "logic" -> Ev(Push(st, [f |-> "logic", o |-> x.o, r |-> x.r]), x.l)
    [] x.e = "cond" -> Ev(Push(st, [f |-> "cond", a |-> x.a, b |-> x.b]), x.c)
    [] x.e = "asg" -> Ev(Push(st, [f |-> "asg", x |-> x.x]), x.r)
    [] x.e = "casg" -> LET a == LookupEnv(st.heap, st.env, x.x) IN
                       IF a = 0 THEN ThrowErr(st, "ReferenceError", 0)
                       ELSE Ev(Push(st, [f |-> "casg", o |-> x.o, x |-> x.x, old |-> st.heap[a].vars[x.x]]), x.r)
    [] x.e = "upd" -> LET a == LookupEnv(st.heap, st.env, x.x) IN
                      IF a = 0 THEN ThrowErr(st, "ReferenceError", 0)
                      ELSE LET old == st.heap[a].vars[x.x] IN
                           IF old.t # "int" THEN Ret(st, Unsup)
                           ELSE LET nv == VInt(IF x.o = "++" THEN old.i + 1 ELSE old.i - 1)
                                IN Ret(SetVar(st, x.x, nv), IF x.pre THEN nv ELSE old)
    [] x.e = "mem" -> Ev(Push(st, [f |-> "memo", x |-> x]), x.o)
    [] x.e = "masg" -> Ev(Push(st, [f |-> "masgo", x |-> x]), x.m.o)
    [] x.e = "mupd" -> Ev(Push(st, [f |-> "mupdo", x |-> x]), x.m.o)
    [] x.e = "call" -> IF x.f.e = "mem" THEN Ev(Push(st, [f |-> "callo", x |-> x]), x.f.o)
                       ELSE Ev(Push(st, [f |-> "callf", x |-> x, new |-> FALSE]), x.f)
    [] x.e = "new" -> Ev(Push(st, [f |-> "callf", x |-> x, new |-> TRUE]), x.f)
    [] x.e = "fun" ->
         LET cenv == IF st.pl # 0 /\ st.env = st.pl THEN 1 ELSE st.env IN      \* (as-is: script-level slots are invisible to functions)
         IF x.name # "" /\ ~x.arrow                            \* named function expression: own scope for its name
         THEN LET a1 == Len(st.heap) + 1 IN
              Ret(Alloc(st, <<HEnv((x.name :> VRef(a1 + 1)), cenv), HFun(x, a1)>>), VRef(a1 + 1))
         ELSE Ret(Alloc(st, <<HFun(x, cenv)>>), VRef(Len(st.heap) + 1))
    [] x.e = "arr" -> IF x.a = <<>> THEN Ret(Alloc(st, <<HArr(<<>>)>>), VRef(Len(st.heap) + 1))
                      ELSE Ev(Push(st, [f |-> "arrlit", done |-> <<>>, rest |-> Tail(x.a)]), Head(x.a))
    [] x.e = "obj" -> IF x.vs = <<>> THEN Ret(Alloc(st, <<HObj(<<>>, <<>>, <<>>)>>), VRef(Len(st.heap) + 1))
                      ELSE Ev(Push(st, [f |-> "objlit", ks |-> x.ks, kd |-> x.kd, done |-> <<>>, rest |-> Tail(x.vs)]), Head(x.vs))
    [] x.e = "seq" -> Ev(Push(st, [f |-> "comma", rest |-> Tail(x.a)]), Head(x.a))
    [] OTHER -> HaltWith(st, [o |-> "unsupported"])

StepVMupd(st, x, ov, pv) ==
  LET old == GetProp(st.heap, ov, pv) IN
  IF old.t = "throwmark" THEN ThrowErr(st, "TypeError", x.m.nid)
  ELSE IF old.t # "int" THEN Ret(st, Unsup)
  ELSE LET nv == VInt(IF x.o = "++" THEN old.i + 1 ELSE old.i - 1) IN Ret(SetProp(st, ov, pv, nv), IF x.pre THEN nv ELSE old)

\* ---------------- a value returns to the top frame -----------------------------------------------------------------
StepV(st, v) ==
  LET fr == Top(st)  s0 == Pop(st) IN
  CASE fr.f = "exprstmt" -> Cmp(s0, CN(v))
    [] fr.f = "vardecl" -> VarDecls(SetVar(s0, fr.x, v), fr.rest)
    [] fr.f = "if" -> IF Truthy(v) THEN Ex(Push(s0, [f |-> "ifdone"]), fr.a)
                      ELSE IF fr.b.s = "none" THEN Cmp(s0, CN(VUndef)) ELSE Ex(Push(s0, [f |-> "ifdone"]), fr.b)
    [] fr.f = "loop" -> IF fr.ph = "upd" THEN LoopTest(st)
                        ELSE IF Truthy(v) THEN LoopBody(st) ELSE CmpN(s0, fr.v)               \* ph = "test"
    [] fr.f = "iterobj" -> LET items == IF fr.w.s = "forin" THEN KeysOf(st.heap, v) ELSE ElemsOf(st.heap, v)
                           IN IterNext(Push(s0, [f |-> "iter", w |-> fr.w, labs |-> fr.labs, items |-> items, idx |-> 0, v |-> VUndef]))
    [] fr.f = "swdisc" -> SwNextTest(s0, fr.w, v, 1)
    [] fr.f = "swtest" -> IF StrictEq(fr.dv, v) THEN SwRun(s0, fr.w, fr.idx, VUndef) ELSE SwNextTest(s0, fr.w, fr.dv, fr.idx + 1)
    [] fr.f = "ret" -> Cmp(s0, CRet(v))
    [] fr.f = "throw" -> Cmp(IF v.t = "ref" /\ s0.heap[v.r].h = "err"
                             THEN [s0 EXCEPT !.heap[v.r].site = fr.nid, !.heap[v.r].rt = FALSE, !.heap[v.r].infn = InFn(s0)] ELSE s0, CThrow(v))
    [] fr.f = "binl" -> Ev(Push(s0, [f |-> "binr", o |-> fr.o, lv |-> v]), fr.r)
    [] fr.f = "binr" ->
         IF fr.o = "instanceof"
         THEN (IF v.t = "nat" /\ v.n \in ErrCtors
               THEN LET iserr == fr.lv.t = "ref" /\ s0.heap[fr.lv.r].h = "err"
                        same == iserr /\ s0.heap[fr.lv.r].cls = v.n
                    IN IF iserr /\ ~same /\ v.n = "Error" /\ D(s0, "Dev_ErrorHierarchy")          \* as-is: no prototype chain between the constructors
                       THEN Ret(Fire(s0, "Dev_ErrorHierarchy"), VBool(FALSE))
                       ELSE Ret(s0, VBool(same \/ (iserr /\ v.n = "Error")))
               ELSE Ret(s0, Unsup))
         \* (C07, round 4) `+` with an object operand: the left operand is converted first; the conversion function runs as a call from
         \* the operator (only a conversion that throws is inside the fragment)
         ELSE IF fr.o = "+" /\ C07ConvFn(s0.heap, fr.lv).t = "ref" THEN DoCall(Push(s0, [f |-> "natsort"]), C07ConvFn(s0.heap, fr.lv), fr.lv, <<>>, 0)
         ELSE IF fr.o = "+" /\ IsPrim(fr.lv) /\ C07ConvFn(s0.heap, v).t = "ref" THEN DoCall(Push(s0, [f |-> "natsort"]), C07ConvFn(s0.heap, v), v, <<>>, 0)
         ELSE Ret(s0, BinOp(fr.o, fr.lv, v))
    [] fr.f = "un" -> (CASE fr.o = "!" -> Ret(s0, VBool(~Truthy(v)))
                         [] fr.o = "typeof" -> Ret(s0, VStr(TypeOfV(s0.heap, v)))
                         [] fr.o = "-" -> Ret(s0, IF v.t = "int" /\ v.i # 0 THEN VInt(0 - v.i) ELSE Unsup)          \* -0 is not an integer
                         [] OTHER -> Ret(s0, Unsup))
    [] fr.f = "logic" -> IF Truthy(v) = (fr.o = "&&") THEN Ev(s0, fr.r) ELSE Ret(s0, v)
    [] fr.f = "cond" -> Ev(s0, IF Truthy(v) THEN fr.a ELSE fr.b)
    [] fr.f = "asg" -> Ret(SetVar(s0, fr.x, v), v)
    [] fr.f = "casg" -> LET nv == BinOp(fr.o, fr.old, v) IN IF nv.t = "unsup" THEN Ret(s0, Unsup) ELSE Ret(SetVar(s0, fr.x, nv), nv)
    [] fr.f = "comma" -> IF fr.rest = <<>> THEN Ret(s0, v) ELSE Ev(Push(s0, [fr EXCEPT !.rest = Tail(@)]), Head(fr.rest))
    \* member read  o[p] / o.n
    [] fr.f = "memo" -> IF fr.x.dot THEN RetOrThrow(s0, v, GetProp(s0.heap, v, VStr(fr.x.p.s)), fr.x.nid)
                        ELSE Ev(Push(s0, [f |-> "memp", ov |-> v, nid |-> fr.x.nid]), fr.x.p)
    [] fr.f = "memp" -> RetOrThrow(s0, fr.ov, GetProp(s0.heap, fr.ov, v), fr.nid)
    \* member assignment  o[p] = r
    [] fr.f = "masgo" -> IF fr.x.m.dot THEN Ev(Push(s0, [f |-> "masgr", ov |-> v, pv |-> VStr(fr.x.m.p.s), nid |-> fr.x.m.nid]), fr.x.r)
                         ELSE Ev(Push(s0, [f |-> "masgp", ov |-> v, x |-> fr.x]), fr.x.m.p)
    [] fr.f = "masgp" -> Ev(Push(s0, [f |-> "masgr", ov |-> fr.ov, pv |-> v, nid |-> fr.x.m.nid]), fr.x.r)
    [] fr.f = "masgr" -> IF fr.ov.t \in {"undef", "null"} THEN ThrowErr(s0, "TypeError", fr.nid)
                         ELSE LET sf == SetterOf(s0.heap, fr.ov, fr.pv) IN
                              IF sf.t # "undef" THEN DoCall(Push(s0, [f |-> "setret", v |-> v]), sf, fr.ov, <<v>>, fr.nid)
                              ELSE Ret(SetProp(s0, fr.ov, fr.pv, v), v)
    [] fr.f = "setret" -> Ret(s0, fr.v)                     \* the value of an assignment is the assigned value
    [] fr.f = "natsort" -> Ret(s0, Unsup)                   \* a comparator that returns: sorting is not modelled
    \* member update  o[p]++ ...
    [] fr.f = "mupdo" -> IF fr.x.m.dot THEN StepVMupd(s0, fr.x, v, VStr(fr.x.m.p.s))
                         ELSE Ev(Push(s0, [f |-> "mupdp", ov |-> v, x |-> fr.x]), fr.x.m.p)
    [] fr.f = "mupdp" -> StepVMupd(s0, fr.x, fr.ov, v)
    \* calls
    [] fr.f = "callo" -> IF fr.x.f.dot
                         THEN LET fv == GetProp(s0.heap, v, VStr(fr.x.f.p.s)) IN
                              IF fv.t = "throwmark" THEN ThrowErr(s0, "TypeError", fr.x.f.nid)
                              ELSE IF fv.t \in {"unsup", "getter"} THEN Ret(s0, Unsup)
                              ELSE ArgsNext(Push(s0, ArgsFrame(fv, v, fr.x, FALSE)))
                         ELSE Ev(Push(s0, [f |-> "callp", ov |-> v, x |-> fr.x]), fr.x.f.p)
    [] fr.f = "callp" -> LET fv == GetProp(s0.heap, fr.ov, v) IN
                         IF fv.t = "throwmark" THEN ThrowErr(s0, "TypeError", fr.x.f.nid)
                         ELSE IF fv.t \in {"unsup", "getter"} THEN Ret(s0, Unsup)
                         ELSE ArgsNext(Push(s0, ArgsFrame(fv, fr.ov, fr.x, FALSE)))
    [] fr.f = "callf" -> ArgsNext(Push(s0, ArgsFrame(v, VUndef, fr.x, fr.new)))
    [] fr.f = "args" -> ArgsNext(Repl(st, [fr EXCEPT !.done = Append(@, v)]))
    [] fr.f = "nat" -> NatIter(Repl(st, [fr EXCEPT !.acc = Append(@, v)]))
    [] fr.f = "arrlit" -> IF fr.rest = <<>> THEN Ret(Alloc(s0, <<HArr(Append(fr.done, v))>>), VRef(Len(s0.heap) + 1))
                          ELSE Ev(Repl(st, [fr EXCEPT !.done = Append(@, v), !.rest = Tail(@)]), Head(fr.rest))
    [] fr.f = "objlit" -> IF fr.rest = <<>> THEN Ret(Alloc(s0, <<HObj(fr.ks, fr.kd, Append(fr.done, v))>>), VRef(Len(s0.heap) + 1))
                          ELSE Ev(Repl(st, [fr EXCEPT !.done = Append(@, v), !.rest = Tail(@)]), Head(fr.rest))
    [] OTHER -> HaltWith(st, [o |-> "stuck", why |-> "value into frame " \o fr.f])

\* ---------------- a completion returns to the top frame -------------------------------------------------------------
StepC(st, c) ==
  IF st.k = <<>>
  THEN HaltWith(st, IF st.flag # "" THEN [o |-> "unsupported"]
                    ELSE IF c.c = "normal" THEN [o |-> "value", v |-> Proj(st.heap, IF c.v.t = "empty" THEN VUndef ELSE c.v)]
                    ELSE IF c.c = "throw" THEN [o |-> "throw", v |-> Proj(st.heap, c.v),
                                                msg |-> IF c.v.t = "ref" /\ st.heap[c.v.r].h = "err" THEN st.heap[c.v.r].msg ELSE ToStr(c.v)]
                    ELSE [o |-> "unsupported"])
  ELSE LET fr == Top(st)  s0 == Pop(st) IN
  CASE fr.f = "seq" ->
         IF c.c = "normal"
         THEN LET vr == IF c.v.t # "empty" THEN c.v ELSE fr.v
                  va == IF c.v.t = "empty" THEN VUndef ELSE c.v                  \* as-is: the last statement's value only
                  asis == D(st, "Dev_CompletionTail")
                  v2 == IF asis THEN va ELSE vr
                  s1 == IF asis /\ va # (IF vr.t = "empty" THEN VUndef ELSE vr) /\ ~InFn(st) THEN Fire(st, "Dev_CompletionTail") ELSE st
              IN IF fr.rest = <<>> THEN Cmp(Pop(s1), CN(v2))
                 ELSE Ex(Repl(s1, [fr EXCEPT !.rest = Tail(@), !.v = v2]), Head(fr.rest))
         ELSE Cmp(s0, UpdateEmpty(c, fr.v))
    [] fr.f = "ifdone" -> Cmp(s0, UpdateEmpty(c, VUndef))
    [] fr.f = "loop" -> IF fr.ph = "body" THEN BodyDone(st, fr, c, LoopAfterBody)
                        ELSE IF fr.ph = "init" /\ c.c = "normal" THEN LoopTest(st)
                        ELSE Cmp(s0, c)
    [] fr.f = "iter" -> BodyDone(st, fr, c, IterNext)
    [] fr.f = "swbody" -> LET v2 == IF c.v.t # "empty" THEN c.v ELSE fr.v IN
                          IF c.c = "normal" THEN SwRun(s0, fr.w, fr.idx + 1, v2)
                          ELSE IF c.c = "break" /\ c.lab = "" THEN CmpN(s0, v2)
                          ELSE Cmp(s0, UpdateEmpty(c, fr.v))
    [] fr.f = "label" -> IF (c.c = "break" /\ c.lab = fr.l) \/ c.c = "normal" THEN CmpN(s0, c.v) ELSE Cmp(s0, c)
    [] fr.f = "callret" -> LET s1 == [s0 EXCEPT !.env = fr.env] IN
                           IF c.c = "return" THEN Ret(s1, c.v)
                           ELSE IF c.c = "normal" THEN Ret(s1, VUndef)
                           ELSE IF c.c = "throw" THEN Cmp(s1, c)
                           ELSE HaltWith(st, [o |-> "unsupported"])              \* break / continue across a function
    [] fr.f = "scope" -> Cmp([s0 EXCEPT !.env = fr.env], c)
    [] fr.f = "try" ->
         IF fr.ph = "block" /\ c.c = "throw" /\ fr.t.c.s # "none"
         THEN IF D(st, "Dev_CatchParamScope")      \* as-is: the parameter is a variable of the enclosing function, or - at script
                                                   \* level - a slot of the script that later script-level code sees and functions do not
              THEN LET s1 == IF fr.t.cv \in DOMAIN st.heap[st.env].vars \/ st.env = st.pl THEN Fire(s0, "Dev_CatchParamScope") ELSE s0
                   IN Ex(Push([s1 EXCEPT !.heap[st.env].vars = (fr.t.cv :> c.v) @@ @], [fr EXCEPT !.ph = "catch"]), fr.t.c)
              ELSE LET a == Len(st.heap) + 1                                      \* catch: fresh scope for the parameter
                       \* Dev_CatchParamShared (as-is): the parameter of a catch clause is one variable per activation of the
                       \* enclosing function: entering the clause again stores into the binding that closures of earlier entries
                       \* captured (clauses are told apart structurally: identical clauses in one function are never generated)
                       S == IF D(st, "Dev_CatchParamShared") THEN {j \in 1..Len(st.cs) : st.cs[j].env = st.env /\ st.cs[j].t = fr.t} ELSE {}
                   IN IF S # {}
                      THEN LET old == st.cs[CHOOSE j \in S : TRUE].a IN
                           Ex(Push(Push([Fire(s0, "Dev_CatchParamShared") EXCEPT !.env = old, !.heap[old].vars = (fr.t.cv :> c.v)],
                                        [fr EXCEPT !.ph = "catch"]), [f |-> "scope", env |-> st.env]), fr.t.c)
                      ELSE
              Ex(Push(Push(Alloc([s0 EXCEPT !.env = a, !.cs = IF D(st, "Dev_CatchParamShared") THEN Append(@, [env |-> st.env, t |-> fr.t, a |-> a]) ELSE @],
                                 <<HEnv((fr.t.cv :> c.v), st.env)>>),
                           [fr EXCEPT !.ph = "catch"]), [f |-> "scope", env |-> st.env]), fr.t.c)
         ELSE IF fr.t.f.s # "none"
         THEN Ex(Push([s0 EXCEPT !.hist[fr.id].fin = @ + 1], [f |-> "fin", pend |-> UpdateEmpty(c, VUndef), id |-> fr.id]), fr.t.f)
         ELSE IF c.c = "normal" THEN CmpN(s0, UpdateEmpty(c, VUndef).v) ELSE Cmp(s0, UpdateEmpty(c, VUndef))
    [] fr.f = "fin" -> LET s1 == [s0 EXCEPT !.hist[fr.id].done = TRUE] IN
                       IF c.c = "normal" THEN (IF fr.pend.c = "normal" THEN CmpN(s1, fr.pend.v) ELSE Cmp(s1, fr.pend))
                       ELSE Cmp(s1, UpdateEmpty(c, VUndef))
    [] fr.f = "nat" ->                             \* a throw leaves script code that a native (forEach, map) is running
         IF c.c = "throw" /\ D(st, "Dev_CallbackThrow")
            /\ \E j \in 1..Len(s0.k) : s0.k[j].f = "try" /\ (s0.k[j].ph = "block" \/ s0.k[j].t.f.s # "none")
         THEN Opaque(st, "Dev_CallbackThrow")      \* as-is: the native's loop resumes, the handler runs later with whatever is on the operand stack
         ELSE Cmp(s0, c)
    [] OTHER -> Cmp(s0, c)                        \* abrupt completion passes through expression frames

\* ---------------- the machine -----------------------------------------------------------------------------------------
Step(st, maxsteps) ==
  IF st.steps >= maxsteps THEN HaltWith(st, [o |-> "bound"])
  ELSE LET s1 == [st EXCEPT !.steps = @ + 1] IN
       CASE st.ctl.m = "S" -> StepS(s1, st.ctl.s, st.ctl.labs)
         [] st.ctl.m = "E" -> StepE(s1, st.ctl.x)
         [] st.ctl.m = "V" -> StepV(s1, st.ctl.v)
         [] st.ctl.m = "C" -> StepC(s1, st.ctl.c)
Halted(st) == st.ctl.m = "halt"

\* GlobalDeclarationInstantiation: var names and function declarations of the script are bound before it runs
InitState(prog, devs) ==
  LET body == prog.body
      fds == FunDecls(body)
      hoistF == "Dev_NoFnHoist" \notin devs
      hoistV == "Dev_NoGlobalVarHoist" \notin devs
      FS == IF hoistF THEN {fds[j].name : j \in 1..Len(fds)} ELSE {}
      VS == IF hoistV THEN VarNamesL(body) ELSE {}
      vars == [x \in FS \cup VS |-> IF x \in FS THEN VRef(1 + LastIdx(fds, LAMBDA d : d.name = x)) ELSE VUndef]
      heap0 == <<HEnv(vars, 0)>> \o (IF hoistF THEN [j \in 1..Len(fds) |-> HFun(FdeclAsFun(fds[j]), 1)] ELSE <<>>)
      slots == "Dev_CatchParamScope" \in devs               \* as-is: script-level code has slots of its own on top of the globals
      heap == IF slots THEN Append(heap0, HEnv([x \in {} |-> VUndef], 1)) ELSE heap0
      pl == IF slots THEN Len(heap) ELSE 0
  IN [ctl |-> [m |-> "S", s |-> SBlock(body), labs |-> {}], env |-> IF slots THEN pl ELSE 1, pl |-> pl, k |-> <<>>, heap |-> heap, log |-> <<>>,
      steps |-> 0, hist |-> <<>>, cs |-> <<>>, devs |-> devs, fired |-> {}, flag |-> "", out |-> [o |-> "none"],
      hv |-> VarNamesL(body), hf |-> {fds[j].name : j \in 1..Len(fds)}]

\* ---------------- invariants of the machine (checked on every state of every run) ------------------------------------------
ValueFrames == {"exprstmt", "vardecl", "if", "loop", "iterobj", "swdisc", "swtest", "ret", "throw", "binl", "binr", "un",
                "logic", "cond", "asg", "casg", "comma", "memo", "memp", "masgo", "masgp", "masgr", "mupdo", "mupdp",
                "callo", "callp", "callf", "args", "nat", "arrlit", "objlit", "setret", "natsort"}
StmtFrames == {"seq", "ifdone", "loop", "iter", "swbody", "label", "callret", "scope", "try", "fin"}
FrameOK(st, fr) ==
  /\ fr.f \in ValueFrames \cup StmtFrames
  /\ (fr.f \in {"callret", "scope"} => fr.env \in 1..Len(st.heap) /\ st.heap[fr.env].h = "env")
  /\ (fr.f = "loop" => fr.ph \in {"init", "test", "body", "upd"})
  /\ (fr.f = "try" => fr.ph \in {"block", "catch"} /\ fr.id \in 0..Len(st.hist))
  /\ (fr.f = "fin" => fr.id \in 1..Len(st.hist) /\ st.hist[fr.id].fin = 1 /\ ~st.hist[fr.id].done)
  /\ (fr.f = "iter" => fr.idx \in 0..Len(fr.items))
  /\ (fr.f = "nat" => fr.arr \in 1..Len(st.heap) /\ st.heap[fr.arr].h = "arr")
KontWF(st) ==
  /\ st.env \in 1..Len(st.heap) /\ st.heap[st.env].h = "env"
  /\ \A j \in 1..Len(st.k) : FrameOK(st, st.k[j])
  /\ (st.ctl.m = "V" => st.k # <<>> /\ Top(st).f \in ValueFrames /\ (Top(st).f = "loop" => Top(st).ph \in {"test", "upd"}))
  /\ (st.ctl.m = "C" /\ st.k # <<>> /\ Top(st).f = "loop" => Top(st).ph \in {"init", "body", "test", "upd"})
  /\ (st.ctl.m = "halt" => st.out.o # "stuck")
\* every try activation enters its finally block at most once, and exactly once by the time it is left
FinallyOnce(st) ==
  /\ \A j \in 1..Len(st.hist) : st.hist[j].fin <= 1 /\ (st.hist[j].done => st.hist[j].fin = 1)
  /\ (st.ctl.m = "halt" /\ st.out.o \in {"value", "throw"} => \A j \in 1..Len(st.hist) : st.hist[j].done)
\* try activations still on the continuation are exactly the ones not yet left
TryAccounting(st) ==
  LET open == {st.k[j].id : j \in {q \in 1..Len(st.k) : st.k[q].f \in {"try", "fin"} /\ st.k[q].id # 0}}
  IN st.ctl.m # "halt" => \A j \in 1..Len(st.hist) : (st.hist[j].done <=> j \notin open)
=============================================================================
