"""Child interpreter: runs cases against the engine in /repo's working tree.

usage: engine_child.py <cases.ndjson> <results.ndjson> [driver_module:function]
Environment: PYTHONPATH=/repo/src:/verif, MICROJS_VERIF=1.
The virtual clock replaces time.monotonic *before* microjs is imported.
"""
import sys, os, json, time, signal, traceback, importlib

_real_monotonic = time.monotonic
_real_perf = time.perf_counter


class VClock:
    """Virtual monotonic clock driven by interpreter/regex steps (one tick per hooked step)."""
    def __init__(self):
        self.on = False
        self.now = 0.0
        self.reads = 0

    def monotonic(self):
        if self.on:
            self.reads += 1
            return self.now
        return _real_monotonic()


VCLOCK = VClock()
time.monotonic = VCLOCK.monotonic

# Address-space cap: an engine that tries to build a gigantic value (a change that drops a size check) gets the host's
# MemoryError - judged like any other host exception - instead of being killed by the kernel (which would be a machinery failure)
try:
    import resource
    _cap = int(float(os.environ.get("VERIF_CHILD_AS_GB", "6")) * 2 ** 30)
    resource.setrlimit(resource.RLIMIT_AS, (_cap, _cap))
except Exception:                   # not available: the kernel's own limits apply
    pass
import microjs                      # noqa: E402  (after the clock patch, on purpose)
from microjs import Context         # noqa: E402
from microjs import errors as E     # noqa: E402
import microjs.vm as _vm            # noqa: E402
import microjs.regex.vm as _rvm     # noqa: E402
from harness import wire            # noqa: E402


# The wall-clock watchdog is only a last resort behind the deterministic step cap; on a loaded machine it is
# stretched so that scheduling delays are never mistaken for a hang (VERIF_WALL_SCALE, default 3).
WALL_SCALE = float(os.environ.get("VERIF_WALL_SCALE", "3"))


class HarnessHang(BaseException):
    """Raised by the step hook / watchdog; BaseException so no `except Exception` swallows it."""


class Steps:
    def __init__(self):
        self.reset()

    def reset(self, cap=5_000_000, tick=0.0, deadline=None, sched=None):
        self.n = 0                     # all hooked steps
        self.by = {"main": 0, "cb": 0, "re": 0, "la": 0, "lb": 0, "native": 0}
        self.cap = cap
        self.tick = tick               # virtual seconds per step (0 = clock does not move)
        self.sched = list(sched or [])  # cost profile: [(step count, new tick), ...] - the cost of a step changes during the run
        self.deadline = deadline       # virtual time after which steps count as late
        self.late = {"main": 0, "cb": 0, "re": 0, "la": 0, "lb": 0, "native": 0}
        self.throws = 0
        self.user = None               # optional extra observer(kind, vm, a, b, c, d)


STEPS = Steps()


def _vm_hook(vm, kind, op, arg, frame):
    if kind == "throw":
        STEPS.throws += 1
        if STEPS.user is not None:
            STEPS.user(kind, vm, op, arg, frame, None)
        return
    s = STEPS
    s.n += 1
    s.by[kind] += 1
    if s.sched and s.n >= s.sched[0][0]:
        s.tick = s.sched.pop(0)[1]
    if s.tick:
        VCLOCK.now += s.tick
        if s.deadline is not None and VCLOCK.now > s.deadline:
            s.late[kind] += 1
    if s.user is not None and kind != "native":     # observers see instructions; a built-in run as a callback has none
        s.user(kind, vm, op, arg, frame, None)
    if s.n > s.cap:
        raise HarnessHang("step cap")


def _re_hook(rvm, kind, pc, sp, stacklen, step_count):
    s = STEPS
    s.n += 1
    s.by[kind] += 1
    if s.tick:
        VCLOCK.now += s.tick
        if s.deadline is not None and VCLOCK.now > s.deadline:
            s.late[kind] += 1
    if s.user is not None:
        s.user(kind, rvm, pc, sp, stacklen, step_count)
    if s.n > s.cap:
        raise HarnessHang("step cap")


HOOKS_ON = bool(getattr(_vm, "_verif_install", None) and _vm._verif_install(_vm_hook)) and \
    bool(getattr(_rvm, "_verif_install", None) and _rvm._verif_install(_re_hook))


def _alarm(signum, frm):
    raise HarnessHang("wall clock")


signal.signal(signal.SIGALRM, _alarm)


def where_of(exc):
    """innermost microjs frame (file:function) of a foreign exception"""
    tb = exc.__traceback__
    best = None
    while tb is not None:
        fn = tb.tb_frame.f_code.co_filename
        if "microjs" in fn:
            best = os.path.basename(fn) + ":" + tb.tb_frame.f_code.co_name
        tb = tb.tb_next
    return best or "?"


def classify_exc(e):
    if isinstance(e, HarnessHang):
        return {"o": "hang", "why": str(e)}
    if isinstance(e, E.JSSyntaxError):
        return {"o": "syntax", "line": int(getattr(e, "line", 0) or 0), "col": int(getattr(e, "column", 0) or 0),
                "msg": str(getattr(e, "message", ""))[:200]}
    if isinstance(e, E.TimeLimitError):
        return {"o": "timelimit"}
    if isinstance(e, E.MemoryLimitError):
        return {"o": "memlimit"}
    if isinstance(e, E.JSError):
        return {"o": "jserror", "name": str(getattr(e, "name", "")), "msg": str(getattr(e, "message", ""))[:300]}
    return {"o": "host", "type": type(e).__name__, "where": where_of(e), "msg": str(e)[:200]}


class Api:
    """What drivers get: contexts with a raw-value tap, a log, outcome classification."""
    wire = wire
    Context = Context
    steps = STEPS
    vclock = VCLOCK
    hooks_on = HOOKS_ON
    HarnessHang = HarnessHang

    def __init__(self):
        self.log = []

    def new_context(self, time_limit=None, memory_limit=None, raw=True):
        ctx = Context(time_limit=time_limit, memory_limit=memory_limit)
        self.log = []
        log = self.log
        ctx.set("log", lambda *a: (log.append([wire.to_wire(x) for x in a]), None)[1])
        if raw:
            box = []
            ctx._raw_box = box
            orig = ctx._to_python

            def tap(v, _orig=orig, _box=box):
                if not _box:
                    _box.append(v)
                return _orig(v)
            ctx._to_python = tap
        return ctx

    def run(self, fn, wall=20.0, cap=5_000_000, tick=0.0, deadline=None, keep_clock=False, sched=None):
        wall = wall * WALL_SCALE
        """Run fn() under the step cap and a wall-clock watchdog; classify the outcome."""
        STEPS.reset(cap=cap, tick=tick, deadline=deadline, sched=sched)
        if tick:
            VCLOCK.on = True
            if not keep_clock:          # keep_clock: a later evaluation of a history, virtual time goes on
                VCLOCK.now = 0.0
                VCLOCK.reads = 0
        signal.setitimer(signal.ITIMER_REAL, wall)
        try:
            try:
                v = fn()
                out = {"o": "value", "pv": v}
            except BaseException as e:      # noqa: BLE001 - classification is the point
                if isinstance(e, (KeyboardInterrupt, SystemExit)):
                    raise
                out = classify_exc(e)
        finally:
            signal.setitimer(signal.ITIMER_REAL, 0)
            VCLOCK.on = False
        out["steps"] = STEPS.n
        return out

    def eval_outcome(self, ctx, src, **kw):
        box = getattr(ctx, "_raw_box", None)
        if box is not None:
            del box[:]
        out = self.run(lambda: ctx.eval(src), **kw)
        if out["o"] == "value":
            pv = out.pop("pv")
            if box is not None:
                if not box:
                    raise RuntimeError("raw-value tap did not fire (engine internals changed?)")
                out["v"] = wire.to_wire(box[0])
            else:
                out["v"] = wire.py_to_wire(pv)
        return out


def default_driver(case, api):
    """kind=eval: fresh context, evaluate src, return typed outcome and the log."""
    ctx = api.new_context(time_limit=case.get("time_limit"), memory_limit=case.get("memory_limit"))
    out = api.eval_outcome(ctx, case["src"], wall=case.get("wall", 20.0), cap=case.get("cap", 5_000_000))
    res = {"id": case["id"], "out": out}
    if case.get("want_log"):
        res["log"] = api.log
    return res


def selfcheck(api):
    ctx = api.new_context()
    a = api.eval_outcome(ctx, "undefined")
    b = api.eval_outcome(ctx, "null")
    c = api.eval_outcome(ctx, "1+1")
    if not (a["o"] == "value" and a["v"]["k"] == "undef" and b["v"]["k"] == "null" and c["v"]["k"] == "num"):
        raise RuntimeError("engine self-check failed: %r %r %r" % (a, b, c))
    if os.environ.get("MICROJS_VERIF") == "1" and not HOOKS_ON:
        raise RuntimeError("hooks not installed although MICROJS_VERIF=1")


def main():
    cases_path, out_path = sys.argv[1], sys.argv[2]
    driver = default_driver
    if len(sys.argv) > 3 and sys.argv[3]:
        mod, fn = sys.argv[3].split(":")
        driver = getattr(importlib.import_module(mod), fn)
    api = Api()
    selfcheck(api)
    with open(cases_path) as f, open(out_path, "w") as g:
        for line in f:
            line = line.strip()
            if not line:
                continue
            case = json.loads(line)
            try:
                res = driver(case, api)
            except HarnessHang as e:
                res = {"id": case.get("id"), "out": {"o": "hang", "why": "driver:" + str(e)}}
            except Exception as e:           # driver bug: machinery failure, reported as such
                res = {"id": case.get("id"), "machinery": traceback.format_exc()[-1500:]}
            if isinstance(res, list):
                for r in res:
                    g.write(json.dumps(r) + "\n")
            else:
                g.write(json.dumps(res) + "\n")
    return 0


if __name__ == "__main__":
    sys.exit(main())
