-------------------------------- MODULE C02 --------------------------------
(* C02 - memory limit stops runaway stack growth and never stops bounded scripts.       *)
(*  MemLimit.tla : the accounting and the host-stack budget as a state machine (MC).    *)
(*  JsVM.tla     : abstract VM over the REAL bytecode of every enumerated body: all      *)
(*                 static paths, no operand/handler residue (MC over real compiler out). *)
(*  This module  : Enum  - the family of statement bodies and of recursion shapes;       *)
(*                 Judge - what the engine did with them, recorded through the hook:      *)
(*                         operand / handler / frame depth at every loop back-edge for    *)
(*                         N = 1, 50, 2000 iterations, outcome under a fixed small M.     *)
EXTENDS Naturals, Integers, Sequences, FiniteSets, TLC, Json, IOUtils

Tier == IF "TIER" \in DOMAIN IOEnv THEN IOEnv.TIER ELSE "quick"
Quick == Tier = "quick"

\* ---- the body family -----------------------------------------------------------------------
\* B = outer: for (o = 0..1) { ENCL { INNER { if (j == 1) EXIT } } }   run N times at PLACE
Inners == {"while", "dowhile", "for", "forin", "forof", "switch", "block", "none", "updates"}
Exits  == {"none", "break", "continue", "break_outer", "continue_outer", "return", "throw", "throw_midexpr", "return_midexpr"}
Encls  == {"none", "try_catch", "try_finally", "try_catch_finally", "in_catch", "in_finally", "finally_after_throw",
           "catch_rethrow_finally", "switch", "forin", "forof", "if",
           \* a finally block that overrides the pending completion (return value, exception, jump) with a jump of its own
           "finally_continue", "finally_break", "finally_continue_in_forin", "finally_return"}
Overriding(e) == e \in {"finally_continue", "finally_break", "finally_continue_in_forin", "finally_return"}
Places == {"inline", "func_stmt", "func_operand", "func_arg", "func_array", "callback", "getter", "ctor",
           \* the N rounds run inside ONE activation of a function (of a closure whose counter belongs to the enclosing function)
           "func_loop", "closure_loop",
           \* the exception leaves the script function that a native (or a call) is running and is caught outside it
           "cb_catch_outside", "getter_catch_outside", "valueof_catch_outside", "call_catch_outside", "sort_catch_outside",
           "func_catch_outside", "ctor_catch_outside"}
CatchOutside(p) == p \in {"cb_catch_outside", "getter_catch_outside", "valueof_catch_outside", "call_catch_outside",
                          "sort_catch_outside", "func_catch_outside", "ctor_catch_outside"}

IsLoop(i) == i \in {"while", "dowhile", "for", "forin", "forof"}
Valid(b) ==
  /\ (b.exit \in {"return", "return_midexpr"} => b.place # "inline")
  /\ (b.exit = "break" => b.inner # "none")                       \* needs something to break out of
  /\ (b.exit = "continue" => TRUE)                                 \* targets the innermost loop (INNER or outer)
  /\ (b.inner = "none" => b.exit \notin {"break"})
  /\ (b.place \in {"func_loop", "closure_loop"} => b.exit \notin {"return", "return_midexpr"})      \* a return would end the rounds
  /\ (b.encl = "finally_return" => b.place \notin {"inline"} /\ ~CatchOutside(b.place))
  /\ (CatchOutside(b.place) => b.exit \in {"throw", "throw_midexpr"} /\ b.encl \in {"none", "try_finally", "forin", "switch", "in_catch", "finally_after_throw"})
\* quick tier: every inner, exit, enclosure and place occurs, but not the full product
QuickPick(b) ==
  \/ b.inner = "updates" /\ b.encl \in {"none", "try_finally", "forin"} /\ b.place \in {"inline", "func_loop", "closure_loop", "callback"}
  \/ b.place \in {"func_loop", "closure_loop"} /\ b.encl \in {"none", "try_catch", "forof", "switch"}
  \/ Overriding(b.encl) /\ b.inner \in {"forin", "while", "switch", "none"} /\ b.place \in {"inline", "func_operand", "func_array", "callback"}
  \/ b.encl = "none" /\ b.place \in {"inline", "func_operand", "func_array", "func_arg"}
  \/ CatchOutside(b.place) /\ b.inner \in {"forin", "while", "none"}
  \/ b.place = "inline" /\ b.inner \in {"forin", "switch", "while"}
  \/ b.inner = "forin" /\ b.exit \in {"break", "return", "throw_midexpr"} 
  \/ b.inner = "for" /\ b.encl \in {"try_finally", "in_catch"} /\ b.place \in {"func_arg", "callback"}
  \/ b.encl \in {"finally_after_throw", "catch_rethrow_finally", "in_finally"} /\ b.inner \in {"switch", "forin", "while"} /\ b.place \in {"inline", "func_operand"}
  \/ b.inner = "switch" /\ b.exit \in {"continue", "continue_outer", "return"} /\ b.place \in {"func_array", "getter", "ctor"}
  \/ b.inner = "forof" /\ b.exit \in {"break_outer", "throw"} /\ b.encl \in {"try_catch_finally", "forof", "switch"} /\ b.place \in {"func_stmt", "callback"}
Bodies == {b \in [inner : Inners, exit : Exits, encl : Encls, place : Places] : Valid(b) /\ (Quick => QuickPick(b))}

\* ---- recursion shapes ---------------------------------------------------------------------
Shapes == {"self", "mutual", "forEach", "map", "filter", "reduce", "sort", "some", "every", "find", "getter", "setter",
           "valueOf", "call", "apply", "bind", "new", "eval", "Function", "operands", "arrow",
           "method", "ctor_mutual", "ctor_method", "bound_fn", "toString", "forEach_mutual"}
\* recursion that does not pass through a built-in, started from script code a built-in is running
RecEntries == {"forEach", "map", "reduce", "sort", "getter", "setter", "valueOf", "toString", "call", "apply", "bind", "replace",
               "nested", "eval", "Function"}
RecKinds == {"self", "mutual", "method", "ctor", "operands"}
EnteredShapes == {"in_" \o e \o ":" \o k : e \in RecEntries, k \in RecKinds}
\* the memory limit is enforced on its own: with and without a time limit configured on the same context
TLs == {0, 1}
Ms == IF Quick THEN {5000, 200000} ELSE {5000, 50000, 200000, 2000000}

VARIABLES ph, cur, rec_i
vars == <<ph, cur, rec_i>>
EnumInit == ph = "start" /\ cur = <<>> /\ rec_i = 0
EnumNext == /\ ph = "start"
            /\ \/ \E b \in Bodies : ph' = "case" /\ cur' = [kind |-> "body", b |-> b] /\ UNCHANGED rec_i
               \/ \E s \in Shapes \cup EnteredShapes : \E m \in Ms : \E tl \in TLs :
                     ph' = "case" /\ cur' = [kind |-> "shape", s |-> s, m |-> m, tl |-> tl] /\ UNCHANGED rec_i
EnumEmit == ph = "start" \/ PrintT(ToJson(cur))

\* ---- Judge: bodies ---------------------------------------------------------------------------
Recs == ndJsonDeserialize(IOEnv.OBS_FILE)
\* body record: [id, kind = "body", runs : seq of [n, o (outcome tag), edges : seq of [cnt, dmin, dmax, hmin, hmax, fmin, fmax]]]
\* every arrival at a loop head finds the same operand depth, handler depth and frame depth
EdgeSteady(e) == e.dmin = e.dmax /\ e.hmin = e.hmax /\ e.fmin = e.fmax
RunSteady(r) == \A k \in 1..Len(r.edges) : EdgeSteady(r.edges[k])
\* the number of iterations changes nothing but the arrival counts: same outcome class, never the memory limit,
\* and the depths at the loop heads for N iterations are the depths for one iteration
BodyVerdict(x) ==
  LET runs == x.runs
      first == runs[1]
      bad == {k \in 1..Len(runs) : runs[k].o = "memlimit"}
      host == {k \in 1..Len(runs) : runs[k].o \in {"host", "hang"}}
      unsteady == {k \in 1..Len(runs) : ~RunSteady(runs[k])}
      differ == {k \in 1..Len(runs) : runs[k].o # first.o}
      grow == {k \in 2..Len(runs) : runs[k].maxd # first.maxd \/ runs[k].maxh # first.maxh \/ runs[k].maxf # first.maxf}
  IN IF host # {} THEN "host-error"
     ELSE IF bad # {} THEN "memlimit-on-bounded-script"
     ELSE IF unsteady # {} THEN "residue-at-loop-head"
     ELSE IF differ # {} THEN "outcome-depends-on-N"
     ELSE IF grow # {} THEN "peak-depth-grows-with-N"
     ELSE "pass"
\* ---- Judge: recursion shapes ------------------------------------------------------------------
\* [id, kind = "shape", s, m, o, levels, hostdepth]
\* MemoryLimitError, after a number of levels proportional to M (each level costs at least one frame: FRAME = 200)
ShapeVerdict(x) ==
  IF x.o # "memlimit" THEN (IF x.o \in {"host", "hang"} THEN "host-error" ELSE "not-stopped-by-memlimit")
  ELSE IF x.levels > (x.m \div 200) + 2 THEN "stopped-too-late"
  ELSE IF x.levels < 2 THEN "stopped-at-once"
  ELSE "pass"
Verdict(x) == IF x.kind = "body" THEN BodyVerdict(x) ELSE ShapeVerdict(x)
JudgeInit == /\ rec_i \in 1..Len(Recs) /\ ph = "judge" /\ cur = <<>>
             /\ LET x == Recs[rec_i] IN PrintT(ToJson([id |-> x.id, v |-> Verdict(x)]))
JudgeNext == UNCHANGED vars
=============================================================================
