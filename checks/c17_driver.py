"""C17 drivers (run inside the engine child): replay spec-level cases into the engine, record observations.

The drivers compute no expectation.  A case is
  ty = "call": one method call on a store of arrays           -> obs = {out, store, log}
  ty = "hist": a history of calls on one store (one context)  -> evs[k].obs = {out, store, log}
  ty = "ta"  : a typed-array script                           -> evs[k].obs = {out, snap}
Values: primitives in wire form, {"k":"ref","id":i} = the i-th array of the store (identity),
{"k":"arr","e":[...]} = an array that is none of the store's arrays (a fresh one).
"""
from harness import wire
from harness.drivers import wire_to_py, ERRS

CLS_JS = ("function __cls(e){ if (typeof e !== 'object' || e === null) return 'value';"
          + "".join("if (e instanceof %s) return '%s';" % (n, n) for n in ERRS) + "return 'value'; }")

CB_JS = """
var __n = 0, __k = 1;
var __cb = function () {
  __n = __n + 1;
  var e = __enter(__n, this, arguments);
  if (e.act === 'throw') { throw e.v; }
  if (e.act === 'push') { __tgt.push(e.x); }
  if (e.act === 'pop') { __tgt.pop(); }
  if (e.act === 'len') { __tgt.length = e.n; }
  return e.v;
};
var __cmp_num = function (a, b) { return a - b; };
var __cmp_rev = function (a, b) { return b - a; };
var __cmp_mod3 = function (a, b) { return (a % 3) - (b % 3); };
var __cmp_quarter = function (a, b) { return (a - b) / 4; };
var __cmp_one = function (a, b) { return 1; };
var __cmp_neg = function (a, b) { return -1; };
var __cmp_nan = function (a, b) { return NaN; };
var __cmp_str = function (a, b) { return 'x'; };
var __cmp_alt = function (a, b) { __k = -__k; return __k; };
var __cmp_undef = function (a, b) { };
"""


class Store:
    """the arrays of a case, by identity"""

    def __init__(self, api, ctx, store, intrep):
        import microjs.values as V
        self.V = V
        self.ctx = ctx
        self.intrep = intrep
        n = len(store)
        # arrays are created by the engine itself (literal syntax: prototype and all), then filled exactly
        ctx.eval("var __S = [" + ",".join("[]" for _ in range(n)) + "];")
        holder = ctx._globals["__S"]
        self.known = list(holder._elements)
        if len(self.known) != n or not all(isinstance(a, V.JSArray) for a in self.known):
            raise RuntimeError("could not create the store arrays")
        for arr, elems in zip(self.known, store):
            arr._elements[:] = [self.val(e) for e in elems]

    def val(self, w):
        if w["k"] == "ref":
            return self.known[w["id"] - 1]
        return self.ctx._to_js(wire_to_py(w, self.intrep))

    def enc(self, v, depth=0):
        V = self.V
        if isinstance(v, V.JSArray):
            for i, a in enumerate(self.known):
                if a is v:
                    return {"k": "ref", "id": i + 1}
            if depth > 6:
                return {"k": "cyc"}
            return {"k": "arr", "e": [self.enc(e, depth + 1) for e in v._elements]}
        return wire.to_wire(v)

    def snapshot(self):
        return [[self.enc(e) for e in a._elements] for a in self.known]


def _call_src(m, nargs, cb, has_this):
    """JavaScript text of one call; operands are globals set from Python (never rendered as literals)."""
    names = ["__a%d" % i for i in range(nargs)]
    if m == ".length":
        return "__rcv.length"
    if m == ".length=":
        return "(__rcv.length = __a0)"
    if m == "[]":
        return "__rcv[__a0]"
    if m == "[]=":
        return "(__rcv[__a0] = __a1)"
    pre = []
    if cb["kind"] == "fn":
        pre = ["__cmp_" + cb["cmp"] if (m == "sort") else "__cb"]
    elif cb["kind"] == "val":
        pre = ["__cbv"]
    if cb["kind"] != "na" and has_this:
        names = names + ["__this"]
    return "__rcv.%s(%s)" % (m, ", ".join(pre + names))


def _js_args(m, nargs, cb, has_this, prefix="__a"):
    """names of the JavaScript arguments of a method call: callback first, thisArg last"""
    names = [prefix + str(i) for i in range(nargs)]
    pre = []
    if cb["kind"] == "fn":
        pre = ["__cmp_" + cb["cmp"] if (m == "sort") else "__cb"]
    elif cb["kind"] == "val":
        pre = ["__cbv"]
    if cb["kind"] != "na" and has_this:
        names = names + ["__this"]
    return pre + names


def _one_call(api, ctx, st, ev, log, reg, mk=None):
    """mk: builds the JavaScript text of the call from the argument names (family B); default: receiver.method(arguments)"""
    m, cb = ev["m"], ev["cb"]
    g = ctx._globals
    g["__rcv"] = st.known[ev["r"] - 1]
    g["__tgt"] = g["__rcv"]
    for i, a in enumerate(ev["a"]):
        g["__a%d" % i] = st.val(a)
    if cb["kind"] == "val":
        g["__cbv"] = st.val(cb["v"])
    g["__this"] = st.val(cb["this"])
    del log[:]
    tab, dflt = cb["tab"], cb["dflt"]

    def enter(n, this, args):
        log.append({"n": int(n), "this": st.enc(this), "args": [st.enc(x) for x in args._elements]})
        e = tab[int(n) - 1] if int(n) <= len(tab) else dflt
        return ctx._to_js({"act": e["act"], "v": st.val(e["v"]), "x": st.val(e["x"]), "n": e["n"]})

    got = []
    g["__enter"] = enter
    g["__done"] = lambda *a: (got.append(a), None)[1]
    expr = _call_src(m, len(ev["a"]), cb, bool(cb.get("hasThis"))) if mk is None else mk(_js_args(m, len(ev["a"]), cb, bool(cb.get("hasThis"))))
    src = ("__n = 0; __k = 1; var __r, __t = 0, __e; try { __r = " + expr + "; } catch (e) { __t = 1; __e = e; } "
           "if (__t) { __done(1, __e, __cls(__e)); } else { __done(0, __r, ''); }")
    out = api.eval_outcome(ctx, src, wall=20.0, cap=400_000)
    if out["o"] == "value":
        if len(got) != 1:
            out = {"o": "host", "cls": "NoOutcome", "v": {"k": "undef"}}
        elif got[0][0] == 0:
            res = got[0][1]
            if reg and isinstance(res, st.V.JSArray) and not any(res is a for a in st.known):
                enc = {"k": "arr", "e": [st.enc(e) for e in res._elements]}
                st.known.append(res)                      # a new identity from now on
            else:
                enc = st.enc(res)
            out = {"o": "value", "v": enc, "cls": ""}
        else:
            cls = str(got[0][2])
            out = {"o": "throw", "v": st.enc(got[0][1]) if cls == "value" else {"k": "undef"}, "cls": cls}
    elif out["o"] == "host":
        out = {"o": "host", "cls": out.get("type", "?"), "v": {"k": "undef"}, "where": out.get("where", ""), "msg": out.get("msg", "")}
    else:
        out = {"o": out["o"], "cls": out.get("name", ""), "v": {"k": "undef"}, "msg": out.get("msg", "") or out.get("why", "")}
    if out["o"] not in ("value", "throw", "host"):
        _drop("arr")
    return {"out": out, "store": st.snapshot(), "log": list(log)}


# One context serves a batch of cases (parsing the helper script dominates otherwise); every case gets new arrays and
# resets every global it reads.  After a hang, a limit or an error escaping the script the context is dropped.
_CACHE = {}
BATCH = 250


def _context(api, which, script):
    ent = _CACHE.get(which)
    if ent is None or ent[1] >= BATCH:
        ctx = api.new_context(time_limit=10.0)
        ctx.eval(script)
        ent = [ctx, 0]
        _CACHE[which] = ent
    ent[1] += 1
    return ent[0]


def _drop(which):
    _CACHE.pop(which, None)


def _setup(api, case):
    ctx = _context(api, "arr", CLS_JS + CB_JS)
    st = Store(api, ctx, case["store"], bool(case.get("intrep")))
    return ctx, st


def key_driver(case, api):
    """ty = "key": reads and writes of one array by property key -> evs[k].obs = {out, store, pr, probes}
    (pr = the receiver's own named properties in creation order, probes = script reads of the given names as strings)"""
    ctx, st = _setup(api, case)
    g = ctx._globals
    rcv = st.known[case["r"] - 1]
    probes = ctx._to_js([wire_to_py(p, True) for p in case["probes"]])
    obs = []
    for ev in case["evs"]:
        g["__rcv"] = rcv
        g["__a0"] = st.val(ev["k"])
        g["__a1"] = st.val(ev["v"])
        got = []
        g["__done"] = lambda *a: (got.append(a), None)[1]
        expr = "__rcv[__a0]" if ev["op"] == "get" else "(__rcv[__a0] = __a1)"
        src = ("var __r, __t = 0, __e; try { __r = " + expr + "; } catch (e) { __t = 1; __e = e; } "
               "if (__t) { __done(1, __e, __cls(__e)); } else { __done(0, __r, ''); }")
        out = api.eval_outcome(ctx, src, wall=20.0, cap=400_000)
        if out["o"] == "value":
            if len(got) != 1:
                out = {"o": "host", "cls": "NoOutcome", "v": {"k": "undef"}}
            elif got[0][0] == 0:
                out = {"o": "value", "v": st.enc(got[0][1]), "cls": ""}
            else:
                cls = str(got[0][2])
                out = {"o": "throw", "v": st.enc(got[0][1]) if cls == "value" else {"k": "undef"}, "cls": cls}
        elif out["o"] == "host":
            out = {"o": "host", "cls": out.get("type", "?"), "v": {"k": "undef"}, "where": out.get("where", ""), "msg": out.get("msg", "")}
        else:
            out = {"o": out["o"], "cls": out.get("name", ""), "v": {"k": "undef"}, "msg": out.get("msg", "") or out.get("why", "")}
        box = []
        g["__P"] = probes
        g["__take"] = lambda arr, _b=box: (_b.append(arr), None)[1]
        so = api.eval_outcome(ctx, "var __o = [], __i; for (__i = 0; __i < __P.length; __i = __i + 1) { __o.push(__rcv[__P[__i]]); } __take(__o);",
                              wall=20.0, cap=400_000)
        if so["o"] != "value" or len(box) != 1 or not isinstance(box[0], st.V.JSArray):
            pv = [{"k": "hostval", "t": "probe reads failed: " + so["o"] + ":" + str(so.get("type", ""))}]
        else:
            pv = [st.enc(e) for e in box[0]._elements]
        pr = [{"n": wire.to_wire(str(n))["u"], "v": st.enc(v)} for n, v in rcv._properties.items()]
        pr += [{"n": wire.to_wire(str(n))["u"], "v": {"k": "hostval", "t": "accessor"}} for n in list(rcv._getters) + list(rcv._setters)]
        obs.append({"out": out, "store": st.snapshot(), "pr": pr, "probes": pv})
        if out["o"] not in ("value", "throw", "host") or so["o"] != "value":
            _drop("arr")
    return {"id": case["id"], "obs": obs}


_UNSET = object()


def _pre_src(ev, k):
    """JavaScript text of the k-th intervening call on the receiver (operands: globals __b<k>_<j>)"""
    names = ["__b%d_%d" % (k, j) for j in range(len(ev["a"]))]
    m = ev["m"]
    if m == ".length=":
        return "(__rcv.length = %s)" % names[0]
    if m == "[]=":
        return "(__rcv[%s] = %s)" % (names[0], names[1])
    if ev["cb"]["kind"] not in ("na", "none"):
        raise RuntimeError("intervening calls take no callback")
    return "__rcv.%s(%s)" % (m, ", ".join(names))


def bind_driver(case, api):
    """ty = "bind" (family B): the method is looked up, the receiver is changed, the method is called
    -> obs = {pre: [obs of every intervening call], fin: obs of the call}"""
    ctx, st = _setup(api, case)
    g = ctx._globals
    log = []
    form, m, pre = case["form"], case["m"], case["pre"]
    rcv = st.known[case["r"] - 1]
    fin_ev = {"m": m, "r": case["r"], "a": case["a"], "cb": case["cb"]}
    pobs = []
    if form == "inarg":
        g["__rcv"] = rcv
        g["__u"] = st.V.UNDEFINED
        for k, ev in enumerate(pre):
            g["__p%d" % k] = _UNSET
            for j, a in enumerate(ev["a"]):
                g["__b%d_%d" % (k, j)] = st.val(a)

        def mk(names):
            first = names[0] if names else "__u"
            seq = ["__p%d = %s" % (k, _pre_src(ev, k)) for k, ev in enumerate(pre)]
            arg0 = "(" + ", ".join(seq + [first]) + ")" if seq else first
            return "__rcv.%s(%s)" % (m, ", ".join([arg0] + names[1:]))
        fin = _one_call(api, ctx, st, fin_ev, log, False, mk)
        for k, ev in enumerate(pre):
            v = g.get("__p%d" % k, _UNSET)
            out = {"o": "unset", "v": {"k": "undef"}, "cls": ""} if v is _UNSET else {"o": "value", "v": st.enc(v), "cls": ""}
            pobs.append({"out": out, "store": [], "log": []})
    else:
        g["__rcv"] = rcv
        lo = api.eval_outcome(ctx, "var __f = __rcv.%s;" % m, wall=20.0, cap=400_000)
        ok = lo["o"] == "value"
        for ev in pre:
            pobs.append(_one_call(api, ctx, st, {"m": ev["m"], "r": case["r"], "a": ev["a"], "cb": ev["cb"]}, log, False))

        def mk(names):
            if form == "call":
                return "__f.call(%s)" % ", ".join(["__rcv"] + names)
            if form == "apply":
                return "__f.apply(__rcv, [%s])" % ", ".join(names)
            return "__f(%s)" % ", ".join(names)
        fin = _one_call(api, ctx, st, fin_ev, log, False, mk)
        if not ok:
            fin["out"] = {"o": "host", "cls": "LookupFailed:" + lo["o"], "v": {"k": "undef"}}
            _drop("arr")
    return {"id": case["id"], "obs": {"pre": pobs, "fin": fin}}


def call_driver(case, api):
    if case["ty"] == "ta":
        return ta_driver(case, api)
    if case["ty"] == "bind":
        return bind_driver(case, api)
    if case["ty"] == "key":
        return key_driver(case, api)
    ctx, st = _setup(api, case)
    log = []
    if case["ty"] == "call":
        return {"id": case["id"], "obs": _one_call(api, ctx, st, case, log, False)}
    obs = []
    for ev in case["evs"]:
        if ev["r"] > len(st.known):
            raise RuntimeError("history refers to an unknown array")
        obs.append(_one_call(api, ctx, st, ev, log, True))
    return {"id": case["id"], "obs": obs}


# ---------------------------------------------------------------------------------------------------
TA_JS = CLS_JS + "var __snap = function (v) { var o = []; for (var i = 0; i < v.length; i = i + 1) { o.push(v[i]); } return o; };"


def ta_driver(case, api):
    import microjs.values as V
    ctx = _context(api, "ta", TA_JS)
    g = ctx._globals
    views, bufs = [], []
    intrep = bool(case.get("intrep"))

    def val(w):
        return ctx._to_js(wire_to_py(w, intrep))

    obs = []
    for ev in case["evs"]:
        op = ev["op"]
        a = ev["a"]
        for i, x in enumerate(a):
            g["__a%d" % i] = val(x)
        args = ", ".join("__a%d" % i for i in range(len(a)))
        skip = False
        if op in ("write", "set", "subarray", "join", "tostr", "len"):
            if ev["vi"] > len(views):
                skip = True
            else:
                g["__vw"] = views[ev["vi"] - 1]
        kind = None
        if op == "newlen":
            expr, kind = "new %s(%s)" % (ev["kind"], args), "view"
        elif op == "newarr":
            ctx.set("__src", [wire_to_py(x, intrep) for x in ev["src"]["vals"]])
            expr, kind = "new %s(__src)" % ev["kind"], "view"
        elif op == "newbuf":
            expr, kind = "new ArrayBuffer(%d)" % ev["i"], "buf"
        elif op == "view":
            if ev["vi"] > len(bufs):
                skip = True
            else:
                g["__buf"] = bufs[ev["vi"] - 1]
            expr, kind = "new %s(%s)" % (ev["kind"], ", ".join(["__buf"] + ["__a%d" % i for i in range(len(a))])), "view"
        elif op == "write":
            g["__i"] = ev["i"]
            g["__x"] = val(ev["x"])
            expr = "(__vw[__i] = __x)"
        elif op == "set":
            if ev["src"]["t"] == "arr":
                ctx.set("__src", [wire_to_py(x, intrep) for x in ev["src"]["vals"]])
            elif ev["src"]["id"] > len(views):
                skip = True
            else:
                g["__src"] = views[ev["src"]["id"] - 1]
            expr = "__vw.set(%s)" % ", ".join(["__src"] + ["__a%d" % i for i in range(len(a))])
        elif op == "subarray":
            expr, kind = "__vw.subarray(%s)" % args, "view"
        elif op == "join":
            expr = "__vw.join(%s)" % args
        elif op == "tostr":
            expr = "__vw.toString()"
        elif op == "len":
            expr = "__vw.length"
        else:
            raise RuntimeError("unknown typed-array event " + op)
        if skip:
            out = {"o": "skip", "v": {"k": "undef"}, "cls": ""}
        else:
            got = []
            g["__done"] = lambda *z: (got.append(z), None)[1]
            src = ("var __r, __t = 0, __e; try { __r = " + expr + "; } catch (e) { __t = 1; __e = e; } "
                   "if (__t) { __done(1, __e, __cls(__e)); } else { __done(0, __r, ''); }")
            out = api.eval_outcome(ctx, src, wall=20.0, cap=400_000)
            if out["o"] == "value":
                if len(got) != 1:
                    out = {"o": "host", "cls": "NoOutcome", "v": {"k": "undef"}}
                elif got[0][0] == 0:
                    res = got[0][1]
                    if kind == "view":
                        if isinstance(res, V.JSTypedArray):
                            views.append(res)
                            out = {"o": "value", "v": {"k": "undef"}, "cls": ""}
                        else:
                            out = {"o": "value", "v": wire.to_wire(res), "cls": "not-a-typed-array"}
                    elif kind == "buf":
                        bufs.append(res)
                        out = {"o": "value", "v": {"k": "undef"}, "cls": ""}
                    else:
                        out = {"o": "value", "v": wire.to_wire(res), "cls": ""}
                else:
                    cls = str(got[0][2])
                    out = {"o": "throw", "v": wire.to_wire(got[0][1]) if cls == "value" else {"k": "undef"}, "cls": cls}
            elif out["o"] == "host":
                out = {"o": "host", "cls": out.get("type", "?"), "v": {"k": "undef"}, "where": out.get("where", ""), "msg": out.get("msg", "")}
            else:
                out = {"o": out["o"], "cls": out.get("name", ""), "v": {"k": "undef"}, "msg": out.get("msg", "") or out.get("why", "")}
        # elements of every live view, read by script code (v.length, v[i])
        snap = []
        for v in views:
            box = []
            g["__vw"] = v
            g["__take"] = lambda arr, _b=box: (_b.append(arr), None)[1]
            so = api.eval_outcome(ctx, "__take(__snap(__vw));", wall=20.0, cap=400_000)
            if so["o"] != "value" or len(box) != 1 or not isinstance(box[0], V.JSArray):
                snap.append([{"k": "hostval", "t": "snapshot failed: " + so["o"] + ":" + str(so.get("type", ""))}])
            else:
                snap.append([wire.to_wire(e) for e in box[0]._elements])
        obs.append({"out": out, "snap": snap})
        if out["o"] not in ("value", "throw", "skip", "host"):
            _drop("ta")
    return {"id": case["id"], "obs": obs}
