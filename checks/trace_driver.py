"""Detailed instruction traces for JsVM_Trace.tla (one event per executed instruction)."""


class TraceRecorder:
    def __init__(self, limit=6000):
        self.ev = []
        self.fids = {}
        self.limit = limit
        self.over = False

    def __call__(self, kind, vm, op, arg, frame, _):
        if kind not in ("main", "cb"):
            return
        if len(self.ev) >= self.limit:
            self.over = True
            return
        nm = op.name
        ln = 3 if nm in ("JUMP", "JUMP_IF_FALSE", "JUMP_IF_TRUE", "TRY_START") else (2 if arg is not None else 1)
        self.ev.append({"nf": len(vm.call_stack), "fid": self.fids.setdefault(id(frame.func), len(self.fids)),
                        "at": frame.ip - ln, "len": ln, "op": nm, "arg": -1 if arg is None else arg,
                        "sl": len(vm.stack), "hl": len(vm.exception_handlers), "bp": frame.bp, "lp": kind})


def record(api, src, time_limit=20.0, memory_limit=None, limit=6000):
    ctx = api.new_context(time_limit=time_limit, memory_limit=memory_limit)
    rec = TraceRecorder(limit)
    orig = api.steps.reset

    def reset_and_hook(*a, **k):
        orig(*a, **k)
        api.steps.user = rec
    api.steps.reset = reset_and_hook
    try:
        out = api.eval_outcome(ctx, src, wall=60.0, cap=2_000_000)
    finally:
        api.steps.reset = orig
        api.steps.user = None
    return rec, out


def driver(case, api):
    rec, out = record(api, case["src"], limit=case.get("limit", 6000))
    return {"id": case["id"], "ev": rec.ev, "end": {"o": out["o"]}, "over": rec.over, "src": case["src"]}
