-------------------------------- MODULE JsVM --------------------------------
(* Layer I: the bytecode VM as an abstract machine over REAL compiler output.          *)
(* Constants: the exported instruction lists of one batch of compiled functions        *)
(* (harness/bytecode.py).  Data is abstracted away; what remains is exactly what the    *)
(* memory accounting and the control-flow properties talk about: the instruction        *)
(* pointer, the operand depth relative to the frame base, the handler stack.           *)
(* TLC explores ALL static paths of every function: both outcomes of every conditional  *)
(* branch and of FOR_IN/OF_NEXT, an exception edge from every instruction that can      *)
(* raise to the innermost handler of the function, and propagation out of the function. *)
(*                                                                                      *)
(* Invariants (C02 "nothing accumulates", C05 "jumps land where the language says",     *)
(* C14 targets):                                                                         *)
(*   NoUnderflow, TargetsValid, RetClean (a return leaves exactly the result),           *)
(*   EndClean, HandlersBalanced, Bounded (a leaking loop must exceed any fixed bound).   *)
EXTENDS Naturals, Integers, Sequences, FiniteSets, TLC, Json, IOUtils

Funcs == ndJsonDeserialize(IOEnv.FUNCS_FILE)
\* Funcs[f] = [id, fid, ismain, nbytes, instrs: seq of [at, op, arg, len], ix: seq (offset+1 -> instr index or 0)]
MaxDepth == 24          \* bound on operand depth relative to the frame base (expressions nest far less)
MaxHandlers == 8

VARIABLES fn, ip, d, hs, st, top
vars == <<fn, ip, d, hs, st, top>>
\* top: what is statically known about the truthiness of the top operand: "T", "F" or "?".
\* FOR_IN/OF_NEXT push their done-flag and the compiler tests it with the very next JUMP_IF_TRUE;
\* without this correlation the model would explore paths no execution can take.
\* st: "run" | "ret" (executed RETURN*) | "end" (fell off the end) | "uncaught" | "bad:<why>"

IsStart(f, off) == off >= 0 /\ off < Funcs[f].nbytes /\ Funcs[f].ix[off + 1] # 0
InstrAt(f, off) == Funcs[f].instrs[Funcs[f].ix[off + 1]]

\* ---- stack effect per opcode: <<needs, pops, pushes>> -------------------------------------------
Eff(i) ==
  LET o == i.op a == i.arg IN
  CASE o = "POP" -> <<0, 1, 0>>                       \* tolerant pop (the VM pops only if non-empty)
    [] o = "DUP" -> <<1, 0, 1>>   [] o = "DUP2" -> <<2, 0, 2>>
    [] o \in {"SWAP"} -> <<2, 0, 0>> [] o = "ROT3" -> <<3, 0, 0>> [] o = "ROT4" -> <<4, 0, 0>>
    [] o \in {"LOAD_CONST", "LOAD_UNDEFINED", "LOAD_NULL", "LOAD_TRUE", "LOAD_FALSE", "LOAD_NAME", "LOAD_LOCAL",
              "LOAD_CLOSURE", "LOAD_CELL", "THIS", "BUILD_REGEX", "TYPEOF_NAME"} -> <<0, 0, 1>>
    [] o \in {"STORE_NAME", "STORE_LOCAL", "STORE_CLOSURE", "STORE_CELL"} -> <<1, 0, 0>>
    [] o \in {"GET_PROP", "DELETE_PROP"} -> <<2, 2, 1>>
    [] o = "SET_PROP" -> <<3, 3, 1>>
    [] o = "BUILD_ARRAY" -> <<a, a, 1>>
    [] o = "BUILD_OBJECT" -> <<3 * a, 3 * a, 1>>
    [] o \in {"ADD", "SUB", "MUL", "DIV", "MOD", "POW", "BAND", "BOR", "BXOR", "SHL", "SHR", "USHR",
              "LT", "LE", "GT", "GE", "EQ", "NE", "SEQ", "SNE", "INSTANCEOF", "IN"} -> <<2, 2, 1>>
    [] o \in {"NEG", "POS", "BNOT", "NOT", "TYPEOF", "INC", "DEC", "MAKE_CLOSURE", "FOR_IN_INIT", "FOR_OF_INIT"} -> <<1, 1, 1>>
    [] o \in {"JUMP", "TRY_START", "TRY_END", "CATCH"} -> <<0, 0, 0>>
    [] o \in {"JUMP_IF_FALSE", "JUMP_IF_TRUE", "THROW"} -> <<1, 1, 0>>
    [] o \in {"CALL", "NEW"} -> <<a + 1, a + 1, 1>>
    [] o = "CALL_METHOD" -> <<a + 2, a + 2, 1>>
    [] o = "RETURN" -> <<0, 0, 0>>                      \* handled separately
    [] o = "RETURN_UNDEFINED" -> <<0, 0, 0>>
    [] o \in {"FOR_IN_NEXT", "FOR_OF_NEXT"} -> <<1, 0, 1>>   \* done: +1 (flag); not done: +2 (value, flag)
    [] OTHER -> <<99, 0, 0>>                            \* unknown opcode: flagged as bad
Known(i) == Eff(i)[1] # 99

\* instructions that cannot raise a script-level exception
Pure == {"POP", "DUP", "DUP2", "SWAP", "ROT3", "ROT4", "LOAD_CONST", "LOAD_UNDEFINED", "LOAD_NULL", "LOAD_TRUE",
         "LOAD_FALSE", "LOAD_LOCAL", "STORE_LOCAL", "STORE_NAME", "THIS", "JUMP", "JUMP_IF_FALSE", "JUMP_IF_TRUE",
         "TRY_START", "TRY_END", "CATCH", "RETURN", "RETURN_UNDEFINED", "NOT", "TYPEOF", "TYPEOF_NAME",
         "MAKE_CLOSURE", "FOR_IN_NEXT", "FOR_OF_NEXT", "FOR_IN_INIT", "FOR_OF_INIT", "SEQ", "SNE", "BUILD_ARRAY"}
MayThrow(i) == i.op \notin Pure

Init == /\ fn \in 1..Len(Funcs) /\ ip = 0 /\ d = 0 /\ hs = <<>> /\ st = "run" /\ top = "?"

Bad(why) == st' = "bad:" \o why /\ UNCHANGED <<fn, ip, d, hs, top>>
GotoT(off, nd, nhs, nt) ==
  IF off = Funcs[fn].nbytes THEN /\ st' = "end" /\ ip' = off /\ d' = nd /\ hs' = nhs /\ top' = nt /\ UNCHANGED fn
  ELSE IF ~IsStart(fn, off) THEN Bad("target")
  ELSE /\ ip' = off /\ d' = nd /\ hs' = nhs /\ top' = nt /\ UNCHANGED <<fn, st>>
Goto(off, nd, nhs) == GotoT(off, nd, nhs, "?")

\* the exception edge: VM._throw pops the innermost handler, truncates the operand stack to the depth
\* recorded at TRY_START (fix: commit "operand stack restored on catch"), pushes the exception value
ThrowEdge == IF hs = <<>> THEN st' = "uncaught" /\ UNCHANGED <<fn, ip, d, hs, top>>
             ELSE LET h == hs[Len(hs)] IN Goto(h.catch, h.depth + 1, SubSeq(hs, 1, Len(hs) - 1))

Step ==
  /\ st = "run"
  /\ LET i == InstrAt(fn, ip)  e == Eff(i)  nip == ip + i.len  nd == d - e[2] + e[3] IN
     IF ~Known(i) THEN Bad("opcode")
     ELSE IF i.op # "POP" /\ d < e[1] THEN Bad("underflow")
     ELSE
       \/ /\ MayThrow(i) /\ ThrowEdge                                        \* it raises
       \/ CASE i.op = "POP" -> Goto(nip, IF d > 0 THEN d - 1 ELSE 0, hs)
            [] i.op = "JUMP" -> Goto(i.arg, nd, hs)
            [] i.op = "JUMP_IF_TRUE" -> (top # "F" /\ Goto(i.arg, nd, hs)) \/ (top # "T" /\ Goto(nip, nd, hs))
            [] i.op = "JUMP_IF_FALSE" -> (top # "T" /\ Goto(i.arg, nd, hs)) \/ (top # "F" /\ Goto(nip, nd, hs))
            [] i.op \in {"FOR_IN_NEXT", "FOR_OF_NEXT"} -> GotoT(nip, d + 1, hs, "T") \/ GotoT(nip, d + 2, hs, "F")
            [] i.op = "LOAD_TRUE" -> GotoT(nip, nd, hs, "T")
            [] i.op = "LOAD_FALSE" -> GotoT(nip, nd, hs, "F")
            [] i.op = "TRY_START" -> IF Len(hs) >= MaxHandlers THEN Bad("handlers")
                                     ELSE Goto(nip, nd, Append(hs, [catch |-> i.arg, depth |-> d]))
            [] i.op = "TRY_END" -> Goto(nip, nd, IF hs = <<>> THEN hs ELSE SubSeq(hs, 1, Len(hs) - 1))
            [] i.op = "RETURN" -> st' = "ret" /\ UNCHANGED <<fn, ip, d, hs, top>>
            [] i.op = "RETURN_UNDEFINED" -> st' = "retu" /\ UNCHANGED <<fn, ip, d, hs, top>>
            [] OTHER -> Goto(nip, nd, hs)
Next == Step
Spec == Init /\ [][Next]_vars

\* ---- properties -------------------------------------------------------------------------------
\* Each is a state predicate; Violation(..) names the first one that fails in a state.  In runs over real
\* bytecode the check wants a verdict per function, so the configuration uses Report as a CONSTRAINT:
\* a violating state prints one JSON line and is not explored further (the run itself never stops early).
NoBad == st \notin {"bad:underflow", "bad:target", "bad:opcode", "bad:handlers"}
\* a RETURN has its value on the stack.  Operands of enclosing constructs (iterator, discriminant) may still
\* lie below it: VM.RETURN discards everything above the frame base (commit "returning ... no longer leaves
\* operands"); that the VM really does so is what the trace half (JsVM_Trace: ret-residue) validates.
RetClean == st = "ret" => d >= 1
\* falling off the end (main program): at most the completion value
EndClean == st = "end" => d <= 1
\* no handler of this function survives falling off its end (on RETURN the VM drops the frame's handlers)
HandlersBalanced == st = "end" => hs = <<>>
\* a path that leaks one operand per loop iteration exceeds every bound
Bounded == d <= MaxDepth
Why == IF ~NoBad THEN st
       ELSE IF ~RetClean THEN "ret-residue"
       ELSE IF ~EndClean THEN "end-residue"
       ELSE IF ~HandlersBalanced THEN "handler-residue"
       ELSE IF ~Bounded THEN "unbounded-depth"
       ELSE "ok"
Report == Why = "ok" \/ ~PrintT(ToJson([id |-> Funcs[fn].id, why |-> Why, ip |-> ip, d |-> d, nh |-> Len(hs)]))
=============================================================================
