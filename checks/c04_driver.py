"""C04 driver (runs inside the engine child).

kinds of cases
  cls  : {id, kind, cls:[class names], conc:0|1}  -> lex with Lexer(src).tokenize(), evaluate with Context.eval
  src  : {id, kind, src}                           -> evaluate, report outcome and the line lengths of the text
  grid : {id, kind, recv, vecs:[[arg class]..], allocating:[names], huge:[arg classes], compiling:[names], nested:[arg classes],
          ops:[{n, t, ar, g}], oppairs:[[..]], use:[statements], usevecs:[[..]], params:{HostileSize, DeepLevels, MutBudget}, intrep}
         -> discover every function-valued property of the receiver at run time and call it with every argument vector (fresh
            context per call); evaluate every operator form (C04.tla Operators: template over @R @0 @1) with the vectors of its
            arity; when a call returns an object and its vector is a use vector, run the use statements (C04.tla UseOps) on it in
            the same context (result field "use").  One result per call.  Plain argument classes are rendered by arg_src (C04.tla
            CoreClasses / MirrorClasses / KindClasses / SmallClasses / i<n> / <route>_<value>), hostile ones by hostile() (callbacks
            and hooks that mutate the receiver, cyclic / deep values, texts of HostileSize characters) with their prelude;
            "only" + "form" = one call observed again; "again" (any kind) = observed again after a watchdog expiry, long watchdog only
  fam  : {id, kind, fam:{kind: long|esc|stmt, name, src, ds, n, digit, embed}}   (a case of C04.tla FamCases)
         -> long: render the literal (LONG_FORMS / LONG_EMBEDS), evaluate; esc / stmt: evaluate fam.src;
            nest: evaluate fam.src under a count of the front end's host-level calls (run_counting); chain: render
            fam.src + fam.digit * fam.n + fam.embed, evaluate;
            report outcome, line lengths and the kind of the returned value
No expectation is computed here.
"""
import re
import types

# two concretisations per character class (LexerFSM.tla Classes)
CONC = [
    {"sp": " ", "vt": "\x0b", "nl": "\n", "a": "a", "e": "e", "b": "b", "x": "x", "u": "u", "o": "o", "g": "g",
     "0": "0", "1": "1", "7": "7", "9": "9", ".": ".", "q": "'", "Q": '"', "bs": "\\", "/": "/", "*": "*", "+": "+",
     "=": "=", "<": "<", ">": ">", "!": "!", "&": "&", "%": "%", "~": "~", "(": "(", ")": ")", "[": "[", "]": "]",
     "{": "{", "}": "}", "#": "#", "ud": "\u0661"},
    {"sp": "\t", "vt": "\x0c", "nl": "\n", "a": "C", "e": "E", "b": "B", "x": "x", "u": "u", "o": "O", "g": "_",
     "0": "0", "1": "1", "7": "5", "9": "8", ".": ".", "q": '"', "Q": "'", "bs": "\\", "/": "/", "*": "*", "+": "-",
     "=": "=", "<": "<", ">": ">", "!": "!", "&": "|", "%": "^", "~": ";", "(": "(", ")": ")", "[": "[", "]": "]",
     "{": "{", "}": "}", "#": "@", "ud": "\uff11"},
]
# two more tables for the strings that contain the class ud: the other two digits (U+0663 ARABIC-INDIC THREE, U+0967 DEVANAGARI ONE)
CONC.append(dict(CONC[0], ud="\u0663"))
CONC.append(dict(CONC[1], ud="\u0967"))
# character -> class, for the punctuator text of real tokens
CHAR_CLASS = {}
for _m in CONC:
    for _k, _v in _m.items():
        if _k != "ud":
            CHAR_CLASS[_v] = _k
for _ch in ",:?":
    CHAR_CLASS[_ch] = "~"

ARG_SRC = {
    "undefined": "undefined", "null": "null", "nan": "NaN", "inf": "Infinity", "ninf": "-Infinity", "m1": "-1",
    "zero": "0", "p31": "2147483648", "p53": "9007199254740992", "e21": "1e21", "half": "0.5", "s7": "'7'", "sx": "'x'", "sparen": "'('", "sbrack": "'['",
    "obj": "({})", "arr": "[]", "fn": "(function(){return 1})",
    # negative mirrors of the numeric values, true, the empty string (C04.tla MirrorClasses)
    "nzero": "-0", "n31": "-2147483649", "n53": "-9007199254740992", "ne21": "-1e21", "nhalf": "-0.5", "true": "true", "sempty": "''",
    # objects of the built-in kinds (KindClasses)
    "regex": "(/a/g)", "abuf": "(new ArrayBuffer(8))", "tarr": "(new Uint8Array(2))", "arr12": "[1, 2]",
}
ARG_PY = {"nan": float("nan"), "inf": float("inf"), "ninf": float("-inf"), "m1": -1.0, "zero": 0.0, "p31": 2147483648.0,
          "p53": 9007199254740992.0, "e21": 1e21, "half": 0.5,
          "nzero": -0.0, "n31": -2147483649.0, "n53": -9007199254740992.0, "ne21": -1e21, "nhalf": -0.5}
# the numeric values (C04.tla NumVals) and the routes by which an argument reaches ToNumber (Routes): <route>_<value>
NUM_VALS = ["nan", "inf", "ninf", "m1", "zero", "nzero", "p31", "n31", "p53", "n53", "e21", "ne21", "half", "nhalf"]
ROUTES = {"s": "'%s'", "v": "({valueOf: function () { return %s }})", "a": "[%s]"}


# in-range small integers and a JSON text (C04.tla SmallClasses, SmallInts: i<n> = the number n)
ARG_SRC.update({"one": "1", "three": "3", "sjson": "'[1,[2,3],{\"a\":[4]}]'"})

# strings the host's predicates / conversions accept and the ECMAScript grammar does not (C04.tla KeyClasses); the source stays ASCII
ARG_SRC.update({"k_sup": "'\\u00b2'", "k_circ": "'\\u2461'", "k_arab": "'\\u0663'", "k_frac": "'\\u00bd'", "k_us": "'1_0'"})

# ---- hostile classes (C04.tla HostileSet): arguments with behaviour or structure ---------------------------------------
# what one mutation does to the array t (MutKinds)
MUT_BODY = {"push": "t.push(0);", "pop": "t.pop();", "len0": "t.length = 0;", "splice": "t.splice(0, 1);", "sort": "t.sort();",
            "rev": "t.reverse();", "store": "t[t.length + 3] = 1;", "shift": "t.shift();",
            # (round 4, C04.tla ObjMutKinds) the set of properties of ANY object changes: a new name is added, the first enumerable one deleted
            "oadd": "t['k' + __n] = 1;", "odel": "for (var __k in t) { delete t[__k]; break; }"}
OBJ_MUT = ("oadd", "odel")
# __hit(m, self, args): mutate whatever array is being iterated - the receiver of the call, the callback's this (the holder a
# reviver / replacer walks), the array handed over as third / fourth argument
PRE_BASE = ("var __n = 0; function __hit(m, self, args) { if (typeof __r !== 'undefined') { m(__r); } m(self); m(args[2]); m(args[3]); } ")
PRE_MUT = ("function __mut_%(k)s(t) { if (t !== null && typeof t === 'object' && typeof t.push === 'function' && __n < %(budget)d) "
           "{ __n++; %(body)s } } ")
PRE_MUT_OBJ = ("function __mut_%(k)s(t) { if (t !== null && typeof t === 'object' && __n < %(budget)d) "
               "{ __n++; %(body)s } } ")
HOOKS = ("{valueOf: function () { __hit(__mut_%(k)s, %(self)s, arguments); return 1 }, "
         "toString: function () { __hit(__mut_%(k)s, %(self)s, arguments); return 'x' }, "
         "toJSON: function () { __hit(__mut_%(k)s, %(self)s, arguments); return 1 }}")
TEXTS = {"t_dec": lambda n: "1" * n, "t_neg": lambda n: "-" + "9" * n, "t_hex": lambda n: "0x" + "f" * n, "t_oct": lambda n: "0o" + "7" * n,
         "t_bin": lambda n: "0b" + "1" * n, "t_frac": lambda n: "0." + "1" * n, "t_exp": lambda n: "1e" + "9" * n,
         "t_nexp": lambda n: "1e-" + "9" * n, "t_brackets": lambda n: "[" * n + "]" * n,
         "t_braces": lambda n: '{"a":' * n + "1" + "}" * n, "t_parens": lambda n: "(" * n + ")" * n}
DEEP_CHUNK = 200                                   # levels added by one call of the host helper (below the host's recursion limit)


def _nest_list(v):
    for _ in range(DEEP_CHUNK):
        v = [v]
    return v


def _nest_obj(v):
    for _ in range(DEEP_CHUNK):
        v = {"a": v}
    return v


class HostFn:
    """a host helper handed to the script; its result is converted with the context's own converter (a host callable's result reaches
    the script as it is)"""

    def __init__(self, fn):
        self.fn = fn

    def bind(self, ctx):
        return lambda v: ctx._to_js(self.fn(v))


def set_all(ctx, sets):
    for nm, val in sets:
        ctx.set(nm, val.bind(ctx) if isinstance(val, HostFn) else val)


def hostile(a, params):
    """(JavaScript text, prelude pieces, values to set) of a hostile class; None if the class is not hostile"""
    kind, _, m = a.partition("_")
    if kind == "fn" and m in MUT_BODY:
        return "(function () { __hit(__mut_%s, this, arguments); return __n %% 3 - 1 })" % m, ["base", "mut_" + m], []
    if kind == "hook" and m in MUT_BODY:
        return "(" + HOOKS % {"k": m, "self": "this"} + ")", ["base", "mut_" + m], []
    if kind == "harr" and m in MUT_BODY:
        # an array whose second element has the hooks and whose third element is a getter, all mutating the array itself
        return ("(function () { var a = [3, 0, 2]; a[1] = %s; try { Object.defineProperty(a, 2, {get: function () { __mut_%s(a); return 2 }, "
                "configurable: true, enumerable: true}); } catch (e) {} return a })()" % (HOOKS % {"k": m, "self": "a"}, m)), ["base", "mut_" + m], []
    if kind == "hobj" and m in OBJ_MUT:
        # a plain object whose member h has the hooks and whose member g is a getter, all changing the object's own set of properties
        return ("(function () { var a = {a: 1, h: 0, g: 0, z: 2}; a.h = %s; try { Object.defineProperty(a, 'g', {get: function () { __mut_%s(a); return 2 }, "
                "configurable: true, enumerable: true}); } catch (e) {} return a })()" % (HOOKS % {"k": m, "self": "a"}, m)), ["base", "mut_" + m], []
    if a == "cyc_arr":
        return "(function () { var a = [1]; a.push(a); return a })()", [], []
    if a == "cyc_obj":
        return "(function () { var o = {a: 1}; o.self = o; return o })()", [], []
    if a == "deep_arr":
        return "__deep_arr", ["deep_arr"], [("__nl", HostFn(_nest_list))]
    if a == "deep_obj":
        return "__deep_obj", ["deep_obj"], [("__no", HostFn(_nest_obj))]
    if a in TEXTS:
        return "__" + a, [], [("__" + a, TEXTS[a](params["HostileSize"]))]
    return None


def prelude(pieces, params):
    out = []
    for pc in sorted(set(pieces), key=lambda x: (x != "base", x)):
        if pc == "base":
            out.append(PRE_BASE)
        elif pc.startswith("mut_"):
            out.append((PRE_MUT_OBJ if pc[4:] in OBJ_MUT else PRE_MUT) % {"k": pc[4:], "budget": params["MutBudget"], "body": MUT_BODY[pc[4:]]})
        elif pc == "deep_arr":
            out.append("var __deep_arr = []; for (var __i = 0; __i < %d; __i++) { __deep_arr = __nl(__deep_arr); } " % (params["DeepLevels"] // DEEP_CHUNK))
        elif pc == "deep_obj":
            out.append("var __deep_obj = {}; for (var __i = 0; __i < %d; __i++) { __deep_obj = __no(__deep_obj); } " % (params["DeepLevels"] // DEEP_CHUNK))
    return "".join(out)


def arg_src(a):
    """JavaScript text of a plain argument class"""
    if a in ARG_SRC:
        return ARG_SRC[a]
    if a[:1] == "i" and a[1:].isdigit():
        return a[1:]
    rt, _, nv = a.partition("_")
    if rt not in ROUTES or nv not in NUM_VALS:
        raise ValueError("unknown argument class " + a)
    return ROUTES[rt] % ARG_SRC[nv]


def render(a, params, pieces, sets):
    """JavaScript text of any argument class; collects the prelude pieces and host values a hostile class needs"""
    h = hostile(a, params)
    if h is None:
        return arg_src(a)
    pieces.extend(h[1])
    sets.extend(h[2])
    return h[0]


RECEIVERS = {
    "global": None, "Math": "Math", "JSON": "JSON", "Object": "Object", "Array": "Array", "Number": "Number",
    "String": "String", "Boolean": "Boolean", "Date": "Date", "RegExp": "RegExp", "Function": "Function", "Error": "Error",
    "console": "console",
    "str": "'abc'", "arr": "[3,1,2]", "num": "(5.5)", "int": "(7)", "obj": "({a:1})", "fn": "(function(a,b){return a})",
    "regex": "(/a/g)", "tarr": "(new Uint8Array(4))", "f64": "(new Float64Array(2))", "abuf": "(new ArrayBuffer(8))",
    "err": "(new Error('x'))", "bool": "true", "native": "Math.abs", "arrow": "((a) => a)",
    # shape / value variants of a receiver kind: empty array, empty string, the non-finite and the huge number
    "arr0": "[]", "str0": "''", "numnan": "(NaN)", "numninf": "(-Infinity)", "nume21": "(1e21)",
    # hostile receivers (C04.tla HostileReceivers): @<class> = the text of the hostile class
    "r_cyc_arr": "@cyc_arr", "r_cyc_obj": "@cyc_obj", "r_deep_arr": "@deep_arr", "r_deep_obj": "@deep_obj",
    "r_harr_push": "@harr_push", "r_harr_len0": "@harr_len0", "r_hobj_oadd": "@hobj_oadd", "r_hobj_odel": "@hobj_odel", "r_digits": "@t_dec", "r_p53": "(9007199254740992)",
    "r_max": "(1.7976931348623157e308)",
}


def recv_src(recv, params, pieces, sets):
    src = RECEIVERS[recv]
    if src is not None and src[:1] == "@":
        return render(src[1:], params, pieces, sets)
    return src

# the variants get the short vectors in the quick tier (C04.tla ShortVector), all vectors in the thorough tier
VARIANT_RECEIVERS = ["arr0", "str0", "numnan", "numninf", "nume21"]

# numeric literals of n digits (C04.tla LongForms): d = the digit 1 or the largest digit of the radix
LONG_FORMS = {
    "dec": lambda n, d: d["dec"] * n,
    "decdot": lambda n, d: d["dec"] * n + ".",
    "frac": lambda n, d: "0." + d["dec"] * n,
    "dotfrac": lambda n, d: "." + d["dec"] * n,
    "intfrac": lambda n, d: d["dec"] * n + "." + d["dec"] * n,
    "exp": lambda n, d: "1e" + "0" * (n - 1) + d["dec"],
    "expneg": lambda n, d: "1e-" + "0" * (n - 1) + d["dec"],
    "exphuge": lambda n, d: "1e" + d["dec"] * n,
    "decexp": lambda n, d: d["dec"] * n + "e5",
    "hex": lambda n, d: "0x" + d["hex"] * n,
    "hexup": lambda n, d: "0X" + d["hex"].upper() * n,
    "oct": lambda n, d: "0o" + d["oct"] * n,
    "bin": lambda n, d: "0b" + "1" * n,
}
LONG_DIGITS = {"lo": {"dec": "1", "hex": "1", "oct": "1"}, "hi": {"dec": "9", "hex": "f", "oct": "7"}}
# the line terminators of C04.tla LineTerms, and the line lengths of a text when all of them / only LF break lines
LT_TEXT = {"lf": "\n", "cr": "\r", "crlf": "\r\n", "ls": "\u2028", "ps": "\u2029"}
LONG_EMBEDS = {"expr": "%s", "neg": "-%s", "arg": "Math.abs(%s)", "key": "({%s: 1})", "index": "[1][%s]"}

_names = None
_discovered = {}
_rlimit_done = False
_again = False


def _limit_memory():
    global _rlimit_done
    if _rlimit_done:
        return
    _rlimit_done = True
    # what the scripts print (console.log of a 5000-character argument) goes nowhere: the parent reads the children's pipes one
    # after the other, a full pipe would block the child until its watchdog fires
    try:
        import os
        import sys
        sys.stdout.flush()
        os.dup2(os.open(os.devnull, os.O_WRONLY), 1)
    except Exception:
        pass
    try:
        import resource
        resource.setrlimit(resource.RLIMIT_AS, (4 << 30, 4 << 30))
    except Exception:
        pass


def harvest_names():
    """identifier-like string constants of the engine's own modules: the candidate property names"""
    global _names
    if _names is not None:
        return _names
    import microjs.vm, microjs.context, microjs.values
    import microjs.regex.regex as rr
    names = set()
    pat = re.compile(r"[A-Za-z_$][A-Za-z0-9_$]*\Z")

    def walk(co):
        for c in co.co_consts:
            if isinstance(c, str):
                if pat.match(c) and len(c) <= 40:
                    names.add(c)
            elif isinstance(c, types.CodeType):
                walk(c)
            elif isinstance(c, (tuple, frozenset)):
                for x in c:
                    if isinstance(x, str) and pat.match(x):
                        names.add(x)
    for m in (microjs.vm, microjs.context, microjs.values, rr):
        with open(m.__file__) as f:
            walk(compile(f.read(), m.__file__, "exec"))
    _names = sorted(names)
    return _names


def discover(api, recv, params):
    """function-valued properties of a receiver kind, found by asking the engine"""
    if recv in _discovered:
        return _discovered[recv]
    found = _discover(api, recv, params)
    if found:                                      # (an empty answer is not kept: the next slice asks again)
        _discovered[recv] = found
    return found


def _discover(api, recv, params):
    names = harvest_names()
    ctx = api.Context(time_limit=5.0)
    found = []
    if RECEIVERS[recv] is None:
        for n in names:
            try:
                if ctx.eval("typeof " + n) == "function":
                    found.append(n)
            except Exception:
                pass
        return found
    pieces, sets = [], []
    rsrc = recv_src(recv, params, pieces, sets)
    set_all(ctx, sets)
    ctx.set("__names", names)
    src = (prelude(pieces, params) + "var __r = %s; var __o = []; for (var __i = 0; __i < __names.length; __i++) { "
           "try { if (typeof __r[__names[__i]] === 'function') __o.push(__names[__i]); } catch (e) {} } __o" % rsrc)
    return list(ctx.eval(src))                     # (a failure here is a failure of the machinery: it propagates)


def line_lengths(src):
    return [len(x) for x in src.split("\n")]


def outcome_record(out):
    """typed outcome with every field present (what the judge reads)"""
    return {"o": out["o"], "line": int(out.get("line", 0)), "col": int(out.get("col", 0)), "steps": int(out.get("steps", 0)),
            "type": out.get("type", ""), "where": out.get("where", ""), "msg": out.get("msg", "")[:120]}


def run_patient(api, fn, cap=300_000):
    """api.run, and once more with a long watchdog if only the wall clock fired (machine under load)"""
    # (the harness multiplies wall by VERIF_WALL_SCALE, default 6: 18 s, then 120 s; a front-end loop that
    # executes no hooked step is only seen by this watchdog, so it must not be so long that a hang stalls the run)
    if _again:                                     # a case observed again after a watchdog expiry: the long watchdog only
        return api.run(fn, wall=20.0, cap=cap)
    out = api.run(fn, wall=3.0, cap=cap)
    if out["o"] == "hang" and out.get("why") == "wall clock":
        out = api.run(fn, wall=20.0, cap=cap)
    return out


def eval_src(api, src, time_limit=0.5, cap=300_000):
    out = run_patient(api, lambda: api.Context(time_limit=time_limit).eval(src), cap=cap)
    out.pop("pv", None)
    return outcome_record(out)


def value_kind(v):
    """kind of the Python value Context.eval returned"""
    if isinstance(v, bool):
        return "bool"
    if isinstance(v, (int, float)):
        return "num"
    if isinstance(v, str):
        return "str"
    if v is None:
        return "none"
    return "obj"


_fe_files = None


def front_end_files():
    """the engine's front end: lexer, parser, compiler and their data classes"""
    global _fe_files
    if _fe_files is None:
        import os
        import microjs
        d = os.path.dirname(microjs.__file__)
        _fe_files = frozenset(os.path.join(d, f) for f in ("lexer.py", "parser.py", "compiler.py", "ast_nodes.py", "tokens.py"))
    return _fe_files


def run_counting(api, fn, stop_at, cap=300_000):
    """api.run with a count of the host-level calls (Python and C functions) made from the engine's front end; the count stops
    the evaluation at stop_at (C04.tla NestCase: the bound of the case + 1), which is reported as the outcome 'hang'"""
    import sys
    files = front_end_files()
    cnt = [0]

    def prof(frame, event, arg):
        if (event == "call" or event == "c_call") and frame.f_code.co_filename in files:
            cnt[0] += 1
            if cnt[0] >= stop_at:
                sys.setprofile(None)
                raise api.HarnessHang("front-end work")

    def counted():
        sys.setprofile(prof)
        try:
            return fn()
        finally:
            sys.setprofile(None)
    out = api.run(counted, wall=40.0, cap=cap)
    return out, cnt[0]


def fam_case(case, api):
    fam = case["fam"]
    if fam["kind"] == "nest":
        src = fam["src"]
        out, fe = run_counting(api, lambda: api.Context(time_limit=5.0).eval(src), fam["ds"][0])
        vk = value_kind(out.pop("pv")) if out["o"] == "value" else ""
        return {"id": case["id"], "out": outcome_record(out), "lens": line_lengths(src), "vk": vk, "srclen": len(src), "fe": fe}
    if fam["kind"] == "chain":
        src = fam["src"] + fam["digit"] * fam["n"] + fam["embed"]
        tl = 5.0
    elif fam["kind"] == "long":
        src = LONG_EMBEDS[fam["embed"]] % LONG_FORMS[fam["name"]](fam["n"], LONG_DIGITS[fam["digit"]])
        tl = 5.0
    elif fam["kind"] == "lt":
        src = fam["src"] + LT_TEXT[fam["digit"]] + fam["embed"]
        tl = 0.1
    else:
        src = fam["src"]
        tl = 0.1
    out = run_patient(api, lambda: api.Context(time_limit=tl).eval(src), cap=300_000)
    vk = value_kind(out.pop("pv")) if out["o"] == "value" else ""
    res = {"id": case["id"], "out": outcome_record(out), "lens": line_lengths(src), "vk": vk, "srclen": len(src)}
    if fam["kind"] == "lt":
        res["lens2"] = res["lens"]
        # every ES line terminator breaks a line; the CR of a CR LF pair belongs to the line it ends (as in line_lengths)
        res["lens"] = [len(x) for x in re.split("\n|\r(?!\n)|\u2028|\u2029", src)]
    return res


def lex_src(api, src):
    from microjs.lexer import Lexer
    from microjs.tokens import TokenType

    def go():
        return [(t.type, t.value, t.line, t.column) for t in Lexer(src).tokenize()]
    out = run_patient(api, go)
    if out["o"] != "value":
        return outcome_record(out), []
    toks = []
    for ty, val, line, col in out["pv"]:
        if ty == TokenType.EOF:
            continue
        if ty == TokenType.NUMBER:
            k = "num"
        elif ty == TokenType.STRING:
            k = "str"
        elif ty == TokenType.REGEX:
            k = "regex"
        elif isinstance(val, str) and (val[:1].isalpha() or val[:1] in "_$"):
            k = "id"
        else:
            k = "".join(CHAR_CLASS.get(ch, "?") for ch in str(val))
        toks.append({"k": k, "line": line, "col": col})
    return {"o": "tokens", "line": 0, "col": 0, "steps": 0, "type": "", "where": "", "msg": ""}, toks


def driver(case, api):
    """one retry if the watchdog fired outside a measured region (machine under load)"""
    try:
        return driver1(case, api)
    except api.HarnessHang:
        return driver1(case, api)


def driver1(case, api):
    global _again
    _limit_memory()
    _again = bool(case.get("again"))
    kind = case["kind"]
    if kind == "cls":
        src = "".join(CONC[case["conc"]][c] for c in case["cls"])
        lex, toks = lex_src(api, src)
        return {"id": case["id"], "lex": lex, "toks": toks, "out": eval_src(api, src), "src": src}
    if kind == "src":
        src = case["src"]
        return {"id": case["id"], "out": eval_src(api, src, time_limit=case.get("time_limit", 0.5)), "lens": line_lengths(src)}
    if kind == "grid":
        return grid(case, api)
    if kind == "fam":
        return fam_case(case, api)
    raise ValueError("unknown case kind " + kind)


# ---- harness texts (the prelude of the hostile classes, the use statements) are parsed and compiled once per child process --------
# Only texts registered here are served from the cache: every generated program goes through the engine's front end as it is.
_HARNESS_TEXTS = set()


def _install_harness_cache():
    import microjs.context as C
    P0, K0 = C.Parser, C.Compiler
    if getattr(P0, "_c04_cached", False):
        return
    asts, comp = {}, {}

    class CachedParser:
        _c04_cached = True

        def __init__(self, code):
            self.code = code

        def parse(self):
            if self.code not in _HARNESS_TEXTS:
                return P0(self.code).parse()
            a = asts.get(self.code)
            if a is None:
                a = asts[self.code] = P0(self.code).parse()
            return a

    class CachedCompiler:
        def compile(self, ast):
            c = comp.get(id(ast))
            if c is not None and c[0] is ast:
                return c[1]
            out = K0().compile(ast)
            if any(a is ast for a in asts.values()):
                comp[id(ast)] = (ast, out)
            return out
    C.Parser, C.Compiler = CachedParser, CachedCompiler


def harness_eval(ctx, src):
    """evaluate a constant text of the harness (cached front end)"""
    _HARNESS_TEXTS.add(src)
    return ctx.eval(src)


def is_object_result(v):
    """did Context.eval hand back an object (anything but a primitive) ?"""
    return not (v is None or isinstance(v, (bool, int, float, str)))


def use_program(case, api, params):
    """the statements run on an object a call returned, each under its own try / catch: C04.tla UseOps, the operator forms with the
    result as receiver (UseOpSet: template over @R @0 @1, operand classes), and the result as argument of every discovered function
    of the namespaces (UseArgShapes x UseNamespaces: @F = namespace.function)"""
    stmts = [u.replace("@U", "__u") for u in case.get("use", [])]
    for uo in sorted(case.get("useops", []), key=lambda u: (u["n"], u["a"])):
        body = uo["t"].replace("@R", "__u")
        for ai, a in enumerate(uo["a"]):
            body = body.replace("@%d" % ai, arg_src(a))
        stmts.append(body + ";")
    for ua in case.get("useargs", []):
        for fn in discover(api, ua["ns"], params):
            stmts.append(ua["t"].replace("@F", RECEIVERS[ua["ns"]] + "." + fn).replace("@U", "__u") + ";")
    return "".join("try { %s } catch (__e) {} " % st for st in stmts)


def grid(case, api):
    """every discovered function x the case's vectors, every operator form x the vectors of its arity; when a call returns an
    object, the use statements (C04.tla UseOps) are run on it in the same context"""
    recv = case["recv"]
    params = case["params"]
    _install_harness_cache()
    fns = discover(api, recv, params)
    alloc, huge = set(case["allocating"]), set(case["huge"])
    res = [{"id": case["id"], "discovered": fns, "recv": recv}]
    forms = ["call"] + (["new"] if recv == "global" else [])
    ops = case.get("ops", [])
    if "only" in case:                             # one call observed again (checks/c04.py reobserve_hangs)
        forms = [case["form"]]
        fns = [case["only"]] if not case["only"].startswith("op:") else []
        ops = [op for op in ops if "op:" + op["n"] == case["only"]]
    use_src = use_program(case, api, params)
    fin_srcs = [u.replace("@U", "__u") for u in case.get("usefin", [])]
    oppairs = {tuple(v) for v in case.get("oppairs", [])}
    usevecs = {tuple(v) for v in case.get("usevecs", [])}
    compiling, nested = set(case.get("compiling", [])), set(case.get("nested", []))
    todo = [(fn, form, None, vec) for fn in fns for form in forms for vec in case["vecs"]]
    todo += [("op:" + op["n"], "op", op, vec) for op in ops for vec in case["vecs"]
             if len(vec) == op["ar"] and (op["ar"] < 2 or tuple(vec) in oppairs)]
    for fn, form, op, vec in todo:
        if fn in alloc and any(a in huge for a in vec):
            continue
        if fn in compiling and any(a in nested for a in vec):
            continue
        names, sets, pieces = [], [], []
        for ai, a in enumerate(vec):
            if case.get("intrep") == "float" and a in ARG_PY:
                sets.append(("__a%d" % ai, ARG_PY[a]))
                names.append("__a%d" % ai)
            else:
                names.append(render(a, params, pieces, sets))
        args = ", ".join(names)
        if RECEIVERS[recv] is None:
            call = ("new " if form == "new" else "") + "%s(%s)" % (fn, args)
            src = "var __u = %s; __u" % call
            shown = call
        else:
            rsrc = recv_src(recv, params, pieces, sets)
            if op is None:
                src = "var __r = %s; var __u = __r.%s(%s); __u" % (rsrc, fn, args)
                shown = "var __r = %s; __r.%s(%s)" % (rsrc, fn, args)
            else:
                body = op["t"].replace("@R", "__r")
                for ai, nm in enumerate(names):
                    body = body.replace("@%d" % ai, nm)
                src = shown = "var __r = %s; %s" % (rsrc, body)
        pre = prelude(pieces, params)
        box = []

        def call_fn(src=src, sets=sets, box=box, pre=pre):
            ctx = api.Context(time_limit=1.0)
            set_all(ctx, sets)
            box.append(ctx)
            if pre:
                harness_eval(ctx, pre)
            return ctx.eval(src)
        out = run_patient(api, call_fn)
        pv = out.pop("pv", None)
        use = None
        if op is None and use_src and out["o"] == "value" and is_object_result(pv) and tuple(vec) in usevecs:
            ctx = box[-1]
            use = run_patient(api, lambda: harness_eval(ctx, use_src))
            use.pop("pv", None)
            use = outcome_record(use)
            # the uncaught statements (C04.tla UseFinal): each an evaluation of its own in the same context
            fin = []
            for fsrc in fin_srcs:
                fo = run_patient(api, lambda fsrc=fsrc: harness_eval(ctx, fsrc))
                fo.pop("pv", None)
                fin.append(outcome_record(fo))
        r = {"id": case["id"], "recv": recv, "fname": fn, "form": form, "args": vec, "src": shown[:300], "out": outcome_record(out)}
        if use is not None:
            r["use"] = use
            r["fin"] = fin
        res.append(r)
    return res
