"""C02 - memory limit stops runaway stack growth, never stops bounded scripts (DESIGN 5/C02)."""
import os, json
from harness import tlc, engine
from harness.common import Machinery, workdir, write_ndjson
from checks import c02_driver

ML_CFG = """CONSTANTS M = %d
 SLOT = 1
 FRAME = 2
 NCAP = %d
 HOSTPER = 5
 HOSTMAX = %d
 MAXGROW = 2
 Cap = %s
SPECIFICATION Spec
INVARIANT MemBound
INVARIANT HostBound
INVARIANT TypeOK
INVARIANT Finite
CONSTRAINT Constr
CHECK_DEADLOCK FALSE
"""
ENUM_CFG = "INIT EnumInit\nNEXT EnumNext\nCONSTRAINT EnumEmit\nCHECK_DEADLOCK FALSE\n"
JUDGE_CFG = "INIT JudgeInit\nNEXT JudgeNext\nCHECK_DEADLOCK FALSE\n"
JSVM_CFG = "SPECIFICATION Spec\nCONSTRAINT Report\nCHECK_DEADLOCK FALSE\n"
TRACE_CFG = "SPECIFICATION Spec\nCONSTRAINT Report\nINVARIANT ShadowSane\nCHECK_DEADLOCK FALSE\n"
BODY_M = 15000          # bytes: 150 operands or 75 frames; one leaked operand per iteration exhausts it at N = 200


def bname(b):
    return "%s/%s/%s/%s" % (b["inner"], b["exit"], b["encl"], b["place"])


def run(rep):
    quick = rep.tier == "quick"
    # 1. the accounting model, exhaustively, for M set and unset; and non-vacuity of HostBound
    for (m, ncap, hostmax) in ((40, 4, 25), (0, 3, 20)) if quick else ((40, 4, 25), (60, 5, 30), (0, 3, 20), (0, 5, 30)):
        r = tlc.run(rep.pid, "MemLimit", ML_CFG % (m, ncap, hostmax, "TRUE"), timeout=900, tag="ml_%d_%d" % (m, ncap), coverage=True)
        rep.add_tlc("MemLimit(M=%d,NCAP=%d)" % (m, ncap), r)
    bad = tlc.run(rep.pid, "MemLimit", ML_CFG % (40, 4, 25, "FALSE"), timeout=300, tag="ml_nocap")
    if "HostBound" not in bad.violated:
        raise Machinery("MemLimit.HostBound is not violated without the native-depth cap: vacuous")
    # 2. enumerate bodies and recursion shapes
    en = tlc.run(rep.pid, "C02", ENUM_CFG, env={"TIER": rep.tier}, timeout=900, tag="enum")
    rep.add_tlc("C02.Enum", en)
    bodies, shapes, seen = [], [], set()
    for c in en.records:
        k = json.dumps(c, sort_keys=True)
        if k in seen:
            continue
        seen.add(k)
        (bodies if c["kind"] == "body" else shapes).append(c)
    if len(bodies) < 100 or len(shapes) < 20:
        raise Machinery("enumeration too small: %d bodies %d shapes" % (len(bodies), len(shapes)))
    bodies.sort(key=lambda c: bname(c["b"]))
    rep.spaces.append({"space": "bodies: inner x exit x enclosure x place (valid combinations)", "cases": len(bodies), "complete": True})
    rep.spaces.append({"space": "recursion shapes x M x time limit set/unset", "cases": len(shapes), "complete": True})
    ns = [1, 30, 200] if quick else [1, 50, 1000]
    cases = []
    for i, c in enumerate(bodies):
        cases.append({"id": "b%d" % i, "kind": "body", "b": c["b"], "ns": ns, "m": BODY_M})
    for i, c in enumerate(shapes):
        cases.append({"id": "s%d" % i, "kind": "shape", "s": c["s"], "m": c["m"], "tl": c["tl"]})
    # bytecode export in chunks
    chunk = 40
    for i in range(0, len(bodies), chunk):
        cases.append({"id": "x%d" % i, "kind": "export",
                      "bodies": [{"name": bname(c["b"]), "b": c["b"]} for c in bodies[i:i + chunk]]})
    results = engine.run_cases(rep.pid, cases, driver="checks.c02_driver:driver", timeout=3000)
    byid = {r["id"]: r for r in results}
    # 3. static: abstract VM over the real bytecode of every body (all paths, exception edges)
    funcs = []
    for r in results:
        if "funcs" in r:
            funcs.extend(r["funcs"])
    wd = workdir(rep.pid, "static")
    fpath = os.path.join(wd, "funcs.ndjson")
    write_ndjson(fpath, funcs)
    sv = tlc.run(rep.pid, "JsVM", JSVM_CFG, env={"FUNCS_FILE": fpath}, timeout=1800, tag="jsvm")
    rep.add_tlc("JsVM(real bytecode of %d functions)" % len(funcs), sv)
    rep.notes["static_functions"] = len(funcs)
    static_bad = {}
    for v in sv.records:
        static_bad.setdefault(v["id"].split("#")[0], v)
    # 4. judge the recorded runs
    recs = []
    for c in cases:
        if c["kind"] == "export":
            continue
        r = byid[c["id"]]
        if r["kind"] == "body":
            recs.append({"id": r["id"], "kind": "body",
                         "runs": [{"n": x["n"], "o": x["o"], "edges": x["edges"], "maxd": x["maxd"], "maxh": x["maxh"], "maxf": x["maxf"]}
                                  for x in r["runs"]]})
        else:
            recs.append({"id": r["id"], "kind": "shape", "s": r["s"], "m": r["m"], "o": r["o"], "levels": r["levels"]})
    verdicts, st, tr, _ = tlc.judge(rep.pid, "C02", recs, JUDGE_CFG, shards=8)
    rep.add_judge(len(recs), st, tr)
    cmap = {c["id"]: c for c in cases}
    dyn_bad = set()
    for v in verdicts:
        c, r = cmap[v["id"]], byid[v["id"]]
        if c["kind"] == "body":
            name = bname(c["b"])
            if v["v"] != "pass":
                dyn_bad.add(name)
                rep.mismatch(name, {"verdict": v["v"], "src": r["src"],
                                    "runs": [{k: x[k] for k in ("n", "o", "info", "maxd", "maxh", "maxf")} for x in r["runs"]],
                                    "static": static_bad.get(name)})
            elif len(rep.samples) < 3:
                rep.sample({"body": name, "src": r["src"][:300], "runs": [{"n": x["n"], "o": x["o"], "edges": x["edges"][:3]} for x in r["runs"]]})
        else:
            name = "%s(M=%d%s)" % (c["s"], c["m"], "" if c["tl"] else ",no time limit")
            if v["v"] != "pass":
                rep.mismatch(name, {"verdict": v["v"], "outcome": r["o"], "info": r["info"], "levels": r["levels"]})
            elif c["s"] in ("forEach", "self") and len(rep.samples) < 6:
                rep.sample({"shape": name, "outcome": r["o"], "levels": r["levels"]})
    # 5. trace validation: every instruction the engine executed for every body (N = 2) against JsVM_Trace
    tcases = [{"id": "t:" + bname(c["b"]), "src": c02_driver.render_program(c["b"], 2)} for c in bodies]
    tres = engine.run_cases(rep.pid, tcases, driver="checks.trace_driver:driver", tag="traces", timeout=3000)
    traces = [{"id": r["id"], "ev": r["ev"], "end": r["end"]} for r in tres if r["ev"] and not r["over"]]
    if len(traces) < len(tcases) * 0.9:
        raise Machinery("too many traces truncated: %d of %d usable" % (len(traces), len(tcases)))
    # binding self-test: a corrupted depth, a corrupted target and a dropped event must each be rejected
    base = next(t for t in traces if len(t["ev"]) > 40)
    muts = []
    for tag, fn in (("sl", lambda ev: ev[20].__setitem__("sl", ev[20]["sl"] + 1)), ("at", lambda ev: ev[21].__setitem__("at", ev[21]["at"] + 1)),
                    ("drop", lambda ev: ev.__delitem__(22))):
        m = json.loads(json.dumps(base))
        fn(m["ev"])
        m["id"] = "selftest:" + tag
        muts.append(m)
    tv, st, tr, _ = tlc.judge(rep.pid, "JsVM_Trace", traces + muts, TRACE_CFG, shards=8, tag="trace_judge")
    rep.add_judge(len(traces), st, tr)
    rep.notes["trace_events"] = sum(len(t["ev"]) for t in traces)
    seen_ids = set()
    for v in tv:
        if v["id"] in seen_ids:
            continue
        seen_ids.add(v["id"])
        if v["id"].startswith("selftest:"):
            if v["ok"]:
                raise Machinery("trace specification accepted a corrupted trace (%s): binding is vacuous" % v["id"])
            continue
        if not v["ok"]:
            src = next(t["src"] for t in tcases if t["id"] == v["id"])
            rep.mismatch(v["id"], {"verdict": "trace rejected", "clause": v["why"], "src": src})
    if not any(i.startswith("selftest:") for i in seen_ids):
        raise Machinery("self-test traces were not judged")
    # a static inconsistency is a violation only when a real run confirms it; otherwise it is listed (DESIGN C02)
    only_static = sorted(set(static_bad) - dyn_bad)
    rep.notes["static_only"] = [{"body": n, "why": static_bad[n]["why"], "ip": static_bad[n]["ip"]} for n in only_static][:50]
    rep.notes["static_flagged"] = len(static_bad)
    rep.exhaustive = True
    rep.evaluations = len(recs)
    rep.assumptions += ["depths are read through the MICROJS_VERIF hook at every backward jump; heap data is not accounted (documented, out of scope)",
                        "iteration counts N in %s; the static model quantifies over all N" % ns]
