----------------------------- MODULE JsGrammar -----------------------------
(* Expression grammar of the supported ECMAScript fragment as a reference:         *)
(*   token classes, the precedence / associativity table, expression trees,          *)
(*   Print (tree -> tokens with MINIMAL parentheses), ParseExpr (tokens -> tree by   *)
(*   precedence climbing, ES early errors for assignment / update targets and for    *)
(*   a unary base of the power operator), restricted productions, bracket balance, *)
(*   numeric / string literal denotation.                                            *)
(* Variable-free library module (DESIGN 3.2): no VARIABLE, bound names are long.     *)
EXTENDS Naturals, Integers, Sequences, FiniteSets, TLC

\* ---------------------------------------------------------------------------------------
\* Token classes.  A token is a TLA+ string; its class is decided by set membership.
\* ---------------------------------------------------------------------------------------
Idents   == {"a", "b", "c", "d", "e", "f", "g", "h", "k", "o", "p", "q", "r", "s", "v", "w", "x", "y", "z"}
Nums     == {"0", "1", "2", "3", "4", "5", "6", "7", "8", "9", "10", "0.5"}
Keywords == {"var", "function", "return", "if", "else", "while", "do", "for", "in", "of", "break", "continue",
             "switch", "case", "default", "try", "catch", "finally", "throw", "new", "delete", "typeof",
             "instanceof", "this", "true", "false", "null", "void"}
UnOps    == {"-", "+", "!", "~", "typeof", "void", "delete"}
UpdOps   == {"++", "--"}
AssignOps == {"=", "+=", "-=", "*=", "/=", "%=", "**=", "&=", "|=", "^=", "<<=", ">>=", ">>>="}
\* binary operators with their ECMAScript level (higher binds tighter); "," is level 1
BinLevel == [x \in {",", "||", "&&", "|", "^", "&", "==", "!=", "===", "!==", "<", ">", "<=", ">=", "in",
                    "instanceof", "<<", ">>", ">>>", "+", "-", "*", "/", "%", "**"} |->
   CASE x = ","  -> 1
     [] x = "||" -> 4
     [] x = "&&" -> 5
     [] x = "|"  -> 6
     [] x = "^"  -> 7
     [] x = "&"  -> 8
     [] x \in {"==", "!=", "===", "!=="} -> 9
     [] x \in {"<", ">", "<=", ">=", "in", "instanceof"} -> 10
     [] x \in {"<<", ">>", ">>>"} -> 11
     [] x \in {"+", "-"} -> 12
     [] x \in {"*", "/", "%"} -> 13
     [] x = "**" -> 14]
BinOps   == DOMAIN BinLevel
\* other levels: conditional 3, assignment / arrow 2, unary 15, update (prefix and postfix) 16,
\* call 17, member / new-with-arguments 18, primary 19
LvAssign == 2
LvCond   == 3
LvOr     == 4
LvExp    == 14
LvUnary  == 15
LvUpdate == 16
LvCall   == 17
LvMember == 18
LvPrimary == 19
RightAssoc(x) == x = "**"

OpPunct == (BinOps \ {",", "in", "instanceof"}) \cup AssignOps \cup UpdOps \cup {"!", "~", "?", ":", ".", "=>"}
Brackets == {"(", ")", "[", "]", "{", "}"}
IsIdent(x) == x \in Idents
IsNumTok(x)   == x \in Nums
IsWord(x)  == x \in Idents \cup Nums \cup Keywords

\* ---------------------------------------------------------------------------------------
\* Trees: one record shape for every node  [t: tag, op: string, kids: sequence of trees]
\*   id, num, this        leaves (op = the token)
\*   bin(op; l, r)        every binary operator including && || and the comma
\*   un(op; x)  pre(op; x)  post(op; x)
\*   cond(; test, then, else)   asg(op; target, value)   arrow(param; body)
\*   mem(name; obj)   idx(; obj, index)   call(; callee, args...)   new(; callee, args...)
\*   arr(; elements...)
\* ---------------------------------------------------------------------------------------
Node(tg, o, ks) == [t |-> tg, op |-> o, kids |-> ks]
Id(nm)  == Node("id", nm, <<>>)
Num(nm) == Node("num", nm, <<>>)
This    == Node("this", "this", <<>>)
Bin(o, l, r) == Node("bin", o, <<l, r>>)
ErrTree == Node("error", "", <<>>)
LeafTags == {"id", "num", "this"}
\* AssignmentTargetType = simple (strict mode): identifier or property reference
IsTarget(tr) == tr.t \in {"id", "mem", "idx"}

RECURSIVE Level(_)
Level(tr) ==
  CASE tr.t \in LeafTags \cup {"arr"} -> LvPrimary
    [] tr.t = "new"  -> LvMember
    [] tr.t \in {"mem", "idx"} ->
         LET lo == Level(tr.kids[1]) IN IF lo = LvCall THEN LvCall ELSE LvMember   \* below call level it is parenthesised
    [] tr.t = "call" -> LvCall
    [] tr.t \in {"pre", "post"} -> LvUpdate
    [] tr.t = "un"   -> LvUnary
    [] tr.t = "bin"  -> BinLevel[tr.op]
    [] tr.t = "cond" -> LvCond
    [] tr.t \in {"asg", "arrow"} -> LvAssign
    [] OTHER -> 0

\* ---------------------------------------------------------------------------------------
\* Print with minimal parentheses.  Grouping parentheses are emitted as "(:" and ":)" so
\* that the minimality law can find them; Unmark turns them into "(" and ")".
\* ---------------------------------------------------------------------------------------
RECURSIVE FlattenToks(_)
FlattenToks(ss) == IF ss = <<>> THEN <<>> ELSE Head(ss) \o FlattenToks(Tail(ss))
RECURSIVE JoinComma(_)
JoinComma(ss) == IF ss = <<>> THEN <<>> ELSE IF Len(ss) = 1 THEN ss[1] ELSE ss[1] \o <<",">> \o JoinComma(Tail(ss))

RECURSIVE PrintG(_)
Wrap(tr, minlv) == IF Level(tr) < minlv THEN <<"(:">> \o PrintG(tr) \o <<":)">> ELSE PrintG(tr)
PrintG(tr) ==
  CASE tr.t \in LeafTags -> <<tr.op>>
    [] tr.t = "bin" ->
         LET lv == BinLevel[tr.op] IN
         IF tr.op = "**" THEN Wrap(tr.kids[1], LvUpdate) \o <<"**">> \o Wrap(tr.kids[2], LvExp)
         ELSE Wrap(tr.kids[1], lv) \o <<tr.op>> \o Wrap(tr.kids[2], lv + 1)
    [] tr.t = "un"   -> <<tr.op>> \o Wrap(tr.kids[1], LvUnary)
    [] tr.t = "pre"  -> <<tr.op>> \o Wrap(tr.kids[1], LvUnary)
    [] tr.t = "post" -> Wrap(tr.kids[1], LvCall) \o <<tr.op>>
    [] tr.t = "cond" -> Wrap(tr.kids[1], LvOr) \o <<"?">> \o Wrap(tr.kids[2], LvAssign) \o <<":">> \o Wrap(tr.kids[3], LvAssign)
    [] tr.t = "asg"  -> Wrap(tr.kids[1], LvCall) \o <<tr.op>> \o Wrap(tr.kids[2], LvAssign)
    [] tr.t = "arrow" -> <<tr.op, "=>">> \o Wrap(tr.kids[1], LvAssign)
    [] tr.t = "mem"  -> Wrap(tr.kids[1], LvCall) \o <<".", tr.op>>
    [] tr.t = "idx"  -> Wrap(tr.kids[1], LvCall) \o <<"[">> \o PrintG(tr.kids[2]) \o <<"]">>
    [] tr.t = "call" -> Wrap(tr.kids[1], LvCall) \o <<"(">>
                          \o JoinComma([ai \in 1..(Len(tr.kids) - 1) |-> Wrap(tr.kids[ai + 1], LvAssign)]) \o <<")">>
    [] tr.t = "new"  -> <<"new">> \o Wrap(tr.kids[1], LvMember) \o <<"(">>
                          \o JoinComma([ai \in 1..(Len(tr.kids) - 1) |-> Wrap(tr.kids[ai + 1], LvAssign)]) \o <<")">>
    [] tr.t = "arr"  -> <<"[">> \o JoinComma([ai \in 1..Len(tr.kids) |-> Wrap(tr.kids[ai], LvAssign)]) \o <<"]">>
    [] OTHER -> <<"<?>">>
Unmark(ts) == [ti \in 1..Len(ts) |-> IF ts[ti] = "(:" THEN "(" ELSE IF ts[ti] = ":)" THEN ")" ELSE ts[ti]]
PrintExpr(tr) == Unmark(PrintG(tr))    \* "Print" of the design (the name Print belongs to module TLC)

\* PrintAll: like PrintG, and additionally every sub-expression that needs no parentheses is wrapped in the
\* OPTIONAL markers "(?" "?)".  A layout generator may turn any optional pair into real parentheses (redundant
\* parentheses); dropping them all gives PrintG.
RECURSIVE PrintAll(_)
WrapA(tr, minlv) == IF Level(tr) < minlv THEN <<"(:">> \o PrintAll(tr) \o <<":)">> ELSE <<"(?">> \o PrintAll(tr) \o <<"?)">>
PrintAll(tr) ==
  CASE tr.t \in LeafTags -> <<tr.op>>
    [] tr.t = "bin" ->
         LET lv == BinLevel[tr.op] IN
         IF tr.op = "**" THEN WrapA(tr.kids[1], LvUpdate) \o <<"**">> \o WrapA(tr.kids[2], LvExp)
         ELSE WrapA(tr.kids[1], lv) \o <<tr.op>> \o WrapA(tr.kids[2], lv + 1)
    [] tr.t = "un"   -> <<tr.op>> \o WrapA(tr.kids[1], LvUnary)
    [] tr.t = "pre"  -> <<tr.op>> \o WrapA(tr.kids[1], LvUnary)
    [] tr.t = "post" -> WrapA(tr.kids[1], LvCall) \o <<tr.op>>
    [] tr.t = "cond" -> WrapA(tr.kids[1], LvOr) \o <<"?">> \o WrapA(tr.kids[2], LvAssign) \o <<":">> \o WrapA(tr.kids[3], LvAssign)
    [] tr.t = "asg"  -> WrapA(tr.kids[1], LvCall) \o <<tr.op>> \o WrapA(tr.kids[2], LvAssign)
    [] tr.t = "arrow" -> <<tr.op, "=>">> \o WrapA(tr.kids[1], LvAssign)
    [] tr.t = "mem"  -> WrapA(tr.kids[1], LvCall) \o <<".", tr.op>>
    [] tr.t = "idx"  -> WrapA(tr.kids[1], LvCall) \o <<"[">> \o WrapA(tr.kids[2], 1) \o <<"]">>
    [] tr.t = "call" -> WrapA(tr.kids[1], LvCall) \o <<"(">>
                          \o JoinComma([ai \in 1..(Len(tr.kids) - 1) |-> WrapA(tr.kids[ai + 1], LvAssign)]) \o <<")">>
    [] tr.t = "new"  -> <<"new">> \o WrapA(tr.kids[1], LvMember) \o <<"(">>
                          \o JoinComma([ai \in 1..(Len(tr.kids) - 1) |-> WrapA(tr.kids[ai + 1], LvAssign)]) \o <<")">>
    [] tr.t = "arr"  -> <<"[">> \o JoinComma([ai \in 1..Len(tr.kids) |-> WrapA(tr.kids[ai], LvAssign)]) \o <<"]">>
    [] OTHER -> <<"<?>">>
PrintMarked(tr) == <<"(?">> \o PrintAll(tr) \o <<"?)">>
DropOptional(ts) == SelectSeq(ts, LAMBDA x : x \notin {"(?", "?)"})
AllParens(ts) == [ti \in 1..Len(ts) |-> IF ts[ti] \in {"(:", "(?"} THEN "(" ELSE IF ts[ti] \in {":)", "?)"} THEN ")" ELSE ts[ti]]

\* the grouping pairs of a marked token sequence, as <<open index, close index>>
RECURSIVE MatchClose(_, _, _)
MatchClose(ts, pi, depth) ==            \* pi: position after an open marker at nesting `depth` >= 1
  IF pi > Len(ts) THEN 0
  ELSE IF ts[pi] = "(:" THEN MatchClose(ts, pi + 1, depth + 1)
  ELSE IF ts[pi] = ":)" THEN (IF depth = 1 THEN pi ELSE MatchClose(ts, pi + 1, depth - 1))
  ELSE MatchClose(ts, pi + 1, depth)
GroupPairs(ts) == {<<oi, MatchClose(ts, oi + 1, 1)>> : oi \in {qi \in 1..Len(ts) : ts[qi] = "(:"}}
RemovePair(ts, pr) == SubSeq(ts, 1, pr[1] - 1) \o SubSeq(ts, pr[1] + 1, pr[2] - 1) \o SubSeq(ts, pr[2] + 1, Len(ts))

\* ---------------------------------------------------------------------------------------
\* ParseExpr: precedence climbing over a token sequence.
\* Every parse function returns [ok, t, n, par]: n = index of the next unread token,
\* par = the tree was produced directly by a parenthesised primary (needed for the early
\* error "unary operand of **").  On failure ok = FALSE and n = index of the offending token.
\* dv = set of named deviations (DESIGN 2.3); {} is ECMAScript.  As-is rules of the engine:
\*   "Dev_TargetUnchecked"  parser.py _parse_assignment_expression / _parse_unary_expression /
\*                          _parse_postfix_expression never test the target; postfix ++/-- is part
\*                          of the postfix loop (a++ ++, a++.b accepted)
\*   "Dev_UnaryExp"         _parse_binary_expression accepts a unary expression as the base of **
\*   "Dev_NewMember"        _parse_new_expression takes a bare primary as callee:  new a.b()  is
\*                          (new a).b()
\* ---------------------------------------------------------------------------------------
ParserDevs == {"Dev_TargetUnchecked", "Dev_UnaryExp", "Dev_NewMember"}
Tok(ts, pi) == IF pi >= 1 /\ pi <= Len(ts) THEN ts[pi] ELSE "<eof>"
Ok(tr, nx)  == [ok |-> TRUE, t |-> tr, n |-> nx, par |-> FALSE]
Fail(nx)    == [ok |-> FALSE, t |-> ErrTree, n |-> nx, par |-> FALSE]
OkArgs(as, nx) == [ok |-> TRUE, args |-> as, n |-> nx]
FailArgs(nx)   == [ok |-> FALSE, args |-> <<>>, n |-> nx]
TargetOK(tr, dv) == IsTarget(tr) \/ "Dev_TargetUnchecked" \in dv

RECURSIVE PExpr(_, _, _), PCommaLoop(_, _, _), PAssign(_, _, _), PCond(_, _, _), PBin(_, _, _, _), PBinLoop(_, _, _, _),
          PUnary(_, _, _), PPostfix(_, _, _), PCallTail(_, _, _), PMember(_, _, _), PMemberTail(_, _, _), PPrimary(_, _, _),
          PList(_, _, _, _, _)

PExpr(ts, pi, dv) == LET fst == PAssign(ts, pi, dv) IN IF ~fst.ok THEN fst ELSE PCommaLoop(ts, fst, dv)
PCommaLoop(ts, lhs, dv) ==
  IF Tok(ts, lhs.n) = ","
  THEN LET rhs == PAssign(ts, lhs.n + 1, dv) IN
       IF ~rhs.ok THEN rhs ELSE PCommaLoop(ts, Ok(Bin(",", lhs.t, rhs.t), rhs.n), dv)
  ELSE lhs

PAssign(ts, pi, dv) ==
  IF IsIdent(Tok(ts, pi)) /\ Tok(ts, pi + 1) = "=>"
  THEN LET bd == PAssign(ts, pi + 2, dv) IN IF ~bd.ok THEN bd ELSE Ok(Node("arrow", Tok(ts, pi), <<bd.t>>), bd.n)
  ELSE IF Tok(ts, pi) = "(" /\ IsIdent(Tok(ts, pi + 1)) /\ Tok(ts, pi + 2) = ")" /\ Tok(ts, pi + 3) = "=>"
  THEN LET bd == PAssign(ts, pi + 4, dv) IN IF ~bd.ok THEN bd ELSE Ok(Node("arrow", Tok(ts, pi + 1), <<bd.t>>), bd.n)
  ELSE IF Tok(ts, pi) = "(" /\ Tok(ts, pi + 1) = ")" /\ Tok(ts, pi + 2) = "=>"
  THEN LET bd == PAssign(ts, pi + 3, dv) IN IF ~bd.ok THEN bd ELSE Ok(Node("arrow", "", <<bd.t>>), bd.n)
  ELSE LET cd == PCond(ts, pi, dv) IN
       IF ~cd.ok THEN cd
       ELSE IF Tok(ts, cd.n) \in AssignOps
       THEN IF ~TargetOK(cd.t, dv) THEN Fail(cd.n)                   \* early error: invalid assignment target
            ELSE LET vl == PAssign(ts, cd.n + 1, dv) IN
                 IF ~vl.ok THEN vl ELSE Ok(Node("asg", Tok(ts, cd.n), <<cd.t, vl.t>>), vl.n)
       ELSE cd

PCond(ts, pi, dv) ==
  LET tst == PBin(ts, pi, LvOr, dv) IN
  IF ~tst.ok THEN tst
  ELSE IF Tok(ts, tst.n) = "?"
  THEN LET thn == PAssign(ts, tst.n + 1, dv) IN
       IF ~thn.ok THEN thn
       ELSE IF Tok(ts, thn.n) # ":" THEN Fail(thn.n)
       ELSE LET els == PAssign(ts, thn.n + 1, dv) IN
            IF ~els.ok THEN els ELSE Ok(Node("cond", "", <<tst.t, thn.t, els.t>>), els.n)
  ELSE tst

PBin(ts, pi, minlv, dv) == LET un == PUnary(ts, pi, dv) IN IF ~un.ok THEN un ELSE PBinLoop(ts, un, minlv, dv)
PBinLoop(ts, lhs, minlv, dv) ==
  LET o == Tok(ts, lhs.n) IN
  IF o \in BinOps /\ o # "," /\ BinLevel[o] >= minlv
  THEN IF o = "**" /\ lhs.t.t = "un" /\ ~lhs.par /\ "Dev_UnaryExp" \notin dv THEN Fail(lhs.n)    \* early error: -a ** b
       ELSE LET lv == BinLevel[o]
                rhs == PBin(ts, lhs.n + 1, IF RightAssoc(o) THEN lv ELSE lv + 1, dv) IN
            IF ~rhs.ok THEN rhs ELSE PBinLoop(ts, Ok(Bin(o, lhs.t, rhs.t), rhs.n), minlv, dv)
  ELSE lhs

PUnary(ts, pi, dv) ==
  LET kw == Tok(ts, pi) IN
  IF kw \in UnOps
  THEN LET arg == PUnary(ts, pi + 1, dv) IN IF ~arg.ok THEN arg ELSE Ok(Node("un", kw, <<arg.t>>), arg.n)
  ELSE IF kw \in UpdOps
  THEN LET arg == PUnary(ts, pi + 1, dv) IN
       IF ~arg.ok THEN arg
       ELSE IF ~TargetOK(arg.t, dv) THEN Fail(arg.n)                   \* early error: invalid update target (known once the operand is complete)
       ELSE Ok(Node("pre", kw, <<arg.t>>), arg.n)
  ELSE PPostfix(ts, pi, dv)

PPostfix(ts, pi, dv) ==
  LET lh == PMember(ts, pi, dv)
      ct == IF lh.ok THEN PCallTail(ts, lh, dv) ELSE lh IN
  IF ~ct.ok THEN ct
  ELSE IF Tok(ts, ct.n) \in UpdOps
  THEN IF ~TargetOK(ct.t, dv) THEN Fail(ct.n) ELSE Ok(Node("post", Tok(ts, ct.n), <<ct.t>>), ct.n + 1)
  ELSE ct

\* items separated by commas up to the closing token `cl`; pi = position after the opener.  A trailing comma is
\* allowed (ES2017 argument lists, array literals) and an array literal may contain elisions ([a, , b]); neither is
\* ever printed, and an elision adds no element to the tree (only acceptance is judged on such texts).
PList(ts, pi, cl, acc, dv) ==
  IF Tok(ts, pi) = cl THEN OkArgs(acc, pi + 1)
  ELSE IF cl = "]" /\ Tok(ts, pi) = "," THEN PList(ts, pi + 1, cl, acc, dv)
  ELSE LET it == PAssign(ts, pi, dv) IN
       IF ~it.ok THEN FailArgs(it.n)
       ELSE IF Tok(ts, it.n) = "," THEN PList(ts, it.n + 1, cl, Append(acc, it.t), dv)
       ELSE IF Tok(ts, it.n) = cl THEN OkArgs(Append(acc, it.t), it.n + 1)
       ELSE FailArgs(it.n)

IsPropName(x) == IsWord(x) /\ ~IsNumTok(x)
PCallTail(ts, cur, dv) ==
  LET kw == Tok(ts, cur.n) IN
  IF kw = "(" THEN LET ag == PList(ts, cur.n + 1, ")", <<>>, dv) IN
                   IF ~ag.ok THEN Fail(ag.n) ELSE PCallTail(ts, Ok(Node("call", "", <<cur.t>> \o ag.args), ag.n), dv)
  ELSE IF kw = "." THEN IF IsPropName(Tok(ts, cur.n + 1))
                        THEN PCallTail(ts, Ok(Node("mem", Tok(ts, cur.n + 1), <<cur.t>>), cur.n + 2), dv)
                        ELSE Fail(cur.n + 1)
  ELSE IF kw = "[" THEN LET ix == PExpr(ts, cur.n + 1, dv) IN
                        IF ~ix.ok THEN ix
                        ELSE IF Tok(ts, ix.n) # "]" THEN Fail(ix.n)
                        ELSE PCallTail(ts, Ok(Node("idx", "", <<cur.t, ix.t>>), ix.n + 1), dv)
  ELSE IF kw \in UpdOps /\ "Dev_TargetUnchecked" \in dv                  \* as-is: ++/-- inside the postfix loop
       THEN PCallTail(ts, Ok(Node("post", kw, <<cur.t>>), cur.n + 1), dv)
  ELSE cur

PMemberTail(ts, cur, dv) ==
  LET kw == Tok(ts, cur.n) IN
  IF kw = "." THEN IF IsPropName(Tok(ts, cur.n + 1))
                   THEN PMemberTail(ts, Ok(Node("mem", Tok(ts, cur.n + 1), <<cur.t>>), cur.n + 2), dv)
                   ELSE Fail(cur.n + 1)
  ELSE IF kw = "[" THEN LET ix == PExpr(ts, cur.n + 1, dv) IN
                        IF ~ix.ok THEN ix
                        ELSE IF Tok(ts, ix.n) # "]" THEN Fail(ix.n)
                        ELSE PMemberTail(ts, Ok(Node("idx", "", <<cur.t, ix.t>>), ix.n + 1), dv)
  ELSE cur

\* MemberExpression: primary with .name / [expr] suffixes, or  new MemberExpression Arguments;
\* NewExpression: new without arguments (same tree as with an empty argument list)
PMember(ts, pi, dv) ==
  IF Tok(ts, pi) = "new"
  THEN LET asis == "Dev_NewMember" \in dv
           cal == IF asis /\ Tok(ts, pi + 1) # "new" THEN PPrimary(ts, pi + 1, dv) ELSE PMember(ts, pi + 1, dv) IN
       IF ~cal.ok THEN cal
       ELSE IF Tok(ts, cal.n) = "("
       THEN LET ag == PList(ts, cal.n + 1, ")", <<>>, dv) IN
            IF ~ag.ok THEN Fail(ag.n)
            ELSE IF asis THEN Ok(Node("new", "", <<cal.t>> \o ag.args), ag.n)
            ELSE PMemberTail(ts, Ok(Node("new", "", <<cal.t>> \o ag.args), ag.n), dv)
       ELSE Ok(Node("new", "", <<cal.t>>), cal.n)
  ELSE LET pr == PPrimary(ts, pi, dv) IN IF ~pr.ok THEN pr ELSE PMemberTail(ts, pr, dv)

PPrimary(ts, pi, dv) ==
  LET kw == Tok(ts, pi) IN
  IF IsIdent(kw) THEN Ok(Id(kw), pi + 1)
  ELSE IF IsNumTok(kw) THEN Ok(Num(kw), pi + 1)
  ELSE IF kw = "this" THEN Ok(This, pi + 1)
  ELSE IF kw = "(" THEN LET inr == PExpr(ts, pi + 1, dv) IN
                        IF ~inr.ok THEN inr
                        ELSE IF Tok(ts, inr.n) # ")" THEN Fail(inr.n)
                        ELSE [ok |-> TRUE, t |-> inr.t, n |-> inr.n + 1, par |-> TRUE]
  ELSE IF kw = "[" THEN LET el == PList(ts, pi + 1, "]", <<>>, dv) IN
                        IF ~el.ok THEN Fail(el.n) ELSE Ok(Node("arr", "", el.args), el.n)
  ELSE Fail(pi)

\* A program made of expression statements, empty statements and labels, with the engine's documented tolerance of
\* missing separators (a statement may follow an expression statement directly).  [ok, at]: at = index of the first
\* token that cannot continue any program of this (superset) grammar, Len + 1 for the end of input.
RECURSIVE PStmts(_, _, _)
PStmts(ts, pi, dv) ==
  IF pi > Len(ts) THEN [ok |-> TRUE, at |-> 0]
  ELSE IF ts[pi] = ";" THEN PStmts(ts, pi + 1, dv)
  ELSE IF IsIdent(ts[pi]) /\ Tok(ts, pi + 1) = ":"
       THEN IF pi + 2 > Len(ts) THEN [ok |-> FALSE, at |-> pi + 2] ELSE PStmts(ts, pi + 2, dv)
  ELSE LET res == PExpr(ts, pi, dv) IN
       IF ~res.ok THEN [ok |-> FALSE, at |-> res.n]
       ELSE PStmts(ts, IF Tok(ts, res.n) = ";" THEN res.n + 1 ELSE res.n, dv)
ParseStmtsD(ts, dv) == PStmts(ts, 1, dv)

ParseExprD(ts, dv) ==
  LET res == PExpr(ts, 1, dv) IN
  IF res.ok /\ res.n = Len(ts) + 1 THEN [ok |-> TRUE, t |-> res.t, at |-> 0]
  ELSE [ok |-> FALSE, t |-> ErrTree, at |-> res.n]
ParseExpr(ts) == ParseExprD(ts, {})

\* ---------------------------------------------------------------------------------------
\* Laws of the printer / parser pair (checked by TLC on every enumerated tree, see C13)
\* ---------------------------------------------------------------------------------------
RoundTrip(tr) == LET res == ParseExpr(PrintExpr(tr)) IN res.ok /\ res.t = tr
\* removing any grouping pair the printer emitted changes the tree (or makes the text invalid)
MinimalParens(tr) ==
  LET marked == PrintG(tr) IN
  \A pr \in GroupPairs(marked) :
     LET res == ParseExpr(Unmark(RemovePair(marked, pr))) IN ~res.ok \/ res.t # tr
\* the optional markers are exactly the redundant positions: dropping them gives the minimal print, turning
\* all of them into parentheses still denotes the same tree
OptionalParensLaw(tr) ==
  LET mk == PrintMarked(tr)  res == ParseExpr(AllParens(mk)) IN
  /\ Unmark(DropOptional(mk)) = PrintExpr(tr)
  /\ res.ok /\ res.t = tr
\* trees the printer is defined on: update / assignment operands are references
RECURSIVE WellFormed(_)
WellFormed(tr) ==
  /\ (tr.t \in {"pre", "post", "asg"} => IsTarget(tr.kids[1]))
  /\ (tr.t = "un" /\ tr.op = "delete" => tr.kids[1].t # "id")      \* strict mode: delete of a plain name is an early error
  /\ \A ki \in 1..Len(tr.kids) : WellFormed(tr.kids[ki])

\* ---------------------------------------------------------------------------------------
\* Layout: a layout sequence mixes tokens with trivia items (named, the renderer maps names
\* to text).  Restricted productions: no line terminator before postfix ++/--, before =>,
\* after break / continue / return / throw.
\* ---------------------------------------------------------------------------------------
Trivia     == {"<sp>", "<sp2>", "<tab>", "<nl>", "<crlf>", "<bc>", "<bc2>", "<bcnl>", "<lc>", "<lc2>", "<vt>", "<ff>"}
TriviaNL   == {"<nl>", "<crlf>", "<bcnl>", "<lc>", "<lc2>"}       \* contain a line terminator
Significant(ls) == SelectSeq(ls, LAMBDA x : x \notin Trivia)
\* index of the previous / next significant item, 0 if none
RECURSIVE PrevSig(_, _)
PrevSig(ls, li) == IF li < 1 THEN 0 ELSE IF ls[li] \notin Trivia THEN li ELSE PrevSig(ls, li - 1)
RECURSIVE NextSig(_, _)
NextSig(ls, li) == IF li > Len(ls) THEN 0 ELSE IF ls[li] \notin Trivia THEN li ELSE NextSig(ls, li + 1)
NoLineBreakBefore == UpdOps \cup {"=>"}
NoLineBreakAfter  == {"break", "continue", "return", "throw"}
RestrictedOK(ls) ==
  \A li \in 1..Len(ls) : ls[li] \in TriviaNL =>
     LET pv == PrevSig(ls, li)  nx == NextSig(ls, li) IN
     /\ (nx # 0 => ls[nx] \notin NoLineBreakBefore)
     /\ (pv # 0 => ls[pv] \notin NoLineBreakAfter)
\* two tokens written without trivia between them must not fuse into other tokens
CanAbut(xt, yt) ==
  /\ ~(IsWord(xt) /\ IsWord(yt))
  /\ ~(xt \in OpPunct /\ yt \in OpPunct)
  /\ ~(IsNumTok(xt) /\ yt = ".") /\ ~(xt = "." /\ IsNumTok(yt))
  /\ ~(xt = "/" \/ yt = "/")                                       \* never next to anything: comment / regex openers
AbutOK(ls) == \A li \in 1..(Len(ls) - 1) : (ls[li] \notin Trivia /\ ls[li + 1] \notin Trivia) => CanAbut(ls[li], ls[li + 1])
\* a line comment must be followed by something that is not swallowed: the names in Trivia
\* carry their own terminator, so nothing to check here.
\* a "/" token directly followed by a comment would itself start a comment
SpaceLike == {"<sp>", "<sp2>", "<tab>", "<nl>", "<crlf>", "<vt>", "<ff>"}
SlashOK(ls) == \A li \in 1..(Len(ls) - 1) : ls[li] = "/" => ls[li + 1] \in SpaceLike
LayoutSupported(ls) == RestrictedOK(ls) /\ AbutOK(ls) /\ SlashOK(ls)

\* ---------------------------------------------------------------------------------------
\* Bracket balance of a token sequence (a necessary condition of every Script)
\* ---------------------------------------------------------------------------------------
Opener == [x \in {")", "]", "}"} |-> CASE x = ")" -> "(" [] x = "]" -> "[" [] x = "}" -> "{"]
RECURSIVE BalancedFrom(_, _, _)
BalancedFrom(ts, pi, stack) ==
  IF pi > Len(ts) THEN stack = <<>>
  ELSE IF ts[pi] \in {"(", "[", "{"} THEN BalancedFrom(ts, pi + 1, <<ts[pi]>> \o stack)
  ELSE IF ts[pi] \in {")", "]", "}"}
       THEN stack # <<>> /\ Head(stack) = Opener[ts[pi]] /\ BalancedFrom(ts, pi + 1, Tail(stack))
  ELSE BalancedFrom(ts, pi + 1, stack)
Balanced(ts) == BalancedFrom(ts, 1, <<>>)

\* ---------------------------------------------------------------------------------------
\* Numeric literals: text (code units) -> exact value  m * 10^e10  (decimal) or an integer
\* (radix forms).  NumericLiteral of ECMA-262 without separators and legacy octal.
\* ---------------------------------------------------------------------------------------
IsDigit(cu)    == cu >= 48 /\ cu <= 57
HexVal(cu)     == IF cu >= 48 /\ cu <= 57 THEN cu - 48
                  ELSE IF cu >= 97 /\ cu <= 102 THEN cu - 87
                  ELSE IF cu >= 65 /\ cu <= 70 THEN cu - 55 ELSE 99
RECURSIVE RadixVal(_, _, _)
RadixVal(us, radix, acc) ==                      \* all digits valid and the value small, else -1
  IF us = <<>> THEN acc
  ELSE LET dv == HexVal(Head(us)) IN
       IF dv >= radix \/ acc > 60000000 THEN -1 ELSE RadixVal(Tail(us), radix, acc * radix + dv)
RECURSIVE TakeDigits(_, _)
TakeDigits(us, pi) == IF pi <= Len(us) /\ IsDigit(us[pi]) THEN TakeDigits(us, pi + 1) ELSE pi   \* first non-digit index
\* [ok, m, e10]  value = m * 10^e10 ; digits limited so that m < 2^30
NumLit(us) ==
  LET bad == [ok |-> FALSE, m |-> 0, e10 |-> 0] IN
  IF Len(us) >= 3 /\ us[1] = 48 /\ us[2] \in {120, 88, 111, 79, 98, 66}
  THEN LET radix == IF us[2] \in {120, 88} THEN 16 ELSE IF us[2] \in {111, 79} THEN 8 ELSE 2
           vv == RadixVal(SubSeq(us, 3, Len(us)), radix, 0)
       IN IF vv < 0 THEN bad ELSE [ok |-> TRUE, m |-> vv, e10 |-> 0]
  ELSE
    LET i1 == TakeDigits(us, 1)                                        \* integer part us[1..i1-1]
        hasdot == i1 <= Len(us) /\ us[i1] = 46
        f0 == IF hasdot THEN i1 + 1 ELSE i1
        f1 == IF hasdot THEN TakeDigits(us, f0) ELSE i1                \* fraction us[f0..f1-1]
        hasexp == f1 <= Len(us) /\ us[f1] \in {101, 69}
        sgnpos == f1 + 1
        hassign == hasexp /\ sgnpos <= Len(us) /\ us[sgnpos] \in {43, 45}
        e0 == IF hassign THEN sgnpos + 1 ELSE sgnpos
        e1 == IF hasexp THEN TakeDigits(us, e0) ELSE f1
        intd == SubSeq(us, 1, i1 - 1)
        frd  == IF hasdot THEN SubSeq(us, f0, f1 - 1) ELSE <<>>
        alld == intd \o frd
        ev == IF hasexp THEN RadixVal(SubSeq(us, e0, e1 - 1), 10, 0) ELSE 0
        en == IF hassign /\ us[sgnpos] = 45 THEN 0 - ev ELSE ev
        mv == RadixVal(alld, 10, 0)
    IN IF alld = <<>> \/ (intd = <<>> /\ frd = <<>>) \/ (hasexp /\ e1 = e0) \/ e1 # Len(us) + 1
          \/ mv < 0 \/ ev < 0 \/ ev > 40
          \/ (Len(intd) > 1 /\ intd[1] = 48)                            \* legacy octal / leading zero: not in the fragment
       THEN bad
       ELSE [ok |-> TRUE, m |-> mv, e10 |-> en - Len(frd)]
Pow10s(k) == 10 ^ k                                                      \* k <= 9
Pow2s(k)  == 2 ^ k
\* does the literal denote the dyadic rational  kk / 2^jj  (kk < 2^20, jj <= 6) ?
Denotes(lit, kk, jj) ==
  /\ lit.ok
  /\ IF lit.e10 >= 0 THEN lit.e10 <= 4 /\ lit.m <= 100000 /\ lit.m * Pow10s(lit.e10) * Pow2s(jj) = kk
     ELSE (0 - lit.e10) <= 8 /\ lit.m < 100000000 \div Pow2s(jj) /\ kk < 100000000 \div Pow10s(0 - lit.e10)
          /\ lit.m * Pow2s(jj) = kk * Pow10s(0 - lit.e10)

\* ---------------------------------------------------------------------------------------
\* String literals: text (code units, including the quotes) -> value (code units)
\* ---------------------------------------------------------------------------------------
Surrogates(cp) == IF cp < 65536 THEN <<cp>> ELSE <<55296 + ((cp - 65536) \div 1024), 56320 + ((cp - 65536) % 1024)>>
SingleEsc(cu) == CASE cu = 110 -> 10 [] cu = 116 -> 9 [] cu = 114 -> 13 [] cu = 98 -> 8 [] cu = 102 -> 12
                   [] cu = 118 -> 11 [] cu = 48 -> 0 [] OTHER -> cu
RECURSIVE FindUnit(_, _, _)
FindUnit(us, pi, cu) == IF pi > Len(us) THEN 0 ELSE IF us[pi] = cu THEN pi ELSE FindUnit(us, pi + 1, cu)
RECURSIVE StrBody(_, _, _, _)
\* [ok, u]; pi scans us up to the closing quote at index `last`
StrBody(us, pi, last, acc) ==
  LET bad == [ok |-> FALSE, u |-> <<>>] IN
  IF pi = last THEN [ok |-> TRUE, u |-> acc]
  ELSE IF pi > last THEN bad
  ELSE IF us[pi] \in {10, 13} THEN bad
  ELSE IF us[pi] = us[1] THEN bad                                           \* unescaped quote inside
  ELSE IF us[pi] # 92 THEN StrBody(us, pi + 1, last, Append(acc, us[pi]))
  ELSE IF pi + 1 >= last THEN bad
  ELSE LET ec == us[pi + 1] IN
       IF ec = 120                                                           \* \xHH
       THEN IF pi + 3 >= last \/ HexVal(us[pi + 2]) > 15 \/ HexVal(us[pi + 3]) > 15 THEN bad
            ELSE StrBody(us, pi + 4, last, Append(acc, HexVal(us[pi + 2]) * 16 + HexVal(us[pi + 3])))
       ELSE IF ec = 117 /\ pi + 2 < last /\ us[pi + 2] = 123                 \* \u{H..H}
       THEN LET close == FindUnit(us, pi + 3, 125)
                hx == SubSeq(us, pi + 3, close - 1)
                cp == RadixVal(hx, 16, 0) IN
            IF close = 0 \/ close >= last THEN bad
            ELSE IF hx = <<>> \/ Len(hx) > 6 \/ cp < 0 \/ cp > 1114111 THEN bad
            ELSE StrBody(us, close + 1, last, acc \o Surrogates(cp))
       ELSE IF ec = 117                                                      \* \uHHHH
       THEN IF pi + 5 >= last \/ \E hj \in 2..5 : HexVal(us[pi + hj]) > 15 THEN bad
            ELSE StrBody(us, pi + 6, last, Append(acc, RadixVal(SubSeq(us, pi + 2, pi + 5), 16, 0)))
       ELSE IF ec \in {10, 13} THEN bad                                      \* line continuation: not in the fragment
       ELSE IF ec = 48 /\ pi + 2 < last /\ IsDigit(us[pi + 2]) THEN bad      \* legacy octal escape
       ELSE IF ec >= 49 /\ ec <= 57 THEN bad
       ELSE StrBody(us, pi + 2, last, Append(acc, SingleEsc(ec)))
StrLit(us) ==
  IF Len(us) < 2 \/ us[1] \notin {34, 39} \/ us[Len(us)] # us[1] THEN [ok |-> FALSE, u |-> <<>>]
  ELSE StrBody(us, 2, Len(us), <<>>)
=============================================================================
