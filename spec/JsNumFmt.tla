------------------------------- MODULE JsNumFmt -------------------------------
(* Number formatting and parsing built-ins of ECMA-262 over exact arithmetic:     *)
(*   Number.prototype.toFixed / toExponential / toPrecision / toString(radix)      *)
(*   parseInt, parseFloat, Number(), JSON.stringify of a number, Math functions at *)
(*   their special points.  Functional (expected text) and relational (the         *)
(*   engine's text as certificate: IsNearestDecimal + layout) formulations.        *)
(* A result is [o |-> "value", v |-> JsVal] or [o |-> "throw", cls |-> name], or   *)
(* [o |-> "approx", ...] where ECMA-262 leaves the value implementation-           *)
(* approximated.  Variable-free library module.                                    *)
EXTENDS JsOps

FVal(v) == [o |-> "value", v |-> v]
FThrow(c) == [o |-> "throw", cls |-> c]
FText(u) == FVal(VStr(u))
FArg(a, i) == IF i <= Len(a) THEN a[i] ELSE Undef

\* ToIntegerOrInfinity of an argument, as [inf |-> -1 | 0 | 1, i |-> small int]  (|i| clamped to 2^29)
FToInt(v) ==
  LET d == ToNumberD(v) IN
  CASE d.c = "nan" \/ d.c = "zero" -> [inf |-> 0, i |-> 0]
    [] d.c = "inf" -> [inf |-> IF d.s = 1 THEN -1 ELSE 1, i |-> 0]
    [] OTHER -> IF d.e + BnBitLen(d.m) > 29 THEN [inf |-> 0, i |-> IF d.s = 1 THEN -536870912 ELSE 536870912]
                ELSE LET t == BnToInt(DTruncMag(d)) IN [inf |-> 0, i |-> IF d.s = 1 THEN 0 - t ELSE t]

\* n nearest to |d| / 10^q, the larger on ties (d finite, non-zero)
FRoundScaled(d, q) == LET v == DTimesPow10(d, 0 - q)
                      IN BnDivMod(BnAdd(BnMulS(v.n, 2), v.d), BnMulS(v.d, 2)).q
FDigitsPad(n, width) == LET ds == IF n = <<>> THEN <<>> ELSE CvDigitUnits(n)
                        IN IF Len(ds) >= width THEN ds ELSE CvZeros(width - Len(ds)) \o ds
FSign(d) == IF d.s = 1 /\ d.c # "zero" THEN <<45>> ELSE <<>>
FExpText(e) == <<101, IF e < 0 THEN 45 ELSE 43>> \o DigitsOf(IF e < 0 THEN 0 - e ELSE e)
DGe1e21(d) == d.c = "fin" /\ DCmpPow10(d, 21) >= 0

\* ---- Number.prototype.toFixed (21.1.3.3) ---------------------------------------------------------
FixedText(d, f) ==                             \* finite, |d| < 1e21
  LET n == IF d.c = "zero" THEN <<>> ELSE FRoundScaled(d, 0 - f)
      ds == FDigitsPad(n, f + 1)
      k == Len(ds)
  IN FSign(d) \o (IF f = 0 THEN ds ELSE SubSeq(ds, 1, k - f) \o <<46>> \o SubSeq(ds, k - f + 1, k))
ToFixed(x, a) ==
  LET f == FToInt(FArg(a, 1)) IN
  IF f.inf # 0 \/ f.i < 0 \/ f.i > 100 THEN FThrow("RangeError")
  ELSE IF x.c # "fin" /\ x.c # "zero" THEN FText(NumToText(x))
  ELSE IF DGe1e21(x) THEN FText(NumToText(x))
  ELSE FText(FixedText(x, f.i))
\* relational: text is  [-] digits [. f digits]  whose digits n satisfy IsNearestDecimal(|x|, n, -f)
FAllDigits(u) == u # <<>> /\ \A fm_k \in 1..Len(u) : CvIsDigit(u[fm_k])
FixedTextOK(d, f, text) ==
  LET neg == d.s = 1 /\ d.c # "zero"
      body == IF neg /\ text # <<>> /\ text[1] = 45 THEN Tail(text) ELSE text
      dots == {fm_k \in 1..Len(body) : body[fm_k] = 46}
      di == IF dots = {} THEN Len(body) + 1 ELSE CHOOSE fm_k \in dots : TRUE
      ip == SubSeq(body, 1, di - 1)
      fp == SubSeq(body, di + 1, Len(body))
  IN /\ (neg => text # <<>> /\ text[1] = 45)
     /\ Cardinality(dots) = (IF f = 0 THEN 0 ELSE 1)
     /\ FAllDigits(ip) /\ Len(fp) = f /\ (f = 0 \/ FAllDigits(fp))
     /\ (Len(ip) = 1 \/ ip[1] # 48)
     /\ IsNearestDecimal(d, BnFromDigits(CvDigitVals(ip \o fp), 10), 0 - f)

\* ---- toExponential (21.1.3.2) and toPrecision (21.1.3.5) -------------------------------------------
\* p significant digits of finite non-zero d: [n, e] with 10^(p-1) <= n < 10^p, n * 10^(e-p+1) nearest, larger on ties
FSigDigits(d, p) ==
  LET e0 == DDecExp(d) - 1
      n0 == FRoundScaled(d, e0 - p + 1)
  IN IF n0 = BnPow10(p) THEN [n |-> BnPow10(p - 1), e |-> e0 + 1] ELSE [n |-> n0, e |-> e0]
SigDigitsOK(d, p, n, e) ==
  LET e0 == DDecExp(d) - 1 IN
  \/ (e = e0 /\ BnCmp(n, BnPow10(p - 1)) >= 0 /\ BnCmp(n, BnPow10(p)) < 0 /\ IsNearestDecimal(d, n, e0 - p + 1))
  \/ (e = e0 + 1 /\ n = BnPow10(p - 1) /\ IsNearestDecimal(d, BnPow10(p), e0 - p + 1))
ExpLayout(ds, e) == (IF Len(ds) = 1 THEN ds ELSE <<ds[1], 46>> \o SubSeq(ds, 2, Len(ds))) \o FExpText(e)
ToExponential(x, a) ==
  LET fa == FArg(a, 1)
      f == FToInt(fa)
  IN IF x.c \in {"nan", "inf"} THEN FText(NumToText(x))
     ELSE IF fa.k # "undef" /\ (f.inf # 0 \/ f.i < 0 \/ f.i > 100) THEN FThrow("RangeError")
     ELSE IF x.c = "zero" THEN FText(ExpLayout(CvZeros((IF fa.k = "undef" THEN 0 ELSE f.i) + 1), 0))
     ELSE IF fa.k = "undef" THEN LET sh == DShortest(DAbs(x)) IN FText(FSign(x) \o ExpLayout(CvDigitUnits(sh.s), sh.n - 1))
     ELSE LET sd == FSigDigits(x, f.i + 1) IN FText(FSign(x) \o ExpLayout(CvDigitUnits(sd.n), sd.e))
PrecLayout(ds, p, e) ==
  IF e < -6 \/ e >= p THEN ExpLayout(ds, e)
  ELSE IF e = p - 1 THEN ds
  ELSE IF e >= 0 THEN SubSeq(ds, 1, e + 1) \o <<46>> \o SubSeq(ds, e + 2, p)
  ELSE <<48, 46>> \o CvZeros(0 - (e + 1)) \o ds
ToPrecision(x, a) ==
  LET pa == FArg(a, 1)
      p == FToInt(pa)
  IN IF pa.k = "undef" THEN FText(NumToText(x))
     ELSE IF x.c \in {"nan", "inf"} THEN FText(NumToText(x))
     ELSE IF p.inf # 0 \/ p.i < 1 \/ p.i > 100 THEN FThrow("RangeError")
     ELSE IF x.c = "zero" THEN FText(PrecLayout(CvZeros(p.i), p.i, 0))
     ELSE LET sd == FSigDigits(x, p.i) IN FText(FSign(x) \o PrecLayout(CvDigitUnits(sd.n), p.i, sd.e))
\* relational reading of  d[.ddd]e[+-]x  /  plain  texts: [ok, n, k (digits), e]
FParseSig(body) ==
  LET epos == {fm_k \in 1..Len(body) : body[fm_k] = 101}
      ei == IF epos = {} THEN Len(body) + 1 ELSE CHOOSE fm_k \in epos : TRUE
      mant == SubSeq(body, 1, ei - 1)
      ds == SelectSeq(mant, LAMBDA c : c # 46)
      dotp == {fm_k \in 1..Len(mant) : mant[fm_k] = 46}
      di == IF dotp = {} THEN Len(mant) + 1 ELSE CHOOSE fm_k \in dotp : TRUE
      lead == IF {fm_k \in 1..Len(ds) : ds[fm_k] # 48} = {} THEN Len(ds)
              ELSE (CHOOSE fm_k \in 1..Len(ds) : ds[fm_k] # 48 /\ \A fm_j \in 1..(fm_k - 1) : ds[fm_j] = 48) - 1
      esg == ei + 1 <= Len(body) /\ body[ei + 1] \in {43, 45}
      ed == SubSeq(body, IF esg THEN ei + 2 ELSE ei + 1, Len(body))
      okx == epos = {} \/ (Cardinality(epos) = 1 /\ esg /\ FAllDigits(ed) /\ Len(ed) <= 4)
      x10 == IF epos = {} \/ ~okx THEN 0 ELSE IF body[ei + 1] = 45 THEN 0 - DigitsVal(ed) ELSE DigitsVal(ed)
      sig == SubSeq(ds, lead + 1, Len(ds))            \* significant digits incl. trailing zeros
  IN IF ~(FAllDigits(ds) /\ Cardinality(dotp) <= 1 /\ okx) THEN [ok |-> FALSE, n |-> <<>>, k |-> 0, e |-> 0]
     ELSE [ok |-> TRUE, n |-> IF sig = <<>> THEN <<>> ELSE BnFromDigits(CvDigitVals(sig), 10), k |-> Len(sig),
           e |-> x10 + (di - 1) - lead - 1]            \* exponent of the first significant digit
PrecTextOK(d, p, text) ==                           \* finite non-zero d, 1 <= p <= 100
  LET neg == d.s = 1
      body == IF neg /\ text # <<>> /\ text[1] = 45 THEN Tail(text) ELSE text
      ps == FParseSig(body)
  IN (neg => text # <<>> /\ text[1] = 45) /\ ps.ok /\ ps.k = p /\ SigDigitsOK(DAbs(d), p, ps.n, ps.e)
     /\ PrecLayout(CvDigitUnits(ps.n), p, ps.e) = body
ExpTextOK(d, f, text) ==                            \* finite non-zero d, 0 <= f <= 100
  LET neg == d.s = 1
      body == IF neg /\ text # <<>> /\ text[1] = 45 THEN Tail(text) ELSE text
      ps == FParseSig(body)
  IN (neg => text # <<>> /\ text[1] = 45) /\ ps.ok /\ ps.k = f + 1 /\ SigDigitsOK(DAbs(d), f + 1, ps.n, ps.e)
     /\ ExpLayout(CvDigitUnits(ps.n), ps.e) = body

\* ---- Number.prototype.toString(radix) (21.1.3.6) ---------------------------------------------------
FRadixChar(v) == IF v < 10 THEN 48 + v ELSE 87 + v
\* digits of a natural number in a radix, most significant first (<<48>> for zero)
FRadixDigits(n, radix) ==
  LET steps == BnBitLen(n) + 1
      r == BnFold(LAMBDA acc, it : IF acc.n = <<>> THEN acc
                                   ELSE LET dm == BnDivModS(acc.n, radix) IN [n |-> dm.q, o |-> <<FRadixChar(dm.r)>> \o acc.o],
                  [n |-> n, o |-> <<>>], BnIdx(steps))
  IN IF n = <<>> THEN <<48>> ELSE r.o
FLog2Radix(radix) == CASE radix = 2 -> 1 [] radix = 4 -> 2 [] radix = 8 -> 3 [] radix = 16 -> 4 [] radix = 32 -> 5 [] OTHER -> 0
\* exact expansion of the fraction  fr / 2^fb  (0 < fr < 2^fb) in radix 2^b
FFracDigits(fr, fb, b) ==
  LET pad == (b - (fb % b)) % b
      cnt == (fb + pad) \div b
      ds == FRadixDigits(BnShl(fr, pad), BnP2Small[b])
      full == CvZeros(cnt - Len(ds)) \o ds
      nz == {fm_k \in 1..Len(full) : full[fm_k] # 48}
  IN SubSeq(full, 1, CHOOSE fm_k \in nz : \A fm_j \in nz : fm_k >= fm_j)
\* [exact |-> BOOLEAN, u |-> the text, or (when ECMA-262 leaves the digits implementation-approximated) its
\*  specified prefix: sign, integer part and "." for a fraction, only the sign for an integer beyond 2^53]
RadixText(x, radix) ==
  LET ip == DTruncMag(x)
      isint == DIsInteger(x)
      b == FLog2Radix(radix)
      head == FSign(x) \o FRadixDigits(ip, radix)
  IN IF isint THEN (IF x.e + BnBitLen(x.m) <= 53 \/ b # 0 THEN [exact |-> TRUE, u |-> head] ELSE [exact |-> FALSE, u |-> FSign(x)])
     ELSE IF b # 0 THEN [exact |-> TRUE, u |-> head \o <<46>> \o FFracDigits(BnLowBits(x.m, 0 - x.e), 0 - x.e, b)]
     ELSE [exact |-> FALSE, u |-> head \o <<46>>]
ToStringRadix(x, a) ==
  LET ra == FArg(a, 1)
      r == FToInt(ra)
      radix == IF ra.k = "undef" THEN 10 ELSE r.i
  IN IF ra.k # "undef" /\ (r.inf # 0 \/ r.i < 2 \/ r.i > 36) THEN FThrow("RangeError")
     ELSE IF radix = 10 \/ x.c # "fin" THEN FText(NumToText(x))
     ELSE LET rt == RadixText(x, radix)
          IN IF rt.exact THEN FText(rt.u) ELSE [o |-> "prefix", u |-> rt.u, radix |-> radix]
FIsRadixDigit(c, radix) == (c >= 48 /\ c <= 57 /\ c - 48 < radix) \/ (c >= 97 /\ c <= 122 /\ c - 87 < radix)
\* an implementation-approximated radix text: the specified prefix, then at least one digit of the radix
RadixPrefixOK(text, u, radix) ==
  /\ Len(text) > Len(u) /\ SubSeq(text, 1, Len(u)) = u
  /\ \A fm_k \in (Len(u) + 1)..Len(text) : FIsRadixDigit(text[fm_k], radix)

\* ---- parseInt (19.2.5), parseFloat (19.2.4) ---------------------------------------------------------
FAlnumVal(c) == IF c >= 48 /\ c <= 57 THEN c - 48
                ELSE IF c >= 97 /\ c <= 122 THEN c - 87
                ELSE IF c >= 65 /\ c <= 90 THEN c - 55 ELSE 99
ParseInt(a) ==
  LET s0 == TrimStart(ToStringU(FArg(a, 1)))
      neg == s0 # <<>> /\ s0[1] = 45
      s1 == IF s0 # <<>> /\ s0[1] \in {43, 45} THEN Tail(s0) ELSE s0
      r32d == DOfBitsS(DToBits32(ToNumberD(FArg(a, 2))))                  \* ToInt32(radix)
      r32 == IF r32d.c = "fin" /\ r32d.e + BnBitLen(r32d.m) > 20 THEN 99 ELSE DToSmallInt(r32d)     \* anything beyond 36 behaves alike
      hasPrefix == Len(s1) >= 2 /\ s1[1] = 48 /\ s1[2] \in {120, 88}
      strip == (r32 = 0 \/ r32 = 16) /\ hasPrefix
      radix == IF r32 = 0 THEN (IF hasPrefix THEN 16 ELSE 10) ELSE r32
      s2 == IF strip THEN SubSeq(s1, 3, Len(s1)) ELSE s1
      bad == {fm_k \in 1..Len(s2) : FAlnumVal(s2[fm_k]) >= radix}
      zend == IF bad = {} THEN Len(s2) ELSE (CHOOSE fm_k \in bad : \A fm_j \in bad : fm_k <= fm_j) - 1
      z == SubSeq(s2, 1, zend)
  IN IF r32 # 0 /\ (r32 < 2 \/ r32 > 36) THEN FVal(NumV(DNaN))
     ELSE IF z = <<>> THEN FVal(NumV(DNaN))
     ELSE FVal(NumV(DOfNat(IF neg THEN 1 ELSE 0, BnFromDigits([fm_k \in 1..Len(z) |-> FAlnumVal(z[fm_k])], radix))))
\* significant digits of the integer parseInt reads (ECMA-262 allows approximation beyond 20, and for radices
\* other than 2, 4, 8, 10, 16, 32 when the value is not exactly representable)
ParseFloat(a) ==
  LET s0 == TrimStart(ToStringU(FArg(a, 1)))
      hasSign == s0 # <<>> /\ s0[1] \in {43, 45}
      sg == IF s0 # <<>> /\ s0[1] = 45 THEN 1 ELSE 0
      r == IF hasSign THEN Tail(s0) ELSE s0
      \* longest prefix of r that is a StrUnsignedDecimalLiteral
      isInf == Len(r) >= 8 /\ SubSeq(r, 1, 8) = CvInfinityText
      i1 == CvDigitRunEnd(r, 1)
      hasDot == i1 + 1 <= Len(r) /\ r[i1 + 1] = 46
      i2 == IF hasDot THEN CvDigitRunEnd(r, i1 + 2) ELSE i1
      nfrac == IF hasDot THEN i2 - (i1 + 1) ELSE 0
      mend == IF hasDot /\ (i1 >= 1 \/ nfrac >= 1) THEN i2 ELSE i1           \* "5." keeps the dot, "." alone is nothing
      okm == i1 + nfrac >= 1
      nx == mend + 1
      hasE == nx <= Len(r) /\ r[nx] \in {101, 69}
      esg == hasE /\ nx + 1 <= Len(r) /\ r[nx + 1] \in {43, 45}
      e0 == IF esg THEN nx + 2 ELSE nx + 1
      e1 == IF hasE THEN CvDigitRunEnd(r, e0) ELSE 0
      okE == hasE /\ e1 >= e0
      lit == SubSeq(r, 1, IF okE THEN e1 ELSE mend)
  IN IF isInf THEN FVal(NumV(DInf(sg)))
     ELSE IF ~okm THEN FVal(NumV(DNaN))
     ELSE FVal(NumV(CvToD(CvDecLit(sg, lit))))

\* ---- Number(), String(), JSON.stringify on primitives -----------------------------------------------
NumberFn(a) == IF a = <<>> THEN FVal(VInt(0)) ELSE FVal(ToNumberV(a[1]))
StringFn(a) == IF a = <<>> THEN FText(<<>>) ELSE FText(ToStringU(a[1]))
JsonNumber(x) == IF x.c \in {"nan", "inf"} THEN FText(TxtNull) ELSE FText(NumToText(x))

\* ---- Math (21.3.2) ------------------------------------------------------------------------------------
\* FApprox(sg): implementation-approximated, not NaN; sg = 0 / 1 the sign, 2 unknown
FApprox(sg) == [o |-> "approx", s |-> sg]
MNum(d) == FVal(NumV(d))
DIsNegative(d) == d.s = 1 /\ d.c # "nan"
DFloor(d) == IF d.c # "fin" THEN d
             ELSE IF DIsInteger(d) THEN d
             ELSE LET t == DTruncMag(d)
                  IN IF d.s = 0 THEN (IF t = <<>> THEN DZero(0) ELSE DOfNat(0, t)) ELSE DOfNat(1, BnAdd(t, BnOne))
DCeil(d) == DNeg(DFloor(DNeg(d)))
\* Math.round: floor(x + 0.5) computed exactly; -0 for -0.5 <= x < 0
DRoundHalfUp(d) ==
  IF d.c # "fin" \/ DIsInteger(d) THEN d
  ELSE LET t == DTruncMag(d)
           fr == BnLowBits(d.m, 0 - d.e)                       \* fraction bits (d.e < 0 here)
           ch == BnCmp(fr, BnPow2(0 - d.e - 1))                 \* frac ? 1/2
       IN IF d.s = 0 THEN (IF ch >= 0 THEN DOfNat(0, BnAdd(t, BnOne)) ELSE IF t = <<>> THEN DZero(0) ELSE DOfNat(0, t))
          ELSE (IF ch > 0 THEN DOfNat(1, BnAdd(t, BnOne)) ELSE IF t = <<>> THEN DZero(1) ELSE DOfNat(1, t))
DSignFn(d) == CASE d.c = "nan" -> d [] d.c = "zero" -> d [] OTHER -> DFin(d.s, DP52, -52)
\* round to binary32 and back (Math.fround)
DRoundF32(d) ==
  IF d.c # "fin" THEN d
  ELSE LET bl == BnBitLen(d.m)
           et == BnMax(d.e + bl - 24, -149)
           sh == et - d.e
       IN IF sh <= 0 THEN (IF d.e + bl > 128 THEN DInf(d.s) ELSE d)
          ELSE LET q == BnShr(d.m, sh)
                   ch == BnCmp(BnLowBits(d.m, sh), BnPow2(sh - 1))
                   up == ch > 0 \/ (ch = 0 /\ BnIsOdd(q))
                   q1 == IF up THEN BnAdd(q, BnOne) ELSE q
               IN IF q1 = <<>> THEN DZero(d.s)
                  ELSE IF et + BnBitLen(q1) > 128 THEN DInf(d.s)
                  ELSE DRoundDy(d.s, q1, et, FALSE)
DClz32(d) == LET bits == DToBits32(d)
                 ones == {fm_k \in 1..32 : bits[fm_k] = 1}
             IN IF ones = {} THEN 32 ELSE 32 - (CHOOSE fm_k \in ones : \A fm_j \in ones : fm_k >= fm_j)
\* low 32 bits of the product of two uint32 given as bit sequences
DImul(p, q) == LET pr == BnLowBits(BnMul(DBitsNat(p), DBitsNat(q)), 32)
               IN DOfBitsS([fm_k \in 1..32 |-> BnBit(pr, fm_k - 1)])
\* min / max over a sequence of doubles: NaN if any is NaN, -0 < +0
DLess(x, y) == DCmp(x, y) < 0 \/ (x.c = "zero" /\ y.c = "zero" /\ x.s = 1 /\ y.s = 0)
DMinSeq(ds) == IF \E fm_k \in 1..Len(ds) : ds[fm_k].c = "nan" THEN DNaN
               ELSE BnFold(LAMBDA acc, d : IF DLess(d, acc) THEN d ELSE acc, DInf(0), ds)
DMaxSeq(ds) == IF \E fm_k \in 1..Len(ds) : ds[fm_k].c = "nan" THEN DNaN
               ELSE BnFold(LAMBDA acc, d : IF DLess(acc, d) THEN d ELSE acc, DInf(1), ds)
DIsOne(d) == d = DOne
DAbsCmpOne(d) == IF d.c = "inf" THEN 1 ELSE IF d.c = "zero" THEN -1 ELSE DMagCmpOne(d)       \* |d| ? 1, d not NaN
MathUnary == {"abs", "floor", "ceil", "round", "trunc", "sign", "fround", "clz32", "sqrt", "cbrt", "exp", "expm1", "log", "log1p",
              "log2", "log10", "sin", "cos", "tan", "asin", "acos", "atan", "sinh", "cosh", "tanh", "asinh", "acosh", "atanh"}
MathBinary == {"pow", "atan2", "imul"}
MathVariadic == {"min", "max", "hypot"}
MathNames == MathUnary \cup MathBinary \cup MathVariadic
Math1(fn, x) ==
  CASE fn = "abs" -> MNum(DAbs(x))
    [] fn = "floor" -> MNum(DFloor(x))
    [] fn = "ceil" -> MNum(DCeil(x))
    [] fn = "round" -> MNum(DRoundHalfUp(x))
    [] fn = "trunc" -> MNum(DTrunc(x))
    [] fn = "sign" -> MNum(DSignFn(x))
    [] fn = "fround" -> MNum(DRoundF32(x))
    [] fn = "clz32" -> MNum(DOfSmallInt(DClz32(x)))
    [] x.c = "nan" -> MNum(DNaN)
    [] fn = "sqrt" -> IF x.c = "zero" THEN MNum(x) ELSE IF x.s = 1 THEN MNum(DNaN) ELSE IF x.c = "inf" THEN MNum(x) ELSE FApprox(0)
    [] fn = "cbrt" -> IF x.c \in {"zero", "inf"} THEN MNum(x) ELSE FApprox(x.s)
    [] fn = "exp" -> IF x.c = "zero" THEN MNum(DOne) ELSE IF x.c = "inf" THEN MNum(IF x.s = 1 THEN DZero(0) ELSE x) ELSE FApprox(0)
    [] fn = "expm1" -> IF x.c = "zero" THEN MNum(x) ELSE IF x.c = "inf" THEN MNum(IF x.s = 1 THEN DNeg(DOne) ELSE x) ELSE FApprox(x.s)
    [] fn \in {"log", "log2", "log10"} ->
         IF x.c = "zero" THEN MNum(DInf(1)) ELSE IF x.s = 1 THEN MNum(DNaN) ELSE IF x.c = "inf" THEN MNum(x)
         ELSE IF DIsOne(x) THEN MNum(DZero(0)) ELSE FApprox(IF DMagCmpOne(x) < 0 THEN 1 ELSE 0)
    [] fn = "log1p" -> IF x.c = "zero" THEN MNum(x) ELSE IF x = DNeg(DOne) THEN MNum(DInf(1))
                       ELSE IF x.s = 1 /\ DAbsCmpOne(x) > 0 THEN MNum(DNaN) ELSE IF x.c = "inf" THEN MNum(x) ELSE FApprox(x.s)
    [] fn \in {"sin", "tan"} -> IF x.c = "zero" THEN MNum(x) ELSE IF x.c = "inf" THEN MNum(DNaN) ELSE FApprox(2)
    [] fn = "cos" -> IF x.c = "zero" THEN MNum(DOne) ELSE IF x.c = "inf" THEN MNum(DNaN) ELSE FApprox(2)
    [] fn = "asin" -> IF x.c = "zero" THEN MNum(x) ELSE IF DAbsCmpOne(x) > 0 THEN MNum(DNaN) ELSE FApprox(x.s)
    [] fn = "acos" -> IF DAbsCmpOne(x) > 0 THEN MNum(DNaN) ELSE IF DIsOne(x) THEN MNum(DZero(0)) ELSE FApprox(0)
    [] fn = "atan" -> IF x.c = "zero" THEN MNum(x) ELSE FApprox(x.s)
    [] fn = "sinh" -> IF x.c \in {"zero", "inf"} THEN MNum(x) ELSE FApprox(x.s)
    [] fn = "cosh" -> IF x.c = "zero" THEN MNum(DOne) ELSE IF x.c = "inf" THEN MNum(DInf(0)) ELSE FApprox(0)
    [] fn = "tanh" -> IF x.c = "zero" THEN MNum(x) ELSE IF x.c = "inf" THEN MNum(DFin(x.s, DP52, -52)) ELSE FApprox(x.s)
    [] fn = "asinh" -> IF x.c \in {"zero", "inf"} THEN MNum(x) ELSE FApprox(x.s)
    [] fn = "acosh" -> IF x.c = "inf" /\ x.s = 0 THEN MNum(x) ELSE IF x.s = 1 \/ DAbsCmpOne(x) < 0 THEN MNum(DNaN)
                       ELSE IF DIsOne(x) THEN MNum(DZero(0)) ELSE FApprox(0)
    [] fn = "atanh" -> IF x.c = "zero" THEN MNum(x) ELSE IF DAbsCmpOne(x) > 0 THEN MNum(DNaN)
                       ELSE IF DAbsCmpOne(x) = 0 THEN MNum(DInf(x.s)) ELSE FApprox(x.s)
\* Math.atan2(y, x) at the special points (21.3.2.8); pi multiples are approximated
MathAtan2(y, x) ==
  IF y.c = "nan" \/ x.c = "nan" THEN MNum(DNaN)
  ELSE IF y.c = "zero" /\ (x.s = 0) THEN MNum(y)                      \* +-0 with x >= +0 (incl. +Infinity): +-0
  ELSE IF y.c = "fin" /\ x.c = "inf" /\ x.s = 0 THEN MNum(DZero(y.s))
  ELSE FApprox(y.s)
MathHypot(ds) ==
  IF \E fm_k \in 1..Len(ds) : ds[fm_k].c = "inf" THEN MNum(DInf(0))
  ELSE IF \E fm_k \in 1..Len(ds) : ds[fm_k].c = "nan" THEN MNum(DNaN)
  ELSE IF \A fm_k \in 1..Len(ds) : ds[fm_k].c = "zero" THEN MNum(DZero(0))
  ELSE FApprox(0)
MathFn(fn, a) ==
  LET ds == [fm_k \in 1..Len(a) |-> ToNumberD(a[fm_k])]
      x == IF Len(a) >= 1 THEN ds[1] ELSE DNaN
      y == IF Len(a) >= 2 THEN ds[2] ELSE DNaN
  IN CASE fn \in MathUnary -> Math1(fn, x)
       [] fn = "pow" -> LET r == DPow(x, y) IN IF IsApprox(r) THEN FApprox(r.s) ELSE FVal(r)
       [] fn = "atan2" -> MathAtan2(x, y)
       [] fn = "imul" -> MNum(DImul(DToBits32(IF Len(a) >= 1 THEN x ELSE DZero(0)), DToBits32(IF Len(a) >= 2 THEN y ELSE DZero(0))))
       [] fn = "min" -> MNum(DMinSeq(ds))
       [] fn = "max" -> MNum(DMaxSeq(ds))
       [] fn = "hypot" -> MathHypot(ds)
=============================================================================
