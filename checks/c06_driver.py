"""C06 driver (runs inside the engine child): renders one operator case to JavaScript and records
what the engine did.  It defines no space and computes no expectation.

case = {id, f, op, tgt, pre, a, b, c, la, lb, lc, intrep, tree}
  la / lb / lc: code units of the source text that stands for the operand ([] = the operand is handed over with ctx.set);
  tree leaves likewise carry lt
  f = "bin"  : __a op __b
      "un"   : op __a                       (tgt: "global" | "local")
      "upd"  : ++t / t++ / --t / t--        (tgt: one of TARGETS; pre = prefix?)
      "cmpd" : t op= __b                    (tgt: one of TARGETS)
      "asg"  : t = __b
      "cond" : __c ? __a : __b
      "tree" : nested expression over leaves set with ctx.set
      "se"   : expression over ONE target (tgt) whose operands read and write it: nodes var / upd / asg / cmpd / call
               (a function storing a value in the target) / un / bin / cond / lit
out = {"o":"value","res":wire,"after":wire} | eval outcome (syntax / jserror / host / hang ...)
"""
from harness import wire
from harness.drivers import wire_to_py as _wire_to_py


def wire_to_py(w, intrep=False):
    """like harness.drivers.wire_to_py, but an integer-valued number of magnitude <= 2^53 becomes a host int under intrep
    (the lexer produces host ints for such literals; JsOpsAsIs!DIntValued is the same rule)"""
    if w["k"] == "num" and intrep:
        x = wire.words_dbl(w["w"])
        if x == x and abs(x) <= 2.0 ** 53 and x == int(x) and not (x == 0 and str(x)[0] == "-"):
            return int(x)
        return x
    return _wire_to_py(w, False)

JS_OP = {"neg": "-", "pos": "+"}

# assignment-target forms: (prologue declaring the target holding __a, target expression, read-back expression, wrap in function?)
TARGETS = {
    "global":   ("var x = __a;", "x", "x", False),
    "local":    ("var x = __a;", "x", "x", True),
    "cell":     ("var x = __a; var g = function(){ return x; };", "x", "g()", True),      # captured local, updated by the owner
    "free":     ("var x = __a; var rd = function(){ return x; };", None, "rd()", True),   # updated from an inner function
    "dot":      ("var o = {p: __a};", "o.p", "o.p", False),
    "computed": ("var o = {p: __a}; var k = 'p';", "o[k]", "o.p", False),
    "elem":     ("var arr = [__a];", "arr[0]", "arr[0]", False),
    "elemvar":  ("var arr = [0, __a]; var ix = 1;", "arr[ix]", "arr[1]", True),
}


def render_target(tgt, make_expr, A="__a"):
    """JS program applying make_expr(target_text) to the target form and reporting (result, target afterwards)."""
    pro, texpr, rd, wrap = TARGETS[tgt]
    pro = pro.replace("__a", A)
    if tgt == "free":
        body = pro + " var f = function(){ return (" + make_expr("x") + "); }; var r = f(); __out(r, " + rd + ");"
    else:
        body = pro + " var r = (" + make_expr(texpr) + "); __out(r, " + rd + ");"
    if wrap:
        return "(function(){ " + body + " })();"
    return body


def written(units):
    """an operand written as source text (a spelling chosen by the specification); unary minus in front of a numeric
    literal is kept apart from the operator next to it"""
    txt = wire.from_units(units)
    return "(" + txt + ")" if txt.startswith("-") else txt


def render_tree(t, leaves):
    k = t["t"]
    if k == "lit":
        if t.get("lt"):
            return written(t["lt"])
        leaves.append(t)
        return "__v%d" % (len(leaves) - 1)
    if k == "un":
        return "(" + JS_OP.get(t["op"], t["op"]) + " (" + render_tree(t["x"], leaves) + "))"
    if k == "bin":
        return "(" + render_tree(t["l"], leaves) + " " + t["op"] + " " + render_tree(t["r"], leaves) + ")"
    if k == "cond":
        return "(" + render_tree(t["c"], leaves) + " ? " + render_tree(t["x"], leaves) + " : " + render_tree(t["y"], leaves) + ")"
    raise ValueError("tree node " + k)


def render_se(t, T, leaves, calls):
    """an expression whose operands read and write the one target T (JsOps!EvalS); calls collects (stored, returned)"""
    k = t["t"]
    sub = lambda x: render_se(x, T, leaves, calls)
    if k == "lit":
        if t.get("lt"):
            return written(t["lt"])
        leaves.append(t)
        return "__v%d" % (len(leaves) - 1)
    if k == "var":
        return T
    if k == "upd":
        return "(" + (t["op"] + T if t["pre"] else T + t["op"]) + ")"
    if k == "asg":
        return "(" + T + " = " + sub(t["x"]) + ")"
    if k == "cmpd":
        return "(" + T + " " + t["op"] + "= " + sub(t["x"]) + ")"
    if k == "call":
        calls.append((sub(t["w"]), sub(t["x"])))
        return "__c%d()" % (len(calls) - 1)
    if k == "un":
        return "(" + JS_OP.get(t["op"], t["op"]) + " (" + sub(t["x"]) + "))"
    if k == "bin":
        return "(" + sub(t["l"]) + " " + t["op"] + " " + sub(t["r"]) + ")"
    if k == "cond":
        return "(" + sub(t["c"]) + " ? " + sub(t["x"]) + " : " + sub(t["y"]) + ")"
    raise ValueError("side-effect tree node " + k)


def render_se_case(case, setv, A):
    pro, texpr, rd, wrap = TARGETS[case["tgt"]]
    T = texpr or "x"
    leaves, calls = [], []
    expr = render_se(case["tree"], T, leaves, calls)
    for i, lf in enumerate(leaves):
        setv("__v%d" % i, lf["v"], bool(lf.get("ir")))
    pro = pro.replace("__a", A)
    for i, (w, x) in enumerate(calls):           # functions that store in the target (declared where the target is in scope)
        pro += " var __c%d = function(){ %s = %s; return %s; };" % (i, T, w, x)
    if case["tgt"] == "free":
        body = pro + " var f = function(){ return (" + expr + "); }; var r = f(); __out(r, " + rd + ");"
    else:
        body = pro + " var r = (" + expr + "); __out(r, " + rd + ");"
    return "(function(){ " + body + " })();" if wrap else body


def render(case, setv):
    f, op = case["f"], case.get("op", "")
    jsop = JS_OP.get(op, op)
    A = written(case["la"]) if case.get("la") else "__a"
    B = written(case["lb"]) if case.get("lb") else "__b"
    C = written(case["lc"]) if case.get("lc") else "__c"
    if f == "bin":
        return "__out((" + A + " " + jsop + " " + B + "), 0);"
    if f == "un":
        if case.get("tgt") == "local":
            return "(function(){ var x = " + A + "; __out((" + jsop + " x), 0); })();"
        return "__out((" + jsop + " " + A + "), 0);"
    if f == "upd":
        if case["pre"]:
            return render_target(case["tgt"], lambda t: op + t, A)
        return render_target(case["tgt"], lambda t: t + op, A)
    if f == "cmpd":
        return render_target(case["tgt"], lambda t: t + " " + op + "= " + B, A)
    if f == "asg":
        return render_target(case["tgt"], lambda t: t + " = " + B, A)
    if f == "cond":
        return "__out((" + C + " ? " + A + " : " + B + "), 0);"
    if f == "se":
        return render_se_case(case, setv, A)
    if f == "tree":
        leaves = []
        src = render_tree(case["tree"], leaves)
        for i, lf in enumerate(leaves):
            setv("__v%d" % i, lf["v"], bool(lf.get("ir")))
        return "__out(" + src + ", 0);"
    raise ValueError("form " + f)


def run_case(case, api):
    ctx = api.new_context(time_limit=case.get("time_limit", 10.0))
    got = []
    ctx.set("__out", lambda *a: (got.append(a), None)[1])
    intrep = bool(case.get("intrep"))

    def setv(name, w, ir):
        ctx.set(name, wire_to_py(w, ir))
    for nm in ("a", "b", "c"):
        if nm in case and case[nm] is not None and not case.get("l" + nm):
            setv("__" + nm, case[nm], intrep)
    src = render(case, setv)
    out = api.eval_outcome(ctx, src, wall=case.get("wall", 5.0), cap=200_000)
    if out["o"] == "value":
        if len(got) != 1 or len(got[0]) != 2:
            out = {"o": "host", "type": "NoOutcome", "where": "driver", "msg": "got %d outputs" % len(got)}
        else:
            out = {"o": "value", "res": wire.to_wire(got[0][0]), "after": wire.to_wire(got[0][1])}
    else:
        out = {k: v for k, v in out.items() if k in ("o", "type", "where", "name", "msg", "line", "col", "why")}
    return {"id": case["id"], "out": out, "src": src if case.get("want_src") else None}
