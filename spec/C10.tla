-------------------------------- MODULE C10 --------------------------------
(* C10 - the regex engine is total.                                                           *)
(*   Enum      : the construction space (vocabulary, length, flag strings, special patterns)   *)
(*               and the matching grid (catastrophic families x subject lengths x modes).       *)
(*   JudgeCons : outcome typing of every construction channel + agreement with the pattern     *)
(*               acceptor of RegexSem wherever the string lies inside the specified grammar.    *)
(*   JudgeRun  : observed step / stack / poll counts of matching runs against the budget        *)
(*               bounds of the RegexVM model; outcome typing.                                   *)
(* The budget model itself (RegexVM.tla) is model-checked separately.                           *)
EXTENDS RegexSem, Json, IOUtils

Tier  == IF "TIER" \in DOMAIN IOEnv THEN IOEnv.TIER ELSE "quick"
Quick == Tier = "quick"

\* ---------------- construction space -----------------------------------------------------------
Vocabulary == U("a\\()[]{}*+?|^$.-,1:=!<")                    \* 22 symbols
MaxPatLen == IF Quick THEN 4 ELSE 5
FlagLetters == U("gimsuyx")                                  \* x: not a flag
MaxFlagLen == 3
\* special constructions: [name, head, unit, count, tail] = head \o unit^count \o tail (built by the driver)
Special(name, head, unit, count, tail, expect) == [name |-> name, head |-> U(head), unit |-> U(unit), count |-> count, tail |-> U(tail), expect |-> expect]
Specials == {
  Special("groups-seq", "", "(a)", 3000, "", "accept"), Special("groups-nested", "", "(", 3000, "", "reject"),
  Special("groups-nested-closed", "(((((((((((((((((((((((((((((((((((((((((((((((((((((((((((((", "a", 1, ")))))))))))))))))))))))))))))))))))))))))))))))))))))))))))))", "accept"),
  Special("bref-big", "(a)", "", 0, "\\9999", "outside"), Special("class-long", "[", "a-b", 2000, "]", "accept"),
  Special("alt-many", "a", "|a", 3000, "", "accept"), Special("quant-20000", "a{20000}", "", 0, "", "accept"),
  Special("quant-nested", "(?:(?:a{60}){60}){60}", "", 0, "", "accept"), Special("quant-range", "a{0,20000}", "", 0, "", "accept"),
  \* in the grammar, but an implementation may refuse them as too large ("outside"): what it may not do is hang
  Special("quant-huge", "a{100000000}", "", 0, "", "outside"), Special("quant-huge-range", "a{1,99999999999}", "", 0, "", "outside"),
  Special("quant-out-of-order", "a{2,1}", "", 0, "", "reject"), Special("trailing-backslash", "abc\\", "", 0, "", "reject"),
  Special("unterminated-class", "[abc", "", 0, "", "reject"), Special("lookbehind-open", "(?<=a", "", 0, "", "reject"),
  Special("star-chain", "a", "*", 2, "", "reject"), Special("lazy-chain", "a+?", "?", 1, "", "reject"),
  Special("long-literal", "", "ab", 20000, "", "accept"), Special("deep-lookahead", "", "(?=", 400, "", "reject")}

\* ---------------- matching grid -----------------------------------------------------------------
\* [fam, src, unit, tail]: subject = unit^n \o tail
Family(fam, src, unit, tail) == [fam |-> fam, src |-> U(src), unit |-> U(unit), tail |-> U(tail)]
Families == {
  Family("nested-plus", "(a+)+b", "a", ""), Family("alt-overlap", "(a|a)*b", "a", ""), Family("star-star", "(a*)*b", "a", ""),
  Family("alt-prefix", "(a|aa)+b", "a", ""), Family("dot-star-star", "(.*)*x", "a", ""),
  Family("lookahead-nested", "(?=(a+)+b)", "a", ""), Family("lookbehind-nested", "(?<=(a+)+)b", "a", "c"),
  Family("bref-loop", "(a+)\\1+b", "a", ""), Family("depth3", "((a+)+)+b", "a", ""),
  Family("plain-star", "a*", "a", ""), Family("alt-star", "(?:a|b)*c", "ab", ""), Family("lazy-dot", "^(.*?,){8}x", "1,", ""),
  Family("lookahead-in-loop", "(?:(?=a)a)*b", "a", ""), Family("optional-chain", "a?a?a?a?a?a?a?a?aaaaaaaa", "a", "")}
Lengths == IF Quick THEN {10, 100, 10000} ELSE {10, 30, 100, 1000, 10000}
Modes == {"api", "api-deadline", "script", "script-deadline"}

\* ---------------- Enum ----------------------------------------------------------------------------
VARIABLES ph, cur, rec_i
vars == <<ph, cur, rec_i>>
EnumInit == ph = "start" /\ cur = <<>> /\ rec_i = 0
EnumNext == /\ ph = "start" /\ UNCHANGED rec_i
            /\ \/ ph' = "out" /\ cur' = [kind |-> "strings", vocab |-> Vocabulary, maxlen |-> MaxPatLen]
               \/ ph' = "out" /\ cur' = [kind |-> "flags", letters |-> FlagLetters, maxlen |-> MaxFlagLen]
               \/ \E s \in Specials : ph' = "out" /\ cur' = [kind |-> "special"] @@ s
               \/ \E f \in Families : ph' = "out" /\ cur' = [kind |-> "family", lengths |-> Lengths, modes |-> Modes] @@ f
EnumEmit == ph = "start" \/ PrintT(ToJson(cur))
\* laws of the acceptor, checked over every string up to length 3 of the vocabulary (INVARIANT of a separate small run)
RECURSIVE WordsUpTo(_, _)
WordsUpTo(alpha, n) == IF n = 0 THEN {<<>>} ELSE LET w == WordsUpTo(alpha, n - 1) IN w \cup {Append(u, c) : u \in {v \in w : Len(v) = n - 1}, c \in alpha}
VocabSet == {Vocabulary[k] : k \in 1..Len(Vocabulary)}
LawInit == ph = "law" /\ rec_i = 0 /\ cur \in WordsUpTo(VocabSet, 2)
LawNext == /\ ph = "law" /\ rec_i = 0 /\ Len(cur) = 2
           /\ \E c \in VocabSet : cur' = Append(cur, c) /\ UNCHANGED <<ph, rec_i>>
AcceptorLaw ==
  ph # "law" \/
  LET s == ParseMode(cur, FALSE)  b == ParseMode(cur, TRUE) IN
  /\ (s.ok => b.ok)                                                        \* 22.2.1 is contained in B.1.2
  /\ (s.ok => LET again == Parse(Render(s.a)) IN again.ok /\ Norm(again.a) = Norm(s.a))    \* accepted text -> tree -> text -> same tree
  /\ (s.ok => WellNumbered(s.a) \/ \E k \in BrefsIn(s.a) : k > NCaps(s.a))
  /\ Classify(cur) \in {"accept", "outside", "reject"}

\* ---------------- JudgeCons ---------------------------------------------------------------------------
Recs == ndJsonDeserialize(IOEnv.OBS_FILE)
\* a construction record: [id, p (units) | big (name of a special with its expectation), ch: outcomes of the channels
\*   <<api, literal, RegExp(), new RegExp()>>, un: outcomes of the same script channels without try/catch]
\* outcome codes: "ok" | "SyntaxError" (caught by script try/catch) | "caught:<class>" | "syntax" (eval raised JSSyntaxError)
\*   | "jserror:<name>" | "RegExpError" (API channel: the package's own documented error) | "host:<type>" | "hang" | "skip"
AcceptOutcome(o) == o = "ok"
\* uncaught: any JSError at the Python boundary (its class name is recorded, not judged: DESIGN 4.4 item 8)
RejectOutcome(c, o) == IF c = 1 THEN o = "RegExpError" ELSE o \in {"SyntaxError", "syntax", "jserror"}
TotalOutcome(c, o) == o = "skip" \/ AcceptOutcome(o) \/ RejectOutcome(c, o)
\* why does the engine disagree with the acceptor?  the grammar with one rule relaxed at a time
HugeNames == {"quant-huge", "quant-huge-range"}
ConsVerdict(r) ==
  LET cls == IF "expect" \in DOMAIN r THEN r.expect ELSE Classify(r.p)
      Bad(c, o) ==                                  \* -> "" (fine) | deviation name | "!" (unexplained)
        IF o = "skip" THEN ""
        ELSE IF ~TotalOutcome(c, o)
             THEN (IF o = "hang" /\ "name" \in DOMAIN r /\ r.name \in HugeNames THEN "Dev_QuantifierUnroll"   \* the compiler unrolls counted quantifiers: {10^8} never finishes
                   ELSE IF c > 1 /\ o = "host:RegExpError" /\ cls # "accept" THEN "Dev_RegExpErrorHost"      \* the parser's private error type leaks out of eval
                   ELSE IF c > 1 /\ o = "host:RegExpError" THEN "!accept-rejected"
                   ELSE "!")
        \* lexer.py: "/=" is always taken as the divide-assign token, so a literal whose pattern starts with "=" is a syntax error
        ELSE IF c = 2 /\ cls # "reject" /\ "p" \in DOMAIN r /\ r.p # <<>> /\ r.p[1] = 61 /\ RejectOutcome(c, o) THEN "Dev_LiteralSlashAssign"
        ELSE IF cls = "accept" /\ ~AcceptOutcome(o) THEN "!accept-rejected"
        ELSE IF cls = "reject" /\ AcceptOutcome(o) THEN "!reject-accepted"
        ELSE ""
  IN [id |-> r.id, cls |-> cls, bad |-> [c \in 1..Len(r.ch) |-> Bad(c, r.ch[c])], un |-> [c \in 1..Len(r.un) |-> Bad(c + 1, r.un[c])]]
HasFwd(a) == Fwd(a, 0).bad
\* second pass over the disagreements only: name the rule of the grammar the engine gets wrong
\*   rec: [id, p, kind ("accept-rejected" | "reject-accepted")]
RelaxedAccepts(p, opt) == ParseOpt(p, {opt}).ok
WhyVerdict(r) ==
  [id |-> r.id,
   dev |-> IF r.kind = "accept-rejected"
           THEN (IF Parse(r.p).ok /\ HasFwd(Parse(r.p).a) THEN "Dev_ForwardRef" ELSE "")
           ELSE (IF RelaxedAccepts(r.p, "rangeOrder") THEN "Dev_ClassRangeOrder"
                 ELSE IF RelaxedAccepts(r.p, "quantOrder") THEN "Dev_QuantOrder"
                 ELSE IF RelaxedAccepts(r.p, "lbQuant") THEN "Dev_LookbehindQuantified"
                 ELSE IF RelaxedAccepts(r.p, "looseEscape") THEN "Dev_LooseEscape"
                 ELSE "")]
\* flags: valid iff letters of gimsuy (d, v: newer editions, not judged), no duplicates
FlagVerdict(r) ==
  LET fs == r.fl
      known == \A k \in 1..Len(fs) : fs[k] \in {103, 105, 109, 115, 117, 121}
      newer == \E k \in 1..Len(fs) : fs[k] \in {100, 118}
      dup == \E j, k \in 1..Len(fs) : j # k /\ fs[j] = fs[k]
      cls == IF newer THEN "outside" ELSE IF known /\ ~dup THEN "accept" ELSE "reject"
      Bad(c, o) == IF o = "skip" THEN ""
                   \* a literal with a letter that is no flag: the lexer stops before it and the program goes on with an identifier
                   ELSE IF c = 2 /\ cls = "reject" /\ ~known /\ o \in {"caught:ReferenceError", "jserror"} THEN "Dev_FlagsNotValidated"
                   ELSE IF ~TotalOutcome(c, o) THEN "!"
                   ELSE IF cls = "accept" /\ ~AcceptOutcome(o) THEN "!accept-rejected"
                   ELSE IF cls = "reject" /\ AcceptOutcome(o) THEN "Dev_FlagsNotValidated"
                   ELSE ""
  IN [id |-> r.id, cls |-> cls, bad |-> [c \in 1..Len(r.ch) |-> Bad(c, r.ch[c])]]

ConsInit == /\ rec_i \in 1..Len(Recs) /\ ph = "cons" /\ cur = <<>>
            /\ LET r == Recs[rec_i]
                   v == IF "fl" \in DOMAIN r THEN FlagVerdict(r) ELSE ConsVerdict(r)
                   quiet == \A c \in 1..Len(v.bad) : v.bad[c] = ""
               IN PrintT(ToJson(IF quiet /\ ("un" \notin DOMAIN v \/ \A c \in 1..Len(v.un) : v.un[c] = "") THEN [id |-> v.id, cls |-> v.cls] ELSE v))
WhyInit == /\ rec_i \in 1..Len(Recs) /\ ph = "why" /\ cur = <<>> /\ PrintT(ToJson(WhyVerdict(Recs[rec_i])))

\* ---------------- JudgeRun ----------------------------------------------------------------------------
\* the real budgets (regex/vm.py RegexVM defaults; the run is driven with poll_interval = 1)
StepLimit == 100000
StackLimit == 10000
\* a run record: [id, fam, n, mode, out, ty, attempts, steps: [re, la, lb], maxstep: [re, la, lb], maxstack, polls, calls, capped]
RunVerdict(r) ==
  LET total == r.steps.re + r.steps.la + r.steps.lb
      clauses ==
        <<IF r.maxstep.re <= StepLimit + 1 THEN "" ELSE "!step-bound",                        \* RegexVM.StepBound
          IF r.attempts <= r.len + 1 THEN "" ELSE "!attempts",
          IF r.steps.re <= r.attempts * (StepLimit + 1) THEN "" ELSE "!work-bound",            \* RegexVM.WorkBound
          IF r.maxstack <= StackLimit + 1 THEN "" ELSE "!stack-bound",                        \* RegexVM.StackBound
          IF r.mode \notin {"api", "api-deadline"} \/ r.polls >= total THEN "" ELSE "!poll-bound",   \* RegexVM.PollBound with poll_interval = 1
          IF r.maxstep.la <= StepLimit + 1 /\ r.maxstep.lb <= StepLimit + 1 THEN "" ELSE "Dev_SubNoStepLimit",   \* RegexVM.SubStepBound
          \* outcome: a match, null (also: step budget exhausted), or an error of the JSError family
          CASE r.out \in {"match", "null"} -> ""
            [] r.out = "jserror" -> IF r.mode \in {"script", "script-deadline"} THEN "" ELSE "!outcome"     \* e.g. RangeError for an exhausted stack
            [] r.out = "overflow" -> IF r.mode \in {"api", "api-deadline"} /\ r.maxstack > StackLimit THEN "" ELSE "!overflow-below-limit"
            [] r.out = "capped" -> ""                                                          \* bounded by counting: every clause above held on the observed prefix
            [] r.out = "timeout" -> IF r.mode \in {"api-deadline", "script-deadline"} THEN "" ELSE "!timeout-without-deadline"
            [] r.out = "host" /\ r.ty = "RegexStackOverflow" -> IF r.maxstack > StackLimit THEN "Dev_StackOverflowHost" ELSE "!overflow-below-limit"
            [] OTHER -> "!outcome",
          \* a deadline must end the run: the poll callback said stop, the matcher may not go on
          IF r.mode \in {"api-deadline", "script-deadline"} /\ r.out = "capped" THEN "!deadline-ignored" ELSE "">>
  IN [id |-> r.id, bad |-> SelectSeq(clauses, LAMBDA c : c # "")]
RunInit == /\ rec_i \in 1..Len(Recs) /\ ph = "run" /\ cur = <<>> /\ PrintT(ToJson(RunVerdict(Recs[rec_i])))
JudgeNext == UNCHANGED vars
=============================================================================
