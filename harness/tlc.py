"""TLC runner: exhaustive / simulation / sharded judge runs, with stats parsing."""
import os, re, json, subprocess, shutil, time
from concurrent.futures import ThreadPoolExecutor
from .common import SPEC, Machinery, workdir, write_ndjson, NPROC

JAR = "/opt/veriftools/tla/tla2tools.jar:/opt/veriftools/tla/CommunityModules-deps.jar"
_RE_STATES = re.compile(r"(\d+) states generated, (\d+) distinct states found")
_RE_INV = re.compile(r"Invariant (\S+) is violated")
_RE_PROP = re.compile(r"(?:Action|Temporal) propert(?:y|ies) (\S+)? ?(?:is|were) violated")


class _Slot:
    """System-wide throttle on concurrent TLC JVMs (several checks may run at once on one machine; 100 JVMs of
    1-3 GB each exhaust memory).  A slot is an flock on one of N files; released when the JVM is done."""
    DIR = "/tmp/verif_tlc_slots"
    N = int(os.environ.get("VERIF_TLC_SLOTS", "20"))

    def __enter__(self):
        import fcntl
        os.makedirs(self.DIR, exist_ok=True)
        while True:
            for k in range(self.N):
                fd = os.open(os.path.join(self.DIR, "slot%d" % k), os.O_CREAT | os.O_RDWR, 0o666)
                try:
                    fcntl.flock(fd, fcntl.LOCK_EX | fcntl.LOCK_NB)
                    self.fd = fd
                    return self
                except OSError:
                    os.close(fd)
            time.sleep(0.5)

    def __exit__(self, *a):
        os.close(self.fd)          # closing releases the lock


class TlcResult:
    def __init__(self):
        self.stdout = ""
        self.rc = None
        self.generated = 0
        self.distinct = 0
        self.violated = []          # invariant / property names TLC reported
        self.errors = []            # other TLC errors (parse, evaluation)
        self.records = []           # JSON records printed by PrintT(ToJson(..))
        self.wall = 0.0
        self.coverage = {}          # action name -> (distinct, total) when -coverage was on

    @property
    def ok(self):
        return not self.violated and not self.errors


def _parse(res, out):
    res.stdout = out
    for line in out.splitlines():
        s = line.strip()
        if s.startswith('"{') and s.endswith('}"'):
            try:
                res.records.append(json.loads(json.loads(s)))
            except Exception:
                pass
            continue
        m = _RE_STATES.search(s)
        if m:
            res.generated, res.distinct = int(m.group(1)), int(m.group(2))
        m = _RE_INV.search(s)
        if m:
            res.violated.append(m.group(1))
        if "is violated" in s and not _RE_INV.search(s):
            res.violated.append(s)
        if s.startswith("Error:") and "is violated" not in s:
            if "behavior up to this point" in s or "The behavior up to" in s:
                continue
            res.errors.append(s)
        m = re.match(r"<(\w+) line \d+, col \d+ to line \d+, col \d+ of module (\w+)>: (\d+):(\d+)", s)
        if m:
            res.coverage[m.group(1)] = (int(m.group(3)), int(m.group(4)))


def run(pid, module, cfg_text, env=None, workers=None, timeout=900, tag=None, simulate=None,
        depth=None, seed=None, extra=None, coverage=False, heap=None, deadlock=False):
    """Run TLC on spec/<module>.tla with the given config text. Returns TlcResult."""
    tag = tag or module
    wd = workdir(pid, "tlc_" + tag)
    meta = os.path.join(wd, "meta")
    shutil.rmtree(meta, ignore_errors=True)
    cfg = os.path.join(wd, module + ".cfg")
    with open(cfg, "w") as f:
        f.write(cfg_text)
    # -Xss: RECURSIVE operators of the specifications recurse on the Java stack (one level costs several frames); the default
    # 1 MB overflowed on 40-unit receivers in the thorough tier of C16
    cmd = ["java", "-XX:+UseParallelGC", "-Xss64m"]
    if heap:
        cmd.append("-Xmx" + heap)
    cmd += ["-cp", JAR, "tlc2.TLC", "-metadir", meta, "-noGenerateSpecTE",
            "-workers", str(workers or NPROC), "-config", cfg]
    if not deadlock:
        pass
    if coverage:
        cmd += ["-coverage", "1"]
    if simulate:
        cmd += ["-simulate", simulate]
        if depth:
            cmd += ["-depth", str(depth)]
    if seed is not None:
        cmd += ["-seed", str(seed)]
    if extra:
        cmd += list(extra)
    cmd.append(os.path.join(SPEC, module + ".tla"))
    e = dict(os.environ)
    e.pop("JAVA_TOOL_OPTIONS", None)
    if env:
        e.update({k: str(v) for k, v in env.items()})
    t0 = time.time()
    res = TlcResult()
    for attempt in (1, 2):
        try:
            with _Slot():
                t0 = time.time()
                p = subprocess.run(cmd, env=e, cwd=SPEC, stdout=subprocess.PIPE, stderr=subprocess.STDOUT, timeout=timeout)
        except subprocess.TimeoutExpired as ex:
            subprocess.run(["pkill", "-f", meta], check=False)       # only this run (matched by its private metadir)
            raise Machinery("TLC timed out after %ss on %s" % (timeout, module))
        if p.returncode in (-9, -15, 137, 143) and attempt == 1:
            shutil.rmtree(meta, ignore_errors=True)                  # killed from outside: run it once more
            continue
        break
    res.wall = time.time() - t0
    res.rc = p.returncode
    _parse(res, p.stdout.decode(errors="replace"))
    shutil.rmtree(meta, ignore_errors=True)
    return res


def must_ok(res, what):
    """A spec-level run (laws, invariants of the model itself) that must pass; else machinery failure."""
    if res.errors or res.rc not in (0,):
        if res.violated:
            return res
        raise Machinery("%s: TLC failed rc=%s\n%s" % (what, res.rc, res.stdout[-3000:]))
    return res


def judge(pid, module, records, cfg_text=None, shards=None, env=None, timeout=1800, tag=None, file_env="OBS_FILE"):
    """Sharded judge run: records -> K ndjson files -> K single-worker JVMs in parallel.

    The judge module reads IOEnv.OBS_FILE, has `Init`/`Next` as in DESIGN 3.10 and prints one
    JSON record per judged input.  Returns (list of printed records, states, transitions, wall)."""
    if cfg_text is None:
        cfg_text = "INIT Init\nNEXT Next\nCHECK_DEADLOCK FALSE\n"
    tag = tag or ("judge_" + module)
    n = len(records)
    if n == 0:
        return [], 0, 0, 0.0
    shards = shards or min(NPROC, max(1, n // 200))
    wd = workdir(pid, tag)
    files = []
    for k in range(shards):
        part = records[k::shards]
        path = os.path.join(wd, "obs_%d.ndjson" % k)
        write_ndjson(path, part)
        files.append(path)
    t0 = time.time()

    def one(k):
        e = dict(env or {})
        e[file_env] = files[k]
        return run(pid, module, cfg_text, env=e, workers=1, timeout=timeout, tag="%s_%d" % (tag, k), heap="2g")

    with ThreadPoolExecutor(max_workers=shards) as ex:
        rs = list(ex.map(one, range(shards)))
    out, st, tr = [], 0, 0
    for r in rs:
        if r.errors or r.rc != 0:
            raise Machinery("judge %s failed rc=%s errors=%s:\n%s" % (module, r.rc, [str(x)[:300] for x in r.errors[:3]], r.stdout[-1500:]))
        out.extend(r.records)
        st += r.distinct
        tr += r.generated
    return out, st, tr, time.time() - t0
