"""C09 driver (runs inside the engine child): one pattern x many subjects, three channels.

case = {id, src:[units], fl:"ims", subs:<name>|None, sl:[[units]..]|None, lit:bool}
result = {id, o:[distinct observations], ch:[[index into o (1-based) per subject] per channel], steps:max regex steps of one exec}
An observation is {"k":"null"} | {"k":"m","i":index,"g":[[units]|[-1] ..]} | {"k":"err","cls":"..."}; the
driver only records, the judge (spec/C09.tla) decides.
"""
import json, os
from harness import wire

_SUBS = None


def subject_sets():
    global _SUBS
    if _SUBS is None:
        with open(os.environ["C09_SUBJECTS"]) as f:
            raw = json.load(f)
        _SUBS = {k: [wire.from_units(u) for u in v] for k, v in raw.items()}
    return _SUBS


def where_of(exc):
    tb, best = exc.__traceback__, None
    while tb is not None:
        fn = tb.tb_frame.f_code.co_filename
        if "microjs" in fn:
            best = os.path.basename(fn) + ":" + tb.tb_frame.f_code.co_name
        tb = tb.tb_next
    return best or "?"


def err_obs(out):
    if out["o"] == "host":
        return {"k": "err", "cls": "host", "ty": str(out.get("type")), "at": str(out.get("where"))}
    if out["o"] == "jserror":
        return {"k": "err", "cls": "jserror", "ty": str(out.get("name")), "at": ""}
    return {"k": "err", "cls": out["o"], "ty": "", "at": ""}


def api_obs(m):
    if m is None:
        return {"k": "null"}
    g = []
    for i in range(len(m)):
        v = m[i]
        g.append([-1] if v is None else wire.units(v))
    return {"k": "m", "i": int(m.index), "g": g}


def script_obs(pair):
    """pair = wire values of (m, m.index) as the script's exec returned them"""
    w, wi = pair
    if w["k"] == "null":
        return {"k": "null"}
    if w["k"] != "arr" or not w["e"] or wi["k"] != "num":
        return {"k": "err", "cls": "shape", "ty": w["k"], "at": ""}
    idx = wire.words_dbl(wi["w"])
    if idx != int(idx):
        return {"k": "err", "cls": "shape", "ty": "index", "at": ""}
    g = []
    for e in w["e"]:
        if e["k"] == "undef":
            g.append([-1])
        elif e["k"] == "str":
            g.append(e["u"])
        else:
            return {"k": "err", "cls": "shape", "ty": "group:" + e["k"], "at": ""}
    return {"k": "m", "i": int(idx), "g": g}


SCRIPT = "for (var i = 0; i < S.length; i++) { var m = R.exec(S[i]); __out(i, m, m === null ? 0 : m.index); }"


def run_script(api, head, subjects, src, flags):
    ctx = api.new_context(time_limit=60.0)
    got = {}
    ctx.set("__out", lambda i, m, idx: (got.__setitem__(int(i), (wire.to_wire(m), wire.to_wire(idx))), None)[1])
    ctx.set("P", src)
    ctx.set("F", flags)
    ctx.set("S", list(subjects))
    out = api.eval_outcome(ctx, head + SCRIPT, wall=120.0, cap=50_000_000)
    if out["o"] != "value":
        e = err_obs(out)
        return [got_obs(got, i, e) for i in range(len(subjects))]
    return [got_obs(got, i, {"k": "err", "cls": "noresult", "ty": "", "at": ""}) for i in range(len(subjects))]


def got_obs(got, i, fallback):
    return script_obs(got[i]) if i in got else fallback


def pattern_driver(case, api):
    from microjs.regex import RegExp
    src = wire.from_units(case["src"])
    flags = case["fl"]
    subjects = subject_sets()[case["subs"]] if case.get("subs") else [wire.from_units(u) for u in case["sl"]]
    chans = []
    maxsteps = 0
    # channel 1: the regex package's own API
    obs = []
    try:
        r = RegExp(src, flags)
    except Exception as e:          # noqa: BLE001 - classified, judged by the spec
        r = None
        obs = [{"k": "err", "cls": "host", "ty": type(e).__name__, "at": where_of(e)}] * len(subjects)
    if r is not None:
        for s in subjects:
            out = api.run(lambda: r.exec(s), wall=60.0, cap=20_000_000)
            maxsteps = max(maxsteps, out["steps"])        # only regex steps are hooked here
            if maxsteps >= 100000:
                break
            if out["o"] == "value":
                obs.append(api_obs(out["pv"]))
            else:
                obs.append(err_obs(out))
    chans.append(obs)
    if maxsteps >= 100000:
        # some exec used up the engine's step budget: the pattern is outside the property's domain ("subjects are short enough
        # that no budget is exhausted"); the check counts it and does not judge it, so the slow script channels are skipped
        return {"id": case["id"], "o": [], "ch": [], "steps": maxsteps}
    # channel 2: script level through the RegExp constructor (pattern passed as a value, not lexed)
    chans.append(run_script(api, "var R = new RegExp(P, F);", subjects, src, flags))
    # channel 3: script level through a regex literal
    if case.get("lit"):
        chans.append(run_script(api, "var R = /" + src + "/" + flags + ";", subjects, src, flags))
    table, index, ch = [], {}, []
    for obs in chans:
        row = []
        for o in obs:
            k = json.dumps(o, sort_keys=True)
            if k not in index:
                table.append(o)
                index[k] = len(table)
            row.append(index[k])
        ch.append(row)
    return {"id": case["id"], "o": table, "ch": ch, "steps": maxsteps}
