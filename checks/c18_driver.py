"""C18 driver (runs inside the engine child): one formatting / parsing / Math call per case.

case = {id, g, m, x, a, intrep}
  g = "fmt"  : receiver x (a number), m in implicit | String | json | toString | toFixed | toExponential | toPrecision
  g = "parse": m in Number | plus | minus0 | times1 | parseFloat | parseInt, arguments a
  g = "math" : Math.<m>(a...)
  g = "key"  : x used as a property name (keyMember o[x], keyComputed {[x]: 1}) or joined ([x].join())
  g = "lit"  : a[0] is a source spelling of x: its value, the name of {<spelling>: 1}, a getter so named found through [x]
  g = "long" : like parse, on long digit strings
out = {"o":"value","v":wire} | {"o":"throw","cls":name} | eval outcome (host, hang, ...)
"""
from harness import wire
from harness.drivers import CLASSIFY_JS
from checks.c06_driver import wire_to_py


def render(case, names):
    g, m = case["g"], case["m"]
    args = ", ".join(names)
    if g == "fmt":
        if m == "implicit":
            return "__r + ''"
        if m == "String":
            return "String(__r)"
        if m == "json":
            return "JSON.stringify(__r)"
        return "__r.%s(%s)" % (m, args)
    if g == "parse":
        if m == "Number":
            return "Number(%s)" % args
        if m == "plus":
            return "+" + names[0]
        if m == "minus0":
            return names[0] + " - 0"
        if m == "times1":
            return names[0] + " * 1"
        return "%s(%s)" % (m, args)
    if g == "math":
        return "Math.%s(%s)" % (m, args)
    if g == "key":                       # the number names a property / an element is joined
        if m == "keyMember":
            return "(function () { var o = {}; o[__r] = 1; return Object.keys(o)[0]; })()"
        if m == "keyComputed":
            return "Object.keys({[__r]: 1})[0]"
        if m == "join":
            return "[__r].join()"
    if g == "lit":                       # the spelling (a[0], text enumerated by the specification) is written into the source
        sp = wire.from_units(case["a"][0]["u"])
        if m == "literal":
            return sp
        if m == "keyLiteral":
            return "Object.keys({%s: 1})[0]" % sp
        if m == "getterFound":
            return "({get %s() { return 7; }})[__r]" % sp
    if g == "long":
        if m == "plus":
            return "+" + names[0]
        return "%s(%s)" % (m, args)
    raise ValueError("group " + g)


def run_case(case, api):
    ctx = api.new_context(time_limit=case.get("time_limit", 10.0))
    got = []
    ctx.set("__out", lambda *a: (got.append(a), None)[1])
    intrep = bool(case.get("intrep"))
    ctx.set("__r", wire_to_py(case["x"], intrep))
    names = []
    for i, a in enumerate(case["a"]):
        ctx.set("__a%d" % i, wire_to_py(a, intrep))
        names.append("__a%d" % i)
    expr = render(case, names)
    src = CLASSIFY_JS + "try { __out('v', (" + expr + ")); } catch (e) { __out('t', __cls(e)); }"
    out = api.eval_outcome(ctx, src, wall=case.get("wall", 5.0), cap=500_000)
    if out["o"] == "value":
        if len(got) != 1:
            out = {"o": "host", "type": "NoOutcome", "where": "driver"}
        elif got[0][0] == "v":
            out = {"o": "value", "v": wire.to_wire(got[0][1])}
        else:
            out = {"o": "throw", "cls": str(got[0][1])}
    else:
        out = {k: v for k, v in out.items() if k in ("o", "type", "where", "name", "line", "col", "why")}
    return {"id": case["id"], "out": out}
