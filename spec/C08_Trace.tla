----------------------------- MODULE C08_Trace -----------------------------
EXTENDS ObjModel, Json, IOUtils, SequencesExt

\* ==============================================================================================
\* C -> S : total trace specification.  One behaviour per recorded history: the recorded operations
\* are replayed through ObjModel's rules twice - reference (no deviation) and as-is (the deviations
\* named in the record) - and every recorded step outcome and observation is compared with the
\* prediction.  A mismatch never stops the replay: it is recorded (step, observation, clause) and
\* the replay continues; ObjModel's invariants are evaluated on every reference state reached.
Recs == ndJsonDeserialize(IOEnv.OBS_FILE)       \* [id, dv, h, steps : Seq([out, obs]), cut]
VARIABLES t_rec, t_l, t_dev, t_taint, t_mis, t_cnt, t_status     \* the reference state is ObjModel's m_st
t_vars == <<t_rec, t_l, t_dev, t_taint, t_mis, t_cnt, t_status>>
SeqSet(sq) == {sq[j] : j \in 1..Len(sq)}
DvOf(r) == SeqSet(r.dv)

OutStr(out) == IF out = "ok" THEN "ok" ELSE "!" \o out
NeedsRecv(o) == o.op \in {"set", "del", "def", "setproto"}
DevStep(st, dv, o) == IF NeedsRecv(o) /\ ~Alloc(st, o.x) THEN R(st, "TypeError") ELSE Step(st, dv, o)
StepDevs(st, dv, o) == {d \in dv : DevStep(st, dv \ {d}, o) # DevStep(st, dv, o)}
ObsDevs(st, dv, ob) == {d \in dv : Observe(st, dv \ {d}, ob) # Observe(st, dv, ob)}

\* verdict of one recorded observation: <<"pass">> | <<"known", dev>> | <<"violation", "">>
ObsVerdict(sr, sd, dv, taint, ob, act) ==
  IF SameObs(sr, {}, ob, Observe(sr, {}, ob), act) THEN <<"pass", "">>
  ELSE IF Alloc(sd, IF ob.x = "" THEN "OP" ELSE ob.x) /\ SameObs(sd, dv, ob, Observe(sd, dv, ob), act)
       THEN LET loc == ObsDevs(sd, dv, ob)
            IN IF loc # {} THEN <<"known", CHOOSE d \in loc : TRUE>>
               ELSE IF taint # {} THEN <<"known", CHOOSE d \in taint : TRUE>>
               ELSE <<"violation", "">>
  ELSE <<"violation", "">>

\* the record is copied into the state: Recs is a Java-backed operator that TLC re-evaluates at every use
TInit == /\ LET all == Recs IN t_rec \in {all[j] : j \in 1..Len(all)}
         /\ t_l = 1
         /\ MInit
         /\ t_dev = State0D(DvOf(t_rec))
         /\ t_taint = DvOf(t_rec) \cap {"Dev_FnProtoNoObjectProto"}
         /\ t_mis = <<>>
         /\ t_cnt = [steps |-> 0, obs |-> 0, known |-> 0, viol |-> 0]
         /\ t_status = "run"

MisRec(l, j, v, ob, exp, act) == [l |-> l, j |-> j, v |-> v[1], dev |-> v[2], ob |-> ob, exp |-> exp, act |-> act]
NoOb == Ob("step", "", "", "")

TStep ==
  LET rec == t_rec
      dv == DvOf(rec)
      o == rec.h[t_l]
      a == rec.steps[t_l]
  IN IF ~Applicable(m_st, o, t_l)
     THEN /\ t_status' = "inapplicable" /\ UNCHANGED <<t_rec, t_l, t_dev, t_taint, t_mis, t_cnt, m_vars>>
     ELSE
       LET rr == Step(m_st, {}, o)
           rd == DevStep(t_dev, dv, o)
           fired == StepDevs(t_dev, dv, o)
           sv == IF a.out = OutStr(rr.out) THEN <<"pass", "">>
                 ELSE IF a.out = OutStr(rd.out)
                      THEN (IF fired # {} THEN <<"known", CHOOSE d \in fired : TRUE>>
                            ELSE IF t_taint # {} THEN <<"known", CHOOSE d \in t_taint : TRUE>> ELSE <<"violation", "">>)
                 ELSE <<"violation", "">>
           \* adopt: when the engine threw although neither model does, the step had no effect
           nr == IF sv[1] = "violation" /\ a.out # "ok" THEN m_st ELSE rr.st
           nd == IF sv[1] = "violation" /\ a.out # "ok" THEN t_dev ELSE rd.st
           nt == t_taint \cup fired
           J == {j \in 1..Len(a.obs) : Observable(nr, Battery[j])}
           vd == [j \in J |-> ObsVerdict(nr, nd, dv, nt, Battery[j], a.obs[j])]
           bad == {j \in J : vd[j][1] # "pass"}
           badseq == SetToSortSeq(bad, <)
           newmis == (IF sv[1] = "pass" THEN <<>> ELSE <<MisRec(t_l, 0, sv, NoOb, <<OutStr(rr.out)>>, <<a.out>>)>>)
                     \o [m \in 1..Len(badseq) |-> MisRec(t_l, badseq[m], vd[badseq[m]], Battery[badseq[m]],
                                                         Observe(nr, {}, Battery[badseq[m]]), a.obs[badseq[m]])]
           nk == Cardinality({j \in bad : vd[j][1] = "known"}) + (IF sv[1] = "known" THEN 1 ELSE 0)
           nv == Cardinality({j \in bad : vd[j][1] = "violation"}) + (IF sv[1] = "violation" THEN 1 ELSE 0)
       IN /\ m_st' = nr /\ m_prev' = m_st /\ m_hist' = Append(m_hist, o) /\ t_dev' = nd /\ t_taint' = nt
          /\ t_mis' = IF Len(t_mis) < 60 THEN t_mis \o newmis ELSE t_mis
          /\ t_cnt' = [steps |-> t_cnt.steps + 1, obs |-> t_cnt.obs + Cardinality(J),
                       known |-> t_cnt.known + nk, viol |-> t_cnt.viol + nv]
          /\ t_l' = t_l + 1
          /\ t_status' = IF t_l = Len(rec.steps) THEN "done" ELSE "run"
          /\ UNCHANGED t_rec

TNext == /\ t_status = "run"
         /\ IF t_l > Len(t_rec.steps)
            THEN t_status' = "done" /\ UNCHANGED <<t_rec, t_l, t_dev, t_taint, t_mis, t_cnt, m_vars>>
            ELSE TStep
TReport == t_status = "run" \/
           PrintT(ToJson([id |-> t_rec.id, status |-> t_status, cut |-> t_rec.cut, cnt |-> t_cnt,
                          mis |-> t_mis, taint |-> t_taint]))
TInv == ModelInv /\ Frame
=============================================================================
