"""C14 driver: renders (template, n) to source, runs it, exports the bytecode facts the spec judges."""
from harness import wire, bytecode


def m7(i):
    return i % 7


def render(t, n):
    S = "log('s');"           # first statement: proves whether anything executed
    if t == "consts":
        return S + "var s='';" + "".join("s='c%d';" % i for i in range(n)) + "s"
    if t == "names":
        return S + "".join("var g%d=%d;" % (i, m7(i)) for i in range(n)) + "g%d*10+g0" % (n - 1)
    if t == "locals":
        return S + "function f(){" + "".join("var v%d=%d;" % (i, m7(i)) for i in range(n)) + \
            "return v%d*100+v%d*10+v0} f()" % (n - 1, n // 2)
    if t == "params":
        return S + "function f(" + ",".join("p%d" % i for i in range(n)) + "){return p%d*10+p0} f(" % (n - 1) + \
            ",".join(str(m7(i)) for i in range(n)) + ")"
    if t == "args":
        return S + "function g(){return arguments.length} g(" + ",".join("1" for _ in range(n)) + ")"
    if t == "newargs":
        return S + "function G(){this.n=arguments.length} new G(" + ",".join("1" for _ in range(n)) + ").n"
    if t == "array":
        return S + "var a=[" + ",".join(str(m7(i)) for i in range(n)) + "]; a.length*10+a[%d]" % (n - 1)
    if t == "object":
        return S + "var o={" + ",".join("k%d:%d" % (i, m7(i)) for i in range(n)) + "}; Object.keys(o).length*10+o['k%d']" % (n - 1)
    if t == "closures":
        return S + "function f(){" + "".join("var v%d=%d;" % (i, m7(i)) for i in range(n)) + \
            "return function(){return " + "+0*".join("v%d" % i for i in range(n)) + "*0+v%d*10+v0}} f()()" % (n - 1) \
            if False else S + "function f(){" + "".join("var v%d=%d;" % (i, m7(i)) for i in range(n)) + \
            "return function(){var t=0;" + "".join("t=v%d;" % i for i in range(n)) + "return t*10+v0}} f()()"
    if t == "stmts":
        return S + "var x=0;" + "x=x+1;" * n + "x"
    if t == "loop":
        return S + "var x=0,i=0;while(i<3){i=i+1;" + "x=x+1;" * n + "} x"
    if t == "if_then":
        return S + "var x=0;if(x==0){" + "x=x+1;" * n + "}else{" + "x=x+2;" * n + "} x"
    if t == "if_else":
        return S + "var x=0;if(x==1){" + "x=x+1;" * n + "}else{" + "x=x+2;" * n + "} x"
    if t == "switch":
        return S + "var x=-1;switch(%d){" % (n - 1) + "".join("case %d: x=%d; break;" % (i, i % 1000) for i in range(n)) + "} x"
    if t == "try":
        return S + "var x=0;try{" + "x=x+1;" * n + "throw 5}catch(e){x=x+e} x"
    if t == "func":
        return S + "function f(){var x=0;" + "x=x+1;" * n + "return x} f()"
    if t == "funcloop":
        return S + "function f(){var x=0,i=0;while(i<2){i=i+1;" + "x=x+1;" * n + "} return x} f()"
    if t == "cond_expr":
        return S + "var x=0; x = (x==0) ? (" + "+".join("1" for _ in range(n)) + ") : (" + "+".join("2" for _ in range(n)) + "); x"
    if t == "and_chain":
        return S + "var x=0; (" + " && ".join("(x=x+1)" for _ in range(n)) + "); x"
    if t == "dowhile":
        return S + "var x=0,i=0;do{i=i+1;" + "x=x+1;" * n + "}while(i<2); x"
    if t == "forloop":
        return S + "var x=0;for(var i=0;i<3;i=i+1){" + "x=x+1;" * n + "x=x+1;} x"
    if t == "dowhile_continue":
        return S + "var x=0,i=0; do { i=i+1; if (i<3) continue; " + "x=x+1;" * n + " } while (i<3); x"
    if t == "for_continue":
        return S + "function f(){ var x=0; for (var i=0;;i=i+1) { if (i<2) continue; " + "x=x+1;" * n + " return x } } f()"
    if t == "switch_nobreak":
        return S + "var x=0;" + "x=x+1;" * n + " switch (1) { case 0: x=x+1000; case 1: x=x+100; default: x=x+7 } x"
    if t == "switch_default_first":
        return S + "var x=0;" + "x=x+1;" * n + " switch (5) { default: x=x+7; case 0: x=x+0 } x"
    if t == "while_continue_labelled":
        return S + "var x=0,i=0; outer: while (i<2) { i=i+1; var j=0; while (j<1) { j=j+1; " + "x=x+1;" * n + " continue outer } } x"
    if t in ("chain_addsub", "chain_addsub_fn"):
        e = "1000" + "".join((" + %d" if i % 2 == 1 else " - %d") % i for i in range(1, n + 1))
        return S + (e if t == "chain_addsub" else "function f(){ return %s } f()" % e)
    if t == "chain_mulsub":
        return S + "function f(a){ return a" + " * 1" * n + " - 42 } f(84)"
    if t == "chain_cmp":
        return S + "('' + " + " + ".join(str(i % 10) for i in range(n + 1)) + ") < '~'"
    if t.startswith("hoist_"):
        fill = "".join("x = x + 1;" for _ in range(n))
        if t == "hoist_call":
            return S + "var x = 0; x = f();" + fill + " function f(){ return 100000 } x"
        if t == "hoist_call_names":
            return S + "var x = f();" + "".join("var u%d = %d; x = x + 1;" % (i, i % 7) for i in range(n)) + " function f(){ return 100000 } x"
        if t == "hoist_in_fn":
            return S + "function outer(){ var x = 0; x = f();" + fill + " function f(){ return 100000 } return x } outer()"
        if t == "hoist_redecl":
            return S + "var x = 0; x = g(); function g(){ return 100000 } " + fill + " function g(){ return 200000 } x"
        if t == "hoist_typeof":
            return S + "var x = (typeof h === 'function') ? h() : -1;" + fill + " function h(){ return 500000 } x"
        if t == "hoist_var":
            return S + "var x = 0; var r = (v === undefined) ? 'hoisted' : 'bound:' + v;" + fill + " var v = 3; r"
    if t.startswith("swd_"):
        kind = t[4:]
        d = {"true": "true", "false": "false", "str1": "'1'", "one": "1", "negzero": "-0", "nan": "NaN", "null": "null", "undef": "undefined",
             "float1": "2 / 2", "strs1": "'s1'", "cmp": "1 < 2"}[kind]
        cases = "".join("case %d: return 'c%d';" % (i, i) for i in range(n)) + "".join("case 's%d': return 't%d';" % (i, i) for i in range(3))
        return S + "function pick(d){ switch (d) { %s default: return 'none'; } } pick(%s)" % (cases, d)
    if t.startswith("mx_"):
        _, form, k, where = t.split("_", 3)
        k = int(k)

        def elem(j):
            kind = (j + k) % 8
            i = j % 7          # few distinct constants: the literal's length is the only thing that grows
            return [str(i), "'s%d'" % i, "[%d]" % i, "{v:%d}" % i, "id(%d)" % i, "function(){return %d}" % i,
                    "(T?%d:-1)" % i, "[%d,[%d]][1]" % (i, i)][kind]
        pre = (S + "var T = true; function id(x){ return x } "
               "function val(e){ if (typeof e==='number') return e; if (typeof e==='string') return +e.slice(1); "
               "if (typeof e==='function') return e(); if (e && e.length===1) return e[0]; return e.v } "
               "function count(a, n){ var ok=0; if (a.length!==n) return -a.length; for (var i=0;i<n;i++) if (val(a[i])===i%%7) ok++; return ok } "
               "function cargs(){ return count(arguments, %d) } function CA(){ this.r = count(arguments, %d) } " % (n, n))
        els = [elem(i) for i in range(n)]
        if form == "array":
            e = "count([" + ",".join(els) + "], %d)" % n
        elif form == "object":
            e = "(function(o){ var ks = Object.keys(o); var a = []; for (var i=0;i<ks.length;i++) { if (ks[i] !== 'k'+i) return -1000-i; a.push(o[ks[i]]) } return count(a, %d) })({" % n + \
                ",".join("k%d:%s" % (i, x) for i, x in enumerate(els)) + "})"
        elif form == "args":
            e = "cargs(" + ",".join(els) + ")"
        elif form == "newargs":
            e = "new CA(" + ",".join(els) + ").r"
        else:
            raise ValueError(form)
        W = {"program": "%s", "fdecl": "function f(){ return %s } f()", "callback": "[1].map(function(){ return %s })[0]"}[where]
        return pre + (W % e)
    if t.startswith("w_"):
        _, payload, wrap = t.split("_", 2)
        pre = S + "function g(){ return arguments.length } function G(){ this.n = arguments.length } "
        if payload == "consts":
            e = "(" + ",".join("'c%d'" % i for i in range(n)) + ")"
        elif payload == "array":
            e = "[" + ",".join(str(m7(i)) for i in range(n)) + "].length"
        elif payload == "object":
            e = "Object.keys({" + ",".join("k%d:%d" % (i, m7(i)) for i in range(n)) + "}).length"
        elif payload == "args":
            e = "g(" + ",".join("1" for _ in range(n)) + ")"
        elif payload == "newargs":
            e = "new G(" + ",".join("1" for _ in range(n)) + ").n"
        else:
            raise ValueError(payload)
        W = {
            "program": "%s",
            "fdecl": "function f(){ return %s } f()",
            "fexpr": "var f = function(){ return %s }; f()",
            "arrow_block": "var f = () => { return %s }; f()",
            "arrow_expr": "var f = () => %s; f()",
            "getter": "var o = { get v(){ return %s } }; o.v",
            "setter": "var got; var o = { set v(z){ got = %s } }; o.v = 1; got",
            "callback": "[1].map(function(){ return %s })[0]",
            "nested": "function outer(){ var inner = function(){ return %s }; return inner() } outer()",
            "arrow_in_fn": "function outer(){ var inner = () => %s; return inner() } outer()",
            "fn_in_arrow": "var outer = () => { var inner = function(){ return %s }; return inner() }; outer()",
            "ctor": "function C(){ this.v = %s } new C().v",
            "sortcmp": "var got; [2,1].sort(function(a,b){ got = %s; return a-b }); got",
        }[wrap]
        return pre + (W % e)
    raise ValueError(t)


_TABLES = None


def driver(case, api):
    global _TABLES
    if case.get("kind") == "tables":
        try:
            t = bytecode.decoder_tables()
        except Exception as e:
            # the interpreter loops no longer have the shape the extraction knows (e.g. the operand decoding was moved into a
            # helper): the static half is skipped and said so in the evidence; the dynamic sweep is judged as always
            return {"id": case["id"], "tables": None, "why": "%s: %s" % (type(e).__name__, str(e)[:200])}
        return {"id": case["id"], "tables": {"exec": t["_execute"], "cbs": [t["others"][k] for k in sorted(t["others"])],
                                             "cbnames": sorted(t["others"]), "emit": t["emitter"]}}
    src = render(case["t"], case["n"])
    ctx = api.new_context(time_limit=case.get("time_limit", 60.0))
    out = api.eval_outcome(ctx, src, wall=300.0, cap=50_000_000)
    started = len(api.log) > 0
    res = {"id": case["id"], "t": case["t"], "n": case["n"], "started": started,
           "msglen": len(out.get("msg", "")), "srclen": len(src)}
    res["out"] = {"o": out["o"], "v": out["v"]} if out["o"] == "value" else \
        {"o": out["o"], "v": {"k": "undef"}, "info": out.get("type", "") + ":" + out.get("where", "") + ":" + out.get("msg", "")[:120]}
    # bytecode facts (only when the program compiles)
    if case.get("export"):
        try:
            if _TABLES is None:
                _TABLES = bytecode.decoder_tables()      # raises when the tables cannot be extracted: no export
            fs = bytecode.export(src, _TABLES, with_index=False)
            res["funcs"] = [{"fid": f["fid"], "nbytes": f["nbytes"], "starts": [i["at"] for i in f["instrs"]],
                             "jumps": [{"at": i["at"], "arg": i["arg"]} for i in f["instrs"] if i["len"] == 3]}
                            for f in fs]
        except Exception as e:          # refused programs have no bytecode
            res["funcs"] = []
            res["export_error"] = type(e).__name__
    return res
