-------------------------------- MODULE C12 --------------------------------
(* C12 - a context keeps its own state: persistent, isolated, usable after errors.       *)
(*   ContextModel.tla : the state machine and its model-checked properties.              *)
(*   Enum  (S->C)     : TLC enumerates every history of exactly L events over NC         *)
(*                      contexts (every shorter history is a prefix of one of them and   *)
(*                      is probed step by step); -simulate draws long random histories.  *)
(*   Trace (C->S)     : total trace specification over the ndjson traces the driver      *)
(*                      recorded: every event is replayed through ContextModel!RunEvent, *)
(*                      the whole projected state of every context is compared after     *)
(*                      every step; a mismatch records clause + index, adopts the        *)
(*                      observed state and keeps going.                                  *)
EXTENDS ContextModel, Json, IOUtils

\* ---------------- alphabets ---------------------------------------------------------------------
\* the core alphabet drops the events that the per-step probe already performs (get, read), three of the
\* five built-in targets, the nested limit error and the re-entrant eval
CoreKinds == {"defvar", "deffun", "assign", "delete", "mut_objproto", "mut_arrproto",
              "throw", "loop", "recurse", "syntax", "ieval", "newfn", "set"}
AlphabetName == IF "ALPHABET" \in DOMAIN IOEnv THEN IOEnv.ALPHABET ELSE "full"
Alphabet == IF AlphabetName = "core" THEN CoreKinds ELSE Kinds

VARIABLES hist,     \* Enum: the history so far, a sequence of [c, k]
          tid,      \* Trace: index of the trace being validated
          tl,       \* Trace: next event
          tok,      \* Trace: no mismatch so far
          twhy,     \* Trace: first mismatch [at, clause, c, exp]
          tdevs     \* Trace: named deviations (known findings) that explained an observation
vars == <<cmvars, hist, tid, tl, tok, twhy, tdevs>>
NoWhy == [at |-> 0, clause |-> "", c |-> 0, exp |-> <<>>]
\* the limits of the contexts are part of the specification: the driver reads them from this line
ASSUME PrintT(ToJson([limits |-> [c \in 1..3 |-> LimitsOf(c)]]))

\* ---------------- Enum --------------------------------------------------------------------------
\* the value written by event number n is n: every write of a history is distinguishable
EnumInit == /\ ctx = [c \in Ctxs |-> NewCtx(LimitsOf(c))] /\ twin = <<>> /\ pc = Idle
            /\ evn = 0 /\ actor = 0 /\ last = "none"
            /\ hist = <<>> /\ tid = 0 /\ tl = 0 /\ tok = TRUE /\ twhy = NoWhy /\ tdevs = {}
EnumExtend == /\ evn < MAXN
              /\ \E c \in Ctxs : \E kd \in Alphabet :
                   /\ Guard(kd, ctx[c])
                   /\ ctx' = [ctx EXCEPT ![c] = RunEvent(ctx[c], kd, evn + 1).st]
                   /\ evn' = evn + 1 /\ actor' = c
                   /\ hist' = Append(hist, [c |-> c, k |-> kd])
                   /\ UNCHANGED <<twin, pc, last, tid, tl, tok, twhy, tdevs>>
\* a complete history is printed exactly once and not extended.  (No CONSTRAINT is used for this: TLC's
\* simulator retries for ever when every successor of a state violates a constraint.)
EnumFinish == /\ evn = MAXN /\ tl = 0
              /\ PrintT(ToJson([h |-> hist]))
              /\ tl' = 1
              /\ UNCHANGED <<cmvars, hist, tid, tok, twhy, tdevs>>
EnumNext == EnumExtend \/ EnumFinish

\* ---------------- Trace -------------------------------------------------------------------------
\* one line per history: [tid, nc, ev: <<[c, k, x, o, r, pr: <<projection of ctx 1, ...>>]>>]
Traces == ndJsonDeserialize(IOEnv.OBS_FILE)
PtrIx == 7 + NT
ExtraIx == 8 + NT

\* named deviations (known findings, DESIGN 2.3): the as-is rule of the engine, exactly where it applies.
\* Dev_ReentrantPointer: Context.eval ends with `self._current_vm = None` instead of restoring the pointer of the
\*   evaluation that is still running, so after a re-entrant eval the outer evaluation reports "pointer not set"
\*   (result 0 of the reenter snippet).  State effects are as specified.
Deviation(ev, pred) ==
  IF ev.k = "reenter" /\ ev.o = "value" /\ pred.r = 1 /\ ev.r = 0 THEN "Dev_ReentrantPointer" ELSE ""

\* first failing clause of one event, or "" : pre = model state before, pred = RunEvent's prediction
Clause(ev, pre, pred, nc) ==
  LET post(c) == IF c = ev.c THEN pred.st ELSE pre[c]
      bad(c)  == ev.pr[c] # Observe(post(c))
  IN IF ev.o \notin pred.os THEN [clause |-> "outcome", c |-> ev.c]
     ELSE IF pred.r # DontCare /\ ev.r # pred.r /\ Deviation(ev, pred) = "" THEN [clause |-> "result", c |-> ev.c]
     ELSE IF \E c \in 1..nc : ev.pr[c][PtrIx] # 1
          THEN [clause |-> "pointer", c |-> CHOOSE c \in 1..nc : ev.pr[c][PtrIx] # 1]
     ELSE IF \E c \in 1..nc : ev.pr[c][ExtraIx] # 0
          THEN [clause |-> "leak", c |-> CHOOSE c \in 1..nc : ev.pr[c][ExtraIx] # 0]
     ELSE IF \E c \in 1..nc : c # ev.c /\ bad(c)
          THEN [clause |-> "frame", c |-> CHOOSE c \in 1..nc : c # ev.c /\ bad(c)]
     ELSE IF bad(ev.c) THEN [clause |-> "state", c |-> ev.c]
     ELSE [clause |-> "", c |-> 0]

TraceInit == /\ tid \in 1..Len(Traces)
             /\ ctx = [c \in 1..Traces[tid].nc |-> NewCtx(LimitsOf(c))]
             /\ twin = <<>> /\ pc = Idle /\ evn = 0 /\ actor = 0 /\ last = "none" /\ hist = <<>>
             /\ tl = 1 /\ tok = TRUE /\ twhy = NoWhy /\ tdevs = {}
TraceNext ==
  /\ tl <= Len(Traces[tid].ev)
  /\ LET tr == Traces[tid]
         ev == tr.ev[tl]
         enabled == ev.k \in Kinds /\ ev.c \in 1..tr.nc /\ Guard(ev.k, ctx[ev.c])
     IN IF ~enabled
        THEN \* the model cannot take this event at all: the generator left the specification (machinery)
             /\ tok' = FALSE
             /\ twhy' = IF tok THEN [at |-> tl, clause |-> "unsupported", c |-> ev.c, exp |-> <<>>] ELSE twhy
             /\ ctx' = [c \in 1..tr.nc |-> Adopt(ctx[c], ev.pr[c])]
             /\ UNCHANGED <<evn, actor, last, tdevs>>
        ELSE LET pred == RunEvent(ctx[ev.c], ev.k, ev.x)
                 cl == Clause(ev, ctx, pred, tr.nc)
                 good == cl.clause = ""
             IN /\ ctx' = IF good THEN [ctx EXCEPT ![ev.c] = pred.st]
                          ELSE [c \in 1..tr.nc |-> Adopt(ctx[c], ev.pr[c])]       \* resync, keep going
                /\ tok' = (tok /\ good)
                /\ twhy' = IF tok /\ ~good
                           THEN [at |-> tl, clause |-> cl.clause, c |-> cl.c,
                                 exp |-> Observe(IF cl.c = ev.c THEN pred.st ELSE ctx[cl.c])]
                           ELSE twhy
                /\ tdevs' = IF Deviation(ev, pred) # "" THEN tdevs \cup {Deviation(ev, pred)} ELSE tdevs
                /\ evn' = evn + 1 /\ actor' = ev.c /\ last' = ev.o
  /\ tl' = tl + 1
  /\ UNCHANGED <<twin, pc, hist, tid>>
\* CONSTRAINT: a fully consumed trace prints its verdict
TraceEmit == tl <= Len(Traces[tid].ev)
             \/ PrintT(ToJson([tid |-> Traces[tid].tid, ok |-> tok, n |-> tl - 1, why |-> twhy,
                                devs |-> IF tdevs = {} THEN "" ELSE CHOOSE d \in tdevs : TRUE]))
\* invariants evaluated on every state of every observed execution
TraceTypeOK ==
  \A c \in DOMAIN ctx : /\ \A nm \in Names : ctx[c].globals[nm].k \in {"absent", "num", "fn"}
                        /\ \A j \in 1..NT : ctx[c].touched[j] \in Nat
                        /\ ~ctx[c].ptr /\ ctx[c].depth = 0 /\ ctx[c].limits = LimitsOf(c)
=============================================================================
