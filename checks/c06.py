"""C06 - operators and conversions on primitive values follow ECMAScript (DESIGN 5/C06)."""
import json, random
from harness import tlc, engine, wire
from harness.common import Machinery

ENUM_CFG = "INIT EnumInit\nNEXT EnumNext\nCONSTRAINT EnumEmit\nINVARIANT LawsHold\nCHECK_DEADLOCK FALSE\n"
JUDGE_CFG = "INIT JudgeInit\nNEXT JudgeNext\nCHECK_DEADLOCK FALSE\n"
UNDEF = {"k": "undef"}


def int_valued(w):
    if w.get("k") != "num":
        return False
    x = wire.words_dbl(w["w"])
    return x == x and abs(x) <= 2 ** 53 and x == int(x) and not (x == 0 and str(x)[0] == "-")


def expand(records):
    """Flatten what TLC printed (grid, one record per operand / per operand pair) into cases. No space is defined here:
    which operands, which operators, which target forms and which spellings of a literal go together is in the records."""
    grid = [r for r in records if r.get("kind") == "grid"]
    if len(grid) != 1:
        raise Machinery("enumeration printed %d grid records" % len(grid))
    vals = grid[0]["vals"]
    lits = grid[0]["lits"]                      # per value: its spellings as source text [{sp, t}]
    val = lambda i: vals[i - 1]
    spell = lambda i, k: lits[i - 1][k - 1]["t"]
    cases, seen = [], set()

    def add(**c):
        base = dict(f=c["f"], op=c.get("op", ""), tgt=c.get("tgt", ""), pre=bool(c.get("pre", False)),
                    a=c.get("a", UNDEF), b=c.get("b", UNDEF), c=c.get("c", UNDEF),
                    la=c.get("la", []), lb=c.get("lb", []), lc=c.get("lc", []), intrep=False, tree=c.get("tree", {"t": "none"}))
        k = json.dumps(base, sort_keys=True)
        if k in seen:
            return
        seen.add(k)
        base["id"] = len(cases)
        base["fam"] = c.get("fam", "")                            # for the space report only (not part of the case)
        cases.append(base)
        written = base["la"] or base["lb"] or base["lc"]          # a literal decides its own representation
        if base["f"] == "se":                                     # host floats / written literals (host ints) are its two variants
            return
        if not written and any(int_valued(base[x]) for x in ("a", "b", "c")):
            d = dict(base)
            d["intrep"] = True
            d["id"] = len(cases)
            cases.append(d)

    def fill(tr, lit):
        """a side-effect tree as printed (grid indices at the leaves) -> the same tree with the values (and, if lit, the
        first spelling of each value) at the leaves"""
        if tr["t"] == "lit":
            return {"t": "lit", "v": val(tr["gi"]), "ir": False, "lt": spell(tr["gi"], 1) if lit else []}
        return {k: (fill(v, lit) if isinstance(v, dict) else v) for k, v in tr.items()}

    for r in records:
        if r.get("kind") == "se":
            a = val(r["a"])
            for trees, tgts in ((r["cm"], r["cmtargets"]), (r["ex"], r["extargets"])):
                for tr in trees:
                    for tgt in tgts:
                        add(f="se", tgt=tgt, a=a, tree=fill(tr, False), fam="se")
                        if r["lit"]:
                            add(f="se", tgt=tgt, a=a, la=spell(r["a"], 1), tree=fill(tr, True), fam="se")
        elif r.get("kind") == "single":
            a = val(r["a"])
            forms = [[]] + [spell(r["a"], k) for k in r["lit"]]
            ca, cb = r["cond"]["a"], r["cond"]["b"]
            for la in forms:
                for op in r["un"]:
                    for tgt in r["untargets"]:
                        add(f="un", op=op, tgt=tgt, a=a, la=la)
                for op in r["upd"]:
                    for tgt in r["targets"]:
                        for pre in (True, False):
                            add(f="upd", op=op, tgt=tgt, pre=pre, a=a, la=la)
                if la:
                    add(f="cond", c=a, a=val(ca), b=val(cb), lc=la, la=spell(ca, 1), lb=spell(cb, 1))
                else:
                    add(f="cond", c=a, a=val(ca), b=val(cb))
        elif r.get("kind") == "pair":
            a, b = val(r["a"]), val(r["b"])
            fam = r.get("fam", "")
            for op in r["bin"]:
                add(f="bin", op=op, a=a, b=b, fam=fam)
            for op in r["cmpd"]:
                for tgt in r["targets"]:
                    add(f="cmpd", op=op, tgt=tgt, a=a, b=b, fam=fam)
            if r["cmpd"]:
                for tgt in r["targets"]:
                    add(f="asg", tgt=tgt, a=a, b=b, fam=fam)
            for cb in r["lit"]:
                la, lb = spell(r["a"], cb["sa"]), spell(r["b"], cb["sb"])
                for op in cb["bin"]:
                    add(f="bin", op=op, a=a, b=b, la=la, lb=lb, fam=fam)
                for op in cb["cmpd"]:
                    for tgt in r["targets"]:
                        add(f="cmpd", op=op, tgt=tgt, a=a, b=b, la=la, lb=lb, fam=fam)
                if cb["cmpd"]:
                    for tgt in r["targets"]:
                        add(f="asg", tgt=tgt, a=a, b=b, la=la, lb=lb, fam=fam)
    ng, nu = grid[0]["ngrid"], grid[0]["nuni"]
    grid[0]["uni_active"] = sum(1 for r in records if r.get("kind") == "single" and ng < r["a"] <= ng + nu)
    grid[0]["pow_pairs"] = sum(1 for r in records if r.get("kind") == "pair" and r.get("fam") == "pow")
    return grid[0], cases


BIN_TREE = ["+", "-", "*", "/", "%", "&", "|", "^", "<<", ">>", ">>>", "<", "<=", ">", ">=", "==", "!=", "===", "!==", "&&", "||", ","]
UN_TREE = ["neg", "pos", "!", "~", "typeof", "void"]


def random_tree(rnd, vals, lits, idxs, depth):
    """leaves: a grid value, handed over as a host value (with a representation flag) or written as one of its spellings"""
    if depth == 0 or rnd.random() < 0.15:
        i = rnd.choice(idxs)
        v = vals[i]
        if rnd.random() < 0.4:
            return {"t": "lit", "v": v, "ir": False, "lt": rnd.choice(lits[i])["t"]}
        return {"t": "lit", "v": v, "ir": bool(int_valued(v) and rnd.random() < 0.5), "lt": []}
    p = rnd.random()
    sub = lambda: random_tree(rnd, vals, lits, idxs, depth - 1)
    if p < 0.7:
        return {"t": "bin", "op": rnd.choice(BIN_TREE), "l": sub(), "r": sub()}
    if p < 0.9:
        return {"t": "un", "op": rnd.choice(UN_TREE), "x": sub()}
    return {"t": "cond", "c": sub(), "x": sub(), "y": sub()}


def run_tlc(*a, **kw):
    """tlc.run, repeated once when TLC trips over its own exit race (IllegalStateException: Shutdown in progress
    after 'Model checking completed'): a JVM quirk, not a verdict."""
    res = tlc.run(*a, **kw)
    tries = 0
    while tries < 3 and res.rc != 0 and not res.violated and ("Shutdown in progress" in res.stdout or res.rc in (137, -9)):
        tries += 1                       # killed from outside (OOM killer, a stray pkill) or TLC's exit race: run it again
        res = tlc.run(*a, **kw)
    return res


def judge_batched(pid, module, recs, cfg, per_jvm=4000, heap="1500m", timeout=2400):
    """Sharded judge with a bounded footprint: at most NPROC single-worker JVMs of `heap` at a time, each reading
    `per_jvm` records (tlc.judge starts 16 JVMs of 3 GB each on everything at once; several checks running side by
    side on this machine were OOM-killed that way).  Returns (verdict records, distinct states, generated states)."""
    import os
    from concurrent.futures import ThreadPoolExecutor
    from harness.common import workdir, write_ndjson, NPROC
    wd = workdir(pid, "judge_" + module)
    # shards of equal cost: a multiple of NPROC shards (whole waves), records dealt round-robin (neighbouring records are
    # alike: a slice of written-literal or extreme-magnitude cases costs several times the average)
    nsh = max(1, -(-len(recs) // per_jvm))
    if nsh > 1:
        nsh = -(-nsh // NPROC) * NPROC
    parts = [p for p in (recs[k::nsh] for k in range(nsh)) if p]

    def one(k):
        path = os.path.join(wd, "obs_%d.ndjson" % k)
        write_ndjson(path, parts[k])
        r = run_tlc(pid, module, cfg, env={"OBS_FILE": path, "JAVA_TOOL_OPTIONS": "-XX:CICompilerCount=2 -XX:ParallelGCThreads=2"},
                    workers=1, timeout=timeout, tag="judge_%s_%d" % (module, k), heap=heap)
        if r.errors or r.rc != 0:
            raise Machinery("judge %s shard %d failed rc=%s:\n%s" % (module, k, r.rc, r.stdout[-3000:]))
        os.unlink(path)
        return r

    with ThreadPoolExecutor(max_workers=NPROC) as ex:
        rs = list(ex.map(one, range(len(parts))))
    out, st, tr = [], 0, 0
    for r in rs:
        out.extend(r.records)
        st += r.distinct
        tr += r.generated
    return out, st, tr


def rerun_hangs(pid, cases, results, driver):
    """A case that ran into the wall-clock watchdog (not the step cap) is run again, alone and with a generous
    watchdog: on a loaded machine a 5 s budget is not evidence that the engine hangs."""
    slow = [r["id"] for r in results if r["out"].get("o") == "hang" and "wall" in str(r["out"].get("why", ""))]
    if not slow:
        return results
    byid = {c["id"]: c for c in cases}
    again = []
    for i in slow:
        c = dict(byid[i])
        c["wall"] = 60.0
        again.append(c)
    redo = {r["id"]: r for r in engine.run_cases(pid, again, driver=driver, procs=4, tag="eng_retry")}
    return [redo.get(r["id"], r) for r in results]


def run(rep):
    import time
    quick = rep.tier == "quick"
    t_0 = time.time()
    # 1. model-check the reference's own laws while TLC enumerates the case space
    res = run_tlc(rep.pid, "C06", ENUM_CFG, env={"TIER": rep.tier}, timeout=1500, tag="enum", heap="4g")
    rep.add_tlc("C06.Enum+Laws", res)
    grid, cases = expand(res.records)
    vals, lits, ngrid = grid["vals"], grid["lits"], grid["ngrid"]
    uni = set(json.dumps(v) for v in vals[ngrid:ngrid + grid["nuni"]])
    if len(cases) < 5000:
        raise Machinery("enumeration produced only %d cases" % len(cases))
    old = [c for c in cases if not c["fam"]]
    nlit = sum(1 for c in old if c["la"] or c["lb"] or c["lc"])
    nuni = sum(1 for c in old if any(x in uni for x in (json.dumps(c["a"]), json.dumps(c["b"]), json.dumps(c["c"]))))
    npow = sum(1 for c in cases if c["fam"] == "pow")
    nse = sum(1 for c in cases if c["fam"] == "se")
    if not npow or not nse:
        raise Machinery("a family is missing from the enumeration: pow %d, side effects %d" % (npow, nse))
    rep.spaces.append({"space": "operator x operand grid^2 x target form x number representation (TLC-enumerated)",
                       "grid": ngrid, "cases": len(old) - nlit - nuni, "complete": True})
    rep.spaces.append({"space": "Number::exponentiate table: base class x exponent class under ** and **= (TLC-enumerated)",
                       "pairs": grid["pow_pairs"], "cases": npow, "complete": True})
    rep.spaces.append({"space": "operands that change the assignment target: t op= R, t op R, R op t, R op R, conditionals, "
                                "R in {++t t++ --t t--, t = b, t += b, a call storing b in t} x target form (TLC-enumerated)",
                       "cases": nse, "complete": True})
    rep.spaces.append({"space": "the same with the operands written as source literals, every spelling (TLC-enumerated)",
                       "cases": nlit, "complete": True})
    rep.spaces.append({"space": "strings with a look-alike character in every position of the numeric-string grammar x operators (TLC-enumerated)",
                       "strings": grid["uni_active"], "strings_all_tiers": grid["nuni"], "cases": nuni, "complete": True})
    # seeded random expression trees over the grid (spec-level JSON, judged by TLC)
    rnd = random.Random(rep.seed)
    ntrees = 1500 if quick else 30000
    trees = []
    core, every = list(range(31)), list(range(ngrid + grid["nuni"]))
    for i in range(ntrees):
        t = random_tree(rnd, vals, lits, core if rnd.random() < 0.7 else every, rnd.choice([1, 2, 3, 3, 4]))
        trees.append({"id": len(cases) + i, "f": "tree", "op": "", "tgt": "", "pre": False, "a": UNDEF, "b": UNDEF, "c": UNDEF,
                      "la": [], "lb": [], "lc": [], "intrep": False, "tree": t, "fam": ""})
    rep.spaces.append({"space": "random expression trees of depth <= 4 over the grid (seeded)", "cases": len(trees), "complete": False})
    allc = cases + trees
    t_1 = time.time()
    # 2. replay into the engine
    results = engine.run_cases(rep.pid, allc, driver="checks.c06_driver:run_case")
    results = rerun_hangs(rep.pid, allc, results, "checks.c06_driver:run_case")
    byid = {c["id"]: c for c in allc}
    recs = []
    for r in results:
        c = byid[r["id"]]
        rec = dict(c)
        rec["out"] = normal(r["out"], c)
        recs.append(rec)
    if len(recs) != len(allc):
        raise Machinery("engine returned %d results for %d cases" % (len(recs), len(allc)))
    # 3. judge in TLC
    t_2 = time.time()
    verdicts, st, tr = judge_batched(rep.pid, "C06", recs, JUDGE_CFG)
    rep.notes["phase_wall_s"] = {"enumerate+laws": round(t_1 - t_0, 1), "engine": round(t_2 - t_1, 1), "judge": round(time.time() - t_2, 1)}
    rep.add_judge(len(recs), st, tr)
    rep.evaluations = len(recs)
    got = {v["id"]: v for v in verdicts}
    if len(got) != len(recs):
        raise Machinery("judge returned %d verdicts for %d records" % (len(got), len(recs)))
    rmap = {r["id"]: r for r in recs}
    counts = {}
    for i, v in sorted(got.items()):
        r = rmap[i]
        counts[v["v"]] = counts.get(v["v"], 0) + 1
        if v["v"] == "pass":
            if len(rep.samples) < 5 and i % 1499 == 0:
                rep.sample({"case": show_case(r), "engine": show_out(r["out"]), "verdict": "pass"})
            continue
        if v["v"] != "mismatch":
            raise Machinery("judge verdict %r on case %s" % (v["v"], show_case(r)))
        rep.mismatch(show_case(r), {"expected": show_exp(v["exp"]), "actual": show_out(r["out"]), "case": slim(r),
                                    "exp_wire": v["exp"]}, dev=v.get("dev", ""))
    rep.exhaustive = True
    rep.notes["verdict_counts"] = counts
    rep.notes["rule"] = "distinct (form, operator, target, operands, number representation) tuples; every one is judged"
    rep.assumptions += ["JsOps/Dbl/JsConv transcribe ECMA-262 7.1, 7.2, 6.1.6.1, 13.4-13.15 for primitives",
                        "Number::exponentiate is judged at the special points and where the power is exactly representable",
                        "strings outside the BMP are not generated (code-point strings are finding F-C16-codepoints)"]


def normal(out, c):
    if out["o"] == "value":
        after = out["after"] if c["f"] in ("upd", "cmpd", "asg", "se") else UNDEF
        return {"o": "value", "res": out["res"], "after": after, "type": "", "where": ""}
    return {"o": out["o"], "res": UNDEF, "after": UNDEF, "type": out.get("type", out.get("name", "")), "where": out.get("where", "")}


def show_tree(t):
    from checks.c06_driver import JS_OP
    k = t["t"]
    if k == "lit":
        if t.get("lt"):
            return "`" + wire.from_units(t["lt"]) + "`"
        return wire.show(t["v"]) + ("i" if t.get("ir") else "")
    if k == "un":
        return "(" + JS_OP.get(t["op"], t["op"]) + " " + show_tree(t["x"]) + ")"
    if k == "bin":
        return "(" + show_tree(t["l"]) + " " + t["op"] + " " + show_tree(t["r"]) + ")"
    if k == "var":
        return "t"
    if k == "upd":
        return t["op"] + "t" if t["pre"] else "t" + t["op"]
    if k == "asg":
        return "(t = " + show_tree(t["x"]) + ")"
    if k == "cmpd":
        return "(t " + t["op"] + "= " + show_tree(t["x"]) + ")"
    if k == "call":
        return "store(" + show_tree(t["w"]) + ", returns " + show_tree(t["x"]) + ")"
    return "(" + show_tree(t["c"]) + " ? " + show_tree(t["x"]) + " : " + show_tree(t["y"]) + ")"


def show_case(c):
    f = c["f"]
    ir = " [int repr]" if c.get("intrep") else ""
    if f == "tree":
        return "tree " + show_tree(c["tree"])
    if f == "se":
        t0 = "`" + wire.from_units(c["la"]) + "`" if c.get("la") else wire.show(c["a"])
        return "%s with t=%s (%s)" % (show_tree(c["tree"]), t0, c["tgt"])

    def sh(nm):
        if c.get("l" + nm):
            return "`" + wire.from_units(c["l" + nm]) + "`"
        return wire.show(c[nm])
    if f == "bin":
        return "%s %s %s%s" % (sh("a"), c["op"], sh("b"), ir)
    if f == "un":
        return "%s %s (%s)%s" % (c["op"], sh("a"), c["tgt"], ir)
    if f == "upd":
        return ("%s%s" if c["pre"] else "%.0s%s%s") % ((c["op"], "t") if c["pre"] else ("", "t", c["op"])) + " with t=%s (%s)%s" % (sh("a"), c["tgt"], ir)
    if f == "cmpd":
        return "t %s= %s with t=%s (%s)%s" % (c["op"], sh("b"), sh("a"), c["tgt"], ir)
    if f == "asg":
        return "t = %s with t=%s (%s)%s" % (sh("b"), sh("a"), c["tgt"], ir)
    return "%s ? %s : %s%s" % (sh("c"), sh("a"), sh("b"), ir)


def show_out(o):
    if o["o"] == "value":
        return {"res": wire.show(o["res"]), "after": wire.show(o["after"])}
    return {"o": o["o"], "cls": o.get("type", "") + "@" + o.get("where", "")}


def show_exp(e):
    def sh(v):
        return "<approx sign %s>" % v.get("s") if v.get("k") == "approx" else wire.show(v)
    return {"res": sh(e["res"]), "after": sh(e["after"])}


def slim(r):
    d = {k: v for k, v in r.items() if k in ("f", "op", "tgt", "pre", "intrep")}
    d["written"] = bool(r.get("la") or r.get("lb") or r.get("lc"))
    return d
