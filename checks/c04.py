"""C04 - eval fails only with JSError: positioned JSSyntaxError or a runtime JSError (DESIGN 5/C04, notes/C04.md)."""
import glob, json, os, random
from harness import tlc, engine
from harness.common import Machinery, REPO
from checks.c04_driver import RECEIVERS, ARG_PY
from checks.c13 import judge_retry, tlc_run_retry

MC_EMIT_CFG = "INIT McInit\nNEXT McNext\nCONSTRAINT McEmit\nINVARIANT McLaws\nINVARIANT McPrefix\nCHECK_DEADLOCK FALSE\n"
MC_CFG = "INIT McInit\nNEXT McNext\nINVARIANT McLaws\nINVARIANT McPrefix\nCHECK_DEADLOCK FALSE\n"
TOK_CFG = "INIT TokInit\nNEXT TokNext\nCONSTRAINT TokEmit\nINVARIANT TokLaw\nCHECK_DEADLOCK FALSE\n"
FAM_CFG = "INIT FamInit\nNEXT FamNext\nCONSTRAINT FamEmit\nINVARIANT FamLaw\nCHECK_DEADLOCK FALSE\n"
GRID_CFG = "INIT GridInit\nNEXT GridNext\nCONSTRAINT GridEmit\nINVARIANT GridLaw\nCHECK_DEADLOCK FALSE\n"
JUDGE_CFG = "INIT JudgeInit\nNEXT JudgeNext\nCHECK_DEADLOCK FALSE\n"
DRIVER = "checks.c04_driver:driver"
FAM_KINDS = ("long", "esc", "stmt", "lt", "nest", "chain", "scope")

KEYWORDS = ["var", "function", "return", "if", "else", "while", "do", "for", "in", "of", "break", "continue", "switch", "case",
            "default", "try", "catch", "finally", "throw", "new", "delete", "typeof", "instanceof", "this", "true", "false",
            "null", "void"]
PUNCT = ["(", ")", "{", "}", "[", "]", ";", ",", ".", ":", "?", "+", "-", "*", "/", "%", "**", "++", "--", "<", ">", "<=", ">=",
         "==", "!=", "===", "!==", "&&", "||", "!", "&", "|", "^", "~", "<<", ">>", ">>>", "=", "+=", "-=", "*=", "/=", "%=",
         "**=", "&=", "|=", "^=", "<<=", ">>=", ">>>=", "=>"]
OPERANDS = ["a", "b", "1", "0.5", "'s'", "/r/g", "x1"]
VOCAB = KEYWORDS + PUNCT + OPERANDS

# a program with code point escapes for the prefix corpus: every prefix ends somewhere inside "\u{...}" (valid, beyond 0x10FFFF, huge)
ESCAPE_PROGRAM = ("var s = \"a\\u{1F600}b\";\nvar t = '\\u{41}\\u{10FFFF}' + \"\\u{0}\";\n"
                  "var n = s.length + t.length;\nvar bad = function () { return eval(\"'\\\\u{110000}'\"); };\n"
                  "var big = \"\\u{FFFFFFFFFFFFFFFFFF}\";\nn")

NOLEX = {"o": "none", "line": 0, "col": 0, "steps": 0, "type": "", "where": "", "msg": ""}


def rec(i, kind, cls=(), toks=(), lex=None, out=None, lens=(0,), fname="", args=(), vk="", ds=(), lens2=(0,)):
    return {"id": i, "kind": kind, "cls": list(cls), "toks": list(toks), "lex": lex or NOLEX, "out": out or NOLEX,
            "lens": list(lens), "fname": fname, "args": list(args), "vk": vk, "ds": list(ds), "lens2": list(lens2)}


def corpus():
    files = sorted(glob.glob(os.path.join(REPO, "tests", "basic", "*.js")) + glob.glob(os.path.join(REPO, "tests", "compat", "*.js")))
    files.append(os.path.join(REPO, "tests", "test_builtin.js"))
    out = []
    for f in files:
        with open(f, encoding="utf-8") as fh:
            out.append((os.path.relpath(f, REPO), fh.read()))
    if len(out) < 10:
        raise Machinery("corpus not found under %s/tests" % REPO)
    out.append(("(synthetic) code point escapes", ESCAPE_PROGRAM))
    return out


def mutate(src, rng, others):
    """one seeded truncation / splice / mutation of a program text"""
    n = len(src)
    op = rng.randrange(8)
    i, j = sorted((rng.randrange(n + 1), rng.randrange(n + 1)))
    if op == 0:                                   # delete a span
        return src[:i] + src[j:]
    if op == 1:                                   # truncate at both ends
        return src[i:j]
    if op == 2:                                   # duplicate a span
        return src[:j] + src[i:j] + src[j:]
    if op == 3:                                   # splice in a span of another program
        o = rng.choice(others)
        a, b = sorted((rng.randrange(len(o) + 1), rng.randrange(len(o) + 1)))
        return src[:i] + o[a:min(b, a + 200)] + src[i:]
    if op == 4:                                   # replace one character
        return src[:i] + rng.choice("(){}[];,.'\"/\\*+-=<>!&|?:#@`\n \t0e9x") + src[i + 1:]
    if op == 5:                                   # insert a token of the vocabulary
        return src[:i] + " " + rng.choice(VOCAB) + " " + src[i:]
    if op == 6:                                   # delete one character
        return src[:i] + src[i + 1:]
    k = min(n, i + rng.randrange(1, 40))          # swap two adjacent spans
    return src[:i] + src[k:min(n, k + (k - i))] + src[i:k] + src[min(n, k + (k - i)):]


def run(rep):
    quick = rep.tier == "quick"
    rng = random.Random(rep.seed)
    stats = {"recs": 0, "ncalls": 0, "discovered": {}}
    maxlen = 4 if quick else 5
    # development switch: a partial run (never used by ./check; a partial run is not evidence)
    parts = set(os.environ.get("C04_PARTS", "cls,toks,fam,grid,corpus").split(","))
    partial = parts != {"cls", "toks", "fam", "grid", "corpus"}
    # the four enumeration / model-checking runs are independent: the quick tier starts them together (wall clock), the thorough
    # tier runs them one after the other (memory)
    jobs = {"mc_emit_ABCD": (MC_EMIT_CFG, {"TIER": rep.tier, "MAXLEN": maxlen}, 1700), "toks": (TOK_CFG, {"TIER": rep.tier}, 1200),
            "fam": (FAM_CFG, {"TIER": rep.tier}, 600), "grid": (GRID_CFG, {"TIER": rep.tier}, 600)}
    jobs = {k: v for k, v in jobs.items() if k.split("_")[0].replace("mc", "cls") in parts}
    futures = {}
    if quick:
        from concurrent.futures import ThreadPoolExecutor
        pool = ThreadPoolExecutor(len(jobs))
        for tag, (cfg, env, tmo) in jobs.items():
            futures[tag] = pool.submit(tlc_run_retry, rep, "C04", cfg, env=env, timeout=tmo, tag=tag)
        pool.shutdown(wait=False)

    def tlc_job(tag):
        if tag in futures:
            return futures[tag].result()
        cfg, env, tmo = jobs[tag]
        return tlc_run_retry(rep, "C04", cfg, env=env, timeout=tmo, tag=tag)
    def part_cls():
        # ---- A. LexerFSM: model checking, and enumeration of the class strings (S->C), one alphabet at a time ----------
        ncls = 0
        nud = 0
        for pf in (["ABCD"] if quick else ["A", "B", "C", "D"]):
            if len(pf) == 1:
                res = tlc_run_retry(rep, "C04", MC_EMIT_CFG, env={"TIER": rep.tier, "MAXLEN": maxlen, "PROFILE": pf}, timeout=1700, tag="mc_emit_" + pf)
            else:
                res = tlc_job("mc_emit_" + pf)
            rep.add_tlc("LexerFSM laws + enumeration, alphabet %s, length <= %d" % (pf, maxlen), res)
            cls_strings = sorted({tuple(r["cls"]) for r in res.records if r.get("kind") == "cls"})
            res.records, res.stdout = None, ""
            if len(cls_strings) < 13 ** maxlen - (12 ** maxlen if pf == "D" else 0):
                raise Machinery("only %d class strings enumerated for alphabet %s" % (len(cls_strings), pf))
            ncls += len(cls_strings)
            nud += sum(1 for c in cls_strings if "ud" in c)
            # engine + judge in chunks (memory)
            for lo in range(0, len(cls_strings), 150000):
                ecases = []
                for n, cls in enumerate(cls_strings[lo:lo + 150000]):
                    if "ud" in cls:                    # four digits of other scripts (two more concretisation tables)
                        concs = (0, 1, 2, 3) if (quick and len(cls) <= 3) else (n % 4,)
                    else:
                        concs = (0, 1) if (quick and len(cls) <= 3) else (n % 2,)
                    for conc in concs:
                        ecases.append({"kind": "cls", "cls": list(cls), "conc": conc})
                process(rep, rng, ecases, stats)
            del cls_strings
        if nud < 13 ** maxlen - 12 ** maxlen:
            raise Machinery("only %d class strings contain the class ud" % nud)
        rep.spaces.append({"space": "character-class strings over four 13-class alphabets, length <= %d (TLC-enumerated; of alphabet D "
                                    "those that contain a non-ASCII decimal digit: %d)" % (maxlen, nud), "cases": ncls, "complete": True})
        if not quick:
            # the deep run: length 6 on the comment / string / regex alphabet (no emission)
            r6 = tlc_run_retry(rep, "C04", MC_CFG, env={"TIER": rep.tier, "MAXLEN": 6, "PROFILE": "A"}, timeout=2400, tag="mc_deep")
            rep.add_tlc("LexerFSM laws, alphabet A, length <= 6", r6)
            # longer seeded strings over the same alphabets
            alph = {"A": ["sp", "nl", "g", "1", "q", "Q", "bs", "/", "*", "[", "]", "+", "#"],
                    "B": ["0", "1", "9", "x", "e", "a", "u", ".", "+", "q", "bs", "{", "}"],
                    "C": ["=", "<", ">", "!", "&", "*", "+", "/", "g", "b", "o", "0", "7"],
                    "D": ["ud", "1", "0", ".", "e", "x", "g", "q", "bs", "u", "sp", "+", "/"]}
            ecases = []
            for _ in range(150000):
                a = alph[rng.choice("ABBCD")]
                cls = [rng.choice(a) for _ in range(rng.randrange(6, 13))]
                if "&&=" in "".join(cls):
                    continue
                ecases.append({"kind": "cls", "cls": cls, "conc": rng.randrange(4 if "ud" in cls else 2)})
            rep.spaces.append({"space": "seeded class strings of length 6..12", "cases": len(ecases), "complete": False})
            process(rep, rng, ecases, stats)

    def part_toks():
        # ---- A2. token sequences over the expression vocabulary: acceptor of JsGrammar (S->C) -----------------------------
        tres = tlc_job("toks")
        rep.add_tlc("JsGrammar.ParseStmts acceptor laws + enumeration of token sequences", tres)
        seqs = sorted({tuple(r["cls"]) for r in tres.records if r.get("kind") == "toks"})
        tres.records, tres.stdout = None, ""
        if len(seqs) < 10000:
            raise Machinery("only %d token sequences" % len(seqs))
        rep.spaces.append({"space": "token sequences over 25 expression tokens, length <= %d (TLC-enumerated)" % (3 if quick else 4),
                           "cases": len(seqs), "complete": True})
        for lo in range(0, len(seqs), 200000):
            process(rep, rng, [{"kind": "src", "src": " ".join(t), "toks": list(t), "what": "token sequence"} for t in seqs[lo:lo + 200000]], stats)
        del seqs

    def part_fam():
        # ---- A3. literal / statement families: long numeric literals, braced escapes, statement head x operand, misplaced jumps --
        fres = tlc_job("fam")
        rep.add_tlc("C04.FamCases (long literals, code point escapes, statement heads x operands, jumps x places, line terminators x contexts) + FamLaw", fres)
        fams = {}
        for r in fres.records:
            if r.get("kind") in FAM_KINDS:
                fams[json.dumps(r, sort_keys=True)] = r
        fams = [fams[k] for k in sorted(fams)]
        fres.records, fres.stdout = None, ""
        nfam = {k: sum(1 for f in fams if f["kind"] == k) for k in FAM_KINDS}
        if nfam["long"] < 500 or nfam["esc"] < 200 or nfam["stmt"] < 3000 or nfam["lt"] < 80 or nfam["nest"] < 400 or nfam["chain"] < 150 or nfam["scope"] < 10000:
            raise Machinery("families incomplete: %r" % nfam)
        lens_ = sorted({f["n"] for f in fams if f["kind"] == "long"})
        rep.spaces.append({"space": "numeric literals of %d..%d digits (13 forms x %d lengths x 2 digits x 5 embeddings, TLC-enumerated)"
                                    % (lens_[0], lens_[-1], len(lens_)), "cases": nfam["long"], "complete": True})
        rep.spaces.append({"space": "code point escapes \\u{H} (20 values up to 18 F's x 12 carriers, TLC-enumerated)", "cases": nfam["esc"], "complete": True})
        rep.spaces.append({"space": "statement head x misplaced operand, jump x place (TLC-enumerated)", "cases": nfam["stmt"], "complete": True})
        rep.spaces.append({"space": "line terminator (LF CR CRLF LS PS) x lexical context (TLC-enumerated)", "cases": nfam["lt"], "complete": True})
        depths = sorted({f["n"] for f in fams if f["kind"] == "nest"})
        rep.spaces.append({"space": "nesting shape x depth (%d shapes and rotations of shapes: functions, brackets / operators, statements; depths %s; "
                                    "TLC-enumerated, front-end work counted)" % (len({f["name"] for f in fams if f["kind"] == "nest"}),
                                                                                ",".join(map(str, depths))), "cases": nfam["nest"], "complete": True})
        rep.spaces.append({"space": "flat source that nests the syntax tree: %d chain kinds x lengths %s (TLC-enumerated)"
                                    % (len({f["name"] for f in fams if f["kind"] == "chain"}), sorted({f["n"] for f in fams if f["kind"] == "chain"})),
                           "cases": nfam["chain"], "complete": True})
        rep.spaces.append({"space": "jump x scope path (break / continue / labelled / return under every path of <= %d frames: loops, switch, "
                                    "labels, blocks, function and arrow boundaries; plain hole and after a sibling loop; TLC-enumerated)"
                                    % max(f["n"] for f in fams if f["kind"] == "scope"), "cases": nfam["scope"], "complete": True})
        process(rep, rng, [{"kind": "fam", "fam": f} for f in fams], stats)

    def part_grid():
        # ---- B. the built-in grid: argument vectors enumerated by TLC, functions discovered at run time -----------------
        gres = tlc_job("grid")
        rep.add_tlc("C04.GridItems (argument vectors, receivers, operator forms, use statements) + GridLaw", gres)
        items = {}
        for r in gres.records:
            if r.get("kind") in ("vec", "recv", "op", "use", "useop", "usearg", "usefin", "huge", "allocating", "param", "compiling", "nested"):
                items[json.dumps(r, sort_keys=True)] = r
        items = [items[k] for k in sorted(items)]
        gres.records, gres.stdout = None, ""
        vgroups = {tuple(r["cls"]): set(r["to"]) for r in items if r["kind"] == "vec"}
        vecs = sorted(vgroups, key=lambda v: (len(v), v))
        rgroups = {r["pf"]: set(r["to"]) for r in items if r["kind"] == "recv"}
        ops = [{"n": r["pf"], "t": r["cls"][0], "ar": r["ar"], "g": r["to"][0]} for r in items if r["kind"] == "op"]
        use = [r["cls"][0] for r in sorted((r for r in items if r["kind"] == "use"), key=lambda r: r["ar"])]
        # (round 4) the widened use: operator forms with the result as receiver, the result as argument of every function of a
        # namespace, uncaught statements
        useops = [{"n": r["pf"], "t": r["cls"][0], "a": list(r["to"])} for r in items if r["kind"] == "useop"]
        useargs = [{"ns": r["pf"], "t": r["cls"][0]} for r in sorted((r for r in items if r["kind"] == "usearg"), key=lambda r: (r["pf"], r["ar"]))]
        usefin = [r["cls"][0] for r in sorted((r for r in items if r["kind"] == "usefin"), key=lambda r: r["ar"])]
        params = {r["pf"]: r["ar"] for r in items if r["kind"] == "param"}
        huge = sorted({r["pf"] for r in items if r["kind"] == "huge"})
        allocating = sorted({r["pf"] for r in items if r["kind"] == "allocating"})
        compiling = sorted({r["pf"] for r in items if r["kind"] == "compiling"})
        nested = sorted({r["pf"] for r in items if r["kind"] == "nested"})
        oppairs = [list(v) for v in vecs if "oppair" in vgroups[v]]
        usevecs = [list(v) for v in vecs if "use" in vgroups[v]]
        main = [v for v in vecs if "kinds" in vgroups[v]]
        classes = sorted({a for v in vecs for a in v})
        if (len(main) < 800 or len(huge) < 3 or len(allocating) < 10 or not any(len(v) == 3 for v in main) or len(ops) < 30 or len(use) < 10 or len(useops) < 25 or len(useargs) < 6 or not usefin
                or set(params) != {"HostileSize", "DeepLevels", "MutBudget"} or len(oppairs) < 50 or not compiling or not nested):
            raise Machinery("argument grid incomplete: %d vectors, %d huge classes, %d allocating names, %d operator forms, %d use statements, "
                            "parameters %r" % (len(main), len(huge), len(allocating), len(ops), len(use), params))
        if set(rgroups) != set(RECEIVERS):
            raise Machinery("receivers of the specification and of the driver differ: %r" % sorted(set(rgroups) ^ set(RECEIVERS)))
        ngroup = {g: sum(1 for v in vecs if g in vgroups[v]) for g in ("kinds", "variants", "hostile", "global", "indexed", "oppair")}
        rep.spaces.append({"space": "argument vectors of length <= 3 over %d argument classes (TLC-enumerated; by receiver group: %s)"
                                    % (len(classes), ", ".join("%s %d" % kv for kv in sorted(ngroup.items()))),
                           "cases": len(vecs), "complete": True})
        rep.spaces.append({"space": "operator forms on a receiver (TLC-enumerated templates: element read / store, length store, delete, in, "
                                    "operators, conversions, enumeration, call / construct)", "cases": len(ops), "complete": True})
        rep.notes["argument_classes"] = classes
        rep.notes["receiver_groups"] = {k: sorted(v) for k, v in sorted(rgroups.items())}
        rep.notes["use_statements"] = use
        rep.notes["use_operator_forms"] = sorted("%s(%s)" % (u["n"], ",".join(u["a"])) for u in useops)
        rep.notes["use_argument_shapes"] = sorted("%s.%s" % (u["ns"], u["t"]) for u in useargs)
        rep.notes["use_uncaught"] = usefin
        py_classes = set(ARG_PY)
        ecases = []
        nslice = 12
        for recv in sorted(RECEIVERS):
            mine = [v for v in vecs if (vgroups[v] - {"use", "oppair"}) & rgroups[recv]]
            myops = [op for op in ops if op["g"] in rgroups[recv]]
            if not mine:
                raise Machinery("receiver %s gets no vector" % recv)
            ns = nslice if len(mine) > 200 else 2
            for k in range(ns):
                for intrep in (("lit",) if quick else ("lit", "float")):
                    # the second representation only differs for the vectors that contain a number
                    vs = [list(v) for v in mine[k::ns] if intrep == "lit" or any(a in py_classes for a in v)]
                    ecases.append({"kind": "grid", "recv": recv, "vecs": vs, "allocating": allocating, "huge": huge, "intrep": intrep,
                                   "ops": myops if intrep == "lit" else [], "oppairs": oppairs, "use": use, "usevecs": usevecs,
                                   "useops": useops, "useargs": useargs, "usefin": usefin,
                                   "params": params, "compiling": compiling, "nested": nested})
        stats["nrecv"] = len(RECEIVERS)
        process(rep, rng, ecases, stats)

    def part_corpus():
        # ---- C. corpus prefixes, mutations, token soup (C->S) -------------------------------------------------------------
        files = corpus()
        ecases = []
        npre = 0
        for name, src in files:
            stride = 1 if (not quick or len(src) <= 1300) else 11
            off = rng.randrange(stride)
            for i in range(off, len(src) + 1, stride):
                ecases.append({"kind": "src", "src": src[:i], "time_limit": 0.3, "what": "prefix %s[:%d]" % (name, i)})
                npre += 1
        process(rep, rng, ecases, stats)
        ecases = []
        small = [s for _, s in files if len(s) <= (3500 if quick else 10 ** 9)]
        nmut = 1500 if quick else 30000
        for k in range(nmut):
            s = rng.choice(small)
            m = mutate(s, rng, small)
            if rng.random() < 0.3:
                m = mutate(m, rng, small)
            ecases.append({"kind": "src", "src": m, "time_limit": 0.3, "what": "mutation #%d" % k})
            # the same text with CRLF line endings: a CRLF pair is one line break for the reported position
            ecases.append({"kind": "src", "src": m.replace("\r\n", "\n").replace("\n", "\r\n"), "time_limit": 0.3, "what": "mutation #%d (CRLF)" % k})
        nsoup = 0
        for a in VOCAB:                                  # all soups of length <= 2, seeded longer ones
            ecases.append({"kind": "src", "src": a, "what": "soup"})
            for b in VOCAB:
                ecases.append({"kind": "src", "src": a + " " + b, "what": "soup"})
                nsoup += 1
        for k in range(15000 if quick else 250000):
            toks = [rng.choice(VOCAB) for _ in range(rng.randrange(3, 6))]
            sep = rng.choice([" ", " ", "\n", ""])
            ecases.append({"kind": "src", "src": sep.join(toks), "what": "soup"})
            nsoup += 1
        process(rep, rng, ecases, stats)
        stats.update(npre=npre, nmut=nmut, nsoup=nsoup)

    for pn, pfn in (("cls", part_cls), ("toks", part_toks), ("fam", part_fam), ("grid", part_grid), ("corpus", part_corpus)):
        if pn in parts:
            pfn()
    process(rep, rng, [], stats, flush=True)          # quick tier: everything collected so far in one engine / judge round
    if partial:
        rep.notes["partial_run"] = sorted(parts)
        rep.evaluations = stats["recs"]
        rep.exhaustive = False
        if os.environ.get("VERIF_DEV") != "1":
            raise Machinery("C04_PARTS is a development switch (set VERIF_DEV=1): a partial run is not a verdict")
        return
    npre, nmut, nsoup = stats["npre"], stats["nmut"], stats["nsoup"]
    discovered = stats["discovered"]
    nfn = sum(len(v) for v in discovered.values())
    if nfn < 150 or stats["ncalls"] < 10000:
        raise Machinery("built-in discovery found only %d functions / %d calls" % (nfn, stats["ncalls"]))
    missing = sorted(r for r in RECEIVERS if r not in discovered)
    if missing:
        raise Machinery("no discovery answer for the receiver kinds %r" % missing)
    rep.notes["receivers_without_functions"] = sorted(r for r in RECEIVERS if not discovered[r])
    rep.spaces.append({"space": "built-in grid: %d function-valued properties discovered on %d receivers x argument vectors, and the operator "
                                "forms (%d of the calls); %d calls returned an object, which was then used (use statements)"
                                % (nfn, len(discovered), stats.get("nops", 0), stats.get("nuse", 0)), "cases": stats["ncalls"], "complete": True})
    rep.notes["discovered_functions"] = {k: sorted(v) for k, v in sorted(discovered.items())}
    rep.spaces.append({"space": "prefixes of the corpus programs", "cases": npre, "complete": not quick})
    rep.spaces.append({"space": "seeded truncations / splices / mutations of corpus programs, each with LF and with CRLF line endings",
                       "cases": 2 * nmut, "complete": False})
    rep.spaces.append({"space": "token soup over the token vocabulary (all of length <= 2, seeded 3..5)", "cases": nsoup, "complete": False})
    rep.evaluations = stats["recs"]
    rep.exhaustive = False
    rep.notes["rule"] = ("outcome typing: every evaluation returns a value or raises a member of the JSError family; a JSSyntaxError "
                         "raised by the front end carries a position inside the source (or at its end); lexical errors are reported at "
                         "the offending token; token streams of the real lexer equal those of LexerFSM; a numeric literal of any length "
                         "is a number; \\u{H} in a string literal is a string for H <= 0x10FFFF and a front-end JSSyntaxError otherwise")
    rep.assumptions += ["LexerFSM.tla transcribes the ECMA-262 lexical grammar of the supported fragment (strict mode, no Annex B)",
                        "calls that allocate memory proportional to an argument (repeat, Array, ArrayBuffer, typed arrays, constructor) "
                        "are not made with arguments >= 2^31 (CallSupported)"]


def reobserve_hangs(rep, results, byid, stats):
    """A watchdog expiry is an observation of the wall clock of a shared machine.  Every case that ended in 'hang' is observed once
    more, alone, in a second engine round (a real hang hangs again and is judged as a hang)."""
    again, slot = [], {}
    for idx, r in enumerate(results):
        if r.get("out", {}).get("o") != "hang" and r.get("lex", {}).get("o") != "hang":
            continue
        c = byid[r["id"]]
        nid = len(again)
        if c["kind"] == "grid":
            if "fname" not in r:
                continue                             # a lost slice: Machinery in process()
            again.append(dict(c, id=nid, vecs=[r["args"]], only=r["fname"], form=r["form"], again=True))
        else:
            again.append(dict(c, id=nid, again=True))
        slot[nid] = idx
    if not again:
        return results
    if len(again) > 32:                              # many hangs are not an accident of the scheduler: the first 32 are observed again
        again = again[:32]
        slot = {k: v for k, v in slot.items() if k < 32}
    stats["reobserved"] = stats.get("reobserved", 0) + len(again)
    rep.notes["reobserved_after_watchdog"] = stats["reobserved"]
    # one child per group of at most two cases (engine.run_cases gives a short list a single child)
    from concurrent.futures import ThreadPoolExecutor
    groups = [again[k::16] for k in range(16) if again[k::16]]
    with ThreadPoolExecutor(len(groups)) as ex:
        rounds = list(ex.map(lambda kg: engine.run_cases(rep.pid, kg[1], driver=DRIVER, timeout=3000, tag="eng_again_%d" % kg[0]), enumerate(groups)))
    for r2 in (r for rs in rounds for r in rs):
        if "discovered" in r2:
            continue
        idx = slot[r2["id"]]
        r2["id"] = results[idx]["id"]
        results[idx] = r2
    return results


def process(rep, rng, ecases, stats, flush=False):
    """engine -> judge -> verdicts for one chunk of cases (the quick tier collects all chunks and runs them once)"""
    if rep.tier == "quick" and not flush:
        stats.setdefault("pending", []).extend(ecases)
        return
    if flush:
        ecases = stats.pop("pending", [])
    if not ecases:
        return
    for i, c in enumerate(ecases):
        c["id"] = i
    byid = {c["id"]: c for c in ecases}
    order = list(ecases)
    rng.shuffle(order)                               # spread the slow cases over the children
    import resource, time as _time
    ru0, t0 = resource.getrusage(resource.RUSAGE_CHILDREN), _time.time()
    results = engine.run_cases(rep.pid, order, driver=DRIVER, timeout=3000)
    results = reobserve_hangs(rep, results, byid, stats)
    ru1, t1 = resource.getrusage(resource.RUSAGE_CHILDREN), _time.time()
    recs, srcs, msgs = [], {}, {}
    for r in results:
        c = byid[r["id"]]
        if c["kind"] == "cls":
            i = len(recs)
            if "toks" not in r:                      # the watchdog fired twice
                recs.append(rec(i, "cls", cls=c["cls"], lex=dict(NOLEX, o="hang"), out=dict(NOLEX, o="hang")))
                srcs[i] = "lex/eval classes %r conc %d" % (c["cls"], c["conc"])
                continue
            recs.append(rec(i, "cls", cls=c["cls"], toks=r["toks"], lex=r["lex"], out=r["out"]))
            srcs[i] = "lex/eval " + repr(r["src"])
        elif c["kind"] == "fam":
            i = len(recs)
            f = c["fam"]
            if f["kind"] == "long":
                recs.append(rec(i, "long", out=r.get("out", dict(NOLEX, o="hang")), lens=r.get("lens", [0]), fname=f["name"],
                                args=[f["embed"], f["digit"]], vk=r.get("vk", "")))
                srcs[i] = "numeric literal %s of %d digits (%s), embedding %s" % (f["name"], f["n"], f["digit"], f["embed"])
            elif f["kind"] == "nest":
                # ds = <<front-end work counted by the driver, length of the text (TLC's), depth>>
                recs.append(rec(i, "nest", out=r.get("out", dict(NOLEX, o="hang")), lens=r.get("lens", [0]), fname=f["name"],
                                vk=r.get("vk", ""), ds=[r.get("fe", 0), f["ds"][1], f["n"]]))
                srcs[i] = "nesting %s, depth %d (%d characters, front-end work %s): %r" % (f["name"], f["n"], f["ds"][1], r.get("fe"), f["src"][:160])
                if r.get("srclen", f["ds"][1]) != f["ds"][1]:
                    raise Machinery("length of a nest program: TLC %d, driver %d" % (f["ds"][1], r["srclen"]))
            elif f["kind"] == "chain":
                recs.append(rec(i, "chain", out=r.get("out", dict(NOLEX, o="hang")), lens=r.get("lens", [0]), fname=f["name"], vk=r.get("vk", "")))
                srcs[i] = "chain %s x %d: %r" % (f["name"], f["n"], (f["src"] + f["digit"] * 3 + " ... " + f["embed"])[:160])
            elif f["kind"] == "lt":
                recs.append(rec(i, "lt", out=r.get("out", dict(NOLEX, o="hang")), lens=r.get("lens", [0]), lens2=r.get("lens2", [0]),
                                fname=f["name"], args=[f["digit"]], vk=r.get("vk", "")))
                srcs[i] = "line terminator %s in context %s: %r" % (f["digit"].upper(), f["name"], f["src"] + "<%s>" % f["digit"].upper() + f["embed"])
            else:
                recs.append(rec(i, f["kind"], out=r.get("out", dict(NOLEX, o="hang")), lens=r.get("lens", [0]), fname=f["name"],
                                vk=r.get("vk", ""), ds=f["ds"]))
                srcs[i] = "%s %s: %r" % (f["kind"], f["name"], f["src"])
        elif c["kind"] == "src":
            i = len(recs)
            if "toks" in c:
                recs.append(rec(i, "toks", toks=c["toks"], out=r.get("out", dict(NOLEX, o="hang")), lens=r.get("lens", [0])))
            else:
                recs.append(rec(i, "src", out=r.get("out", dict(NOLEX, o="hang")), lens=r.get("lens", [0])))
            srcs[i] = c["what"] + ": " + repr(c["src"])[:200]
        elif "discovered" in r:
            stats["discovered"].setdefault(r["recv"], set()).update(r["discovered"])
        elif "fname" not in r:                       # the whole slice was abandoned by the child's watchdog: its calls are missing
            raise Machinery("grid slice of receiver %s lost (%r)" % (c["recv"], r.get("out")))
        elif "fname" in r:
            i = len(recs)
            # (a call record carries only the fields JudgeCall reads; the message stays on this side for the report)
            recs.append({"id": i, "kind": "call", "out": dict(r["out"], msg=""), "lex": dict(r.get("use") or NOLEX, msg=""),
                         "fin": [dict(f, msg="") for f in r.get("fin", [])], "fname": r["fname"], "args": r["args"]})
            msgs[i] = r["out"].get("msg", "") or (r.get("use") or {}).get("msg", "") or " | ".join(f.get("msg", "") for f in r.get("fin", []))
            srcs[i] = "%s %s" % (r["recv"], r["src"])
            stats["ncalls"] += 1
            stats["nops"] = stats.get("nops", 0) + (r["form"] == "op")
            stats["nuse"] = stats.get("nuse", 0) + ("use" in r)
    del results, byid, order
    verdicts, st, tr, wall = judge_retry(rep, recs, module="C04")
    rep.add_judge(len(recs), st, tr)
    ru2, t2 = resource.getrusage(resource.RUSAGE_CHILDREN), _time.time()
    # measured cost of the two halves of this round (CPU seconds of the child processes; the machine is shared)
    tm = rep.notes.setdefault("timing", {"engine_cpu_s": 0.0, "engine_wall_s": 0.0, "judge_cpu_s": 0.0, "judge_wall_s": 0.0})
    tm["engine_cpu_s"] = round(tm["engine_cpu_s"] + (ru1.ru_utime + ru1.ru_stime) - (ru0.ru_utime + ru0.ru_stime), 1)
    tm["engine_wall_s"] = round(tm["engine_wall_s"] + t1 - t0, 1)
    tm["judge_cpu_s"] = round(tm["judge_cpu_s"] + (ru2.ru_utime + ru2.ru_stime) - (ru1.ru_utime + ru1.ru_stime), 1)
    tm["judge_wall_s"] = round(tm["judge_wall_s"] + t2 - t1, 1)
    stats["recs"] += len(recs)
    got = {v["id"]: v for v in verdicts}
    if len(got) != len(recs):
        raise Machinery("judge returned %d verdicts for %d records" % (len(got), len(recs)))
    for i in sorted(got):
        v, r = got[i], recs[i]
        if v["v"] == "pass":
            if len(rep.samples) < 5 and i % 9973 == 11:
                rep.sample({"case": srcs[i], "outcome": r["out"]["o"], "verdict": "pass"})
            continue
        if v["v"] == "unsupported":
            raise Machinery("judge called a generated case unsupported (%s): %s" % (v["why"], srcs[i]))
        bad = r["out"]
        if r["kind"] == "call" and r["lex"]["o"] != "none" and r["out"]["o"] in ("value", "jserror", "syntax", "timelimit", "memlimit"):
            bad = r["lex"]                           # the call itself is typed: the mismatch is about the use of its result
            if bad["o"] in ("value", "jserror", "syntax", "timelimit", "memlimit"):
                bad = next((f for f in r.get("fin", []) if f["o"] not in ("value", "jserror", "syntax", "timelimit", "memlimit")), bad)
        rep.mismatch(srcs[i], {"why": v["why"], "dev": v.get("dev", ""), "out": r["out"], "lex": r["lex"], "fin": r.get("fin", []), "args": r["args"], "msg": msgs.get(i, ""),
                               "fname": r["fname"], "case": {"m": r["kind"]}, "actual": {"o": bad["o"], "cls": bad["type"] + "@" + bad["where"]}},
                     dev=v.get("dev", ""))
