"""C12 - a context keeps its own state: persistent, isolated, usable after errors (DESIGN 5/C12)."""
import json, os, copy, time, random
from harness import tlc, engine
from harness.common import Machinery, workdir, write_ndjson

BASE_KINDS = ["defvar", "deffun", "assign", "delete", "mut_objproto", "mut_math", "mut_arrproto", "mut_strctor",
              "mut_errproto", "throw", "loop", "recurse", "syntax", "ieval", "ieval_loop", "newfn", "read", "reenter", "set", "get"]
REDECL_KINDS = ["redecl", "redecl_f", "redecl_or", "redecl_dead", "redecl_ieval", "redecl_newfn", "redecl_newfn_init",
                "redecl_throw"]
INV_KINDS = ["inv_mut", "inv_del", "inv_throw", "inv_ieval", "inv_loop"]
TEXT_KINDS = ["tx_make", "tx_makei", "tx_mut"]
KEPT_KINDS = ["kb_make", "kb_other", "kb_other_err"]
CARRY_KINDS = ["cv_make", "cv_use", "cv_catch", "cv_catchfn", "cv_throw", "cv_loop", "cv_work", "cv_mem"]
H_KINDS = TEXT_KINDS + KEPT_KINDS + CARRY_KINDS          # the families that work on the global h
ALL_KINDS = BASE_KINDS + REDECL_KINDS + INV_KINDS + H_KINDS
# everything that defines, re-declares or reads the two names, plus one error of each class: longer histories
NAME_KINDS = ["defvar", "deffun", "assign", "set", "get", "read", "newfn", "ieval", "throw", "loop", "syntax"] + REDECL_KINDS
SUB_KINDS = ["defvar", "deffun", "assign", "delete", "mut_objproto", "throw", "loop", "recurse", "syntax", "ieval",
             "newfn", "read", "reenter", "set", "get"]
ACTIONS = ["Effect", "Exit", "EvalDefVar", "EvalDefFun", "EvalAssign", "EvalDelete", "EvalMutObjProto", "EvalMutMath",
           "EvalMutArrProto", "EvalMutStrCtor", "EvalMutErrProto", "EvalThrow", "EvalLoop", "EvalRecurse", "EvalSyntax",
           "EvalIndirect", "EvalIndirectLoop", "EvalNewFunction", "EvalRead", "EvalReenter", "Set", "Get",
           "EvalRedecl", "EvalRedeclF", "EvalRedeclOr", "EvalRedeclDead", "EvalRedeclIndirect", "EvalRedeclNewFn",
           "EvalRedeclNewFnInit", "EvalRedeclThrow", "EvalInvMut", "EvalInvDel", "EvalInvThrow", "EvalInvIndirect",
           "EvalInvLoop", "EvalTxMake", "EvalTxMakeI", "EvalTxMut", "EvalKbMake", "EvalKbOther", "EvalKbOtherErr",
           "EvalCvMake", "EvalCvUse", "EvalCvCatch", "EvalCvCatchFn", "EvalCvThrow", "EvalCvLoop", "EvalCvWork", "EvalCvMem"]


def consts(nc, maxn, vals, kinds):
    return "CONSTANTS NC = %d MAXN = %d Vals = {%s} MCKinds = {%s}\n" % (
        nc, maxn, ", ".join(str(v) for v in vals), ", ".join('"%s"' % k for k in kinds))


MC_CFG = ("SPECIFICATION Spec\n%s" "CONSTRAINT Bound\nINVARIANT TypeOK PointerClear Recovery %s\n"
          "PROPERTY Frame EffectsPersist AtomicAgrees SyntaxNoEffect NestingBalanced RedeclKeeps FreshObjects KeptBindings\n"
          "CHECK_DEADLOCK FALSE\n")
ENUM_CFG = "INIT EnumInit\nNEXT EnumNext\n%sCHECK_DEADLOCK FALSE\n"
TRACE_CFG = ("INIT TraceInit\nNEXT TraceNext\nCONSTRAINT TraceEmit\nINVARIANT TraceTypeOK\n"
             + consts(3, 100, [1], []) + "CHECK_DEADLOCK FALSE\n")


def model_check(rep):
    """TLC on ContextModel itself: frame, recovery, pointer, persistence over all histories up to length 6."""
    runs = []
    if rep.tier == "quick":
        # A: the base catalogue, every history up to 6 events on two contexts;
        # B: the whole catalogue (with the re-declaration and inventory kinds), short, with -coverage and the
        #    spelled-out recovery clause; C: everything that touches the two names and the inventory target, <= 5 events
        runs.append(("catalogue-len6", consts(2, 6, [1], BASE_KINDS), "", False))
        runs.append(("whole-catalogue-len2-coverage", consts(2, 2, [1], ALL_KINDS), "RecoveryBehaviour", True))
        runs.append(("names-inventory-len5", consts(2, 5, [1], NAME_KINDS + INV_KINDS[:3]), "", False))
        # D: the three families that work on a value kept in the global h (made from text / kept binding / carried value),
        #    with the definitions, reads and errors of g they interact with
        runs.append(("carried-values-len6", consts(2, 6, [1], H_KINDS + ["defvar", "read", "throw"]), "OwnInterpreter", False))
    else:
        runs.append(("catalogue-len6-coverage", consts(2, 6, [1], BASE_KINDS), "", True))
        runs.append(("whole-catalogue-len4-coverage", consts(2, 4, [1], ALL_KINDS), "", True))
        runs.append(("names-inventory-len7", consts(2, 7, [1], NAME_KINDS + INV_KINDS), "", False))
        runs.append(("carried-values-len8", consts(2, 8, [1], H_KINDS + ["defvar", "read", "throw"]), "OwnInterpreter", False))
        runs.append(("carried-values-2values-len5", consts(2, 5, [1, 2], H_KINDS), "OwnInterpreter RecoveryBehaviour", False))
        runs.append(("subcatalogue-2values-len6", consts(2, 6, [1, 2], SUB_KINDS), "RecoveryBehaviour", False))
        runs.append(("catalogue-2values-3contexts-len3", consts(3, 3, [1, 2], BASE_KINDS), "RecoveryBehaviour", False))
        runs.append(("whole-catalogue-2values-3contexts-len2", consts(3, 2, [1, 2], ALL_KINDS), "RecoveryBehaviour", False))
    fired = {}
    for name, cs, extra_inv, cov in runs:
        res = tlc.run(rep.pid, "ContextModel", MC_CFG % (cs, extra_inv), timeout=1500, tag="mc_" + name, coverage=cov, heap="6g")
        rep.add_tlc("ContextModel." + name, res)
        if res.distinct < 1000:
            raise Machinery("model-checking run %s explored only %d states" % (name, res.distinct))
        if cov:
            for a in ACTIONS:
                if a not in res.coverage:
                    raise Machinery("coverage output has no entry for action %s" % a)
                fired[a] = max(fired.get(a, 0), res.coverage[a][1])
    vac = [a for a in ACTIONS if not fired.get(a)]
    if vac:
        raise Machinery("vacuous model-checking run: actions never fired: %s" % vac)
    rep.notes["actions_fired"] = fired


def discover_inventory(rep):
    """Family I: the engine reports the global names of a fresh context and which access paths designate objects
    that keep a property (raw facts, one scratch context per path); C12.tla decides which of them are targets."""
    got = engine.run_cases(rep.pid, [{"id": 0}], driver="checks.c12_driver:discover", timeout=600, tag="discover")
    if len(got) != 1 or not got[0].get("inventory"):
        raise Machinery("inventory discovery returned nothing")
    inv = got[0]["inventory"]
    path = os.path.join(workdir(rep.pid, "inventory"), "inventory.ndjson")
    write_ndjson(path, inv)
    return inv, path


def enumerate_histories(rep, nc, length, alphabet, tag, inv_file=None, inv_sub="all", novel=False, bb="0"):
    """-> (histories as JSON text, the parameters the specification printed: limits, gap, names, work, forms)"""
    env = {"ALPHABET": alphabet, "NOVEL": "1" if novel else "0", "INV_SUB": inv_sub, "BB": bb}
    if inv_file:
        env.update({"INV_FILE": inv_file})
    res = tlc.run(rep.pid, "C12", ENUM_CFG % consts(nc, length, [1], []), env=env,
                  timeout=1500, tag=tag, heap="4g")
    rep.add_tlc("C12.Enum(%s,len=%d,nc=%d%s)" % (alphabet, length, nc, ",bb=" + bb if bb != "0" else ""), res)
    limits, seen, hs, invrec = None, set(), [], None
    for r in res.records:
        if "limits" in r:
            limits = r
        elif "inv_ok" in r:
            invrec = r
        elif "h" in r:
            k = json.dumps({"h": r["h"], "tj": r["tj"], "late": r["late"], "bb": r["bb"], "cls": r["cls"]}, separators=(",", ":"))
            if k not in seen:
                seen.add(k)
                hs.append(k)              # kept as text: half a million histories as dicts would cost gigabytes
    if limits is None:
        raise Machinery("the specification did not print the limits")
    if inv_file:
        if invrec is None or not invrec["inv_ok"]:
            raise Machinery("the discovered inventory of built-in objects is not well-formed (C12!InvWellFormed): %r" % (invrec,))
        rep.notes.setdefault("inventory", {})[tag] = {"paths_reported": invrec["inv_len"], "targets": invrec["inv_n"]}
    return hs, limits


def simulate_histories(rep, nc, length, num, tag):
    """seeded random long histories drawn by TLC's simulator from the same specification"""
    wd = workdir(rep.pid, "sim")
    res = tlc.run(rep.pid, "C12", ENUM_CFG % consts(nc, length, [1], []), env={"ALPHABET": "redecl"},
                  timeout=900, tag=tag, simulate="num=%d" % max(1, num // 16), depth=length + 2, seed=rep.seed, heap="3g")
    rep.add_tlc("C12.Simulate(len=%d,nc=%d,num=%d)" % (length, nc, num), res)
    seen, hs = set(), []
    for r in res.records:
        if "h" in r:
            k = json.dumps({"h": r["h"], "tj": r["tj"], "late": r["late"], "bb": r["bb"], "cls": r["cls"]}, separators=(",", ":"))
            if k not in seen:
                seen.add(k)
                hs.append(k)
    return hs


def validate(rep, traces, tag):
    """C->S: the total trace specification consumes every recorded trace event by event"""
    v, st, tr, _ = tlc.judge(rep.pid, "C12", traces, TRACE_CFG, tag=tag, timeout=3000)
    return [x for x in v if "tid" in x], st, tr


def show(h):
    return " ; ".join("c%d.%s" % (e["c"], e["k"]) for e in h)


def run(rep):
    T = {}
    t0 = time.time()
    # triage aid: C12_FAMILIES=text,carry runs only these enumerations (no model checking; never exhaustive)
    only = [a for a in os.environ.get("C12_FAMILIES", "").split(",") if a]
    if not only:
        model_check(rep)
    T['model_check'] = round(time.time() - t0, 1)
    t0 = time.time()
    # ---- S->C: every history of exactly L events (all shorter ones are their prefixes) ----
    cases = []
    inventory, inv_file = discover_inventory(rep)
    # (contexts, events, alphabet, inventory sub-grid).  Families: H base catalogue; R re-declaration of names that may
    # exist ("redecl" = base catalogue + every re-declaration form, "redecl1" = the kinds that touch the two names, one
    # context, longer); I isolation of every object of the built-in object graph ("inv": target x late creation x history)
    # T objects made from text at run time ("text": path from the made object x late creation x history); K bindings kept
    # alive by closures ("kept": binding kind x routes x history); V values made by one eval and used by later ones
    # ("carry": carrier x use x history)
    FAMILY = {"inv": "inv", "invfull": "inv", "text": "text", "kept": "kept", "carry": "carry"}
    if rep.tier == "quick":
        plan = [(2, 3, "full", None), (2, 2, "redecl", None), (1, 3, "redecl1", None), (2, 2, "inv", "quick"),
                (2, 3, "text", "quick"), (2, 3, "kept", "quick", "both"), (2, 3, "carry", "quick", "both"),
                (1, 3, "core", None, "1")]
    else:
        plan = [(2, 3, "redecl", None), (2, 4, "core", None), (1, 4, "redecl1", None),
                (2, 3, "inv", "all"), (2, 2, "invfull", "all"),
                (2, 4, "text", "all"), (2, 3, "kept", "all", "both"), (2, 4, "carry", "all", "both"),
                (2, 3, "full", None, "1"), (1, 4, "redecl1", None, "1")]
    # 5th element: back to back (C12!BBs) - "1": no evaluation between the events of a history, "both": each history
    # once probed after every event and once back to back
    plan = [pl if len(pl) == 5 else pl + ("0",) for pl in plan]
    params = None
    if only:
        plan = [pl for pl in plan if pl[2] in only]
    for nc, length, alpha, sub, bbs in plan:
        fam = FAMILY.get(alpha, "")
        novel = rep.tier == "quick" and alpha in ("redecl", "redecl1") or alpha == "kept"
        hs, params = enumerate_histories(rep, nc, length, alpha, "enum_%s_%d%s" % (alpha, length, "_bb" + bbs if bbs != "0" else ""),
                                         inv_file=inv_file if fam in ("inv", "text") else None, inv_sub=sub or "all",
                                         novel=novel, bb=bbs)
        got_bb = {json.loads(h)["bb"] for h in hs}
        if got_bb != {"0": {0}, "1": {1}, "both": {0, 1}}[bbs]:
            raise Machinery("enumeration %s: probing disciplines %r enumerated, %s asked for" % (alpha, sorted(got_bb), bbs))
        if len(hs) < (1000 if not fam and bbs == "0" else 300):
            raise Machinery("enumeration produced only %d histories" % len(hs))
        what = {"inv": "(inventory target x late creation) x all histories",
                "text": "(way of making an object from text x path from it x late creation) x all histories",
                "kept": "(kind of binding x route of the making program x route of the later program) x all histories with a "
                        "making event", "carry": "(carrier x use) x all histories"}.get(fam, "all histories")
        if bbs != "0":
            what += (" x probing discipline (after every event / back to back: no evaluation between the events)" if bbs == "both"
                     else ", run back to back (no evaluation between the events, one probe after the last)")
        if rep.tier == "quick" and alpha in ("redecl", "redecl1"):
            what = "all histories with at least one re-declaration (the others are in the base-catalogue space)"
        rep.spaces.append({"space": "%s of %d events over %d context(s), alphabet %s%s (TLC-enumerated; "
                                    "every shorter history is a probed prefix)"
                                    % (what, length, nc, alpha, ", sub-grid %s" % sub if sub else ""),
                           "cases": len(hs), "complete": True})
        forms = params.get("forms") or []
        if fam in ("kept", "carry"):
            if not forms:
                raise Machinery("the specification did not print the forms of family %s" % fam)
            used = {json.loads(h)["tj"] for h in hs}
            rep.notes.setdefault("forms", {})[alpha] = {"in_specification": len(forms), "enumerated": len(used)}
            if fam == "kept" and {forms[j - 1]["tx"] for j in used} != {"own", "same"}:
                raise Machinery("family K: not both text modes enumerated")
        cases += [(nc, fam, forms if fam in ("kept", "carry") else None, h) for h in hs]
    limits = params["limits"]
    if rep.tier == "thorough" and not only:
        hs = simulate_histories(rep, 3, 60, 2000, "sim60")
        if len(hs) < 500:
            raise Machinery("simulation produced only %d long histories" % len(hs))
        rep.spaces.append({"space": "seeded random histories of 60 events over 3 contexts (TLC -simulate, seed %d)" % rep.seed,
                           "cases": len(hs), "complete": False})
        cases += [(3, "", None, h) for h in hs]
    T['enumerate'] = round(time.time() - t0, 1)
    T['replay'] = T['validate'] = 0.0
    # ---- replay on real contexts (probing everything after every step), then C->S trace validation; in chunks ----
    CH = 80000                       # the quick tier is one chunk
    # the enumeration order is regular (kinds cycle with a period that shares factors with the number of child
    # processes, so the expensive kinds pile up in a few of them): a fixed shuffle balances the children
    random.Random(12).shuffle(cases)
    ntr = nev = 0
    keep = None                      # an accepted trace for the binding self-test
    for b in range(0, len(cases), CH):
        t0 = time.time()
        part = []
        for i, (nc, fam, forms, h) in enumerate(cases[b:b + CH]):
            rec = json.loads(h)
            case = {"id": b + i, "nc": nc, "limits": limits[:nc], "h": rec["h"], "tj": rec["tj"], "late": rec["late"],
                    "bb": rec["bb"], "fam": fam, "cls": rec["cls"], "gap": params["gap"], "names": params["names"], "work": params["work"]}
            if fam in ("inv", "text"):
                case["target"] = inventory[rec["tj"] - 1]        # the path the specification chose, for rendering
            elif fam:
                case["form"] = forms[rec["tj"] - 1]              # the form the specification chose
            part.append(case)
        traces = engine.run_cases(rep.pid, part, driver="checks.c12_driver:replay", timeout=3000, tag="eng_%d" % (b // CH))
        if len(traces) != len(part):
            raise Machinery("replay returned %d traces for %d histories" % (len(traces), len(part)))
        for t in traces:
            t.pop("id", None)
        T['replay'] += time.time() - t0
        t0 = time.time()
        verdicts, st, tr = validate(rep, traces, "trace_%d" % (b // CH))
        T['validate'] += time.time() - t0
        rep.add_judge(len(traces), st, tr)
        ntr += len(traces)
        nev += sum(len(t["ev"]) for t in traces)
        got = {v["tid"]: v for v in verdicts}
        if len(got) != len(traces):
            raise Machinery("trace validation returned %d verdicts for %d traces" % (len(got), len(traces)))
        bytid = {t["tid"]: t for t in traces}
        hist = {c["id"]: c["h"] for c in part}
        tgt = {c["id"]: ("[back-to-back] " if c["bb"] else "") + (
                            ("[%s %s%s%s] " % (c["target"]["via"], c["target"]["root"],
                                               "." + c["target"]["mem"] if c["target"]["mem"] else "",
                                               " late" if c["late"] else "")) if "target" in c
                            else ("[%s] " % " ".join(str(v) for k, v in sorted(c["form"].items()) if v)) if "form" in c else "")
               for c in part}
        for tid in sorted(got):
            v, t = got[tid], bytid[tid]
            if v["n"] != len(t["ev"]):
                raise Machinery("trace %d: %d of %d events consumed" % (tid, v["n"], len(t["ev"])))
            if v["ok"] and v.get("devs"):
                # every observation is explained, some of them only by a listed deviation (as-is rule of the engine)
                at = v["devat"] - 1
                rep.mismatch("%s%s @%d deviation" % (tgt[tid], show(hist[tid])[:300], at + 1),
                             {"deviation": v["devs"], "event": t["ev"][at], "history": hist[tid][:at + 1]}, dev=v["devs"])
                continue
            if v["ok"]:
                if len(rep.samples) < 4 and tid % 9973 == 0:
                    rep.sample({"history": show(hist[tid]), "last_event": t["ev"][-1], "verdict": "accepted"})
                if keep is None and selftest_shape(t):
                    keep = t
                continue
            w = v["why"]
            if w["clause"] == "unsupported":
                raise Machinery("the model cannot take event %d of history %s" % (w["at"], show(hist[tid])))
            ev = t["ev"][w["at"] - 1]
            rep.mismatch("%s%s @%d %s(c%d)" % (tgt[tid], show(hist[tid])[:300], w["at"], w["clause"], w["c"]),
                         {"clause": w["clause"], "at": w["at"], "context": w["c"], "expected_projection": w["exp"],
                          "event": ev, "history": hist[tid][:w["at"]]}, dev="")
        del traces, verdicts, got, bytid, hist, part, tgt
    T = {k: round(v, 1) for k, v in T.items()}
    rep.notes['stage_wall_s'] = T
    rep.evaluations = nev
    if only:
        rep.exhaustive = False
        return
    selftest(rep, keep)
    rep.exhaustive = True
    rep.notes["probe"] = ("after every event, for every context: get g, typeof g, eval g, get f, typeof f, f(), "
                          "Object.prototype.zo, Math.zm, Array-prototype.za, String.zs, Error.prototype.ze, "
                          "_current_vm is None, unexpected global names, g readable, f readable, "
                          "marker of the history (inventory target, family I; path from the object made from text, T; "
                          "value returned by the kept closure, K), global h exists; virtual time runs on through a "
                          "history and %d ticks pass before every event" % params["gap"])
    rep.notes["events_validated"] = rep.evaluations
    rep.assumptions += ["String.prototype cannot be reached from script code in this engine; the String constructor "
                        "object stands in for it as a mutation target",
                        "the class of a limit error raised inside a nested VM (indirect eval) belongs to C01; here "
                        "only its state effects are judged",
                        "the engine has no block scoping: loop and block variables of the top level are globals, not "
                        "closure-kept bindings (family K has no such kind)"]


def selftest_shape(t):
    ks = [e["k"] for e in t["ev"]]
    # second event: one that neither reads nor writes g, so that dropping the first shows as a state mismatch
    return t["nc"] >= 2 and len(ks) >= 2 and not any(e["np"] for e in t["ev"]) and t["ev"][0]["c"] == t["ev"][1]["c"] and ks[0] in ("defvar", "set") and "reenter" not in ks and ks[1] in (
        "deffun", "delete", "mut_objproto", "mut_math", "mut_arrproto", "mut_strctor", "mut_errproto", "syntax")


def selftest(rep, base):
    """The binding must reject a trace with one corrupted field and a trace with one event dropped."""
    if base is None:
        raise Machinery("self-test: no accepted trace of the required shape")
    a = copy.deepcopy(base)
    a["tid"] = 1
    c = a["ev"][-1]["c"]
    other = 1 if c != 1 else 2
    a["ev"][-1]["pr"][other - 1][6] += 7           # corrupt one recorded field: Object.prototype.zo of the other context
    b = copy.deepcopy(base)
    b["tid"] = 2
    del b["ev"][0]                                  # drop one event (the definition of g)
    c0 = copy.deepcopy(base)
    c0["tid"] = 3                                   # control: the untouched trace must still be accepted
    v, st, tr, _ = tlc.judge(rep.pid, "C12", [a, b, c0], TRACE_CFG, tag="selftest", shards=1)
    res = {x["tid"]: x for x in v if "tid" in x}
    ok = (len(res) == 3 and not res[1]["ok"] and res[1]["why"]["clause"] == "frame"
          and not res[2]["ok"] and res[2]["why"]["clause"] == "state" and res[3]["ok"] and not res[3]["devs"])
    rep.notes["binding_selftest"] = {"corrupted_field": res.get(1, {}).get("why"), "dropped_event": res.get(2, {}).get("why"),
                                     "control_accepted": res.get(3, {}).get("ok")}
    if not ok:
        raise Machinery("binding self-test failed: %r" % res)
