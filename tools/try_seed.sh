#!/bin/bash
# tools/try_seed.sh <Cxx> <seedout dir> <k> [tier]  -- confirm a seeded change and run the check against it
# uses a dedicated worktree /tmp/lead_mut_tree (never /repo itself, other builders are reading it)
P=$1; D=$2; K=$3; TIER=${4:-quick}
cd /repo && { [ -d /tmp/lead_mut_tree ] || git worktree add -q --detach /tmp/lead_mut_tree HEAD; }
cd /tmp/lead_mut_tree && git checkout -q -- . ; git clean -fdq; git checkout -q --detach main
echo "== demo on clean tree:"; PYTHONPATH=/tmp/lead_mut_tree/src /venv/bin/python $D/$K/demo.py > /root/scratch/demo_clean.out 2>&1; echo "exit $?"
git apply $D/$K/patch.diff || { echo "PATCH DOES NOT APPLY"; exit 3; }
echo "== baseline with change:"; python3 /verif/tools/baseline_check.py /tmp/lead_mut_tree
echo "== demo with change:"; PYTHONPATH=/tmp/lead_mut_tree/src /venv/bin/python $D/$K/demo.py > /root/scratch/demo_mut.out 2>&1; echo "exit $?"
echo "== check $P ($TIER) against the change:"
# the check runs from a copy of /verif so that evidence/ and .work/ of /verif itself are not touched
rsync -a --delete --exclude .work --exclude .git /verif/ /root/scratch/verif_mut/
cd /root/scratch/verif_mut && VERIF_REPO=/tmp/lead_mut_tree ./check $P --tier $TIER --keep 2>&1 | grep -v '^"{' | grep "VIOLATION\|KNOWN\|$P $TIER\|MACHINERY" | cut -c1-200 | tail -6
cd /tmp/lead_mut_tree && git checkout -q -- . && git clean -fdq
