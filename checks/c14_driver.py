"""C14 driver: renders (template, n) to source, runs it, exports the bytecode facts the spec judges."""
from harness import wire, bytecode


def m7(i):
    return i % 7


def render(t, n):
    S = "log('s');"           # first statement: proves whether anything executed
    if t == "consts":
        return S + "var s='';" + "".join("s='c%d';" % i for i in range(n)) + "s"
    if t == "names":
        return S + "".join("var g%d=%d;" % (i, m7(i)) for i in range(n)) + "g%d*10+g0" % (n - 1)
    if t == "locals":
        return S + "function f(){" + "".join("var v%d=%d;" % (i, m7(i)) for i in range(n)) + \
            "return v%d*100+v%d*10+v0} f()" % (n - 1, n // 2)
    if t == "params":
        return S + "function f(" + ",".join("p%d" % i for i in range(n)) + "){return p%d*10+p0} f(" % (n - 1) + \
            ",".join(str(m7(i)) for i in range(n)) + ")"
    if t == "args":
        return S + "function g(){return arguments.length} g(" + ",".join("1" for _ in range(n)) + ")"
    if t == "newargs":
        return S + "function G(){this.n=arguments.length} new G(" + ",".join("1" for _ in range(n)) + ").n"
    if t == "array":
        return S + "var a=[" + ",".join(str(m7(i)) for i in range(n)) + "]; a.length*10+a[%d]" % (n - 1)
    if t == "object":
        return S + "var o={" + ",".join("k%d:%d" % (i, m7(i)) for i in range(n)) + "}; Object.keys(o).length*10+o['k%d']" % (n - 1)
    if t == "closures":
        return S + "function f(){" + "".join("var v%d=%d;" % (i, m7(i)) for i in range(n)) + \
            "return function(){return " + "+0*".join("v%d" % i for i in range(n)) + "*0+v%d*10+v0}} f()()" % (n - 1) \
            if False else S + "function f(){" + "".join("var v%d=%d;" % (i, m7(i)) for i in range(n)) + \
            "return function(){var t=0;" + "".join("t=v%d;" % i for i in range(n)) + "return t*10+v0}} f()()"
    if t == "stmts":
        return S + "var x=0;" + "x=x+1;" * n + "x"
    if t == "loop":
        return S + "var x=0,i=0;while(i<3){i=i+1;" + "x=x+1;" * n + "} x"
    if t == "if_then":
        return S + "var x=0;if(x==0){" + "x=x+1;" * n + "}else{" + "x=x+2;" * n + "} x"
    if t == "if_else":
        return S + "var x=0;if(x==1){" + "x=x+1;" * n + "}else{" + "x=x+2;" * n + "} x"
    if t == "switch":
        return S + "var x=-1;switch(%d){" % (n - 1) + "".join("case %d: x=%d; break;" % (i, i % 1000) for i in range(n)) + "} x"
    if t == "try":
        return S + "var x=0;try{" + "x=x+1;" * n + "throw 5}catch(e){x=x+e} x"
    if t == "func":
        return S + "function f(){var x=0;" + "x=x+1;" * n + "return x} f()"
    if t == "funcloop":
        return S + "function f(){var x=0,i=0;while(i<2){i=i+1;" + "x=x+1;" * n + "} return x} f()"
    if t == "cond_expr":
        return S + "var x=0; x = (x==0) ? (" + "+".join("1" for _ in range(n)) + ") : (" + "+".join("2" for _ in range(n)) + "); x"
    if t == "and_chain":
        return S + "var x=0; (" + " && ".join("(x=x+1)" for _ in range(n)) + "); x"
    if t == "dowhile":
        return S + "var x=0,i=0;do{i=i+1;" + "x=x+1;" * n + "}while(i<2); x"
    if t == "forloop":
        return S + "var x=0;for(var i=0;i<3;i=i+1){" + "x=x+1;" * n + "x=x+1;} x"
    raise ValueError(t)


_TABLES = None


def driver(case, api):
    global _TABLES
    if case.get("kind") == "tables":
        t = bytecode.decoder_tables()
        return {"id": case["id"], "tables": {"exec": t["_execute"], "cbs": [t["others"][k] for k in sorted(t["others"])],
                                             "cbnames": sorted(t["others"]), "emit": t["emitter"]}}
    src = render(case["t"], case["n"])
    ctx = api.new_context(time_limit=case.get("time_limit", 60.0))
    out = api.eval_outcome(ctx, src, wall=300.0, cap=50_000_000)
    started = len(api.log) > 0
    res = {"id": case["id"], "t": case["t"], "n": case["n"], "started": started,
           "msglen": len(out.get("msg", "")), "srclen": len(src)}
    res["out"] = {"o": out["o"], "v": out["v"]} if out["o"] == "value" else \
        {"o": out["o"], "v": {"k": "undef"}, "info": out.get("type", "") + ":" + out.get("where", "") + ":" + out.get("msg", "")[:120]}
    # bytecode facts (only when the program compiles)
    if case.get("export"):
        try:
            if _TABLES is None:
                _TABLES = bytecode.decoder_tables()
            fs = bytecode.export(src, _TABLES, with_index=False)
            res["funcs"] = [{"fid": f["fid"], "nbytes": f["nbytes"], "starts": [i["at"] for i in f["instrs"]],
                             "jumps": [{"at": i["at"], "arg": i["arg"]} for i in f["instrs"] if i["len"] == 3]}
                            for f in fs]
        except Exception as e:          # refused programs have no bytecode
            res["funcs"] = []
            res["export_error"] = type(e).__name__
    return res
