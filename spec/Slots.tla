------------------------------- MODULE Slots -------------------------------
(* Layer-I model of slot assignment and closure wiring (compiler.py _compile_function /          *)
(* _compile_arrow_function, vm.py _invoke_js_function, MAKE_CLOSURE, the LOAD / STORE opcodes).    *)
(*                                                                                              *)
(* Compile time: every function gets three lists,                                               *)
(*     locals    = params, "arguments"[, own name], then the remaining declared names           *)
(*     cell_vars = the locals captured by inner functions                                       *)
(*     free_vars = the names it (or a function nested in it) needs from enclosing functions     *)
(* The parts that come out of Python sets have an order that depends on the host's string-hash   *)
(* seed: the model chooses an ARBITRARY permutation for each of them (variable `lay`, fixed in    *)
(* Init, all combinations explored).  Identifiers are compiled to slot numbers of these lists.   *)
(* Run time: frames hold values by slot number, but everything that connects two lists is done   *)
(* BY NAME, as the code does: cell_storage is filled from locals by name, MAKE_CLOSURE finds each *)
(* free variable of the new function by name in the creator's cell_vars / free_vars, the own     *)
(* name of a function expression is found by name in locals.                                    *)
(*                                                                                              *)
(* Invariant (C15): the observable behaviour (sequence of logged values) does not depend on the  *)
(* permutations: every run agrees with the run under the canonical (sorted) layout.  Also: every  *)
(* slot number used at run time is in range, and all closures of one activation share the cell   *)
(* of a captured variable while activations get fresh ones (visible in the logged values).       *)
EXTENDS Naturals, Integers, Sequences, FiniteSets, TLC, IOUtils

\* ---------------- abstract programs --------------------------------------------------------------------
\* A program is a table of functions; function 1 is the script's top level function `main`
\* (its own variables are ordinary locals here: the model is about functions).
\* fn = [params, vars, parent, named, body]   body: sequence of operations over *names*
\*   [op |-> "set", x, v]          x := integer literal v
\*   [op |-> "inc", x]             x := x + 1
\*   [op |-> "add", x, y]          x := x + y
\*   [op |-> "log", x]             observe x
\*   [op |-> "mk", x, g]           x := closure of function g (a child of this function)
\*   [op |-> "call", x, y, a]      y := call closure x with argument names a
\*   [op |-> "ret", x]             return x
\*   [op |-> "self", x]            x := the function's own name (named function expressions)
Fn(params, vs, parent, named, body) == [params |-> params, vars |-> vs, parent |-> parent, named |-> named, body |-> body]
Set_(x, v) == [op |-> "set", x |-> x, v |-> v]
Inc(x) == [op |-> "inc", x |-> x]
Add(x, y) == [op |-> "add", x |-> x, y |-> y]
Log(x) == [op |-> "log", x |-> x]
Mk(x, g) == [op |-> "mk", x |-> x, g |-> g]
Call(x, y, a) == [op |-> "call", x |-> x, y |-> y, a |-> a]
Ret(x) == [op |-> "ret", x |-> x]

Programs == <<
  \* 1: counter - a captured local shared by two closures of one activation, fresh per activation
  << Fn(<<>>, {"a", "b", "r", "t"}, 0, "", <<Mk("t", 2), Set_("r", 5), Call("t", "a", <<"r">>), Set_("r", 9), Call("t", "b", <<"r">>)>>),
     Fn(<<"p">>, {"c", "g", "s", "u", "z"}, 1, "", <<Set_("c", 1), Add("c", "p"), Mk("g", 3), Mk("s", 4), Call("s", "u", <<>>), Call("g", "z", <<>>), Log("z"), Log("c"), Ret("c")>>),
     Fn(<<>>, {}, 2, "", <<Ret("c")>>),
     Fn(<<>>, {}, 2, "", <<Inc("c"), Inc("c"), Ret("c")>>) >>,
  \* 2: pass-through - the innermost function reaches a parameter and a local of the outermost one
  << Fn(<<>>, {"f", "m", "o"}, 0, "", <<Mk("f", 2), Set_("o", 3), Call("f", "m", <<"o", "o">>), Call("m", "f", <<"o">>), Call("f", "o", <<>>), Log("o"), Call("f", "o", <<>>), Log("o")>>),
     Fn(<<"p", "q">>, {"v", "w", "mid"}, 1, "", <<Set_("v", 10), Set_("w", 20), Mk("mid", 3), Ret("mid")>>),
     Fn(<<"a">>, {"inn", "x"}, 2, "", <<Set_("x", 100), Add("x", "a"), Mk("inn", 4), Ret("inn")>>),
     Fn(<<>>, {"t"}, 3, "", <<Inc("v"), Set_("t", 0), Add("t", "p"), Add("t", "v"), Add("t", "x"), Ret("t")>>) >>,
  \* 3: many locals, several captured, two closures writing different ones
  << Fn(<<>>, {"f", "y"}, 0, "", <<Mk("f", 2), Set_("y", 1), Call("f", "y", <<"y", "y">>), Log("y")>>),
     Fn(<<"p", "q">>, {"a", "b", "c", "g", "h"}, 1, "", <<Set_("a", 1), Set_("b", 2), Set_("c", 3), Mk("g", 3), Mk("h", 4),
                                                        Call("g", "q", <<>>), Call("h", "q", <<>>), Call("g", "q", <<>>), Log("a"), Log("b"), Log("c"), Log("p"), Log("q"), Ret("q")>>),
     Fn(<<>>, {}, 2, "", <<Add("a", "c"), Inc("c"), Add("p", "c"), Ret("a")>>),
     Fn(<<>>, {}, 2, "", <<Add("b", "b"), Inc("b"), Ret("b")>>) >>,
  \* 4: named function expression calling itself and captured by an inner closure; parameter captured
  << Fn(<<>>, {"f", "n", "r"}, 0, "", <<Mk("f", 2), Set_("n", 2), Call("f", "r", <<"n">>), Log("r")>>),
     Fn(<<"n">>, {"g", "k", "m", "self2"}, 1, "fact", <<Set_("k", 0), Add("k", "n"), Mk("g", 3), Call("g", "m", <<>>), Log("m"), Log("fact"), Ret("k")>>),
     Fn(<<>>, {"t"}, 2, "", <<Set_("t", 7), Add("t", "n"), Log("fact"), Ret("t")>>) >>,
  \* 5: a closure created in one activation and called from another; same names in both functions
  << Fn(<<>>, {"mk", "a", "b", "x", "r"}, 0, "", <<Mk("mk", 2), Set_("x", 1), Call("mk", "a", <<"x">>), Set_("x", 2), Call("mk", "b", <<"x">>),
                                                     Call("a", "r", <<"x">>), Log("r"), Call("b", "r", <<"x">>), Log("r"), Call("a", "r", <<"x">>), Log("r")>>),
     Fn(<<"x">>, {"r", "g"}, 1, "", <<Set_("r", 10), Add("r", "x"), Mk("g", 3), Ret("g")>>),
     Fn(<<"x">>, {}, 2, "", <<Add("r", "x"), Ret("r")>>) >>
>>

\* ---------------- static analysis (what the compiler computes as sets) -----------------------------------------
NamesOfOp(o) == CASE o.op \in {"set", "inc", "log", "ret", "self"} -> {o.x}
                  [] o.op = "add" -> {o.x, o.y}
                  [] o.op = "mk" -> {o.x}
                  [] o.op = "call" -> {o.x, o.y} \cup {o.a[j] : j \in 1..Len(o.a)}
Used(P, f) == UNION {NamesOfOp(P[f].body[j]) : j \in 1..Len(P[f].body)}
Prefix(P, f) == P[f].params \o <<"arguments">> \o (IF P[f].named # "" THEN <<P[f].named>> ELSE <<>>)
PrefixSet(P, f) == {Prefix(P, f)[j] : j \in 1..Len(Prefix(P, f))}
LocalSet(P, f) == PrefixSet(P, f) \cup P[f].vars
Children(P, f) == {g \in 1..Len(P) : P[g].parent = f}
RECURSIVE Free(_, _)
\* names a function needs from outside: its own uses and those of the functions nested in it, minus its locals
Free(P, f) == (Used(P, f) \cup UNION {Free(P, g) : g \in Children(P, f)}) \ LocalSet(P, f)
Captured(P, f) == LocalSet(P, f) \cap UNION {Free(P, g) : g \in Children(P, f)}
Rest(P, f) == P[f].vars \ PrefixSet(P, f)

\* ---------------- layouts: one arbitrary order for every set-derived list ---------------------------------------
RECURSIVE Perms(_)
Perms(S) == IF S = {} THEN {<<>>} ELSE UNION {{<<x>> \o q : q \in Perms(S \ {x})} : x \in S}
\* a canonical layout: any fixed choice will do (CHOOSE is deterministic)
Canon(S) == CHOOSE q \in Perms(S) : TRUE
RECURSIVE LayoutSet(_, _)
\* all layouts of the functions f..Len(P), as sequences of per-function records
LayoutSet(P, f) ==
  IF f > Len(P) THEN {<<>>}
  ELSE {<<[locals |-> Prefix(P, f) \o r, cells |-> c, frees |-> fr]>> \o tl :
          r \in Perms(Rest(P, f)), c \in Perms(Captured(P, f)), fr \in Perms(Free(P, f)), tl \in LayoutSet(P, f + 1)}
CanonLayout(P) == [f \in 1..Len(P) |-> [locals |-> Prefix(P, f) \o Canon(Rest(P, f)), cells |-> Canon(Captured(P, f)), frees |-> Canon(Free(P, f))]]
IndexIn(sq, x) == CHOOSE j \in 1..Len(sq) : sq[j] = x
InSeq(sq, x) == \E j \in 1..Len(sq) : sq[j] = x

\* ---------------- the run-time machine -----------------------------------------------------------------------------
\* value: [t |-> "int", i] | [t |-> "undef"] | [t |-> "clo", f, cells (cell addresses, one per free variable of f, in L[f].frees order)]
VI(n) == [t |-> "int", i |-> n]
VU == [t |-> "undef"]
\* frame: [f, ip, locals (values by slot), cst (cell addresses by cell slot), clo (cell addresses by free slot), dst (name in the caller)]
\* slot kind of a name in function f under layout L (the order of the tests is the compiler's)
Kind(L, f, x) == IF InSeq(L[f].cells, x) THEN "cell" ELSE IF InSeq(L[f].locals, x) THEN "local" ELSE IF InSeq(L[f].frees, x) THEN "free" ELSE "global"
Load(st, L, fr, x) ==
  CASE Kind(L, fr.f, x) = "cell" -> st.cells[fr.cst[IndexIn(L[fr.f].cells, x)]]
    [] Kind(L, fr.f, x) = "local" -> fr.locals[IndexIn(L[fr.f].locals, x)]
    [] Kind(L, fr.f, x) = "free" -> st.cells[fr.clo[IndexIn(L[fr.f].frees, x)]]
    [] OTHER -> IF x \in DOMAIN st.globals THEN st.globals[x] ELSE VU
\* store into the top frame
Store(st, L, x, v) ==
  LET n == Len(st.frames)  fr == st.frames[n] IN
  CASE Kind(L, fr.f, x) = "cell" -> [st EXCEPT !.cells[fr.cst[IndexIn(L[fr.f].cells, x)]] = v]
    [] Kind(L, fr.f, x) = "local" -> [st EXCEPT !.frames[n].locals[IndexIn(L[fr.f].locals, x)] = v]
    [] Kind(L, fr.f, x) = "free" -> [st EXCEPT !.cells[fr.clo[IndexIn(L[fr.f].frees, x)]] = v]
    [] OTHER -> [st EXCEPT !.globals = (x :> v) @@ @]
IntOf(v) == IF v.t = "int" THEN v.i ELSE 0
\* _invoke_js_function: parameters by position, own name by NAME, cell storage filled from the locals by NAME
Invoke(st, P, L, clo, args, dst) ==
  LET f == clo.f
      nl == Len(L[f].locals)
      loc0 == [j \in 1..nl |-> IF j <= Len(P[f].params) THEN (IF j <= Len(args) THEN args[j] ELSE VU)
                               ELSE IF P[f].named # "" /\ L[f].locals[j] = P[f].named THEN clo ELSE VU]
      nc == Len(L[f].cells)
      base == Len(st.cells)
      newcells == [j \in 1..nc |-> loc0[IndexIn(L[f].locals, L[f].cells[j])]]
      frame == [f |-> f, ip |-> 1, locals |-> loc0, cst |-> [j \in 1..nc |-> base + j], clo |-> clo.cells, dst |-> dst]
  IN [st EXCEPT !.cells = @ \o newcells, !.frames = Append(@, frame)]
\* vacuity self-test (checks/c15.py runs the model once with WIRING=index and expects LayoutIndependent to FAIL):
\* wiring the cells by position instead of by name is exactly the class of defect the invariant is there to exclude
ByIndex == "WIRING" \in DOMAIN IOEnv /\ IOEnv.WIRING = "index"
\* MAKE_CLOSURE in frame fr for child g: each free variable of g is found by NAME in the creator's lists
MakeClosure(st, L, fr, g) ==
  [t |-> "clo", f |-> g,
   cells |-> [j \in 1..Len(L[g].frees) |->
                LET x == L[g].frees[j] IN
                IF ByIndex /\ InSeq(L[fr.f].cells, x) THEN fr.cst[IF j <= Len(fr.cst) THEN j ELSE 1]     \* self-test only
                ELSE IF InSeq(L[fr.f].cells, x) THEN fr.cst[IndexIn(L[fr.f].cells, x)]
                ELSE IF InSeq(L[fr.f].frees, x) THEN fr.clo[IndexIn(L[fr.f].frees, x)]
                ELSE 0]]
Return(st, L, v) ==
  LET n == Len(st.frames)  fr == st.frames[n]
      s1 == [st EXCEPT !.frames = SubSeq(@, 1, n - 1)]
  IN IF n = 1 THEN [s1 EXCEPT !.done = TRUE] ELSE Store(s1, L, fr.dst, v)
Step(st, P, L) ==
  LET n == Len(st.frames)  fr == st.frames[n]  body == P[fr.f].body IN
  IF fr.ip > Len(body) THEN Return(st, L, VU)
  ELSE LET o == body[fr.ip]
           s1 == [st EXCEPT !.frames[n].ip = @ + 1]
           f1 == s1.frames[n]
       IN CASE o.op = "set" -> Store(s1, L, o.x, VI(o.v))
            [] o.op = "inc" -> Store(s1, L, o.x, VI(IntOf(Load(s1, L, f1, o.x)) + 1))
            [] o.op = "add" -> Store(s1, L, o.x, VI(IntOf(Load(s1, L, f1, o.x)) + IntOf(Load(s1, L, f1, o.y))))
            [] o.op = "log" -> [s1 EXCEPT !.obs = Append(@, Load(s1, L, f1, o.x))]
            [] o.op = "mk" -> Store(s1, L, o.x, MakeClosure(s1, L, f1, o.g))
            [] o.op = "call" -> LET c == Load(s1, L, f1, o.x) IN
                                IF c.t # "clo" THEN [s1 EXCEPT !.obs = Append(@, [t |-> "typeerror"])]
                                ELSE Invoke(s1, P, L, c, [j \in 1..Len(o.a) |-> Load(s1, L, f1, o.a[j])], o.y)
            [] o.op = "ret" -> Return(s1, L, Load(s1, L, f1, o.x))
Start(P, L) == Invoke([cells |-> <<>>, frames |-> <<>>, globals |-> [x \in {} |-> VU], obs |-> <<>>, done |-> FALSE],
                      P, L, [t |-> "clo", f |-> 1, cells |-> <<>>], <<>>, "")
\* observable behaviour: logged integers (closures are observed through what they compute)
Obs(st) == [j \in 1..Len(st.obs) |-> IF st.obs[j].t = "int" THEN st.obs[j].i ELSE IF st.obs[j].t = "clo" THEN -100 - st.obs[j].f ELSE -1]
RECURSIVE RunToEnd(_, _, _, _)
RunToEnd(st, P, L, fuel) == IF st.done \/ fuel = 0 THEN st ELSE RunToEnd(Step(st, P, L), P, L, fuel - 1)
CanonObs == [p \in 1..Len(Programs) |-> Obs(RunToEnd(Start(Programs[p], CanonLayout(Programs[p])), Programs[p], CanonLayout(Programs[p]), 300))]

\* ---------------- state machine: every layout of every program ---------------------------------------------------------------
VARIABLES pgm, lay, sst
svars == <<pgm, lay, sst>>
\* quick tier: the four programs with up to 2880 layouts each; thorough: also program 3 (34560 layouts)
ProgSel == IF "TIER" \in DOMAIN IOEnv /\ IOEnv.TIER = "thorough" THEN 1..Len(Programs) ELSE {1, 2, 4, 5}
SlotsInit == /\ pgm \in ProgSel
             /\ lay \in LayoutSet(Programs[pgm], 1)
             /\ sst = Start(Programs[pgm], lay)
SlotsNext == ~sst.done /\ sst' = Step(sst, Programs[pgm], lay) /\ UNCHANGED <<pgm, lay>>
\* every slot number used at run time denotes a slot that exists, every cell address a cell
SlotsInRange ==
  \A j \in 1..Len(sst.frames) :
    LET fr == sst.frames[j] IN
    /\ Len(fr.locals) = Len(lay[fr.f].locals) /\ Len(fr.cst) = Len(lay[fr.f].cells) /\ Len(fr.clo) = Len(lay[fr.f].frees)
    /\ \A q \in 1..Len(fr.cst) : fr.cst[q] \in 1..Len(sst.cells)
    /\ \A q \in 1..Len(fr.clo) : fr.clo[q] \in 1..Len(sst.cells)
\* C15: the behaviour is the one of the canonical layout, whatever orders the sets came out in
IsPrefixObs(a, b) == Len(a) <= Len(b) /\ SubSeq(b, 1, Len(a)) = a
LayoutIndependent == /\ IsPrefixObs(Obs(sst), CanonObs[pgm])
                     /\ (sst.done => Obs(sst) = CanonObs[pgm])
Terminates == Len(sst.frames) <= 6
=============================================================================
