------------------------------ MODULE Boundary ------------------------------
(* C11 - values cross the Python/JavaScript boundary faithfully.                          *)
(* Python values (None, bool, int, float, str, list, dict), JavaScript values (JsVal),    *)
(* the two conversions as recursive operators, the normal form of a round trip, equality  *)
(* of an expected with an observed Python value, and the context as a store of COPIES:    *)
(* the store maps names to JavaScript value *trees*; nothing on the Python side refers    *)
(* into it.  Variable-free library module.                                                *)
EXTENDS JsVal, Str

\* ---------------- Python values ------------------------------------------------------------------
\* ints are exact: sign (0 | 1) and magnitude as little-endian 16-bit limbs (TLC integers are 32 bit);
\* floats are the four 16-bit words of the binary64 image; text is a sequence of UTF-16 code units
PyNone       == [k |-> "none"]
PyBool(x)    == [k |-> "bool", b |-> x]
PyInt(sg, m) == [k |-> "int", sg |-> sg, m |-> m]
PyFloat(w)   == [k |-> "float", w |-> w]
PyStr(u)     == [k |-> "str", u |-> u]
PyList(e)    == [k |-> "list", e |-> e]
PyDict(p)    == [k |-> "dict", p |-> p]          \* sequence of [kk |-> key (a Python value), v |-> value]
PyKinds == {"none", "bool", "int", "float", "str", "list", "dict"}
PySmall(n) == IF n < 0 THEN PyInt(1, IF 0 - n < 65536 THEN <<0 - n>> ELSE <<(0 - n) % 65536, (0 - n) \div 65536>>)
              ELSE IF n = 0 THEN PyInt(0, <<>>)
              ELSE PyInt(0, IF n < 65536 THEN <<n>> ELSE <<n % 65536, n \div 65536>>)

RECURSIVE NormLimbs(_)
NormLimbs(m) == IF m = <<>> \/ m[Len(m)] # 0 THEN m ELSE NormLimbs(SubSeq(m, 1, Len(m) - 1))
IsZeroInt(v) == NormLimbs(v.m) = <<>>

\* ---------------- exact int -> binary64 (round to nearest, ties to even) ---------------------------
LimbBits(x) == [j \in 1..16 |-> (x \div (2 ^ (16 - j))) % 2]          \* most significant bit first
RECURSIVE StripZeros(_)
StripZeros(b) == IF b = <<>> \/ Head(b) = 1 THEN b ELSE StripZeros(Tail(b))
MagBits(m) == StripZeros(Flatten([j \in 1..Len(m) |-> LimbBits(m[Len(m) + 1 - j])]))
RECURSIVE BitsVal(_)                                                    \* at most 16 bits
BitsVal(b) == IF b = <<>> THEN 0 ELSE 2 * BitsVal(SubSeq(b, 1, Len(b) - 1)) + b[Len(b)]
RECURSIVE BitsInc(_)                                                    \* b + 1; one bit longer on carry-out
BitsInc(b) == IF b = <<>> THEN <<1>>
              ELSE IF b[Len(b)] = 0 THEN SubSeq(b, 1, Len(b) - 1) \o <<1>>
              ELSE BitsInc(SubSeq(b, 1, Len(b) - 1)) \o <<0>>
Zeros(n) == [j \in 1..n |-> 0]
ExactInt(sg, m) == LET b == MagBits(m) IN Len(b) <= 53 \/ \A j \in 54..Len(b) : b[j] = 0
IntToDouble(sg, m) ==
  LET b == MagBits(m)
      bl == Len(b)
  IN IF bl = 0 THEN WPosZero
     ELSE LET top == IF bl <= 53 THEN b \o Zeros(53 - bl) ELSE SubSeq(b, 1, 53)
              guard == bl > 53 /\ b[54] = 1
              sticky == bl > 54 /\ \E j \in 55..bl : b[j] = 1
              up == guard /\ (sticky \/ top[53] = 1)
              inc == IF up THEN BitsInc(top) ELSE top
              carry == Len(inc) = 54
              mant == IF carry THEN SubSeq(inc, 1, 53) ELSE inc
              ex == bl - 1 + (IF carry THEN 1 ELSE 0)
          IN IF ex > 1023 THEN (IF sg = 1 THEN WNegInf ELSE WPosInf)
             ELSE <<sg * 32768 + (1023 + ex) * 16 + BitsVal(SubSeq(mant, 2, 5)),
                    BitsVal(SubSeq(mant, 6, 21)), BitsVal(SubSeq(mant, 22, 37)), BitsVal(SubSeq(mant, 38, 53))>>

\* ---------------- JavaScript side ------------------------------------------------------------------
\* A number that came from a Python int remembers the exact integer (field xi): the engine may keep the
\* integer exactly or hold the nearest double; the property's "equal to the one given" is met by the exact
\* integer, and for an integer that is not a double by nothing else than the nearest double.
VNumI(sg, m) == [k |-> "num", w |-> IntToDouble(sg, m), xi |-> <<sg, NormLimbs(m)>>]
HasXi(j) == "xi" \in DOMAIN j

\* own data properties in insertion order; assigning an existing key keeps its position
RECURSIVE ObjSet(_, _, _)
ObjSet(p, n, v) == IF p = <<>> THEN <<[n |-> n, v |-> v]>>
                   ELSE IF Head(p).n = n THEN <<[n |-> n, v |-> v]>> \o Tail(p)
                   ELSE <<Head(p)>> \o ObjSet(Tail(p), n, v)
RECURSIVE ObjFromPairs(_)
ObjFromPairs(ps) == IF ps = <<>> THEN <<>>
                    ELSE LET q == ps[Len(ps)] IN ObjSet(ObjFromPairs(SubSeq(ps, 1, Len(ps) - 1)), q.n, q.v)

\* ---------------- keys that are not strings --------------------------------------------------------
\* reference choice: a key is stringified; the property does not say how.  Two spellings are accepted
\* for True/False/None: Python's str() ("py") and JSON's ("json").  Small ints print in decimal.
KeyStyles == {"py", "json"}
SmallIntKey(kk) == kk.k = "int" /\ Len(NormLimbs(kk.m)) <= 1
KeySupported(kk) == kk.k \in {"str", "bool", "none"} \/ SmallIntKey(kk)
KeyText(kk, ks) ==
  CASE kk.k = "str" -> kk.u
    [] kk.k = "bool" -> IF ks = "py" THEN (IF kk.b THEN U("True") ELSE U("False")) ELSE (IF kk.b THEN U("true") ELSE U("false"))
    [] kk.k = "none" -> IF ks = "py" THEN U("None") ELSE U("null")
    [] kk.k = "int" -> LET mm == NormLimbs(kk.m)  n == IF mm = <<>> THEN 0 ELSE mm[1]
                       IN IF kk.sg = 1 /\ n # 0 THEN <<45>> \o DigitsOf(n) ELSE DigitsOf(n)

\* is the value inside the fragment the specification defines (JSON-like, supported keys) ?
RECURSIVE PySupported(_)
PySupported(v) ==
  CASE v.k \in {"none", "bool", "int", "float", "str"} -> TRUE
    [] v.k = "list" -> \A j \in 1..Len(v.e) : PySupported(v.e[j])
    [] v.k = "dict" -> \A j \in 1..Len(v.p) : KeySupported(v.p[j].kk) /\ PySupported(v.p[j].v)
    [] OTHER -> FALSE

\* ---------------- the two conversions --------------------------------------------------------------
RECURSIVE ToJs(_, _)
ToJs(v, ks) ==
  CASE v.k = "none"  -> Null
    [] v.k = "bool"  -> VBool(v.b)
    [] v.k = "int"   -> VNumI(v.sg, v.m)
    [] v.k = "float" -> VNumW(v.w)
    [] v.k = "str"   -> VStr(v.u)
    [] v.k = "list"  -> VArr([j \in 1..Len(v.e) |-> ToJs(v.e[j], ks)])
    [] v.k = "dict"  -> VObj(ObjFromPairs([j \in 1..Len(v.p) |-> [n |-> KeyText(v.p[j].kk, ks), v |-> ToJs(v.p[j].v, ks)]]))

RECURSIVE ToPy(_)
ToPy(j) ==
  CASE j.k \in {"undef", "null"} -> PyNone
    [] j.k = "bool" -> PyBool(j.b)
    [] j.k = "num"  -> IF HasXi(j) THEN PyInt(j.xi[1], j.xi[2]) ELSE PyFloat(j.w)
    [] j.k = "str"  -> PyStr(j.u)
    [] j.k = "arr"  -> PyList([i \in 1..Len(j.e) |-> ToPy(j.e[i])])
    [] j.k = "obj"  -> PyDict([i \in 1..Len(j.p) |-> [kk |-> PyStr(j.p[i].n), v |-> ToPy(j.p[i].v)]])

\* the normal form of a round trip, defined directly on Python values
RECURSIVE Norm(_, _)
RECURSIVE NormPairs(_, _)
NormPairs(ps, ks) ==     \* keys stringified; a later entry with the same text replaces the value in place
  IF ps = <<>> THEN <<>>
  ELSE LET q == ps[Len(ps)]
           kt == KeyText(q.kk, ks)
           rest == NormPairs(SubSeq(ps, 1, Len(ps) - 1), ks)
           nv == Norm(q.v, ks)
       IN IF \E i \in 1..Len(rest) : rest[i].kk.u = kt
          THEN [i \in 1..Len(rest) |-> IF rest[i].kk.u = kt THEN [kk |-> PyStr(kt), v |-> nv] ELSE rest[i]]
          ELSE Append(rest, [kk |-> PyStr(kt), v |-> nv])
Norm(v, ks) ==
  CASE v.k = "int"  -> PyInt(IF IsZeroInt(v) THEN 0 ELSE v.sg, NormLimbs(v.m))
    [] v.k = "list" -> PyList([j \in 1..Len(v.e) |-> Norm(v.e[j], ks)])
    [] v.k = "dict" -> PyDict(NormPairs(v.p, ks))
    [] OTHER -> v

\* ---------------- equality of an expected with an observed Python value ----------------------------
\* bool is not int; int/float are one number type on the JavaScript side (Python: 1 == 1.0), so a number
\* may come back as either, with the same value; NaN equals NaN; the sign of a float zero is kept.
NumEq(a, b) ==
  CASE a.k = "int" /\ b.k = "int"     -> NormLimbs(a.m) = NormLimbs(b.m) /\ (IsZeroInt(a) \/ a.sg = b.sg)
    [] a.k = "int" /\ b.k = "float"   -> b.w = IntToDouble(IF IsZeroInt(a) THEN 0 ELSE a.sg, a.m)
    [] a.k = "float" /\ b.k = "int"   -> ExactInt(b.sg, b.m) /\ IntToDouble(IF IsZeroInt(b) THEN 0 ELSE b.sg, b.m) = a.w
    [] a.k = "float" /\ b.k = "float" -> (WIsNaN(a.w) /\ WIsNaN(b.w)) \/ a.w = b.w
RECURSIVE EqPy(_, _)
EqPy(a, b) ==      \* a: expected (keys are strings), b: observed
  IF a.k \in {"int", "float"} THEN b.k \in {"int", "float"} /\ NumEq(a, b)
  ELSE /\ a.k = b.k
       /\ CASE a.k = "none" -> TRUE
            [] a.k = "bool" -> a.b = b.b
            [] a.k = "str"  -> a.u = b.u
            [] a.k = "list" -> Len(a.e) = Len(b.e) /\ \A i \in 1..Len(a.e) : EqPy(a.e[i], b.e[i])
            [] a.k = "dict" -> /\ Len(a.p) = Len(b.p)            \* Python dict equality ignores order
                               /\ \A i \in 1..Len(b.p) : b.p[i].kk.k = "str"
                               /\ \A i \in 1..Len(a.p) : \E j \in 1..Len(b.p) :
                                     b.p[j].kk.u = a.p[i].kk.u /\ EqPy(a.p[i].v, b.p[j].v)
            [] OTHER -> FALSE

\* a JavaScript value as the engine holds it (wire image, no xi) against a model value
RECURSIVE SameJs(_, _)
SameJs(a, b) ==
  /\ a.k = b.k
  /\ CASE a.k = "num" -> (WIsNaN(a.w) /\ WIsNaN(b.w)) \/ a.w = b.w
       [] a.k = "bool" -> a.b = b.b
       [] a.k = "str" -> a.u = b.u
       [] a.k = "arr" -> Len(a.e) = Len(b.e) /\ \A i \in 1..Len(a.e) : SameJs(a.e[i], b.e[i])
       [] a.k = "obj" -> Len(a.p) = Len(b.p) /\ \A i \in 1..Len(a.p) : a.p[i].n = b.p[i].n /\ SameJs(a.p[i].v, b.p[i].v)
       [] a.k \in {"undef", "null"} -> TRUE
       [] OTHER -> FALSE

\* a model value against the engine's own view of it (raw engine value through the wire).  How the engine holds
\* a number that came from an int which is not a double is C03 / C06 matter: the wire calls it a hostval.
\* harness/wire.py stops classifying below nesting depth 12 ("cyc"): deeper levels are not judged through this view.
WireDepth == 12
RECURSIVE JsMatchesD(_, _, _)
JsMatchesD(a, b, d) ==
  IF b.k = "cyc" THEN d > WireDepth /\ a.k \in {"arr", "obj"}
  ELSE IF a.k = "num" /\ HasXi(a) /\ ~ExactInt(a.xi[1], a.xi[2]) /\ b.k = "hostval" THEN b.t = "int(not a double)"
  ELSE /\ a.k = b.k
       /\ CASE a.k = "num" -> (WIsNaN(a.w) /\ WIsNaN(b.w)) \/ a.w = b.w
            [] a.k = "bool" -> a.b = b.b
            [] a.k = "str" -> a.u = b.u
            [] a.k = "arr" -> Len(a.e) = Len(b.e) /\ \A i \in 1..Len(a.e) : JsMatchesD(a.e[i], b.e[i], d + 1)
            [] a.k = "obj" -> Len(a.p) = Len(b.p) /\ \A i \in 1..Len(a.p) : a.p[i].n = b.p[i].n /\ JsMatchesD(a.p[i].v, b.p[i].v, d + 1)
            [] a.k \in {"undef", "null"} -> TRUE
            [] OTHER -> FALSE
JsMatches(a, b) == JsMatchesD(a, b, 0)

\* ---------------- the context as a store of copies -------------------------------------------------
Unset == [k |-> "unset"]
NewStore(names) == [nm \in names |-> Unset]
StoreSet(st, nm, v, ks) == [st EXCEPT ![nm] = ToJs(v, ks)]      \* set: a converted copy goes in
StoreGet(st, nm) == IF st[nm].k = "unset" THEN PyNone ELSE ToPy(st[nm])     \* get: a fresh converted copy comes out
\* script-side updates used by the histories: push onto an array / assign a property / re-bind the name
StoreMut(st, nm, x) ==
  LET cur == st[nm]
  IN IF cur.k = "arr" THEN [st EXCEPT ![nm] = VArr(Append(cur.e, VInt(x)))]
     ELSE IF cur.k = "obj" THEN [st EXCEPT ![nm] = VObj(ObjSet(cur.p, U("zk"), VInt(x)))]
     ELSE st
Mutable(st, nm) == st[nm].k \in {"arr", "obj"}

\* ---------------- exposed callables ----------------------------------------------------------------
\* the script's arguments arrive in order, as they are; the return value arrives as the corresponding
\* JavaScript value; a returned None is undefined in the native call protocol (null also accepted)
RetOK(ret, got, ks) == IF ret.k = "none" THEN got.k \in {"undef", "null"} ELSE JsMatches(ToJs(ret, ks), got)
=============================================================================
