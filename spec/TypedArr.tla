------------------------------ MODULE TypedArr ------------------------------
(* Typed arrays as views over little-endian byte buffers (ECMA-262 23.2, 25.1).        *)
(*   state  ts = [bufs |-> <<byte sequence, ...>>,                                      *)
(*                views |-> <<[kind, buf, off, len, priv], ...>>]                       *)
(* A view's elements are decoded from the buffer on every read, so views over one       *)
(* buffer alias by construction.  Element coercion per kind: modular wrap for the       *)
(* integer kinds, clamp + round-half-to-even for Uint8Clamped, round-to-nearest-even    *)
(* binary32 for Float32, identity for Float64.  Doubles are four 16-bit words (JsVal).  *)
(* `priv` marks a view whose buffer was allocated by its own constructor (the engine    *)
(* keeps such arrays without a buffer; only the as-is rules look at it).                *)
(* Step(ev, ts, devs) is one event of a history: [out, ts, opaque].  Variable-free.     *)
EXTENDS JsVal, Str
JS == INSTANCE JsString
JA == INSTANCE JsArray

Kinds == <<"Int8Array", "Uint8Array", "Uint8ClampedArray", "Int16Array", "Uint16Array",
           "Int32Array", "Uint32Array", "Float32Array", "Float64Array">>
KindSet == {Kinds[i] : i \in 1..Len(Kinds)}
IntKinds == {"Int8Array", "Uint8Array", "Int16Array", "Uint16Array", "Int32Array", "Uint32Array"}
Size(kd) == CASE kd \in {"Int8Array", "Uint8Array", "Uint8ClampedArray"} -> 1
              [] kd \in {"Int16Array", "Uint16Array"} -> 2
              [] kd \in {"Int32Array", "Uint32Array", "Float32Array"} -> 4
              [] OTHER -> 8
Arg(a, i) == IF i <= Len(a) THEN a[i] ELSE Undef

ValOut(v)  == [o |-> "value", v |-> v, cls |-> ""]
ErrOut(c)  == [o |-> "throw", v |-> Undef, cls |-> c]
HostOut(c) == [o |-> "host", v |-> Undef, cls |-> c]
SkipOut    == [o |-> "skip", v |-> Undef, cls |-> ""]

\* ---- bits of a double ------------------------------------------------------------------------
P2(n) == 2 ^ n                                             \* n <= 30
BitOf(x, k) == (x \div P2(k)) % 2
\* bit k (0 = least significant) of the 53-bit significand; the hidden bit is bit 52
MBit(w, k) == IF k < 0 \/ k > 52 THEN 0
              ELSE IF k = 52 THEN (IF WExp(w) = 0 THEN 0 ELSE 1)
              ELSE IF k >= 48 THEN BitOf(w[1] % 16, k - 48)
              ELSE IF k >= 32 THEN BitOf(w[2], k - 32)
              ELSE IF k >= 16 THEN BitOf(w[3], k - 16)
              ELSE BitOf(w[4], k)
E(w) == WExp(w) - 1023                                     \* unbiased exponent of a normal double
\* value of significand bits [from, from + cnt), cnt <= 24
RECURSIVE MBits(_, _, _)
MBits(w, from, cnt) == IF cnt = 0 THEN 0 ELSE MBit(w, from) + 2 * MBits(w, from + 1, cnt - 1)
\* bits [from, from + cnt) of the integer part of |x| :  integer bit j is significand bit j + 52 - E
IBits(w, from, cnt) == MBits(w, from + 52 - E(w), cnt)
AnyBitBelow(w, k) == \E j \in 0..(k - 1) : j <= 52 /\ MBit(w, j) = 1      \* sticky: some significand bit below k is set

\* ---- integer kinds: ToInt8 ... ToUint32 as the low 32 bits <<hi16, lo16>> of the two's complement image ----------
Neg32(hl) == IF hl[2] = 0 THEN <<(65536 - hl[1]) % 65536, 0>> ELSE <<65535 - hl[1], 65536 - hl[2]>>
Low32(w) == IF WIsNaN(w) \/ WIsInf(w) \/ WExp(w) < 1023 THEN <<0, 0>>
            ELSE LET mag == <<IBits(w, 16, 16), IBits(w, 0, 16)>>
                 IN IF WSign(w) = 1 THEN Neg32(mag) ELSE mag
IntBytes(kd, hl) == SubSeq(<<hl[2] % 256, hl[2] \div 256, hl[1] % 256, hl[1] \div 256>>, 1, Size(kd))
\* Uint8Clamped: NaN -> 0, clamp to [0, 255], round half to even
Clamp8(w) ==
  IF WIsNaN(w) \/ WSign(w) = 1 \/ WExp(w) < 1022 THEN 0           \* NaN, negative (incl. -0, -Inf), below 0.5
  ELSE IF WIsInf(w) \/ E(w) >= 8 THEN 255
  ELSE LET ip == IBits(w, 0, 8)
           hpos == 52 - E(w) - 1                                    \* significand position of the 0.5 bit
           half == MBit(w, hpos)
           sticky == AnyBitBelow(w, hpos)
       IN Min(255, ip + (IF half = 1 /\ (sticky \/ ip % 2 = 1) THEN 1 ELSE 0))

\* ---- binary32 -------------------------------------------------------------------------------------
\* [s, e8, f]: sign, biased exponent, 23 fraction bits of RoundToNearestEven_binary32(x)
F32Zero(s) == [s |-> s, e8 |-> 0, f |-> 0]
F32Inf(s) == [s |-> s, e8 |-> 255, f |-> 0]
F32Of(w) ==
  IF WIsNaN(w) THEN [s |-> 0, e8 |-> 255, f |-> 4194304]
  ELSE IF WIsInf(w) THEN F32Inf(WSign(w))
  ELSE IF WExp(w) = 0 THEN F32Zero(WSign(w))                     \* zero and double subnormals (far below 2^-149)
  ELSE LET e == E(w)
           sh == IF e >= -126 THEN 29 ELSE 29 + (-126 - e)        \* significand bits dropped
       IN IF sh > 54 THEN F32Zero(WSign(w))
          ELSE LET m == MBits(w, sh, 24)
                   half == MBit(w, sh - 1)
                   sticky == AnyBitBelow(w, sh - 1)
                   r == m + (IF half = 1 /\ (sticky \/ m % 2 = 1) THEN 1 ELSE 0)
               IN IF e >= -126
                  THEN LET e1 == IF r = 16777216 THEN e + 1 ELSE e
                           f == IF r = 16777216 THEN 0 ELSE r - 8388608
                       IN IF e1 > 127 THEN F32Inf(WSign(w)) ELSE [s |-> WSign(w), e8 |-> e1 + 127, f |-> f]
                  ELSE [s |-> WSign(w), e8 |-> r \div 8388608, f |-> r % 8388608]
F32Overflows(w) == ~WIsNaN(w) /\ ~WIsInf(w) /\ F32Of(w).e8 = 255
F32Bytes(b) == <<b.f % 256, (b.f \div 256) % 256, (b.f \div 65536) + (b.e8 % 2) * 128, (b.e8 \div 2) + b.s * 128>>
F32FromBytes(y) == [s |-> y[4] \div 128, e8 |-> (y[3] \div 128) + (y[4] % 128) * 2,
                    f |-> y[1] + y[2] * 256 + (y[3] % 128) * 65536]
\* double words from sign, unbiased exponent and the top 23 fraction bits
WParts(s, e, f23) == <<s * 32768 + (e + 1023) * 16 + (f23 \div 524288), (f23 \div 8) % 65536, (f23 % 8) * 8192, 0>>
F32ToW(b) ==
  IF b.e8 = 255 THEN (IF b.f = 0 THEN (IF b.s = 1 THEN WNegInf ELSE WPosInf) ELSE WNaN)
  ELSE IF b.e8 = 0 THEN (IF b.f = 0 THEN (IF b.s = 1 THEN WNegZero ELSE WPosZero)
                         ELSE LET bl == BitLenSmall(b.f)                   \* subnormal: f * 2^-149
                              IN WParts(b.s, bl - 1 - 149, (b.f - P2(bl - 1)) * P2(23 - (bl - 1))))
  ELSE WParts(b.s, b.e8 - 127, b.f)
F64Bytes(w) == <<w[4] % 256, w[4] \div 256, w[3] % 256, w[3] \div 256, w[2] % 256, w[2] \div 256, w[1] % 256, w[1] \div 256>>
F64FromBytes(y) == <<y[7] + 256 * y[8], y[5] + 256 * y[6], y[3] + 256 * y[4], y[1] + 256 * y[2]>>

\* unsigned 32-bit <<hi16, lo16>> as a double
WOfU32(hl) == IF hl[1] < 32768 THEN WOfNat(hl[1] * 65536 + hl[2])
              ELSE LET fr == (hl[1] - 32768) * 65536 + hl[2]                \* 31 fraction bits
                   IN <<(1023 + 31) * 16 + (fr \div 134217728), (fr \div 2048) % 65536, (fr % 2048) * 32, 0>>

\* ---- element <-> bytes ----------------------------------------------------------------------------
ToNumW(v) == JS!ToNumberW(v)
\* Dev_TACoerceNonNumber: anything that is not a number or boolean is stored as 0
CoerceW(v, devs) == IF "Dev_TACoerceNonNumber" \in devs /\ v.k \notin {"num", "bool"} THEN WPosZero ELSE ToNumW(v)
Encode(kd, w) ==
  CASE kd \in IntKinds -> IntBytes(kd, Low32(w))
    [] kd = "Uint8ClampedArray" -> <<Clamp8(w)>>
    [] kd = "Float32Array" -> F32Bytes(F32Of(w))
    [] OTHER -> F64Bytes(w)
Decode(kd, y) ==
  CASE kd \in {"Uint8Array", "Uint8ClampedArray"} -> WOfNat(y[1])
    [] kd = "Int8Array" -> WOfInt(IF y[1] >= 128 THEN y[1] - 256 ELSE y[1])
    [] kd = "Uint16Array" -> WOfNat(y[1] + 256 * y[2])
    [] kd = "Int16Array" -> LET n == y[1] + 256 * y[2] IN WOfInt(IF n >= 32768 THEN n - 65536 ELSE n)
    [] kd = "Uint32Array" -> WOfU32(<<y[3] + 256 * y[4], y[1] + 256 * y[2]>>)
    [] kd = "Int32Array" -> LET hl == <<y[3] + 256 * y[4], y[1] + 256 * y[2]>>
                            IN IF hl[1] >= 32768 THEN WNeg(WOfU32(Neg32(hl))) ELSE WOfU32(hl)
    [] kd = "Float32Array" -> F32ToW(F32FromBytes(y))
    [] OTHER -> F64FromBytes(y)
\* as-is host errors of the element coercion (Dev_TANonFinite): int(nan) / round(nan) -> ValueError,
\* int(inf) / round(inf) -> OverflowError, struct.pack('<f', too large) -> OverflowError
CoerceErr(kd, w) ==
  IF kd \in IntKinds \cup {"Uint8ClampedArray"}
  THEN (IF WIsNaN(w) THEN "ValueError" ELSE IF WIsInf(w) THEN "OverflowError" ELSE "")
  ELSE IF kd = "Float32Array" /\ F32Overflows(w) THEN "OverflowError" ELSE ""

\* ---- the store ----------------------------------------------------------------------------------------
EmptyTS == [bufs |-> <<>>, views |-> <<>>]
Zeros(n) == [i \in 1..n |-> 0]
ElemBytes(ts, v, i) == LET sz == Size(v.kind) IN SubSeq(ts.bufs[v.buf], v.off + i * sz + 1, v.off + (i + 1) * sz)
ElemW(ts, v, i) == Decode(v.kind, ElemBytes(ts, v, i))                        \* 0 <= i < v.len
ViewElems(ts, v) == [i \in 1..v.len |-> VNumW(ElemW(ts, v, i - 1))]
Snap(ts) == [j \in 1..Len(ts.views) |-> ViewElems(ts, ts.views[j])]
PutBytes(buf, at, y) == [i \in 1..Len(buf) |-> IF i > at /\ i <= at + Len(y) THEN y[i - at] ELSE buf[i]]
\* write element i of view v (no-op outside 0..len-1)
PutElem(ts, v, i, w) ==
  IF i < 0 \/ i >= v.len THEN ts
  ELSE [ts EXCEPT !.bufs[v.buf] = PutBytes(@, v.off + i * Size(v.kind), Encode(v.kind, w))]
\* write a sequence of doubles sequentially starting at element `at`; as-is: stops with a host error at the first
\* value the engine cannot coerce.  Returns [ts, err]
RECURSIVE PutSeq(_, _, _, _, _, _)
PutSeq(ts, v, at, vals, k, devs) ==
  IF k > Len(vals) THEN [ts |-> ts, err |-> ""]
  ELSE LET w == CoerceW(vals[k], devs)
           er == IF "Dev_TANonFinite" \in devs THEN CoerceErr(v.kind, w) ELSE ""
       IN IF er # "" /\ at + k - 1 >= 0 /\ at + k - 1 < v.len THEN [ts |-> ts, err |-> er]
          ELSE PutSeq(PutElem(ts, v, at + k - 1, w), v, at, vals, k + 1, devs)
\* allocate a buffer of n bytes and a view over all of it
NewPriv(ts, kd, n) ==
  LET b == Len(ts.bufs) + 1
  IN [bufs |-> Append(ts.bufs, Zeros(n * Size(kd))),
      views |-> Append(ts.views, [kind |-> kd, buf |-> b, off |-> 0, len |-> n, priv |-> TRUE])]
LastView(ts) == ts.views[Len(ts.views)]

\* ---- number -> text for join / toString ------------------------------------------------------------------
NumTextOK(w) == JA!NumTextOK(w)          \* NaN, infinities, small integers, n + 0.5
\* Dev_TAToString: Python str() of the stored value: floats print as 1.0 / nan / inf / -0.0
PyFloatText(w) == IF WIsNaN(w) THEN U("nan") ELSE IF WIsInf(w) THEN (IF WSign(w) = 1 THEN U("-inf") ELSE U("inf"))
                  ELSE IF WIsZero(w) /\ WSign(w) = 1 THEN U("-0.0")
                  ELSE IF JA!IsHalfW(w) THEN JA!HalfText(w) ELSE JS!NumText(w) \o U(".0")
ElemText(kd, w, devs) == IF "Dev_TAToString" \in devs /\ kd \in {"Float32Array", "Float64Array"} THEN PyFloatText(w)
                         ELSE JA!NumTextX(w)

\* ---- events ------------------------------------------------------------------------------------------------
\* ToIndex on the grids used here
IdxW(v) == ToNumW(v)
ToIndexOK(v) == LET w == IdxW(v) IN WIsNaN(w) \/ (~WIsInf(w) /\ WTruncClamp(w) >= 0 /\ WTruncClamp(w) < Lim)
ToIndex(v) == WTruncClamp(IdxW(v))                      \* NaN -> 0
IntErr(v) == LET w == ToNumW(v) IN IF WIsNaN(w) THEN "ValueError" ELSE IF WIsInf(w) THEN "OverflowError" ELSE ""
RelIdx(n, len) == IF n < 0 THEN Max(len + n, 0) ELSE Min(n, len)
Res(out, ts) == [out |-> out, ts |-> ts, opaque |-> ""]

\* new K(n)
NewLen(ts, kd, a, devs) ==
  LET v == Arg(a, 1)
  IN IF "Dev_TACtorArgs" \in devs
     THEN \* as-is: only numbers and booleans count: [0] * int(n); a negative count gives an empty array
          IF v.k \notin {"num", "bool"} THEN Res(ValOut(Undef), NewPriv(ts, kd, 0))
          ELSE IF IntErr(v) # "" THEN Res(HostOut(IntErr(v)), ts)
          ELSE Res(ValOut(Undef), NewPriv(ts, kd, Max(0, WTruncClamp(ToNumW(v)))))
     ELSE IF ~ToIndexOK(v) THEN Res(ErrOut("RangeError"), ts)
     ELSE Res(ValOut(Undef), NewPriv(ts, kd, ToIndex(v)))
\* new K([v1, v2, ...])
NewArr(ts, kd, vals, devs) ==
  LET t1 == NewPriv(ts, kd, Len(vals))
      p == PutSeq(t1, LastView(t1), 0, vals, 1, devs)
  IN IF p.err # "" THEN Res(HostOut(p.err), ts) ELSE Res(ValOut(Undef), p.ts)
\* new ArrayBuffer(n), n a small non-negative integer
NewBuf(ts, n) == Res(ValOut(Undef), [ts EXCEPT !.bufs = Append(@, Zeros(n))])
\* new K(buffer, byteOffset?, length?) with numeric arguments
NewView(ts, kd, b, a, devs) ==
  LET sz == Size(kd)  bl == Len(ts.bufs[b])
      off == IF Len(a) >= 1 THEN ToIndex(a[1]) ELSE 0
      hasLen == Len(a) >= 2 /\ ~IsUndef(a[2])
      bad == \/ (Len(a) >= 1 /\ ~ToIndexOK(a[1])) \/ (hasLen /\ ~ToIndexOK(a[2]))
             \/ off % sz # 0
             \/ (~hasLen /\ (bl % sz # 0 \/ off > bl))
             \/ (hasLen /\ off + ToIndex(a[2]) * sz > bl)
      n == IF hasLen THEN ToIndex(a[2]) ELSE (bl - off) \div sz
      \* as-is: no validation; the constructor reads every element once: a float kind fails in struct.unpack on a short slice
      asLen == IF hasLen THEN ToIndex(a[2]) ELSE IF off > bl THEN 0 ELSE (bl - off) \div sz
      asOff == IF Len(a) >= 1 THEN WTruncClamp(ToNumW(a[1])) ELSE 0
  IN IF bad /\ "Dev_TACtorArgs" \in devs /\ kd \in {"Float32Array", "Float64Array"} /\ asLen >= 1 /\ (asOff < 0 \/ asOff + asLen * sz > bl)
        /\ \A i \in 1..Len(a) : IntErr(a[i]) = ""
     THEN Res(HostOut("error"), ts)
     ELSE IF bad THEN [Res(ErrOut("RangeError"), ts) EXCEPT !.opaque = IF "Dev_TACtorArgs" \in devs THEN "Dev_TACtorArgs" ELSE ""]
     ELSE Res(ValOut(Undef), [ts EXCEPT !.views = Append(@, [kind |-> kd, buf |-> b, off |-> off, len |-> n, priv |-> FALSE])])
\* v[i] = x   (i a non-negative integer; outside the array: ignored)
Write(ts, vi, i, x, devs) ==
  LET v == ts.views[vi]
      w == CoerceW(x, devs)
      er == IF "Dev_TANonFinite" \in devs THEN CoerceErr(v.kind, w) ELSE ""
  IN IF i < 0 \/ i >= v.len THEN Res(ValOut(x), ts)
     ELSE IF er = "ValueError" THEN Res(ValOut(x), ts)          \* as-is: swallowed by _set_property, element untouched
     ELSE IF er # "" THEN Res(HostOut(er), ts)
     ELSE Res(ValOut(x), PutElem(ts, v, i, w))
\* v.set(source, offset?)   source = [t |-> "arr", vals |-> <<...>>] | [t |-> "view", id |-> j]
SetM(ts, vi, src, a, devs) ==
  LET v == ts.views[vi]
      vals == IF src.t = "arr" THEN src.vals ELSE ViewElems(ts, ts.views[src.id])     \* read before any write
      offv == Arg(a, 1)
      off == ToIndex(offv)
      asis == "Dev_TASetRange" \in devs
      seq == "Dev_TASetOverlap" \in devs /\ src.t = "view"
      \* as-is sequential copy: element k is read when it is written (overlapping views of one buffer)
      SeqCopy[k \in 0..Len(vals)] ==
         IF k = 0 THEN [ts |-> ts, err |-> ""]
         ELSE LET p == SeqCopy[k - 1]
                  x == VNumW(ElemW(p.ts, ts.views[src.id], k - 1))
              IN IF p.err # "" THEN p ELSE PutSeq(p.ts, v, WTruncClamp(ToNumW(offv)) + k - 1, <<x>>, 1, devs)
  IN IF asis
     THEN IF Len(a) >= 1 /\ IntErr(offv) # "" THEN Res(HostOut(IntErr(offv)), ts)
          ELSE LET p == IF seq THEN SeqCopy[Len(vals)]
                        ELSE PutSeq(ts, v, IF Len(a) >= 1 THEN WTruncClamp(ToNumW(offv)) ELSE 0, vals, 1, devs)
               IN IF p.err # "" THEN Res(HostOut(p.err), p.ts) ELSE Res(ValOut(Undef), p.ts)
     ELSE IF ~ToIndexOK(offv) \/ off + Len(vals) > v.len THEN Res(ErrOut("RangeError"), ts)
     ELSE LET p == IF seq THEN SeqCopy[Len(vals)] ELSE PutSeq(ts, v, off, vals, 1, devs)
          IN IF p.err # "" THEN Res(HostOut(p.err), p.ts) ELSE Res(ValOut(Undef), p.ts)
\* v.subarray(begin?, end?): a new view on the same buffer
Subarray(ts, vi, a, devs) ==
  LET v == ts.views[vi]
      er == IF "Dev_IntArg" \in devs
            THEN (IF Len(a) >= 1 /\ IntErr(a[1]) # "" THEN IntErr(a[1]) ELSE IF Len(a) >= 2 /\ IntErr(a[2]) # "" THEN IntErr(a[2]) ELSE "")
            ELSE ""
      b == RelIdx(JS!ToIntClamp(Arg(a, 1)), v.len)
      e == IF (Len(a) < 2 \/ (IsUndef(a[2]) /\ "Dev_IntArg" \notin devs)) THEN v.len ELSE RelIdx(JS!ToIntClamp(a[2]), v.len)
      n == Max(e - b, 0)
  IN IF er # "" THEN Res(HostOut(er), ts)
     ELSE IF "Dev_TASubarrayCopy" \in devs
          THEN IF v.priv
               THEN \* as-is: an independent copy
                    LET t1 == NewPriv(ts, v.kind, n)
                        nb == Len(t1.bufs)
                    IN Res(ValOut(Undef), [t1 EXCEPT !.bufs[nb] = SubSeq(ts.bufs[v.buf], v.off + b * Size(v.kind) + 1, v.off + (b + n) * Size(v.kind))])
               ELSE \* as-is: shares the buffer but forgets the byte offset
                    Res(ValOut(Undef), [ts EXCEPT !.views = Append(@, [kind |-> v.kind, buf |-> v.buf, off |-> 0, len |-> n, priv |-> FALSE])])
          ELSE Res(ValOut(Undef), [ts EXCEPT !.views = Append(@, [kind |-> v.kind, buf |-> v.buf, off |-> v.off + b * Size(v.kind), len |-> n, priv |-> v.priv])])
\* v.join(sep?) / v.toString()
JoinM(ts, vi, a, devs) ==
  LET v == ts.views[vi]
      sep == IF Len(a) = 0 \/ (IsUndef(a[1]) /\ "Dev_JoinSep" \notin devs) THEN <<44>> ELSE JS!ToStrU(a[1])
      txt == Flatten([i \in 1..(2 * v.len - 1) |-> IF i % 2 = 0 THEN sep ELSE ElemText(v.kind, ElemW(ts, v, (i + 1) \div 2 - 1), devs)])
  IN Res(ValOut(VStr(txt)), ts)

\* ev = [op, kind, vi (view / buffer id), i, x, a (argument values), src]
Step(ev, ts, devs) ==
  IF ev.op \in {"write", "set", "subarray", "join", "tostr", "len"} /\ ev.vi > Len(ts.views) THEN Res(SkipOut, ts)
  ELSE IF ev.op = "view" /\ ev.vi > Len(ts.bufs) THEN Res(SkipOut, ts)
  ELSE IF ev.op = "set" /\ ev.src.t = "view" /\ ev.src.id > Len(ts.views) THEN Res(SkipOut, ts)
  ELSE CASE ev.op = "newlen" -> NewLen(ts, ev.kind, ev.a, devs)
         [] ev.op = "newarr" -> NewArr(ts, ev.kind, ev.src.vals, devs)
         [] ev.op = "newbuf" -> NewBuf(ts, ev.i)
         [] ev.op = "view" -> NewView(ts, ev.kind, ev.vi, ev.a, devs)
         [] ev.op = "write" -> Write(ts, ev.vi, ev.i, ev.x, devs)
         [] ev.op = "set" -> SetM(ts, ev.vi, ev.src, ev.a, devs)
         [] ev.op = "subarray" -> Subarray(ts, ev.vi, ev.a, devs)
         [] ev.op = "join" -> JoinM(ts, ev.vi, ev.a, devs)
         [] ev.op = "tostr" -> JoinM(ts, ev.vi, <<>>, devs)
         [] ev.op = "len" -> Res(ValOut(VInt(ts.views[ev.vi].len)), ts)

\* deviations a given event can reach (the judge tries the subsets)
Relevant(ev) ==
  CASE ev.op = "newlen" -> {"Dev_TACtorArgs"}
    [] ev.op = "newarr" -> {"Dev_TACoerceNonNumber", "Dev_TANonFinite"}
    [] ev.op = "view" -> {"Dev_TACtorArgs"}
    [] ev.op = "write" -> {"Dev_TACoerceNonNumber", "Dev_TANonFinite"}
    [] ev.op = "set" -> {"Dev_TACoerceNonNumber", "Dev_TANonFinite", "Dev_TASetRange"} \cup (IF ev.src.t = "view" THEN {"Dev_TASetOverlap"} ELSE {})
    [] ev.op = "subarray" -> {"Dev_IntArg", "Dev_TASubarrayCopy"}
    [] ev.op \in {"join", "tostr"} -> {"Dev_TAToString"} \cup (IF Len(ev.a) >= 1 /\ IsUndef(ev.a[1]) THEN {"Dev_JoinSep"} ELSE {})
    [] OTHER -> {}

\* is the event inside the fragment this module specifies
ValOK(v) == v.k \in {"undef", "null", "bool", "num"} \/ (v.k = "str" /\ JS!ConvSupported(v))
EvOK(ev, ts) ==
  CASE ev.op = "newlen" -> ValOK(Arg(ev.a, 1)) /\ (WIsNaN(ToNumW(Arg(ev.a, 1))) \/ WIsInf(ToNumW(Arg(ev.a, 1))) \/ WTruncClamp(ToNumW(Arg(ev.a, 1))) <= 64)
    [] ev.op = "newarr" -> \A i \in 1..Len(ev.src.vals) : ValOK(ev.src.vals[i])
    [] ev.op = "view" -> \A i \in 1..Len(ev.a) : ev.a[i].k = "num"
    [] ev.op = "write" -> ValOK(ev.x)
    [] ev.op = "set" -> (ev.src.t = "arr" => \A i \in 1..Len(ev.src.vals) : ValOK(ev.src.vals[i])) /\ \A i \in 1..Len(ev.a) : ValOK(ev.a[i])
    [] ev.op = "subarray" -> \A i \in 1..Len(ev.a) : ValOK(ev.a[i])
    [] ev.op \in {"join", "tostr"} -> /\ (Len(ev.a) >= 1 => JS!ToStrSupported(ev.a[1]))
                         /\ (ev.vi <= Len(ts.views) => \A i \in 1..ts.views[ev.vi].len : NumTextOK(ElemW(ts, ts.views[ev.vi], i - 1)))
    [] OTHER -> TRUE
=============================================================================
