"""C18 - numbers print, parse and round as IEEE doubles the ECMAScript way (DESIGN 5/C18)."""
import json, random, struct
from harness import tlc, engine, wire
from harness.common import Machinery
from checks.c06 import run_tlc, int_valued, judge_batched, rerun_hangs

ENUM_CFG = "INIT EnumInit\nNEXT EnumNext\nCONSTRAINT EnumEmit\nINVARIANT LawsHold\nCHECK_DEADLOCK FALSE\n"
JUDGE_CFG = "INIT JudgeInit\nNEXT JudgeNext\nCHECK_DEADLOCK FALSE\n"
ZERO = {"k": "num", "w": [0, 0, 0, 0]}


def expand(records):
    """Flatten what TLC printed into cases; no space is defined here."""
    cases, seen = [], set()

    def add(g, m, x, a):
        base = {"g": g, "m": m, "x": x, "a": a, "intrep": False}
        k = json.dumps(base, sort_keys=True)
        if k in seen:
            return
        seen.add(k)
        base["id"] = len(cases)
        cases.append(base)
        if int_valued(x) and g in ("fmt", "key") or any(int_valued(v) for v in a) and g in ("parse", "math"):
            d = dict(base)
            d["intrep"] = True
            d["id"] = len(cases)
            cases.append(d)

    for r in records:
        g = r.get("g")
        if g == "fmt":
            for c in r["calls"]:
                add("fmt", c["m"], r["x"], c["a"])
            for m in r["sites"]:
                add("key", m, r["x"], [])
            for sp in r["lits"]:
                for m in r["forms"]:
                    add("lit", m, r["x"], [{"k": "str", "u": sp}])
        elif g == "long":
            for c in r["calls"]:
                add("long", c["m"], ZERO, c["a"])
        elif g == "parse":
            for s in r["strs"]:
                for p in r["parsers"]:
                    add("parse", p, ZERO, [{"k": "str", "u": s}])
        elif g == "radix":
            for rv in r["radixes"]:
                add("parse", "parseInt", ZERO, [{"k": "str", "u": r["str"]}, rv])
        elif g == "math":
            for a in r["args"]:
                add("math", r["fn"], ZERO, a)
            for a in r.get("rnd", []):          # family Rnd: the function's own rounding thresholds (spec: RndArgs)
                add("math", r["fn"], ZERO, a)
    return cases


def random_doubles(rnd, n):
    out = []
    for _ in range(n):
        p = rnd.random()
        if p < 0.6:
            u = rnd.getrandbits(64)
        elif p < 0.8:      # moderate exponents, where the notation thresholds are
            u = (rnd.getrandbits(1) << 63) | ((1023 + rnd.randint(-70, 75)) << 52) | rnd.getrandbits(52)
        else:              # short decimals
            x = round(rnd.random() * 10 ** rnd.randint(-9, 22), rnd.randint(0, 6))
            u = int.from_bytes(struct.pack(">d", x), "big")
        x = struct.unpack(">d", u.to_bytes(8, "big"))[0]
        if x != x:
            continue
        out.append({"k": "num", "w": wire.dbl_words(x)})
    return out


def run(rep):
    quick = rep.tier == "quick"
    res = run_tlc(rep.pid, "C18", ENUM_CFG, env={"TIER": rep.tier}, timeout=(1800 if rep.tier == "quick" else 7200), tag="enum", heap="4g")
    rep.add_tlc("C18.Enum+Laws", res)
    cases = expand(res.records)
    if len(cases) < 5000:
        raise Machinery("enumeration produced only %d cases" % len(cases))
    rep.spaces.append({"space": "formatting calls x double grid, property-name sites and literal spellings x double grid, parsers x numeric-string grammar, parseInt x radix, long digit strings x radix, Math x special values, rounding Math functions x threshold grid of their target format (TLC-enumerated)",
                       "cases": len(cases), "complete": True})
    # seeded random bit patterns: printing (implicit / toString / a few digit counts) judged by the same specification
    rnd = random.Random(rep.seed)
    extra = []
    for w in random_doubles(rnd, 1500 if quick else 40000):
        calls = [("implicit", []), ("json", [])]
        k = rnd.randint(0, 20)
        calls.append(rnd.choice([("toFixed", [num(k)]), ("toPrecision", [num(k + 1)]), ("toExponential", [num(k)]), ("toExponential", [])]))
        for m, a in calls:
            extra.append({"id": len(cases) + len(extra), "g": "fmt", "m": m, "x": w, "a": a, "intrep": False})
    rep.spaces.append({"space": "random bit patterns x printing calls (seeded)", "cases": len(extra), "complete": False})
    allc = cases + extra
    results = engine.run_cases(rep.pid, allc, driver="checks.c18_driver:run_case")
    results = rerun_hangs(rep.pid, allc, results, "checks.c18_driver:run_case")
    byid = {c["id"]: c for c in allc}
    recs = []
    for r in results:
        c = byid[r["id"]]
        rec = dict(c)
        rec["out"] = normal(r["out"])
        recs.append(rec)
    if len(recs) != len(allc):
        raise Machinery("engine returned %d results for %d cases" % (len(recs), len(allc)))
    verdicts, st, tr = judge_batched(rep.pid, "C18", recs, JUDGE_CFG)
    rep.add_judge(len(recs), st, tr)
    rep.evaluations = len(recs)
    got = {v["id"]: v for v in verdicts}
    if len(got) != len(recs):
        raise Machinery("judge returned %d verdicts for %d records" % (len(got), len(recs)))
    rmap = {r["id"]: r for r in recs}
    counts = {}
    for i, v in sorted(got.items()):
        r = rmap[i]
        counts[v["v"]] = counts.get(v["v"], 0) + 1
        if v["v"] == "pass":
            if len(rep.samples) < 5 and i % 1999 == 0:
                rep.sample({"case": show_case(r), "engine": show_out(r["out"]), "verdict": "pass"})
            continue
        if v["v"] != "mismatch":
            raise Machinery("judge verdict %r on case %s (engine: %s)" % (v["v"], show_case(r), show_out(r["out"])))
        rep.mismatch(show_case(r), {"expected": show_exp(v["exp"]), "actual": show_out(r["out"]),
                                    "case": {"g": r["g"], "m": r["m"], "intrep": r["intrep"]}}, dev=v.get("dev", ""))
    rep.exhaustive = True
    rep.notes["verdict_counts"] = counts
    rep.notes["rule"] = "distinct (call, receiver/arguments, number representation) tuples; every one is judged"
    rep.assumptions += ["JsNumFmt/JsConv/Dbl transcribe ECMA-262 21.1.3, 19.2.4-5, 7.1.4, 6.1.6.1.20, 21.3.2",
                        "transcendental Math functions are judged at their special points only (class, sign, never raising); accuracy within one ulp elsewhere is not decidable here",
                        "toString(radix) is exact for integers below 2^53 and in power-of-two radices; elsewhere only the integer part and the digit alphabet are judged",
                        "numeric strings have at most 20 significant digits (ECMA-262 allows approximation beyond)"]


def num(k):
    return {"k": "num", "w": wire.dbl_words(float(k))}


def normal(out):
    if out["o"] == "value":
        return {"o": "value", "v": out["v"], "cls": "", "type": ""}
    if out["o"] == "throw":
        return {"o": "throw", "v": {"k": "undef"}, "cls": out["cls"], "type": ""}
    return {"o": out["o"], "v": {"k": "undef"}, "cls": "", "type": out.get("type", out.get("name", ""))}


def show_case(c):
    ir = " [int repr]" if c.get("intrep") else ""
    args = ", ".join(wire.show(a) for a in c["a"])
    if c["g"] == "fmt":
        if c["m"] in ("implicit", "String", "json"):
            return "%s(%s)%s" % (c["m"], wire.show(c["x"]), ir)
        return "(%s).%s(%s)%s" % (wire.show(c["x"]), c["m"], args, ir)
    if c["g"] == "math":
        return "Math.%s(%s)%s" % (c["m"], args, ir)
    if c["g"] == "key":
        return "%s(%s)%s" % (c["m"], wire.show(c["x"]), ir)
    if c["g"] == "lit":
        return "%s<%s> (= %s)" % (c["m"], wire.from_units(c["a"][0]["u"]), wire.show(c["x"]))
    if c["g"] == "long":
        return "%s(%s)" % (c["m"], ", ".join(short_text(a) for a in c["a"]))
    return "%s(%s)%s" % (c["m"], args, ir)


def short_text(a):
    """A long digit string is shown by its runs."""
    if a.get("k") != "str" or len(a["u"]) < 60:
        return wire.show(a)
    runs = []
    for ch in wire.from_units(a["u"]):
        if runs and runs[-1][0] == ch:
            runs[-1][1] += 1
        else:
            runs.append([ch, 1])
    return "'" + "".join(ch if n == 1 else "%s{%d}" % (ch, n) for ch, n in runs) + "'"


def show_out(o):
    if o["o"] == "value":
        return wire.show(o["v"])
    if o["o"] == "throw":
        return "throws " + o["cls"]
    return o["o"] + ":" + o.get("type", "")


def show_exp(e):
    if e["o"] == "value":
        return wire.show(e["v"])
    if e["o"] == "throw":
        return "throws " + e["cls"]
    if e["o"] == "approx":
        return "<a number, not NaN, sign %s>" % e["s"]
    return "<%s>%s..." % (e["o"], wire.from_units(e.get("u", [])))
