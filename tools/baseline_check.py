#!/usr/bin/env python3
"""Run the repository's baseline command on a tree and compare with BASELINE.json's stable_pass.
usage: tools/baseline_check.py [repo_dir]   (exit 0 iff every baseline test passes)"""
import sys, os, json, subprocess, tempfile
import xml.etree.ElementTree as ET
repo = sys.argv[1] if len(sys.argv) > 1 else "/repo"
out = tempfile.mktemp(suffix=".xml")
env = dict(os.environ, PYTHONPATH=os.path.join(repo, "src"))
env.pop("MICROJS_VERIF", None)
subprocess.run(["/venv/bin/python", "-m", "pytest", "-ra", "-q", "-p", "no:cacheprovider", "--timeout=900",
                "--continue-on-collection-errors", "--junitxml=" + out], cwd=repo, env=env,
               stdout=subprocess.DEVNULL, stderr=subprocess.DEVNULL)
base = set(json.load(open("/root/.vp/BASELINE.json"))["stable_pass"])
ok = set()
for tc in ET.parse(out).iter("testcase"):
    if not [c for c in tc if c.tag in ("failure", "error", "skipped")]:
        ok.add(tc.get("classname") + "::" + tc.get("name"))
os.unlink(out)
missing = sorted(base - ok)
print("baseline %d, passing %d, missing %d %s" % (len(base), len(base & ok), len(missing), missing[:8]))
sys.exit(1 if missing else 0)
