"""C12 driver (runs inside the engine child): replay one history on real Context objects.

A history is a sequence of events [c, k] over contexts 1..nc enumerated by TLC (spec/C12.tla).  The
driver renders each event, runs it, and after EVERY step probes the whole projected state of EVERY
context in play.  It defines no space and computes no expectation: the trace goes back to TLC.
"""
from harness import wire  # noqa: F401  (kept for symmetry with other drivers)

TICK = 0.001           # virtual seconds per interpreter step; limits arrive in ticks

SNIPPETS = {
    "defvar": "var g = %d",
    "deffun": "function f(){ return %d }",
    "assign": "g = %d",
    "delete": "delete Object.prototype.zo",
    "mut_objproto": "Object.prototype.zo = %d",
    "mut_math": "Math.zm = %d",
    "mut_arrproto": "Object.getPrototypeOf([]).za = %d",
    "mut_strctor": "String.zs = %d",
    "mut_errproto": "Error.prototype.ze = %d",
    "throw": "var g = %d; throw new Error('boom')",
    "loop": "var g = %d; while (true) {}",
    "recurse": "var g = %d; (function r(){ return r() + 1 })()",
    "syntax": "var g = %d; var = ;",
    "ieval": "(1,eval)('var g = %d')",
    "ieval_loop": "(1,eval)('var g = %d; while (true) {}')",
    "newfn": "new Function('return g')()",
    "read": "g",
    "reenter": "__re(%d); __ptr()",
    # re-declaration of a name that may exist already (family R)
    "redecl": "var g;",
    "redecl_f": "var f;",
    "redecl_or": "var g = g || %d",
    "redecl_dead": "if (false) { var g = %d }",
    "redecl_ieval": "(1,eval)('var g;')",
    "redecl_newfn": "new Function('var g; return g')()",
    "redecl_newfn_init": "new Function('var g = %d; return g')()",
    "redecl_throw": "var g; throw new Error('boom')",
}
# family I: the target (an object expression and a property name) comes with the history
INV_SNIPPETS = {
    "inv_mut": "%(obj)s.%(prop)s = %(x)d",
    "inv_del": "delete %(obj)s.%(prop)s",
    "inv_throw": "%(obj)s.%(prop)s = %(x)d; throw new Error('boom')",
    "inv_ieval": '(1,eval)("%(obj)s.%(prop)s = %(x)d")',          # no root expression contains a double quote
    "inv_loop": "%(obj)s.%(prop)s = %(x)d; while (true) {}",
}
MARKER = "zq"
VIAS = ["self", "proto", "gpo", "inst", "mem", "pmem"]
# literal roots (objects that are reachable without a global name): their prototype objects
LITERAL_ROOTS = ["[]", "({})", "(function(){})", "(x => x)", "''", "(0)", "true", "/x/", "new Error('x')",
                 "JSON.parse('{}')", "JSON.parse('[]')", "[].concat([])", "Object.keys({})", "'a'.split('')"]


def target_of(rec):
    """inventory record -> (object expression, property name).  Pure rendering."""
    root, via = rec["root"], rec["via"]
    if via == "self":
        return root, MARKER
    if via == "proto":
        return root + ".prototype", MARKER
    if via == "gpo":
        return "Object.getPrototypeOf(%s)" % root, MARKER
    if via == "inst":
        return "Object.getPrototypeOf(new %s())" % root, MARKER
    if via == "mem":
        return root, rec["mem"]
    if via == "pmem":
        return root + ".prototype", rec["mem"]
    raise ValueError(via)


def read_expr(obj, prop):
    """the marker as a small integer: a positive integer written by a history, 0 for anything else"""
    return ("(function(v){ return (typeof v === 'number' && v === (v | 0) && v >= 1) ? v : 0 })(%s.%s)" % (obj, prop))

# the probe is installed once per context (rendering it for every step costs 1.4 ms of parsing)
PROBE_SRC = (
    "function __p(){ var a = []; var o = {}; var e = new Error('x'); var dg = 1; var df = 1; "
    "try { g } catch (x) { dg = 0 } try { f } catch (x) { df = 0 } return ["
    "typeof g === 'undefined' ? 0 : (typeof g === 'number' ? 1 : 9), typeof g === 'undefined' ? 0 : g, "
    "typeof f === 'undefined' ? 0 : (typeof f === 'function' ? 2 : 9), typeof f === 'function' ? f() : 0, "
    "o.zo, Math.zm, a.za, String.zs, e.ze, dg, df]; }"
)
NPROBE = 11


def cls(v):
    """small-integer image of a Python value handed back by get/eval (see ContextModel!Observe)"""
    import microjs.values as V
    if v is None:
        return 0
    if v is True:
        return -2
    if v is False:
        return -3
    if isinstance(v, (int, float)):
        if v == v and v in (float("inf"), float("-inf")):
            return -1
        if v != v or v != int(v) or not (0 <= v < 1000000):
            return -1
        return int(v)
    if isinstance(v, V.JSFunction):
        return -4
    return -1


def probe(api, ctx, baseline, ptr, inv=False):
    gg = cls(ctx.get("g"))
    fg = cls(ctx.get("f"))
    # family I: the marker on the inventory target of this history is read through its access path in the same evaluation
    out = api.run(lambda: ctx.eval("[__p(), __q()]" if inv else "[__p(), 0]"), tick=TICK, cap=20000, wall=60.0)
    pv = out.get("pv")
    if (out["o"] == "value" and isinstance(pv, list) and len(pv) == 2 and isinstance(pv[0], list)
            and len(pv[0]) == NPROBE):
        p = [cls(x) for x in pv[0]]
        q = cls(pv[1])
    else:
        p = [-1] * NPROBE       # the context is not usable: a mismatch, judged by the specification
        q = -1
    extra = len([n for n in ctx._globals if n not in baseline and n not in ("g", "f")])
    return [gg, p[0], p[1], fg, p[2], p[3]] + p[4:9] + [ptr, extra] + p[9:11] + [q]


_PROBE_FN = []
_TARGET_FN = {}        # (object expression, property) -> compiled reader of the marker, one per child process


def new_ctx(api, lim, target=None):
    """A fresh context with the probe installed.  The probe function is compiled once per child process and
    handed to every context with Context.set (a script function object carries no context state)."""
    ctx = api.Context(time_limit=lim["t"] * TICK, memory_limit=lim["m"])
    if not _PROBE_FN:
        scratch = api.Context()
        scratch.eval(PROBE_SRC)
        fn = scratch._globals["__p"]
        chk = api.Context()
        chk.set("__p", fn)
        got = chk.eval("__p()")
        if got != [0] * 4 + [None] * 5 + [0, 0]:
            raise RuntimeError("probe function does not work when shared between contexts: %r" % (got,))
        _PROBE_FN.append(fn)
    ctx.set("__p", _PROBE_FN[0])
    # exposed callables for the re-entrant snippet: evaluate on the same context / report the current-VM pointer
    ctx.set("__re", lambda n: (ctx.eval("var g = %d" % int(n)), None)[1])
    ctx.set("__ptr", lambda: 0 if ctx._current_vm is None else 1)
    if target is not None:
        if target not in _TARGET_FN:
            scratch = api.Context()
            scratch.eval("function __q(){ return %s }" % read_expr(*target))
            fn = scratch._globals["__q"]
            chk = api.Context()
            chk.set("__q", fn)
            chk.eval("%s.%s = 7" % target)
            got = chk.eval("__q()")
            chk.eval("delete %s.%s" % target)
            if got != 7:        # the function must resolve the path in the context that calls it
                raise RuntimeError("marker reader for %s.%s does not work when shared between contexts" % target)
            _TARGET_FN[target] = fn
        ctx.set("__q", _TARGET_FN[target])
    return ctx, frozenset(ctx._globals)


def discover(case, api):
    """Family I, the inventory: every global name of a fresh context (and the literal roots) x every via, with
    ok = 1 iff on a scratch context the path designates an object/function, the marker reads 0 there, a number
    written to it reads back, and deleting it makes it read 0 again.  Raw facts; C12.tla decides what is a target."""
    names = sorted(api.Context()._globals)
    recs = []

    def test(obj, prop):
        s = api.Context(time_limit=1.0)
        rd = read_expr(obj, prop)
        src = ("var r = 0; var o = %s; if ((typeof o === 'object' || typeof o === 'function') && o !== null) { "
               "if (%s === 0) { %s.%s = 7; if (%s === 7) { delete %s.%s; if (%s === 0) { r = 1 } } } } r"
               % (obj, rd, obj, prop, rd, obj, prop, rd))
        out = api.run(lambda: s.eval(src), wall=20.0, cap=200000)
        return 1 if out["o"] == "value" and out["pv"] == 1 else 0      # an error: the path cannot be evaluated, not a target

    def keys(obj):
        s = api.Context(time_limit=1.0)
        out = api.run(lambda: s.eval("var o = %s; ((typeof o === 'object' || typeof o === 'function') && o !== null) "
                                     "? Object.keys(o) : []" % obj), wall=20.0, cap=200000)
        ks = out["pv"] if out["o"] == "value" else []
        return [k for k in ks if isinstance(k, str) and k.isidentifier() and k != "prototype"] if isinstance(ks, list) else []

    for lit, roots in ((0, names), (1, LITERAL_ROOTS)):
        for root in roots:
            for via in (VIAS if lit == 0 else ["gpo"]):
                if via in ("mem", "pmem"):
                    holder = root if via == "mem" else root + ".prototype"
                    for n, k in enumerate(keys(holder), start=1):
                        rec = {"root": root, "lit": lit, "via": via, "mem": k, "ord": n}
                        rec["ok"] = test(*target_of(rec))
                        recs.append(rec)
                else:
                    rec = {"root": root, "lit": lit, "via": via, "mem": "", "ord": 0}
                    rec["ok"] = test(*target_of(rec))
                    recs.append(rec)
    return {"id": case["id"], "inventory": recs}


def replay(case, api):
    """case = {id, nc, limits: [{t, m}], h: [{c, k}]} -> {tid, nc, ev: [{c,k,x,o,r,pr}]}"""
    nc = case["nc"]
    tj, late = case.get("tj", 0), case.get("late", 0)
    target = target_of(case["target"]) if tj else None
    first = case["h"][0]["c"] - 1
    # late: the contexts other than the first actor's are created after the first event has run
    ctxs = [new_ctx(api, case["limits"][c], target) if (not late or c == first) else None for c in range(nc)]
    evs = []
    for n, e in enumerate(case["h"], start=1):
        c, k = e["c"], e["k"]
        ctx = ctxs[c - 1][0]
        if k == "set":
            out = api.run(lambda: ctx.set("g", n), tick=TICK, cap=50000, wall=60.0)
        elif k == "get":
            out = api.run(lambda: ctx.get("g"), tick=TICK, cap=50000, wall=60.0)
        elif k in INV_SNIPPETS:
            src = INV_SNIPPETS[k] % {"obj": target[0], "prop": target[1], "x": n}
            out = api.run(lambda: ctx.eval(src), tick=TICK, cap=50000, wall=60.0)
        else:
            t = SNIPPETS[k]
            src = t % n if "%d" in t else t
            out = api.run(lambda: ctx.eval(src), tick=TICK, cap=50000, wall=60.0)
        r = cls(out.get("pv")) if out["o"] == "value" else -1
        # the pointer of every context is read first: the probe itself evaluates, which would clear a stale pointer
        ctxs = [cx if cx is not None else new_ctx(api, case["limits"][j], target) for j, cx in enumerate(ctxs)]
        ptrs = [1 if cx._current_vm is None else 0 for cx, _ in ctxs]
        evs.append({"c": c, "k": k, "x": n, "o": out["o"], "r": r,
                    "pr": [probe(api, cx, base, p, inv=bool(tj)) for (cx, base), p in zip(ctxs, ptrs)]})
    return {"id": case["id"], "tid": case["id"], "nc": nc, "tj": tj, "ev": evs}
