-------------------------------- MODULE C01 --------------------------------
(* C01 - the time limit bounds every evaluation, whatever the script does.            *)
(*  TimeLimit.tla : the enforcement mechanism as a state machine (model checking).      *)
(*  This module   : Enum  - keep-running constructs x places where script code runs x   *)
(*                          try/catch/finally wrappers x T x memory_limit set/unset,     *)
(*                          plus finite twins that must NOT be stopped;                   *)
(*                  Judge - runs recorded under the virtual clock (one tick per           *)
(*                          interpreter instruction or regex step): outcome and the       *)
(*                          number of steps executed after the deadline, per loop kind.   *)
EXTENDS Naturals, Integers, Sequences, FiniteSets, TLC, Json, IOUtils

Tier == IF "TIER" \in DOMAIN IOEnv THEN IOEnv.TIER ELSE "quick"
Quick == Tier = "quick"

\* catastrophic backtracking reached through every regex-consuming API x every way to construct the regex
\* ... and through every way of REACHING the matcher: method call, detached method value, call / apply of the method, the
\* method handed to another built-in as a callback (a regex bound to the running clock only when it is the receiver or a
\* direct argument of a method call is unpolled on the other routes)
RxApis == {"test", "exec", "match", "search", "replace", "replaceAll", "split",
           "testdetached", "execdetached", "testcall", "testapply", "replaceapply", "sometest", "matchcall", "splitapply", "mapexec"}
RxCtors == {"literal", "RegExp_str", "new_RegExp_str", "new_RegExp_regex", "RegExp_regex", "string_pattern", "lookahead_copy"}
RxLoops == {"rx_" \o a \o "_" \o c : a \in RxApis, c \in RxCtors}
\* regex_short_runs / regex_many_attempts: ONE regex call whose work is spread over very many short matcher runs
\* (a lookbehind tried from every start position; a search whose every attempt fails after ~20 steps)
\* One keep-running construct per kind of control transfer that can close a cycle in the interpreter: backward jump (while / for /
\* do-while / labelled continue), plain call, method call, construction with new, iterator step over a growing array. A limit check
\* placed only on some kinds of transfer ("safepoints") leaves the other cycles unbounded, so every kind has a construct whose
\* cycle contains no other kind.
RecLoops == {"recursion", "mutual", "ctor_recursion", "ctor_mutual", "method_recursion", "ctor_method_mutual"}
BaseLoops == {"while", "for", "dowhile", "labelled", "regex_backtrack", "regex_loop", "regex_lookahead",
              "nested_eval_loop", "regex_short_runs", "regex_many_attempts", "regex_lookbehind_in_loop",
              "forof_growing", "switch_continue", "logical_for",
              \* built-ins driving built-ins (a bound forEach / map given to forEach / map, four levels): no instruction is executed
              "native_nest", "native_nest_map"} \cup RecLoops
\* a value created by one evaluation and used by a later one on the same context, after the first one's deadline is
\* long past on the (virtual) clock: the later evaluation has its own budget and must finish normally
CarryLoops == {"carry_regex_literal", "carry_regex_ctor", "carry_regex_in_closure", "carry_function", "carry_string_method_regex",
               \* the same pattern text used again, on the same context and on a FRESH context of the same process
               "carry_string_pattern", "fresh_string_pattern", "fresh_regex_literal", "fresh_regex_ctor"}
\* one built-in call on a tiny operand with an argument at the edge of its domain (empty search string, empty match, zero /
\* NaN / huge counts and positions): it returns at once - a host-level loop that stops advancing hangs beyond every limit
TinyCalls == {"replaceAll_empty", "replaceAll_empty_fn", "replace_empty", "split_empty", "split_empty_rx", "split_lookahead", "match_empty_g",
              "replace_empty_rx_g", "replaceAll_empty_rx", "search_empty", "indexOf_empty_far", "lastIndexOf_empty", "repeat_zero", "repeat_empty_big",
              "padlike_concat", "join_empty", "slice_nan", "substring_swap", "exec_empty_g_loop", "test_sticky_empty", "matchall_like",
              "array_splice_zero", "array_fill_like", "array_indexOf_nan", "sort_equal", "stringify_empty", "parse_ws", "toFixed_zero", "parseInt_empty",
              "trim_ws_only", "includes_empty", "startsWith_empty_far", "charAt_big", "fromCharCode_none", "concat_none", "keys_empty", "reduce_single"}
TinyLoops == {"tiny_" \o c : c \in TinyCalls}
Loops == BaseLoops \cup RxLoops \cup CarryLoops \cup TinyLoops
Places == {"top", "function", "arrow", "ctor", "cb_forEach", "cb_map", "cb_filter", "cb_reduce", "cb_reduceRight",
           "cb_some", "cb_every", "cb_find", "cb_findIndex", "cb_sort", "getter", "setter", "valueOf", "call", "apply", "bind",
           "eval", "Function", "eval_in_eval", "cb_in_cb"}
Wraps == {"bare", "try_catch", "try_finally", "try_catch_finally", "catch_loops_again", "finally_loops_again", "inner_fn_try"}
Ts == IF Quick THEN {2500} ELSE {2500, 7300}
Mems == IF Quick THEN {0} ELSE {0, 10000000}
QuickPick(c) == \/ c.wrap = "bare" /\ c.loop \in BaseLoops
                \/ c.loop \in TinyLoops
                \/ c.loop \in CarryLoops
                \/ c.loop \in RxLoops /\ c.place \in {"top", "cb_map", "getter"} /\ c.wrap \in {"bare", "try_catch"} /\ ~c.finite
                \/ c.place \in {"top", "cb_forEach", "getter", "eval"} /\ c.loop \in BaseLoops
                \/ c.loop \in {"while", "regex_backtrack"} /\ c.place \in {"function", "cb_sort", "valueOf", "apply", "Function"}
\* cost profile of the steps over the run: uniform (one tick per step), or cheap steps for the first 60 % of T and costly
\* ones afterwards (the bound on late STEPS is the same: the clock is read every PV instructions whatever they cost)
Profs == {"uniform", "cheap_then_costly"}
Cases == {c \in [loop : Loops, place : Places, wrap : Wraps, t : Ts, m : Mems, finite : BOOLEAN, prof : Profs] :
            /\ (c.prof # "uniform" => ~c.finite /\ c.wrap \in {"bare", "try_catch"} /\ c.loop \in {"while", "for", "dowhile", "recursion", "method_recursion", "forof_growing", "nested_eval_loop", "regex_loop"}
                                      /\ c.place \in {"top", "function", "cb_forEach", "getter", "eval", "ctor"})
            /\ (Quick => QuickPick(c))
            /\ (c.finite => c.wrap \in {"bare", "try_catch"} /\ c.m = 0)
            /\ (c.loop \in CarryLoops => c.finite /\ c.place = "top" /\ c.wrap = "bare" /\ c.m = 0)
            /\ (c.loop \in TinyLoops => c.finite /\ c.place \in {"top", "function", "cb_map"} /\ c.wrap = "bare" /\ c.m = 0)
            /\ (c.loop \in RxLoops => ~c.finite /\ c.place \in {"top", "function", "cb_map", "cb_sort", "getter", "valueOf", "eval", "call"})
            /\ (c.loop \in RecLoops => c.m = 0)}     \* with M set, runaway recursion ends in MemoryLimitError first (C02)

VARIABLES ph, cur, rec_i
vars == <<ph, cur, rec_i>>
EnumInit == ph = "start" /\ cur = <<>> /\ rec_i = 0
EnumNext == ph = "start" /\ \E c \in Cases : ph' = "case" /\ cur' = c /\ UNCHANGED rec_i
EnumEmit == ph = "start" \/ PrintT(ToJson(cur))

\* ---- Judge -----------------------------------------------------------------------------------
PV == 1000       \* VM polls the clock every 1000th instruction
PR == 100        \* the regex VM every 100th step (and at the start of every call)
Slack == 2       \* the instruction / step in flight when the deadline passes
Recs == ndJsonDeserialize(IOEnv.OBS_FILE)
\* r = [id, finite, o, lateV, lateR, steps, t, isnum]
Verdict(r) ==
  IF r.finite THEN (IF r.o = "value" /\ r.isnum THEN "pass"
                    ELSE IF r.o = "timelimit" THEN "stopped-although-finished-in-time" ELSE "finite-twin-failed:" \o r.o)
  \* a script that finished before the deadline legitimately returns its value (e.g. a construction form the engine
  \* treats differently from ECMAScript: that is another property's subject); after the deadline a value is made up
  ELSE IF r.o \in {"value", "jserror"} /\ r.steps <= r.t THEN "pass"
  ELSE IF r.o = "value" THEN "returned-a-value-after-the-deadline"
  ELSE IF r.o = "hang" THEN "never-stopped"
  ELSE IF r.o # "timelimit" THEN "wrong-error:" \o r.o
  ELSE IF r.lateV > PV + Slack THEN "vm-overrun"
  ELSE IF r.lateR > PR + Slack THEN "regex-overrun"
  ELSE "pass"
JudgeInit == /\ rec_i \in 1..Len(Recs) /\ ph = "judge" /\ cur = <<>>
             /\ LET r == Recs[rec_i] IN PrintT(ToJson([id |-> r.id, v |-> Verdict(r)]))
JudgeNext == UNCHANGED vars
=============================================================================
