"""C19 - JSON.parse / JSON.stringify implement the JSON / ECMAScript contract (DESIGN 5/C19).

TLC enumerates the case spaces of spec/C19.tla while it model-checks the laws of spec/JsJSON.tla
(two independent formulations of the grammar agree, stringify(parse(t)) is a fixed point,
parse(stringify(v)) = v on the representable values); checks/c19_driver.py replays every case into
the engine; TLC judges the observations against JsJSON (reference first, then the named deviations).
"""
import json, random
from harness import tlc, engine, wire
from harness.common import Machinery

ENUM_CFG = "INIT EnumInit\nNEXT EnumNext\nCONSTRAINT EnumEmit\nINVARIANT LawsHold\nCHECK_DEADLOCK FALSE\n"
JUDGE_CFG = "INIT JudgeInit\nNEXT JudgeNext\nCHECK_DEADLOCK FALSE\n"
DRIVER = "checks.c19_driver:c19_driver"
N_RANDOM = 15000          # random texts and as many random values (thorough)


def key(c):
    return json.dumps(c, sort_keys=True)


def has_int_number(v):
    k = v["k"]
    if k == "num":
        x = wire.words_dbl(v["w"])
        return x == x and abs(x) <= 2 ** 53 and x == int(x) and not (x == 0 and str(x)[0] == "-")
    if k == "arr":
        return any(has_int_number(e) for e in v["e"])
    if k == "obj":
        return any(has_int_number(p["v"]) for p in v["p"])
    if k == "shared":
        return has_int_number(v["v"])
    return False


# ---- seeded random cases (thorough): generated as spec-level JSON, judged by TLC like every other case ----
R_STRS = [[], [97], [34], [92], [47], [0], [8, 9, 10, 12, 13], [31], [127], [233], [8232], [55357, 56832], [55357], [56832],
          [97, 55357], [56832, 97], [65279], [32, 32], [123, 125], [228, 8364, 120]]
R_NUMS = ["0", "-0", "1", "-1", "1.5", "100", "1e2", "1E+2", "0.5", "-2.25", "1e21", "1e-7", "0.1", "123456789012", "4.35",
          "1e16", "0.000001", "1E-5", "9007199254740993", "5e-324", "1.7976931348623157e308", "2e308", "12345678901234567890"]
R_WS = ["", "", " ", "\t", "\n", "\r", "  \n"]


def units(s):
    return wire.units(s)


def rnd_string_token(rng):
    """a JSON string token (code units) with a random mix of raw and escaped characters"""
    out = [34]
    for c in rng.choice(R_STRS) + (rng.choice(R_STRS) if rng.random() < 0.3 else []):
        esc = {34: "\\\"", 92: "\\\\", 8: "\\b", 9: "\\t", 10: "\\n", 12: "\\f", 13: "\\r"}
        if c in esc:
            out += units(esc[c])
        elif c < 32 or rng.random() < 0.3:
            h = "%04x" % c
            out += units("\\u" + (h.upper() if rng.random() < 0.5 else h))
        elif c == 47 and rng.random() < 0.5:
            out += units("\\/")
        else:
            out.append(c)
    return out + [34]


def rnd_text(rng, depth):
    """a random JSON text (code units), white space everywhere"""
    def ws():
        return units(rng.choice(R_WS))

    def val(d):
        r = rng.random()
        if d > 0 and r < 0.3:
            n = rng.randint(0, 4)
            parts = []
            for i in range(n):
                if i:
                    parts.append([44])
                parts.append(val(d - 1))
            return [91] + ws() + [u for p in parts for u in p] + ws() + [93]
        if d > 0 and r < 0.6:
            n = rng.randint(0, 4)
            out = [123] + ws()
            for i in range(n):
                if i:
                    out += [44] + ws()
                kk = rnd_string_token(rng) if rng.random() < 0.6 else units(rng.choice(['"a"', '"b"', '"a"', '"__proto__"', '""']))
                out += kk + ws() + [58] + val(d - 1)
            return out + ws() + [125]
        r = rng.random()
        if r < 0.4:
            core = units(rng.choice(R_NUMS))
        elif r < 0.75:
            core = rnd_string_token(rng)
        else:
            core = units(rng.choice(["true", "false", "null"]))
        return ws() + core + ws()
    return val(depth)


def rnd_damage(rng, t):
    """one random edit of a valid text (delete / duplicate / replace one unit)"""
    if not t:
        return [rng.choice([32, 44, 93])]
    i = rng.randrange(len(t))
    r = rng.random()
    if r < 0.35:
        return t[:i] + t[i + 1:]
    if r < 0.6:
        return t[:i] + [t[i]] + t[i:]
    return t[:i] + [rng.choice([34, 39, 44, 58, 91, 93, 123, 125, 92, 48, 49, 45, 43, 46, 101, 10, 11, 160, 110, 78, 73, 117])] + t[i + 1:]


def rnd_value(rng, depth, anc=0, top=True):
    """a random spec-level value tree for JSON.stringify (functions, undefined, cycles included)"""
    r = rng.random()
    if depth > 0 and r < 0.55:
        n = rng.randint(0, 4)
        if rng.random() < 0.5:
            return {"k": "arr", "e": [rnd_value(rng, depth - 1, anc + 1, False) for _ in range(n)]}
        ks, ps = [], []
        for _ in range(n):
            kk = rng.choice(R_STRS + [[97], [98], [99]])
            if kk in ks:
                continue
            ks.append(kk)
            ps.append({"n": kk, "v": rnd_value(rng, depth - 1, anc + 1, False)})
        return {"k": "obj", "p": ps}
    r = rng.random()
    if r < 0.3:
        s = rng.choice(R_NUMS + ["NaN", "Infinity", "-Infinity"])
        return {"k": "num", "w": wire.dbl_words(float(s))}
    if r < 0.6:
        return {"k": "str", "u": rng.choice(R_STRS) + (rng.choice(R_STRS) if rng.random() < 0.3 else [])}
    if r < 0.7:
        return {"k": "bool", "b": rng.random() < 0.5}
    if r < 0.78:
        return {"k": "null"}
    if r < 0.86:
        return {"k": "undef"}
    if r < 0.94 or anc == 0:
        return {"k": rng.choice(["fn", "native"])}
    return {"k": "back", "d": rng.randint(1, anc)}


def prepare(records, tier, seed):
    """TLC's printed cases -> distinct cases, + host-representation variants, + seeded random cases (thorough)"""
    seen, cases, fam = set(), [], {}
    for c in records:
        k = key(c)
        if k in seen:
            continue
        seen.add(k)
        c["id"] = len(cases)
        cases.append(c)
        fam[c["fam"]] = fam.get(c["fam"], 0) + 1
    # host representation mix: integer-valued numbers as host integers as well as host floats
    extra = []
    for c in cases:
        if c["kind"] == "str":
            c["ir"] = False
            if has_int_number(c["v"]):
                d = dict(c)
                d["id"] = len(cases) + len(extra)
                d["ir"] = True
                extra.append(d)
    allc = cases + extra
    nrand = 0
    if tier == "thorough":
        rng = random.Random(seed)
        for i in range(N_RANDOM):
            t = rnd_text(rng, rng.randint(0, 4))
            if i % 3 == 2:
                t = rnd_damage(rng, t)
            allc.append({"id": len(allc), "kind": "parse", "fam": "rnd", "t": t})
        for i in range(N_RANDOM):
            allc.append({"id": len(allc), "kind": "str", "fam": "rnd", "v": rnd_value(rng, rng.randint(0, 4)),
                         "ir": rng.random() < 0.5})
        nrand = 2 * N_RANDOM
    return allc, fam, len(extra), nrand


def observe(pid, allc):
    """replay into the engine; one judge record per case (inputs and observations only)"""
    results = engine.run_cases(pid, allc, driver=DRIVER)
    byid = {c["id"]: c for c in allc}
    recs = []
    for r in results:
        c = byid[r["id"]]
        if c["kind"] in ("hp", "hs"):
            rec = {"id": r["id"], "kind": c["kind"], "ed": c["ed"], "p1": r["p1"], "p2": r["p2"], "after1": r["after1"],
                   "edit": r["edit"], "esc": r["esc"]}
            if c["kind"] == "hp":
                rec.update(t=c["t"], t2=c["t2"], rt2=r["rt2"], alias=r["alias"])
            else:
                rec["v"] = c["v"]
            recs.append(rec)
            continue
        rec = {"id": r["id"], "kind": c["kind"], "out": r["out"], "rt": r["rt"]}
        if c["kind"] == "parse":
            rec["t"] = c["t"]
            rec["protos"] = r["protos"]
        else:
            rec["v"] = c["v"]
            rec["ir"] = bool(c.get("ir"))
        recs.append(rec)
    if len(recs) != len(allc):
        raise Machinery("engine returned %d results for %d cases" % (len(recs), len(allc)))
    return recs


# the judge JVMs are single-worker and live 5-10 s: two JIT / GC threads each instead of one per core (measured on
# 3 283 records: 9.3 -> 6.3 CPU-s per JVM, same verdicts).  harness.tlc drops an inherited JAVA_TOOL_OPTIONS and then
# applies env=, so this reaches only these runs.
JUDGE_ENV = {"JAVA_TOOL_OPTIONS": "-XX:CICompilerCount=2 -XX:ParallelGCThreads=2"}


def judge(pid, recs):
    """sharded judge run (as harness.tlc.judge: records -> 16 files -> 16 single-worker JVMs).  Done here with tlc.run so
    that a shard whose JVM failed (seen once on a starved machine: an Error line, exit status 0, all verdicts printed)
    is run once more on its own and, if it fails again, leaves its whole output in the scratch directory."""
    import os
    from concurrent.futures import ThreadPoolExecutor
    from harness.common import NPROC, workdir, write_ndjson
    # a judge JVM costs 3 CPU-s before its first record and judges about 1 000 records per CPU-s: 6 000+ records each
    # (quick: 8 JVMs, thorough: 16) instead of 16 x 3 300 saves a quarter of the judge's CPU time
    shards = min(NPROC, max(1, len(recs) // 6000))
    wd = workdir(pid, "judge_C19")
    files = []
    for k in range(shards):
        path = os.path.join(wd, "obs_%d.ndjson" % k)
        write_ndjson(path, recs[k::shards])
        files.append(path)

    def one(k):
        env = dict(JUDGE_ENV)
        env["OBS_FILE"] = files[k]
        for attempt in (1, 2):
            r = tlc.run(pid, "C19", JUDGE_CFG, env=env, workers=1, timeout=3000, tag="judge_C19_%d" % k, heap="2g")
            if not r.errors and r.rc == 0:
                return r
            with open(os.path.join(wd, "failed_%d_attempt%d.txt" % (k, attempt)), "w") as f:
                f.write(r.stdout)
        raise Machinery("judge shard %d failed twice rc=%s errors=%r (output kept in %s)" % (k, r.rc, r.errors[:3], wd))

    with ThreadPoolExecutor(max_workers=shards) as ex:
        rs = list(ex.map(one, range(shards)))
    verdicts = [v for r in rs for v in r.records]
    st, tr = sum(r.distinct for r in rs), sum(r.generated for r in rs)
    got = {v["id"]: v for v in verdicts}
    if len(got) != len(recs):
        raise Machinery("judge returned %d verdicts for %d records" % (len(got), len(recs)))
    return got, st, tr


def choose_alt(alts, findings):
    """TLC lists every smallest set of named deviations that predicts the observation exactly;
    report under one whose members are all recorded findings, if there is one"""
    listed = [a for a in alts if all(d in findings for d in a)]
    return (listed or alts or [[""]])[0]


def run(rep):
    # 1. TLC enumerates the case spaces and model-checks the laws of the reference on every enumerated case
    import os
    env = {"TIER": rep.tier}
    only = os.environ.get("C19_ONLY", "")          # benchmark switch: one family root only (never a verdict, see below)
    if only:
        env["C19_ONLY"] = only
    res = tlc.run(rep.pid, "C19", ENUM_CFG, env=env, timeout=3000, tag="enum", heap="6g")
    rep.add_tlc("C19.Enum+Laws", res)
    allc, fam, nextra, nrand = prepare(res.records, rep.tier, rep.seed)
    for need, least in (("tokc", 1000), ("tokf", 400), ("mut", 3000), ("val", 3000), ("sv", 800), ("st", 1000),
                        ("nt", 2000), ("nv", 500), ("hp", 800), ("hs", 400), ("su", 2500), ("sx", 1200)):
        if fam.get(need, 0) < least and not only:
            raise Machinery("enumeration produced only %d cases of family %s" % (fam.get(need, 0), need))
    names = {"tokc": "token-class sequences (all short ones, then every one-token extension of a viable prefix)",
             "tokf": "full-vocabulary token sequences (same scheme)", "mut": "single-token mutations of valid texts (incl. nesting 30)",
             "val": "value structures depth<=3 width<=2, key strings, cycles 1-3, shared nodes",
             "sv": "strings by shape as stringify operands (every sequence of 7 code-unit classes up to a length; root, key and value)",
             "st": "strings by shape as string tokens (unit-class sequences x raw / \\u / \\U / short-escape spellings; root, key and value)",
             "nt": "number tokens by shape (digit runs by length x pattern and around 2^k, x token forms incl. near misses; "
                   "mantissa x exponent-spelling grid; signs; root / array / property / white space)",
             "hp": "histories: parse(t1), the script edits the result (append / overwrite / truncate / new key / delete, root and nested), "
                   "parse(t2) with t2 equal / another spelling / containing t1; scalars and rejected texts as t1",
             "hs": "histories: stringify(v), the script edits v (same edits), stringify(v) again",
             "su": "strings by concrete unit as stringify operands (every ordered pair of 40 code units; every unit at the end / start / "
                   "inside / doubled at the end of an identifier-like word; root, property name and value)",
             "sx": "the same strings as string tokens of a text (raw where JSON allows it, escaped otherwise; name and value of a property)",
             "nv": "the numbers denoted by the number tokens as stringify operands (root, array element, property value)"}
    for f, n in sorted(fam.items()):
        rep.spaces.append({"space": names.get(f, f) + " (TLC-enumerated)", "cases": n, "complete": True})
    if nrand:
        rep.spaces.append({"space": "seeded random texts (1/3 damaged) and value trees", "cases": nrand, "complete": False})
    byid = {c["id"]: c for c in allc}
    # 2. replay into the engine
    recs = observe(rep.pid, allc)
    # 3. judge in TLC
    got, st, tr = judge(rep.pid, recs)
    rep.add_judge(len(recs), st, tr)
    rep.evaluations = len(recs)
    rmap = {r["id"]: r for r in recs}
    unsupported = 0
    for i, v in sorted(got.items()):
        r, c = rmap[i], byid[i]
        if v["v"] == "pass":
            if c["kind"] in ("hp", "hs"):
                continue
            if len(rep.samples) < 6 and i % 2221 == 0:
                rep.sample({"case": show_case(c), "engine": show_out(r["out"]), "round_trip": show_out(r["rt"]), "verdict": "pass"})
            continue
        if v["v"] == "unsupported":
            if c.get("fam") != "rnd":
                raise Machinery("judge called an enumerated case unsupported: %r" % c)
            unsupported += 1
            continue
        if c["kind"] in ("hp", "hs"):
            actual = {f: r.get(f) for f in ("p1", "p2", "rt2", "after1", "alias", "edit", "esc") if f in r}
        else:
            actual = {"out": r["out"], "rt": r["rt"], "protos": r.get("protos")}
        detail = {"expected": v["exp"], "actual": actual, "case": c}
        for d in choose_alt(v.get("alts") or [], rep.findings):
            rep.mismatch(show_case(c), detail, dev=d)
    rep.exhaustive = True
    if only:
        rep.dump_mismatches()
        raise Machinery("C19_ONLY=%s is a partial run (no verdict): %d records judged, %d not explained by a listed finding, "
                        "families %r" % (only, len(recs), len(rep.violations), fam))
    rep.notes["rule"] = "distinct texts / (value tree, host number representation) pairs; every one is replayed and judged"
    rep.notes["families"] = fam
    rep.notes["representation_variants"] = nextra
    rep.notes["random_cases"] = nrand
    rep.notes["random_unsupported"] = unsupported
    rep.notes["distinct_nontrivial"] = len(recs)
    rep.assumptions += ["JsJSON.tla transcribes ECMA-262 25.5 (JSON.parse without reviver, JSON.stringify without replacer/gap/toJSON)",
                        "number <-> text through JsConv/Dbl (correct rounding, shortest digits)",
                        "objects mixing integer-like and other keys are not generated (DESIGN 4.4 item 2)"]


def show_out(o):
    if o["o"] == "value":
        return wire.show(o["v"])
    return o["o"] + (":" + o["cls"] if "cls" in o else "")


def show_val(v):
    k = v["k"]
    if k == "arr":
        return "[" + ", ".join(show_val(e) for e in v["e"]) + "]"
    if k == "obj":
        return "{" + ", ".join(repr(wire.from_units(p["n"])) + ": " + show_val(p["v"]) for p in v["p"]) + "}"
    if k == "back":
        return "<ancestor %d>" % v["d"]
    if k == "shared":
        return "<shared#%d %s>" % (v["id"], show_val(v["v"]))
    if k in ("fn", "native"):
        return "<" + k + ">"
    return wire.show(v)


def show_edit(ed):
    if ed["op"] == "none":
        return "no edit"
    path = "".join("[%s]" % (st["i"] if st["a"] == "i" else ascii(wire.from_units(st["n"]))) for st in ed["path"])
    x = show_val(ed["x"])
    return {"push": "r%s.push(%s)" % (path, x), "seti": "r%s[%s] = %s" % (path, ed["i"], x), "trunc": "r%s.length = 0" % path,
            "put": "r%s[%s] = %s" % (path, ascii(wire.from_units(ed["n"])), x),
            "del": "delete r%s[%s]" % (path, ascii(wire.from_units(ed["n"])))}[ed["op"]]


def show_case(c):
    if c["kind"] == "hp":
        return "r = JSON.parse(%s); %s; JSON.parse(%s)" % (ascii(wire.from_units(c["t"])), show_edit(c["ed"]),
                                                           ascii(wire.from_units(c["t2"])))
    if c["kind"] == "hs":
        return "r = %s; JSON.stringify(r); %s; JSON.stringify(r)" % (show_val(c["v"]), show_edit(c["ed"]))
    if c["kind"] == "parse":
        return "JSON.parse(%s)" % ascii(wire.from_units(c["t"]))
    return "JSON.stringify(%s)%s" % (show_val(c["v"]), " [int repr]" if c.get("ir") else "")
