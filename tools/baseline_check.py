#!/usr/bin/env python3
"""Run the repository's baseline command on a tree and compare with BASELINE.json's stable_pass.
usage: tools/baseline_check.py [repo_dir]   (exit 0 iff every baseline test passes)"""
import sys, os, json, subprocess, tempfile
import xml.etree.ElementTree as ET
repo = sys.argv[1] if len(sys.argv) > 1 else "/repo"
out = tempfile.mktemp(suffix=".xml")
env = dict(os.environ, PYTHONPATH=os.path.join(repo, "src"))
env.pop("MICROJS_VERIF", None)
subprocess.run(["nice", "-n", "-19", "/venv/bin/python", "-m", "pytest", "-ra", "-q", "-p", "no:cacheprovider", "--timeout=900",
                "--continue-on-collection-errors", "--junitxml=" + out], cwd=repo, env=env,
               stdout=subprocess.DEVNULL, stderr=subprocess.DEVNULL)
base = set(json.load(open("/root/.vp/BASELINE.json"))["stable_pass"])
ok = set()
for tc in ET.parse(out).iter("testcase"):
    if not [c for c in tc if c.tag in ("failure", "error", "skipped")]:
        ok.add(tc.get("classname") + "::" + tc.get("name"))
os.unlink(out)
missing = sorted(base - ok)
if missing and len(missing) <= 6:
    # load-sensitive tests (mandelbrot, time-limit tests): run the missing ones again, alone
    for name in list(missing):
        mod, _, test = name.partition("::")
        parts = mod.split(".")
        path = "/".join(parts[:2]) + ".py" if parts[0] == "tests" else mod
        nodeid = path + "::" + "::".join(parts[2:] + [test]) if len(parts) > 2 else path + "::" + test
        r = subprocess.run(["nice", "-n", "-19", "/venv/bin/python", "-m", "pytest", "-q", "-p", "no:cacheprovider", "--timeout=900", nodeid],
                           cwd=repo, env=env, stdout=subprocess.PIPE, stderr=subprocess.STDOUT, text=True)
        last = r.stdout.strip().splitlines()[-1] if r.stdout.strip() else ""
        if r.returncode == 0 and (" passed" in last or " xpassed" in last) and "failed" not in last:
            missing.remove(name)
            ok.add(name)
if missing and os.environ.get("BASELINE_TOLERATE_LOAD") == "1" and repo != "/repo":
    # does the same test also fail on /repo itself right now?  then the machine load is the cause, not the patch
    env2 = dict(env, PYTHONPATH="/repo/src")
    for name in list(missing):
        mod, _, test = name.partition("::")
        parts = mod.split(".")
        path = "/".join(parts[:2]) + ".py"
        nodeid = path + "::" + "::".join(parts[2:] + [test]) if len(parts) > 2 else path + "::" + test
        r = subprocess.run(["nice", "-n", "-19", "/venv/bin/python", "-m", "pytest", "-q", "-p", "no:cacheprovider", "--timeout=900", nodeid],
                           cwd="/repo", env=env2, stdout=subprocess.PIPE, stderr=subprocess.STDOUT, text=True)
        if r.returncode != 0:
            print("WARNING: %s also fails on /repo HEAD right now (load): tolerated, re-verify later" % name)
            missing.remove(name)
print("baseline %d, passing %d, missing %d %s" % (len(base), len(base & ok), len(missing), missing[:8]))
sys.exit(1 if missing else 0)
