"""C10 - the regex engine is total (DESIGN 5/C10).

(a) TLC model-checks the budget model of the backtracking VM (spec/RegexVM.tla): design variant (all invariants + termination),
    as-is variant (the sub-matcher loops have no step budget: SubStepBound must fail), the variant in which every run paces polling
    with its own step count (PollBound and LateBound must fail), and the laws of the pattern acceptor.
(b) construction: every string over the metacharacter vocabulary up to the tier's length (the spec gives vocabulary and length)
    through the package API, a literal, RegExp(), new RegExp() and as a string pattern of String.prototype.match / search; flag
    strings; oversized / truncated specials, huge counts over empty bodies (compile work counted), numeric payloads (every construct
    that carries a number x magnitudes up to 16^5000 x malformed numerals; counted quantifiers also x the kind of the quantified atom
    x the context of the term x magnitudes between the program budget and the host's memory; for the specials the longest program a
    compiler held and the growth of the peak resident set are recorded).  TLC judges bounded compile work / program size / memory, outcome typing, agreement with RegexSem's
    acceptor resp. the numeric form's rule (accept / reject / outside), agreement of the string channels with new RegExp().
(c) matching: long-run (catastrophic) and short-run families x subject lengths x run configurations (package API x poll interval;
    script level x entry point x flags x bare / try-catch; match / search also with the pattern as a string / String object) x deadlines in steps on the virtual clock; steps / stack / polls / steps
    after the deadline counted through the guarded hook, compared by TLC with the model's bounds.
(d) case folding: the i flag against subjects with characters whose case mapping is several characters or leaves ASCII; outcome
    typing, and match / null where the documented ASCII-only folding rule (RegexSem) decides it."""
import itertools, json, os, random, time
from concurrent.futures import ThreadPoolExecutor
from harness import tlc, engine, wire
from harness.common import Machinery

ENUM_CFG = "INIT EnumInit\nNEXT EnumNext\nCONSTRAINT EnumEmit\nCHECK_DEADLOCK FALSE\n"
LAW_CFG = "INIT LawInit\nNEXT LawNext\nINVARIANT AcceptorLaw\nCHECK_DEADLOCK FALSE\n"
CONS_CFG = "INIT ConsInit\nNEXT JudgeNext\nCHECK_DEADLOCK FALSE\n"
WHY_CFG = "INIT WhyInit\nNEXT JudgeNext\nCHECK_DEADLOCK FALSE\n"
RUN_CFG = "INIT RunInit\nNEXT JudgeNext\nCHECK_DEADLOCK FALSE\n"
FOLD_CFG = "INIT FoldInit\nNEXT JudgeNext\nCHECK_DEADLOCK FALSE\n"
POS_CFG = "INIT PosInit\nNEXT JudgeNext\nCHECK_DEADLOCK FALSE\n"
VM_CONST = "CONSTANTS StepLimit = 4  StackLimit = 2  PollInterval = 2  Deadlines = {3, 8, 1000}  N = 1  MaxSub = 1  MaxSubRuns = 2  Devs = %s\n"
VM_DESIGN = VM_CONST % "{}" + ("SPECIFICATION Spec\nINVARIANTS TypeOK StepBound SubStepBound StackBound PollBound LateBound WorkBound SubWorkBound Outcome\n"
                              "PROPERTY Terminates\n")
VM_ASIS = VM_CONST % '{"Dev_SubNoStepLimit"}' + ("SPECIFICATION Spec\nINVARIANTS TypeOK StepBound SubStepBound StackBound PollBound WorkBound Outcome\n"
                                                  "CONSTRAINT SubCap\n")
VM_PERRUN = VM_CONST % '{"Var_PollPerRun"}' + "SPECIFICATION Spec\nINVARIANTS TypeOK StepBound SubStepBound StackBound WorkBound SubWorkBound Outcome %s\n"
SPECIAL_PROCS = 8
CHANNELS = ["api", "literal", "RegExp()", "new RegExp()", "'s'.match(P)", "'s'.search(P)"]


def cpu():
    t = os.times()
    return t.children_user + t.children_system + t.user + t.system


ALL_PARTS = ("models", "construction", "matching", "folding", "positions")


def run(rep):
    t0 = time.time()
    # C10_PARTS: development / mutant runs of some parts only (never reported as exhaustive)
    parts = [x for x in os.environ.get("C10_PARTS", ",".join(ALL_PARTS)).split(",") if x]
    if any(x not in ALL_PARTS for x in parts):
        raise Machinery("C10_PARTS: unknown part in %r" % (parts,))
    phases = rep.notes.setdefault("phase_wall_s", {})
    if "models" in parts:
        # (a) the budget model
        res = tlc.run(rep.pid, "RegexVM", VM_DESIGN, timeout=3600, tag="vm_design", workers=8)
        rep.add_tlc("RegexVM(design: budgets in every loop kind)", res)
        if res.distinct < 50000:
            raise Machinery("RegexVM design model explored only %d states" % res.distinct)
        res2 = tlc.run(rep.pid, "RegexVM", VM_ASIS, timeout=3600, tag="vm_asis", workers=8)
        rep.add_tlc("RegexVM(as-is: sub-matchers without step budget)", res2, must_hold=False)
        if res2.violated != ["SubStepBound"]:
            raise Machinery("as-is RegexVM model: expected exactly SubStepBound to fail, got %r" % (res2.violated,))
        rep.notes["model_asis"] = ("SubStepBound fails when the sub-matcher loops do not compare their step count with step_limit (the defect "
                                   "F-C10-sub-no-step-limit, repaired in the engine by dd4ff18; an observation of it is a violation again)")
        for inv in ("PollBound", "LateBound"):
            res4 = tlc.run(rep.pid, "RegexVM", VM_PERRUN % inv, timeout=3600, tag="vm_perrun_" + inv, workers=8)
            rep.add_tlc("RegexVM(variant: polling paced by the step count of the current run; %s)" % inv, res4, must_hold=False)
            if res4.violated != [inv]:
                raise Machinery("per-run-polling RegexVM model: expected exactly %s to fail, got %r" % (inv, res4.violated))
        rep.notes["model_poll_per_run"] = ("PollBound and LateBound fail when each run (attempt, sub-matcher activation) paces polling with its own step count: "
                                           "runs shorter than the poll interval add up to unpolled work; the conformance half observes this through "
                                           "the short-run families (poll-bound, deadline-overrun)")
        res3 = tlc.run(rep.pid, "C10", LAW_CFG, timeout=3600, tag="laws")
        rep.add_tlc("C10.AcceptorLaws(strings<=3)", res3)
    res = tlc.run(rep.pid, "C10", ENUM_CFG, env={"TIER": rep.tier}, timeout=3600, tag="enum")
    rep.add_tlc("C10.Enum", res)
    kinds = {}
    for r in res.records:
        kinds.setdefault(r["kind"], []).append(r)
    if not all(k in kinds for k in ("strings", "flags", "special", "family", "fold", "pos")):
        raise Machinery("enumeration incomplete: %r" % list(kinds))
    phases["models_laws_enum"] = round(time.time() - t0, 1)
    if "construction" in parts:
        t0 = time.time()
        construction(rep, kinds["strings"][0], kinds["flags"][0], kinds["special"])
        phases["construction"] = round(time.time() - t0, 1)
    if "matching" in parts:
        t0 = time.time()
        matching(rep, kinds["family"])
        phases["matching"] = round(time.time() - t0, 1)
    if "folding" in parts:
        t0 = time.time()
        folding(rep, kinds["fold"])
        phases["folding"] = round(time.time() - t0, 1)
    if "positions" in parts:
        t0 = time.time()
        positions(rep, kinds["pos"][0])
        phases["positions"] = round(time.time() - t0, 1)
    rep.exhaustive = len(parts) == len(ALL_PARTS) and "partial_run_maxlen" not in rep.notes
    if not rep.exhaustive:
        rep.notes["partial_run"] = parts
    rep.notes["rule"] = ("construction: one judged evaluation = one (pattern string, channel); matching: one judged run = (family, subject length, run configuration) "
                         "with per-loop-kind step counts, stack high-water mark, poll count and steps after the deadline; folding: one judged evaluation = one "
                         "(pattern, flags, subject, operation)")
    rep.assumptions += ["RegexSem's acceptor: accept = in the grammar of ECMA-262 22.2.1, reject = not even in Annex B.1.2, anything between is not judged",
                        "a run longer than the counting cap is judged on its observed prefix (bounded by counting, DESIGN 6)"]


# ------------------------------------------------------------------------------------------------
def words(vocab, maxlen):
    for n in range(0, maxlen + 1):
        for w in itertools.product(vocab, repeat=n):
            yield list(w)


def construction(rep, strings, flags, specials):
    vocab, maxlen = strings["vocab"], strings["maxlen"]
    if os.environ.get("C10_MAXLEN"):                   # development / mutant runs: shorter strings (never reported as exhaustive)
        maxlen = min(maxlen, int(os.environ["C10_MAXLEN"]))
        rep.notes["partial_run_maxlen"] = maxlen
    total = sum(len(vocab) ** n for n in range(maxlen + 1))
    rep.spaces.append({"space": "all strings over %d metacharacters up to length %d x %d channels (+ uncaught forms up to length 3)" % (len(vocab), maxlen, len(CHANNELS)),
                       "strings": total, "complete": True})
    extras = []
    for fs in words(flags["letters"], flags["maxlen"]):
        extras.append({"p": [97], "fl": "".join(chr(c) for c in fs), "flu": fs, "uncaught": False})
    nnum = 0
    for s in specials:
        # the huge counts over empty bodies cost about a second per construction where the engine refuses them as too large:
        # every channel in its try/catch form (the uncaught forms of the same sites are exercised by all other specials and strings)
        e = {"p": s["head"] + s["unit"] * s["count"] + s["tail"], "expect": s["expect"], "name": s["name"],
             "uncaught": s.get("uncaught", not s["name"].startswith("emptyrep-")), "wall": 120.0, "nolit": s["name"].startswith("quant-huge"),
             "alone": s.get("heavy", True)}            # a process of its own, unless the spec says the construction is a light one
        if "numrule" in s:                             # numeric-payload family: flags, and what the judge needs to name a deviation
            e.update(fl=wire.from_units(s["fl"]), numrule=s["numrule"], payload=s["payload"])
            nnum += 1
        extras.append(e)
    rep.spaces.append({"space": "flag strings up to length %d over %s; %d special constructions, %d of them numeric payloads (forms x magnitudes / shapes)"
                                % (flags["maxlen"], "".join(chr(c) for c in flags["letters"]), len(specials), nnum),
                       "cases": len(extras), "complete": True})
    if rep.tier == "thorough":
        rnd = random.Random(rep.seed)
        valid = ["(a|b)*c", "a{2,3}?", "[a-c]+\\d", "(?=a)b|c", "(?<!a)b", "(a)\\1", "^a$", "\\bfoo\\B", "x(?:y)z", "[^\\w\\s]"]
        n0 = len(extras)
        for _ in range(20000):
            t = list(rnd.choice(valid))
            k = rnd.random()
            if k < 0.4 and t:
                del t[rnd.randrange(len(t))]
            elif k < 0.7:
                t.insert(rnd.randrange(len(t) + 1), rnd.choice("()[]{}*+?|\\^$.-,1:=!<a"))
            else:
                t = t[:rnd.randrange(len(t) + 1)]
            if "/" in t:
                continue
            extras.append({"p": [ord(c) for c in t], "uncaught": False})
        rep.spaces.append({"space": "seeded mutations / truncations of valid patterns", "cases": len(extras) - n0, "complete": False, "seed": rep.seed})
    CHUNK = 400000
    gen = words(vocab, maxlen)
    nid = 0
    stats = {"accept": 0, "reject": 0, "outside": 0}
    judged = 0
    tE = tJ = wE = 0.0
    works = {}
    first = True
    while True:
        items = []
        if first:
            for e in extras:
                e = dict(e, id=nid)
                items.append(e)
                nid += 1
            first = False
        for w in itertools.islice(gen, CHUNK):
            items.append({"id": nid, "p": w, "uncaught": len(w) <= 3})
            nid += 1
        if not items:
            break
        c0, w0 = cpu(), time.time()
        # a special is a batch and a child process of its own, next to the 16 that share the batches of 400 strings (some specials
        # take seconds per channel: in one batch, as they were, they made one child the last to finish by far)
        alone = [it for it in items if it.get("alone")]
        light = [it for it in items if "name" in it and not it.get("alone")]
        rest = [it for it in items if "name" not in it]
        batches = [{"id": k, "items": rest[k:k + 400]} for k in range(0, len(rest), 400)]
        batches += [{"id": 10**7 + k, "items": light[k:k + 15]} for k in range(0, len(light), 15)]
        rnd2 = random.Random(1)
        rnd2.shuffle(batches)
        with ThreadPoolExecutor(max_workers=SPECIAL_PROCS) as ex:
            futs = [ex.submit(engine.run_cases, rep.pid, [{"id": 10**6 + k, "items": [it]}], driver="checks.c10_driver:construct_batch",
                              tag="eng_special_%d" % k, timeout=14400) for k, it in enumerate(alone)]
            results = engine.run_cases(rep.pid, batches, driver="checks.c10_driver:construct_batch", tag="eng_cons", timeout=14400)
            for f in futs:
                results.extend(f.result())
        tE += cpu() - c0
        wE += time.time() - w0
        byid = {it["id"]: it for it in items}
        recs = []
        for r in results:
            it = byid[r["id"]]
            rec = {"id": r["id"], "ch": r["ch"], "un": r["un"]}
            if "flu" in it:
                rec["fl"] = it["flu"]
            elif "expect" in it:
                rec["expect"] = it["expect"]
                rec["name"] = it["name"]
                rec["plen"] = len(it["p"])
                if "work" not in r:
                    raise Machinery("no compile-work count for special %s" % it["name"])
                rec["work"] = r["work"]
                it["work"] = r["work"]
                if "numrule" in it:
                    rec["numrule"], rec["payload"] = it["numrule"], it["payload"]
                else:
                    works[it["name"]] = r["work"] + [r.get("cpu_s")]
            else:
                rec["p"] = it["p"]
            recs.append(rec)
        if len(recs) != len(items):
            raise Machinery("engine returned %d results for %d constructions" % (len(recs), len(items)))
        c0 = cpu()
        verdicts, st, tr, wall = tlc.judge(rep.pid, "C10", recs, CONS_CFG, tag="judge_cons", timeout=14400)
        tJ += cpu() - c0
        rep.add_judge(0, st, tr)
        got = {v["id"]: v for v in verdicts}
        if len(got) != len(recs):
            raise Machinery("judge returned %d verdicts for %d constructions" % (len(got), len(recs)))
        why = {}
        pending = []
        for rec in recs:
            v = got[rec["id"]]
            it = byid[rec["id"]]
            stats[v["cls"]] = stats.get(v["cls"], 0) + 1
            nch = sum(1 for o in rec["ch"] + rec["un"] if o != "skip")
            judged += nch
            if "bad" not in v:
                if len(rep.samples) < 3 and rec["id"] % 50021 == 77:
                    rep.sample({"case": show_cons(it), "class": v["cls"], "engine": rec["ch"], "verdict": "pass"})
                continue
            for form, bads, outs in (("", v["bad"], rec["ch"]), (" uncaught", v.get("un", []), rec["un"])):
                for c, b in enumerate(bads):
                    if not b:
                        continue
                    chan = CHANNELS[c if form == "" else c + 1] + form
                    if b in ("!accept-rejected", "!reject-accepted") and "p" in rec:
                        key = (tuple(rec["p"]), b[1:])
                        why.setdefault(key, {"id": len(why), "p": rec["p"], "kind": b[1:]})
                        pending.append((it, chan, outs[c], v["cls"], key))
                    else:
                        report(rep, it, chan, outs[c], v["cls"], "" if b.startswith("!") else b, b)
        if pending:
            wv, st, tr, wall = tlc.judge(rep.pid, "C10", list(why.values()), WHY_CFG, tag="judge_why", timeout=14400)
            rep.add_judge(0, st, tr)
            devof = {v["id"]: v["dev"] for v in wv}
            for it, chan, out, cls, key in pending:
                report(rep, it, chan, out, cls, devof.get(why[key]["id"], ""), key[1])
    rep.validated += judged
    rep.evaluations = (rep.evaluations or 0) + judged
    rep.notes["construction_classes"] = stats
    rep.notes["specials(nodes_visited,emitted,cpu_s_all_channels)"] = {k: works[k] for k in sorted(works)}
    rep.notes["construction_engine_judge_cpu_s"] = [round(tE, 1), round(tJ, 1)]
    rep.notes.setdefault("phase_wall_s", {})["construction_engine_part"] = round(wE, 1)


def folding(rep, chars):
    items = []
    for ch in sorted(chars, key=lambda c: c["c"]):
        for pat in sorted(ch["pats"], key=lambda x: x["name"]):
            for fl in sorted(ch["flags"]):
                for subj in sorted(ch["subjects"]):
                    items.append({"id": len(items), "c": ch["c"], "pat": pat["name"], "src": pat["src"], "exact": pat["exact"], "fl": fl, "subj": subj,
                                  "ops": ch["ops"]})
    nops = sum(len(it["ops"]) for it in items)
    rep.spaces.append({"space": "i-flag matching: %d special-casing characters x patterns x flag sets x subjects x operations" % len(chars),
                       "cases": len(items), "evaluations": nops, "complete": True})
    batches = [{"id": k, "items": items[k:k + 40]} for k in range(0, len(items), 40)]
    c0 = cpu()
    results = engine.run_cases(rep.pid, batches, driver="checks.c10_driver:fold_batch", tag="eng_fold", timeout=3600)
    rep.notes["folding_engine_cpu_s"] = round(cpu() - c0, 1)
    byid = {r["id"]: r for r in results}
    if len(byid) != len(items):
        raise Machinery("engine returned %d results for %d folding cases" % (len(byid), len(items)))
    recs = [{"id": it["id"], "src": it["src"], "fl": it["fl"], "subj": it["subj"], "exact": it["exact"], "out": byid[it["id"]]["out"]} for it in items]
    verdicts, st, tr, wall = tlc.judge(rep.pid, "C10", recs, FOLD_CFG, tag="judge_fold", shards=4, timeout=3600)
    got = {v["id"]: v for v in verdicts}
    if len(got) != len(recs):
        raise Machinery("judge returned %d verdicts for %d folding cases" % (len(got), len(recs)))
    outcomes = {}
    exact = 0
    for it in items:
        v, r = got[it["id"]], byid[it["id"]]
        if v["exp"] == "?":
            raise Machinery("the specification does not parse its own folding pattern %r" % wire.from_units(it["src"]))
        exact += len(it["ops"]) if it["exact"] else 0
        label = "/%s/%s on %r" % (wire.from_units(it["src"]), wire.from_units(it["fl"]), ["U+%04X" % u for u in it["subj"]])
        for c, b in enumerate(v["bad"]):
            outcomes[r["out"][c]] = outcomes.get(r["out"][c], 0) + 1
            if b:
                rep.mismatch("%s [%s] %s" % (label, it["ops"][c], b),
                             {"expected": v["exp"] if b == "!folding" else "match / null (script level: or an error of the JSError family)",
                              "actual": r["out"][c], "detail": r["ty"][c], "clause": b,
                              "case": {"src": it["src"], "fl": it["fl"], "subj": it["subj"], "op": it["ops"][c]}}, dev="")
        if not any(v["bad"]) and it["id"] % 173 == 5:
            rep.sample({"case": label, "ops": it["ops"], "engine": r["out"], "expected": v["exp"], "verdict": "pass"}, limit=8)
    rep.add_judge(nops, st, tr)
    rep.evaluations = (rep.evaluations or 0) + nops
    rep.notes["folding_outcomes"] = outcomes
    rep.notes["folding_evaluations_judged_exactly"] = exact


def positions(rep, grid):
    """matching from every state of the RegExp object: cells of patterns x flag strings x subjects, each with every lastIndex and op"""
    lis = sorted(grid["lis"], key=lambda x: x["name"])
    ops = grid["ops"]
    seen, items = set(), []
    for cell in sorted(grid["cells"], key=lambda c: -len(c["pats"]) * len(c["flags"]) * len(c["subjects"])):
        for pat in sorted(cell["pats"], key=lambda x: x["name"]):
            for fl in sorted(cell["flags"]):
                for subj in sorted(cell["subjects"]):
                    key = (pat["name"], tuple(fl), tuple(subj))
                    if key not in seen:
                        seen.add(key)
                        items.append({"id": len(items), "pat": pat["name"], "src": pat["src"], "fl": fl, "subj": subj})
    nev = len(items) * len(lis) * len(ops)
    rep.spaces.append({"space": "matching from a given state of the RegExp object: (pattern, flags, subject) x %d ways lastIndex gets its value x %d entry points"
                                % (len(lis), len(ops)), "cases": len(items), "evaluations": nev, "complete": True})
    per = max(1, min(12, len(items) // 64 + 1))
    batches = [{"id": k, "lis": lis, "ops": ops, "items": items[k:k + per]} for k in range(0, len(items), per)]
    c0 = cpu()
    with ThreadPoolExecutor(max_workers=16) as ex:          # 16 processes of their own (engine.run_cases would use len // 20)
        futs = [ex.submit(engine.run_cases, rep.pid, batches[k::16], driver="checks.c10_driver:pos_batch", tag="eng_pos_%d" % k, procs=1, timeout=3600)
                for k in range(16) if batches[k::16]]
        results = [r for f in futs for r in f.result()]
    rep.notes["positions_engine_cpu_s"] = round(cpu() - c0, 1)
    byid = {r["id"]: r for r in results}
    if len(byid) != len(items):
        raise Machinery("engine returned %d results for %d position cases" % (len(byid), len(items)))
    recs, back = [], []
    for it in items:
        r = byid[it["id"]]
        for i, li in enumerate(lis):
            recs.append({"id": len(recs), "pat": it["pat"], "fl": it["fl"], "subj": it["subj"], "li": li["name"], "out": r["out"][i], "ty": r["ty"][i]})
            back.append((it, i))
    verdicts, st, tr, wall = tlc.judge(rep.pid, "C10", recs, POS_CFG, tag="judge_pos", shards=8, timeout=3600)
    got = {v["id"]: v for v in verdicts}
    if len(got) != len(recs):
        raise Machinery("judge returned %d verdicts for %d position records" % (len(got), len(recs)))
    outcomes = {}
    for rec in recs:
        v = got[rec["id"]]
        it, i = back[rec["id"]]
        label = "/%s/%s on %r, lastIndex %s" % (wire.from_units(it["src"]), wire.from_units(it["fl"]), wire.from_units(it["subj"]), rec["li"])
        for c, b in enumerate(v["bad"]):
            outcomes[rec["out"][c]] = outcomes.get(rec["out"][c], 0) + 1
            if b:
                rep.mismatch("%s [%s] %s" % (label, ops[c], b),
                             {"expected": "a defined value of the entry point, or an error of the JSError family", "actual": rec["out"][c], "detail": rec["ty"][c],
                              "clause": b, "lastIndex(before, after)": byid[it["id"]]["li_seen"][i][c],
                              "case": {"src": it["src"], "fl": it["fl"], "subj": it["subj"], "lastIndex": lis[i], "op": ops[c]}}, dev="")
        if not any(v["bad"]) and rec["id"] % 1013 == 7:
            rep.sample({"case": label, "ops": ops, "engine": rec["out"], "lastIndex(before, after)": byid[it["id"]]["li_seen"][i], "verdict": "pass"}, limit=12)
    rep.add_judge(nev, st, tr)
    rep.evaluations = (rep.evaluations or 0) + nev
    rep.notes["positions_outcomes"] = outcomes


def show_cons(it):
    if "name" in it:
        return "special:" + it["name"] + (" %r flags %r" % (wire.from_units(it["p"][:40]), it.get("fl", "")) if "numrule" in it else "")
    return "pattern %r flags %r" % (wire.from_units(it["p"]), it.get("fl", ""))


def report(rep, it, chan, out, cls, dev, why):
    rep.mismatch("%s [%s]" % (show_cons(it), chan), {"expected": cls, "actual": out, "why": why, "case": {"p": it["p"][:80], "fl": it.get("fl", "")},
                                                                "work(nodes visited, emitted, longest program seen, peak RSS growth KB)": it.get("work")}, dev=dev)


# ------------------------------------------------------------------------------------------------
def cfg_label(c):
    d = ", deadline %d steps" % c["deadline"] if c["deadline"] else ""
    if c["mode"] == "api":
        return "api poll_interval=%d%s" % (c["interval"], d)
    how = {"regexp": "", "string": " with the pattern as a string", "strobj": " with the pattern as a String object"}[c.get("arg", "regexp")]
    return "script %s%s%s /%s%s" % (c["op"], how, " in try/catch" if c["form"] == "try" else "", wire.from_units(c["fl"]), d)


def matching(rep, families):
    quick = rep.tier == "quick"
    # thorough caps were 8e6 / 1.5e6 / 2e6: with the run configurations of rounds 2-4 the tier no longer finished in 45 minutes
    # on 16 cores (one capped run costs tens of seconds under the step hook); lowered so that the tier completes
    caps = {"main": 1_500_000 if quick else 3_000_000, "aux": 400_000 if quick else 800_000, "look": 200_000 if quick else 600_000}
    cases = []
    for f in sorted(families, key=lambda f: f["fam"]):
        for c in sorted(f["runs"], key=lambda c: json.dumps(c, sort_keys=True)):
            for n in sorted(c["lens"]):
                cfg = {k: c[k] for k in ("mode", "interval", "op", "fl", "form", "deadline", "arg")}
                cases.append({"id": len(cases), "fam": f["fam"], "src": f["src"], "unit": f["unit"], "tail": f["tail"], "n": n, "cfg": cfg,
                              "cap": caps[c["cap"]], "wall": 600.0})
    rep.spaces.append({"space": "matching families (long-run and short-run) x subject lengths x run configurations (package API x poll interval, "
                                "script entry points x flags x try/catch) x deadlines, counted through the hook (caps %d / %d steps)" % (caps["main"], caps["aux"]),
                       "families": len(families), "runs": len(cases), "complete": True})
    rnd = random.Random(2)
    order = cases[:]
    rnd.shuffle(order)
    # longest first within 16 processes of their own (engine.run_cases would use len // 20 processes)
    order.sort(key=lambda c: -(c["cap"] if not c["cfg"]["deadline"] and c["n"] >= 100 else 0))
    c0 = cpu()
    with ThreadPoolExecutor(max_workers=16) as ex:
        futs = [ex.submit(engine.run_cases, rep.pid, order[k::16], driver="checks.c10_driver:run_driver", tag="eng_run_%d" % k, procs=1, timeout=14400)
                for k in range(16) if order[k::16]]
        results = [r for f in futs for r in f.result()]
    rep.notes["matching_engine_cpu_s"] = round(cpu() - c0, 1)
    if len(results) != len(cases):
        raise Machinery("engine returned %d results for %d runs" % (len(results), len(cases)))
    recs = []
    for r in results:
        c = cases[r["id"]]
        recs.append(dict(r, fam=c["fam"], n=c["n"], cfg=c["cfg"]))
    verdicts, st, tr, wall = tlc.judge(rep.pid, "C10", recs, RUN_CFG, tag="judge_run", shards=8, timeout=3600)
    got = {v["id"]: v for v in verdicts}
    if len(got) != len(recs):
        raise Machinery("judge returned %d verdicts for %d runs" % (len(got), len(recs)))
    outcomes = {}
    worst = {}
    for rec in recs:
        v = got[rec["id"]]
        c = cases[rec["id"]]
        outcomes[rec["out"]] = outcomes.get(rec["out"], 0) + 1
        if c["cfg"]["deadline"]:
            worst[c["cfg"]["mode"]] = max(worst.get(c["cfg"]["mode"], 0), rec["late"])
        label = "/%s/ on %r x %d [%s]" % (wire.from_units(c["src"]), wire.from_units(c["unit"]), c["n"], cfg_label(c["cfg"]))
        if not v["bad"] and rec["id"] % 97 == 3:
            rep.sample({"case": label, "engine": {k: rec[k] for k in ("out", "attempts", "steps", "maxstep", "maxstack", "polls", "late")}, "verdict": "pass"}, limit=6)
        for b in v["bad"]:
            rep.mismatch(label + " " + b, {"expected": "RegexVM bounds / defined outcome", "actual": {k: rec[k] for k in ("out", "ty", "where", "attempts", "steps", "maxstep", "maxstack", "polls", "late", "len")},
                                           "clause": b, "case": c}, dev="" if b.startswith("!") else b)
    rep.add_judge(len(recs), st, tr)
    rep.evaluations = (rep.evaluations or 0) + len(recs)
    rep.notes["matching_outcomes"] = outcomes
    rep.notes["matching_worst_late_steps_after_deadline"] = worst
