-------------------------------- MODULE C10 --------------------------------
(* C10 - the regex engine is total.                                                           *)
(*   Enum      : the construction space (vocabulary, length, flag strings, special patterns,     *)
(*               numeric payloads = forms x magnitudes x malformed numerals) and the matching   *)
(*               grid (long-run and short-run families x subject lengths x run configurations:  *)
(*               package API x poll interval, script entry points x flags x try/catch;          *)
(*               deadlines in steps).                                                            *)
(*   JudgeCons : outcome typing of every construction channel + agreement with the pattern     *)
(*               acceptor of RegexSem wherever the string lies inside the specified grammar.    *)
(*   JudgeRun  : observed step / stack / poll counts and steps after the deadline of matching     *)
(*               runs against the budget bounds of the RegexVM model; outcome typing.           *)
(*   JudgeFold : matching under the i flag against subjects with characters whose case mapping  *)
(*               is several characters or leaves ASCII: outcome typing, and the exact result     *)
(*               wherever the documented ASCII-only folding rule decides it.                     *)
(* The budget model itself (RegexVM.tla) is model-checked separately.                           *)
EXTENDS RegexSem, Json, IOUtils

Tier  == IF "TIER" \in DOMAIN IOEnv THEN IOEnv.TIER ELSE "quick"
Quick == Tier = "quick"

\* ---------------- construction space -----------------------------------------------------------
Vocabulary == U("a\\()[]{}*+?|^$.-,1:=!<")                    \* 22 symbols
MaxPatLen == IF Quick THEN 4 ELSE 5
FlagLetters == U("gimsuyx")                                  \* x: not a flag
MaxFlagLen == 3
\* special constructions: [name, head, unit, count, tail] = head \o unit^count \o tail (built by the driver)
Special(name, head, unit, count, tail, expect) == [name |-> name, head |-> U(head), unit |-> U(unit), count |-> count, tail |-> U(tail), expect |-> expect]
\* huge counts over bodies that match only the empty string (most of them compile to few or no instructions): the count
\* is the only thing that is large, so construction has to be bounded in the count.  "outside": an implementation may refuse
\* them as too large and whether a quantified assertion (\b{n}) is in the grammar is an accept / reject question (string space);
\* judged here: defined outcome in every channel, the channels agree, and the compiler's work is bounded (ConsWorkOK).
EmptyBodies == {<<"nc", "(?:)">>, <<"cap", "()">>, <<"la", "(?=)">>, <<"alt", "(?:|)">>, <<"wb", "\\b">>}
HugeCounts == {<<"1e6", "1000000">>, <<"1e9", "1000000000">>, <<"2to1e9", "2,1000000000">>}
EmptyRepSpecials ==
  {Special("emptyrep-" \o b[1] \o "-" \o c[1], b[2] \o "{" \o c[2] \o "}", "", 0, "", "outside") : b \in EmptyBodies, c \in HugeCounts}
  \cup {Special("emptyrep-nested-" \o c[1], "((?:){" \o c[2] \o "}){" \o c[2] \o "}", "", 0, "", "outside") : c \in HugeCounts}
  \cup {Special("emptyrep-nested-nc-" \o c[1], "(?:(?:){" \o c[2] \o "}){" \o c[2] \o "}", "", 0, "", "outside") : c \in HugeCounts}
Specials == {
  Special("groups-seq", "", "(a)", 3000, "", "accept"), Special("groups-nested", "", "(", 3000, "", "reject"),
  Special("groups-nested-closed", "(((((((((((((((((((((((((((((((((((((((((((((((((((((((((((((", "a", 1, ")))))))))))))))))))))))))))))))))))))))))))))))))))))))))))))", "accept"),
  Special("bref-big", "(a)", "", 0, "\\9999", "outside"), Special("class-long", "[", "a-b", 2000, "]", "accept"),
  Special("alt-many", "a", "|a", 3000, "", "accept"), Special("quant-20000", "a{20000}", "", 0, "", "accept"),
  Special("quant-nested", "(?:(?:a{60}){60}){60}", "", 0, "", "accept"), Special("quant-range", "a{0,20000}", "", 0, "", "accept"),
  \* in the grammar, but an implementation may refuse them as too large ("outside"): what it may not do is hang
  Special("quant-huge", "a{100000000}", "", 0, "", "outside"), Special("quant-huge-range", "a{1,99999999999}", "", 0, "", "outside"),
  Special("quant-out-of-order", "a{2,1}", "", 0, "", "reject"), Special("trailing-backslash", "abc\\", "", 0, "", "reject"),
  Special("unterminated-class", "[abc", "", 0, "", "reject"), Special("lookbehind-open", "(?<=a", "", 0, "", "reject"),
  Special("star-chain", "a", "*", 2, "", "reject"), Special("lazy-chain", "a+?", "?", 1, "", "reject"),
  Special("long-literal", "", "ab", 20000, "", "accept"), Special("deep-lookahead", "", "(?=", 400, "", "reject")}
  \cup EmptyRepSpecials

\* ---------------- numeric payloads (construction) ------------------------------------------------------------
\* Every construct of the pattern grammar whose text carries a NUMBER that an implementation converts - a count, a decimal
\* escape / backreference, a code point in hexadecimal - x the magnitudes at which conversions change behaviour (16, 31, 32, 63,
\* 64 bits, the code point range, the host's limits on the length of a numeral) x, for the braced code point escape, the ways a
\* payload can fail to be a numeral.  pattern = parts[1] \o d \o parts[2] \o d ... (the same digits d in every hole).
Zeros(k) == [j \in 1..k |-> 48]
Mag(name, d) == [name |-> name, d |-> d]
DecMags == {Mag("0", U("0")), Mag("1", U("1")), Mag("9", U("9")), Mag("lead0", Zeros(24) \o U("1")), Mag("2^16-1", U("65535")), Mag("2^16", U("65536")),
            Mag("2^31-1", U("2147483647")), Mag("2^31", U("2147483648")), Mag("2^32-1", U("4294967295")), Mag("2^32", U("4294967296")),
            Mag("2^63-1", U("9223372036854775807")), Mag("2^63", U("9223372036854775808")), Mag("2^64", U("18446744073709551616")),
            Mag("1e400", U("1") \o Zeros(400)), Mag("1e5000", U("1") \o Zeros(5000)),
            \* between what an implementation is willing to build (its program budget, a few 10^5) and what the host can allocate at
            \* all (~10^9 .. 10^10 list entries): the window in which work or memory proportional to the COUNT is possible and hurts
            Mag("budget+1", U("500001")), Mag("1e7", U("10000000")), Mag("1e8", U("100000000"))}
HexMags == {Mag("0", U("0")), Mag("41", U("41")), Mag("2^16-1", U("FFFF")), Mag("2^16", U("10000")), Mag("maxcp", U("10FFFF")), Mag("maxcp+1", U("110000")),
            Mag("2^31-1", U("7FFFFFFF")), Mag("2^31", U("80000000")), Mag("2^32-1", U("FFFFFFFF")), Mag("2^32", U("100000000")),
            Mag("2^63-1", U("7FFFFFFFFFFFFFFF")), Mag("2^63", U("8000000000000000")), Mag("2^64", U("10000000000000000")),
            Mag("16^400", U("1") \o Zeros(400)), Mag("16^5000", U("1") \o Zeros(5000))}
HexShapes == {Mag("lead0", U("000041")), Mag("lead0-long", Zeros(40) \o U("41")), Mag("lower", U("10ffff")), Mag("empty", <<>>), Mag("nonhex", U("g")),
              Mag("plus", U("+41")), Mag("minus", U("-41")), Mag("underscore", U("1_0")), Mag("blank-before", U(" 41")), Mag("blank-after", U("41 ")),
              Mag("prefix-0x", U("0x41")), Mag("blank-inside", U("4 1"))}
NumForm(name, base, fl, parts, rule) == [name |-> name, base |-> base, fl |-> U(fl), parts |-> parts, rule |-> rule]
NumForms == {
  NumForm("count", "dec", "", <<U("a{"), U("}")>>, "count5"), NumForm("count-min", "dec", "", <<U("a{"), U(",}")>>, "count5"),
  NumForm("count-max", "dec", "", <<U("a{0,"), U("}")>>, "count5"), NumForm("count-both", "dec", "", <<U("a{"), U(","), U("}")>>, "count5"),
  NumForm("count-nested", "dec", "", <<U("(?:a{"), U("}){"), U("}")>>, "count2"),
  NumForm("decimal-escape", "dec", "", <<U("\\"), <<>> >>, "dec0"), NumForm("backref", "dec", "", <<U("(a)\\"), <<>> >>, "backref1"),
  NumForm("class-decimal", "dec", "", <<U("[\\"), U("]")>>, "dec0"),
  NumForm("cp-escape", "hex", "", <<U("\\u{"), U("}")>>, "outside"), NumForm("cp-escape-u", "hex", "u", <<U("\\u{"), U("}")>>, "cp"),
  NumForm("cp-class-u", "hex", "u", <<U("[\\u{"), U("}]")>>, "cpclass"),
  NumForm("hex4", "hex", "", <<U("\\u"), <<>> >>, "hex4"), NumForm("hex2", "hex", "", <<U("\\x"), <<>> >>, "hex2")}
CountForms == {"count", "count-min", "count-max", "count-both", "count-nested"}
\* The quantified ATOM (added after the fourth review).  A compiler treats a counted quantifier by the kind of its body - a single
\* instruction (character, dot, class escape, class, negated class), a capturing / non-capturing group, a sequence, a backreference,
\* an alternation - and by where the quantified term stands (the whole pattern; inside an alternative of a group with text after
\* it).  Every atom kind x every count shape x every context x magnitudes: the light ones (the pattern must be accepted), the
\* boundary of 16 bits and the window between the program budget and the host's memory (may be refused; bounded work AND memory).
AtomSeq == << <<"dot", ".">>, <<"digit", "\\d">>, <<"class", "[a-c]">>, <<"negclass", "[^a]">>, <<"group", "(a)">>, <<"nc", "(?:a)">>,
              <<"nc-two", "(?:ab)">>, <<"bref", "(a)\\1">>, <<"alt", "(?:a|b)">> >>
CountShapeSeq == << <<"count", <<"{", "}">> >>, <<"count-min", <<"{", ",}">> >>, <<"count-max", <<"{0,", "}">> >>, <<"count-both", <<"{", ",", "}">> >> >>
CountCtxSeq == << <<"alone", "", "">>, <<"in-alt", "(?:ab|", ")c">> >>
AtomForm(k, j, x) ==
  LET at == AtomSeq[k]  sh == CountShapeSeq[j]  cx == CountCtxSeq[x]  ps == sh[2]
      parts == [q \in 1..Len(ps) |-> U((IF q = 1 THEN cx[2] \o at[2] ELSE "") \o ps[q] \o (IF q = Len(ps) THEN cx[3] ELSE ""))]
  IN [name |-> sh[1] \o "-" \o at[1] \o "-" \o cx[1], base |-> "dec", fl |-> <<>>, parts |-> parts, rule |-> "count4", atom |-> k, shape |-> j, ctx |-> x]
AtomForms == {AtomForm(k, j, x) : k \in 1..Len(AtomSeq), j \in 1..Len(CountShapeSeq), x \in 1..Len(CountCtxSeq)}
AtomLightMags == {"0", "1", "9", "lead0"}
AtomWindowSeq == <<"1e7", "1e8">>
AtomMagNames == AtomLightMags \cup {"2^16", "budget+1", "2^31"} \cup {AtomWindowSeq[q] : q \in 1..Len(AtomWindowSeq)}
\* quick: the light magnitudes with every atom x shape x context; each atom once with a magnitude of the window (0.4 s x 6 channels per
\* refused construction), shapes, contexts and window magnitudes taken in turn (AtomGridLaw); magnitudes at which the CONVERSION of
\* the numeral changes behaviour do not depend on the atom (the forms above)
QuickAtomNum(f, m) == m.name \in AtomLightMags
                      \/ (f.shape = ((f.atom - 1) % Len(CountShapeSeq)) + 1 /\ f.ctx = ((f.atom - 1) % Len(CountCtxSeq)) + 1
                          /\ m.name = AtomWindowSeq[(((f.atom - 1) \div 2) % Len(AtomWindowSeq)) + 1])
RECURSIVE Fill(_, _, _)
Fill(parts, d, k) == IF k = Len(parts) THEN parts[k] ELSE parts[k] \o d \o Fill(parts, d, k + 1)
IsDecUnit(u) == u \in 48..57
IsHexUnit(u) == u \in 48..57 \/ u \in 65..70 \/ u \in 97..102
AllUnits(d, P(_)) == \A k \in 1..Len(d) : P(d[k])
\* number of significant digits (at least 1 for a numeral of zeros)
Sig(d) == LET nz == {k \in 1..Len(d) : d[k] # 48} IN IF nz = {} THEN 1 ELSE Len(d) + 1 - (CHOOSE k \in nz : \A j \in nz : k <= j)
StripZeros(d) == SubSeq(d, Len(d) + 1 - Sig(d), Len(d))
IsNumeral(d, P(_)) == d # <<>> /\ AllUnits(d, P)
HexAtMostMaxCp(d) == LET t == StripZeros(d) IN Len(t) <= 5 \/ (Len(t) = 6 /\ t[1] = 49 /\ t[2] = 48)          \* <= 10FFFF
\* what the grammar says.  Counts: in the grammar whatever the magnitude, but an implementation may refuse a program it finds too
\* large ("outside": judged for totality, channel agreement and compile work only); below 10^5 (10^2 for the nested form, whose
\* program is the product) it has to accept, as for the other quantifier specials.  Decimal escapes: \0 is NUL, \1 after one group a
\* backreference, anything else is Annex-B territory.  \u{H}: without the u flag Annex B reads it as u{H}; with the u flag it is a
\* code point escape and an early error unless H is a hexadecimal numeral of value <= 10FFFF.  \xHH, \uHHHH: two / four hexadecimal
\* digits (the rest of the payload is literal text); fewer is Annex-B territory.
NumExpect(f, d) ==
  CASE f.rule = "count5" -> IF IsNumeral(d, IsDecUnit) /\ Sig(d) <= 5 THEN "accept" ELSE "outside"
    [] f.rule = "count2" -> IF IsNumeral(d, IsDecUnit) /\ Sig(d) <= 2 THEN "accept" ELSE "outside"
    [] f.rule = "count4" -> IF IsNumeral(d, IsDecUnit) /\ Sig(d) <= 4 THEN "accept" ELSE "outside"      \* a body of a few instructions
    [] f.rule = "dec0" -> IF d = <<48>> THEN "accept" ELSE "outside"
    [] f.rule = "backref1" -> IF d \in {<<48>>, <<49>>} THEN "accept" ELSE "outside"
    [] f.rule \in {"cp", "cpclass"} -> IF IsNumeral(d, IsHexUnit) /\ HexAtMostMaxCp(d) THEN "accept" ELSE "reject"
    [] f.rule = "hex4" -> IF Len(d) >= 4 /\ AllUnits(d, IsHexUnit) THEN "accept" ELSE "outside"
    [] f.rule = "hex2" -> IF Len(d) >= 2 /\ AllUnits(d, IsHexUnit) THEN "accept" ELSE "outside"
    [] OTHER -> "outside"
\* a count the engine refuses as too large costs it half a second per construction (it emits instructions up to its limit)
HeavyNum(f, m) == f.rule \in {"count5", "count2", "count4"} /\ NumExpect(f, m.d) = "outside"
\* quick: every form x every magnitude and shape, except that the refused counts are taken with every magnitude for the plain form
\* and with the 31- and 64-bit boundaries for the four other count forms, in the try/catch form of the six channels only
\* (a{10^8} is the special quant-huge)
QuickNum(f, m) == ~HeavyNum(f, m) \/ (f.name = "count" /\ m.name # "1e8") \/ m.name \in {"2^31", "2^64"}
MagsOf(f) == {m \in (IF f.base = "dec" THEN DecMags ELSE HexMags \cup HexShapes) : ~Quick \/ QuickNum(f, m)}
NumSpecial(f, m) == [name |-> "num-" \o f.name \o "-" \o m.name, head |-> Fill(f.parts, m.d, 1), unit |-> <<>>, count |-> 0, tail |-> <<>>,
                      expect |-> NumExpect(f, m.d), fl |-> f.fl, numrule |-> f.rule, payload |-> m.d, heavy |-> HeavyNum(f, m),
                      uncaught |-> ~(Quick /\ HeavyNum(f, m))]
AtomMagsOf(f) == {m \in DecMags : m.name \in AtomMagNames /\ (~Quick \/ QuickAtomNum(f, m))}
NumSpecials == UNION {{NumSpecial(f, m) : m \in MagsOf(f)} : f \in NumForms} \cup UNION {{NumSpecial(f, m) : m \in AtomMagsOf(f)} : f \in AtomForms}
\* the sub-grid of the quick tier: every atom, every shape, every context and every window magnitude among the refused counts; every
\* (atom, shape, context) with every light magnitude
ASSUME AtomGridLaw ==
  LET heavy == {<<f, m>> \in AtomForms \X DecMags : m \in AtomMagsOf(f) /\ HeavyNum(f, m)}
  IN /\ \A k \in 1..Len(AtomSeq) : \E h \in heavy : h[1].atom = k
     /\ \A j \in 1..Len(CountShapeSeq) : \E h \in heavy : h[1].shape = j
     /\ \A x \in 1..Len(CountCtxSeq) : \E h \in heavy : h[1].ctx = x
     /\ \A q \in 1..Len(AtomWindowSeq) : \E h \in heavy : h[2].name = AtomWindowSeq[q]
     /\ \A f \in AtomForms : \A nm \in AtomLightMags : \E m \in AtomMagsOf(f) : m.name = nm

\* ---------------- matching grid -----------------------------------------------------------------
\* [fam, src, unit, tail]: subject = unit^n \o tail
Family(fam, src, unit, tail) == [fam |-> fam, src |-> U(src), unit |-> U(unit), tail |-> U(tail)]
\* families whose cost sits in one long matcher run (an attempt, or one lookaround activation, that backtracks)
LongRunFamilies == {
  Family("nested-plus", "(a+)+b", "a", ""), Family("alt-overlap", "(a|a)*b", "a", ""), Family("star-star", "(a*)*b", "a", ""),
  Family("alt-prefix", "(a|aa)+b", "a", ""), Family("dot-star-star", "(.*)*x", "a", ""),
  Family("lookahead-nested", "(?=(a+)+b)", "a", ""), Family("lookbehind-nested", "(?<=(a+)+)b", "a", "c"),
  Family("bref-loop", "(a+)\\1+b", "a", ""), Family("depth3", "((a+)+)+b", "a", ""),
  Family("plain-star", "a*", "a", ""), Family("alt-star", "(?:a|b)*c", "ab", ""), Family("lazy-dot", "^(.*?,){8}x", "1,", ""),
  Family("lookahead-in-loop", "(?:(?=a)a)*b", "a", ""), Family("optional-chain", "a?a?a?a?a?a?a?a?aaaaaaaa", "a", "")}
\* families whose cost is the NUMBER of matcher runs, each of a few steps (far below the poll interval and the step budget): a
\* lookbehind is started from every position at or before the current one (about n^2/2 runs of 1-3 steps), a search fails at
\* every start position after a few steps, a lookaround inside a loop is one short run per iteration.  Whatever paces polling
\* and bounds work has to count across runs (RegexVM: pollc is shared by all activations).
ShortRunFamilies == {
  Family("lookbehind-scan", "(?<=b)c", "a", ""), Family("neg-lookbehind-scan", "(?<!b)c", "a", ""),
  Family("many-attempts", "a{20}b", "aaaaaaaaaaaaaaaaaaaac", ""), Family("lookbehind-in-loop", "(?:(?<=a)b|a)+c", "ab", ""),
  Family("lookahead-scan", "(?=a)b", "a", "")}
\* "lookaround inside loops" (the property's quantifier): a catastrophic loop (a|a)*b whose body contains a lookaround - before or
\* after the atom - or which reaches one after every way of leaving the loop; the four lookaround kinds (each chosen so that it
\* succeeds on a^n: the loop stays exponential); the loop itself in the main run, or inside a lookahead / lookbehind run (a sub-matcher
\* that starts sub-matchers).  What bounds such a run is the step budget of the run that contains the loop, and that run is
\* interrupted by another run of the same matcher every few steps: a budget has to survive the runs nested in it.
LookKinds == {<<"la", "(?=a)">>, <<"nla", "(?!c)">>, <<"lb", "(?<=a)">>, <<"nlb", "(?<!b)">>}
LookPositions == {<<"pre", "(?:", "a|a)*b">>, <<"post", "(?:a", "|a)*b">>, <<"after", "(?:a|a)*", "b">>}
LookLevels == {<<"main", "", "">>, <<"in-la", "(?=", ")">>, <<"in-lb", "(?<=", ")c">>}
LookFamily(k, p, l) == Family("looplook-" \o k[1] \o "-" \o p[1] \o "-" \o l[1], l[2] \o p[2] \o k[2] \o p[3] \o l[3], "a", "")
\* quick: every kind x every position in the main run; every kind and every position once inside each sub-matcher level
QuickLook(k, p, l) == l[1] = "main" \/ (k[1] \in {"la", "nlb"} /\ p[1] = "pre") \/ (k[1] = "nla" /\ p[1] = "post") \/ (k[1] = "lb" /\ p[1] = "after")
LookGrid == {<<k, p, l>> \in LookKinds \X LookPositions \X LookLevels : ~Quick \/ QuickLook(k, p, l)}
LoopLookFamilies == {LookFamily(g[1], g[2], g[3]) : g \in LookGrid}
\* the sub-grid of the quick tier still has every kind and every position at every level
ASSUME LookGridLaw == \A l \in LookLevels : (\A k \in LookKinds : \E g1 \in LookGrid : g1[1] = k /\ g1[3] = l)
                                             /\ (\A q \in LookPositions : \E g2 \in LookGrid : g2[2] = q /\ g2[3] = l)
LoopLookNames == {f.fam : f \in LoopLookFamilies}
Families == LongRunFamilies \cup ShortRunFamilies \cup LoopLookFamilies
Lengths == IF Quick THEN {10, 100, 10000} ELSE {10, 30, 100, 10000}          \* (1000 dropped in the last round: tier time)
\* the real budgets (regex/vm.py RegexVM defaults)
StepLimit == 100000
StackLimit == 10000
RealPollInterval == 100
\* -- run configurations: how the matcher is entered and what limits the run ---------------------------------------------------------
\* mode "api": microjs.regex.RegExp(src, "", poll_callback, poll_interval = interval).exec(subject)
\* mode "script": var R = new RegExp(P, F); <op> - in a Context; form "try": inside try/catch (does script code receive the error?)
\* deadline: 0 = none, else a number of hooked steps.  api: the poll callback says stop once that many steps have been counted;
\*   script: Context(time_limit = deadline) on a virtual clock that advances one second per hooked step (VM or regex)
\* cap: which counting cap bounds the run ("main": 1.5 / 8 million steps, "aux": 0.4 / 1.5 million, "look": 0.2 / 2 million; quick / thorough);
\* lens: the subject lengths the configuration is run with
Deadlines == {60, 20000}                                    \* shorter than one real poll interval; many poll intervals
PollIntervals == IF Quick THEN {1, RealPollInterval} ELSE {1, 7, RealPollInterval}
\* arg: how the pattern reaches the entry point - "regexp": a RegExp object R = new RegExp(P, F); "string" / "strobj": the pattern text P
\* resp. new String(P) given to an entry point that builds the matcher itself (PatArgs below)
ApiCfg(iv, d, cap, lens) == [mode |-> "api", interval |-> iv, op |-> "exec", fl |-> <<>>, form |-> "bare", deadline |-> d, cap |-> cap, lens |-> lens, arg |-> "regexp"]
ScriptCfgArg(op, fl, form, d, cap, lens, arg) == [mode |-> "script", interval |-> RealPollInterval, op |-> op, fl |-> U(fl), form |-> form, deadline |-> d, cap |-> cap, lens |-> lens, arg |-> arg]
ScriptCfg(op, fl, form, d, cap, lens) == ScriptCfgArg(op, fl, form, d, cap, lens, "regexp")
\* every entry point that runs the matcher on a RegExp object, with the flag that changes how often it runs it
OpFlags == {<<"test", "">>, <<"test", "g">>, <<"exec", "">>, <<"search", "">>, <<"split", "">>, <<"match", "">>, <<"match", "g">>,
            <<"replace", "">>, <<"replace", "g">>, <<"replaceAll", "g">>}
Forms == {"bare", "try"}
SingleSearch(c) == c.mode = "api" \/ (c.fl = <<>> /\ c.op \in {"test", "exec", "search", "match", "replace"})
\* every family: the package API with every poll interval, R.test(S) at script level; each without and with a deadline
BaseCfgs ==
  {ApiCfg(iv, d, IF iv = 1 THEN "main" ELSE "aux", Lengths) : iv \in PollIntervals, d \in {0} \cup Deadlines}
  \cup {ScriptCfg("test", "", "bare", d, "main", Lengths) : d \in Deadlines}
  \cup {ScriptCfg("test", "", "bare", 0, "main", {n \in Lengths : n <= 100}), ScriptCfg("test", "", "bare", 0, "aux", {n \in Lengths : n > 100})}
\* entry points x forms x deadlines.  quick: the families that cover each way a run ends (step budget, stack budget in the main
\* loop with and without sub-matcher runs, a match, a match per position, many short runs), shortest and longest subject
OpFamilyNames == IF Quick THEN {"nested-plus", "star-star", "alt-star", "lookahead-in-loop", "plain-star", "optional-chain", "lookbehind-scan"}
                 ELSE {f.fam : f \in Families}
OpLengths == IF Quick THEN {10, 10000} ELSE Lengths
OpCfgs == {ScriptCfg(o[1], o[2], form, d, "aux", OpLengths) : o \in OpFlags, form \in Forms, d \in {0} \cup Deadlines}
          \ {ScriptCfg("test", "", "bare", d, "aux", OpLengths) : d \in {0} \cup Deadlines}
\* The pattern ARGUMENT (added after the fourth review).  String.prototype.match and search take any value as the pattern: a RegExp
\* object is used as it is, anything else goes through ToString and RegExpCreate and the matcher built there runs at once - the same
\* catastrophic families, the same budgets and the same deadline have to govern that run although no script ever holds the object.
\* (split / replace / replaceAll with a string search for the text and run no matcher; exec / test exist on RegExp objects only.)
\* Kinds of non-RegExp argument: a string, a String object (ToString of an object).  x form x deadline; the families and lengths
\* of the entry-point grid.  quick: a string in both forms, a String object bare (ArgGridLaw).
StringArgOps == {"match", "search"}
PatArgs == {"string", "strobj"}
QuickArg(arg, form) == arg = "string" \/ form = "bare"
ArgCfgs == {ScriptCfgArg(op, "", g[2], d, "aux", OpLengths, g[1]) : op \in StringArgOps, g \in {h \in PatArgs \X Forms : ~Quick \/ QuickArg(h[1], h[2])}, d \in {0} \cup Deadlines}
ASSUME ArgGridLaw == /\ \A op \in StringArgOps, arg \in PatArgs, d \in {0} \cup Deadlines : \E c \in ArgCfgs : c.op = op /\ c.arg = arg /\ c.deadline = d
                     /\ \A op \in StringArgOps, form \in Forms : \E c \in ArgCfgs : c.op = op /\ c.form = form
\* the loop-lookaround families, quick: package API with the real poll interval and R.test(S), without and with a deadline, every
\* length (thorough: every configuration, like every other family)
\* cap "look": 200 000 steps (thorough 2 000 000) - twice the step budget is enough to see one run exceed it
LookCfgs == {ApiCfg(RealPollInterval, d, "look", Lengths) : d \in {0} \cup Deadlines} \cup {ScriptCfg("test", "", "bare", d, "look", Lengths) : d \in {0} \cup Deadlines}
RunConfigs(f) == IF Quick /\ f.fam \in LoopLookNames THEN LookCfgs ELSE BaseCfgs \cup (IF f.fam \in OpFamilyNames THEN OpCfgs \cup ArgCfgs ELSE {})

\* ---------------- case-folding grid (matching under the i flag) -----------------------------------
\* subject characters whose upper / lower case mapping is several characters or leaves (enters) ASCII:
\*   U+00DF (upper "SS"), U+0130 (lower "i" + U+0307), U+0131 (upper "I"), U+FB01 (upper "FI"), U+1E9E (lower U+00DF),
\*   U+03C2 (upper U+03A3, whose lower is U+03C3), U+1F600 as a surrogate pair.
FoldChars == {<<223>>, <<304>>, <<305>>, <<64257>>, <<7838>>, <<962>>, <<55357, 56832>>}
\* exact: the pattern is ASCII, so the documented folding rule decides the result (FoldExpect); otherwise only the outcome
\* type is judged (for non-ASCII pattern letters both "unchanged" and the Unicode mapping are accepted, DESIGN 4.4 item 6;
\* whether \w and . take a non-ASCII unit is not a question of folding: C09's business)
FoldPat(name, src, exact) == [name |-> name, src |-> src, exact |-> exact]
FoldPatterns(c) == {
  FoldPat("letter", U("a"), TRUE), FoldPat("class", U("[a-z]"), TRUE), FoldPat("neg-class", U("[^a-z]"), TRUE),
  FoldPat("bref", U("(x)\\1"), TRUE), FoldPat("word", U("\\w"), FALSE), FoldPat("dot", U("."), FALSE),
  FoldPat("self", c, FALSE), FoldPat("self-class", U("[") \o c \o U("]"), FALSE), FoldPat("self-bref", U("(") \o c \o U(")\\1"), FALSE)}
FoldFlags == {U("i"), U("gi"), U("im")}
FoldSubjects(c) == {c, U("x") \o c, c \o U("A"), c \o c, U("xX") \o c, c \o U("a") \o c, U("_") \o c \o U("1")}
\* package API exec; script level: exec, test, String.prototype.match / search / replace / split with the regex
FoldOps == <<"api", "exec", "test", "match", "search", "replace", "split">>

\* ---------------- start-position grid (the state a RegExp object carries into a match) -------------------------
\* "Matching any accepted pattern against any string" starts from the state of the RegExp object: lastIndex, read by every
\* entry point under the g and y flags, is any value a script can store or an earlier match on another subject left behind -
\* inside the subject, at its end, past its end, far past it, negative, not an integer, not a number.  Patterns: one per
\* kind of first instruction (an assertion that looks at the neighbouring characters, a consuming atom, something that
\* matches the empty string, a lookaround, a backreference).  Judged: outcome typing only (PosVerdict).
PosPat(name, src) == [name |-> name, src |-> U(src)]
PosLeadPatterns == {PosPat("wb", "\\b"), PosPat("bol", "^"), PosPat("letter", "a")}
PosPatterns == PosLeadPatterns \cup {
  PosPat("nwb", "\\B"), PosPat("eol", "$"), PosPat("wb-word", "\\b\\w+"), PosPat("bol-word", "^\\w+"), PosPat("nwb-x", "\\Bx"), PosPat("bol-eol", "^$"),
  PosPat("wb-eol", "\\b$"), PosPat("alt-assert", "(?:^|\\b)a"), PosPat("word", "\\w+"), PosPat("dot", "."), PosPat("neg-class", "[^x]"),
  PosPat("word-star", "\\w*"), PosPat("empty", "(?:)"), PosPat("lazy-star", "a*?"), PosPat("alt-empty", "a|"),
  PosPat("la", "(?=a)"), PosPat("nla", "(?!a)"), PosPat("lb", "(?<=a)"), PosPat("nlb", "(?<!a)"), PosPat("lb-wb", "(?<=\\b)"), PosPat("lb-bol", "(?<=^)b"),
  PosPat("bref", "(a)\\1"), PosPat("bref-fwd", "\\1(a)"), PosPat("bref-empty", "()\\1\\b")}
PosCoreFlags == {U(""), U("y"), U("gy"), U("my")}
PosFlags == PosCoreFlags \cup {U("g"), U("m"), U("gm"), U("gmy"), U("u"), U("gu"), U("uy"), U("guy"), U("mu"), U("muy"), U("gmu"), U("gmuy"), U("iy"), U("sy")}
PosCoreSubjects == {U("ab")}
PosSubjects == PosCoreSubjects \cup {<<>>, U("a"), <<97, 10, 98>>, <<97, 98, 10>>, <<10>>, U("hi there"), <<55357, 56832, 97>>}
\* how lastIndex gets its value: pre = statements run first (R, S: the regex and the subject), js = the expression assigned ("" = none)
PosLI(name, pre, js) == [name |-> name, pre |-> pre, js |-> js]
PosLastIndexes == {
  PosLI("fresh", "", ""), PosLI("0", "", "0"), PosLI("1", "", "1"), PosLI("len-1", "", "S.length - 1"), PosLI("len", "", "S.length"),
  PosLI("len+1", "", "S.length + 1"), PosLI("len+2", "", "S.length + 2"), PosLI("len+1000", "", "S.length + 1000"),
  PosLI("2^31-1", "", "2147483647"), PosLI("2^31", "", "2147483648"), PosLI("2^32", "", "4294967296"), PosLI("2^53+1", "", "9007199254740993"),
  PosLI("1e21", "", "1e21"), PosLI("-1", "", "-1"), PosLI("-0", "", "-0"), PosLI("nan", "", "NaN"), PosLI("inf", "", "Infinity"), PosLI("-inf", "", "-Infinity"),
  PosLI("fraction", "", "1.5"), PosLI("fraction-past", "", "S.length + 0.5"), PosLI("numeric-string", "", "'3'"), PosLI("string", "", "'x'"),
  PosLI("undefined", "", "undefined"), PosLI("null", "", "null"), PosLI("true", "", "true"), PosLI("object", "", "{}"),
  PosLI("valueOf-past", "", "{valueOf: function () { return S.length + 1; }}"),
  \* left behind by an earlier match on a longer subject (a scanner reused on a new input without resetting lastIndex)
  PosLI("carried-exec", "R.exec('ab a\\nab ' + S + ' ab a');", ""), PosLI("carried-test", "R.test(S + S + ' a\\nb a');", ""),
  PosLI("carried-twice", "R.exec('a ab\\na ' + S + ' ab'); R.exec('a ab\\na ' + S + ' ab');", "")}
\* every entry point that runs the matcher on a RegExp object
PosOps == <<"exec", "test", "match", "search", "replace", "replaceAll", "split">>
\* cells [pats, flags, subjects], each run with every lastIndex and every op.  thorough: the full product.  quick: every pattern
\* x the core flags x the core subject, and every other flag string / subject next to the lead patterns (PosGridLaw)
PosCell(pats, flags, subjects) == [pats |-> pats, flags |-> flags, subjects |-> subjects]
PosCells == IF Quick THEN {PosCell(PosPatterns, PosCoreFlags, PosCoreSubjects), PosCell(PosLeadPatterns, PosFlags, PosCoreSubjects),
                           PosCell(PosLeadPatterns, {U("y"), U("my")}, PosSubjects)}
            ELSE {PosCell(PosPatterns, PosFlags, PosSubjects)}
ASSUME PosGridLaw == (UNION {c.pats : c \in PosCells} = PosPatterns) /\ (UNION {c.flags : c \in PosCells} = PosFlags)
                     /\ (UNION {c.subjects : c \in PosCells} = PosSubjects)

\* ---------------- Enum ----------------------------------------------------------------------------
VARIABLES ph, cur, rec_i
vars == <<ph, cur, rec_i>>
EnumInit == ph = "start" /\ cur = <<>> /\ rec_i = 0
EnumNext == /\ ph = "start" /\ UNCHANGED rec_i
            /\ \/ ph' = "out" /\ cur' = [kind |-> "strings", vocab |-> Vocabulary, maxlen |-> MaxPatLen]
               \/ ph' = "out" /\ cur' = [kind |-> "flags", letters |-> FlagLetters, maxlen |-> MaxFlagLen]
               \/ \E s \in Specials : ph' = "out" /\ cur' = [kind |-> "special"] @@ s
               \/ \E s \in NumSpecials : ph' = "out" /\ cur' = [kind |-> "special"] @@ s
               \/ \E f \in Families : ph' = "out" /\ cur' = [kind |-> "family", runs |-> RunConfigs(f)] @@ f
               \* one record per character: the driver runs patterns x flags x subjects x ops (the cross product stated here)
               \/ \E c \in FoldChars : ph' = "out" /\ cur' = [kind |-> "fold", c |-> c, pats |-> FoldPatterns(c), flags |-> FoldFlags,
                                                                 subjects |-> FoldSubjects(c), ops |-> FoldOps]
               \* one record: the driver runs every cell's product x lastIndexes x ops (stated here)
               \/ ph' = "out" /\ cur' = [kind |-> "pos", cells |-> PosCells, lis |-> PosLastIndexes, ops |-> PosOps]
EnumEmit == ph = "start" \/ PrintT(ToJson(cur))
\* laws of the acceptor, checked over every string up to length 3 of the vocabulary (INVARIANT of a separate small run)
RECURSIVE WordsUpTo(_, _)
WordsUpTo(alpha, n) == IF n = 0 THEN {<<>>} ELSE LET w == WordsUpTo(alpha, n - 1) IN w \cup {Append(u, c) : u \in {v \in w : Len(v) = n - 1}, c \in alpha}
VocabSet == {Vocabulary[k] : k \in 1..Len(Vocabulary)}
LawInit == ph = "law" /\ rec_i = 0 /\ cur \in WordsUpTo(VocabSet, 2)
LawNext == /\ ph = "law" /\ rec_i = 0 /\ Len(cur) = 2
           /\ \E c \in VocabSet : cur' = Append(cur, c) /\ UNCHANGED <<ph, rec_i>>
AcceptorLaw ==
  ph # "law" \/
  LET s == ParseMode(cur, FALSE)  b == ParseMode(cur, TRUE) IN
  /\ (s.ok => b.ok)                                                        \* 22.2.1 is contained in B.1.2
  /\ (s.ok => LET again == Parse(Render(s.a)) IN again.ok /\ Norm(again.a) = Norm(s.a))    \* accepted text -> tree -> text -> same tree
  /\ (s.ok => WellNumbered(s.a) \/ \E k \in BrefsIn(s.a) : k > NCaps(s.a))
  /\ Classify(cur) \in {"accept", "outside", "reject"}

\* ---------------- JudgeCons ---------------------------------------------------------------------------
Recs == ndJsonDeserialize(IOEnv.OBS_FILE)
\* a construction record: [id, p (units) | big (name of a special with its expectation), ch: outcomes of the channels
\*   <<api, literal, RegExp(), new RegExp(), "s".match(P), "s".search(P)>>, un: outcomes of the script channels without try/catch;
\*   specials also: plen (length of the pattern), work = <<AST nodes visited by the compiler, instructions emitted>> (API channel)]
\* String.prototype.match and search build a regular expression from a string argument (ECMA-262 22.1.3.13 / .19: RegExpCreate),
\* so they are construction channels; split / replace / replaceAll with a string do not construct one.
\* outcome codes: "ok" | "SyntaxError" (caught by script try/catch) | "caught:<class>" | "syntax" (eval raised JSSyntaxError)
\*   | "jserror:<name>" | "RegExpError" (API channel: the package's own documented error) | "host:<type>" | "hang" | "skip"
AcceptOutcome(o) == o = "ok"
\* uncaught: any JSError at the Python boundary (its class name is recorded, not judged: DESIGN 4.4 item 8)
RejectOutcome(c, o) == IF c = 1 THEN o = "RegExpError" ELSE o \in {"SyntaxError", "syntax", "jserror"}
TotalOutcome(c, o) == o = "skip" \/ AcceptOutcome(o) \/ RejectOutcome(c, o)
ConstructorChannels == 2..4          \* literal, RegExp(), new RegExp()
StringChannels == {5, 6}             \* "s".match(P), "s".search(P)
\* bounded construction work, by counting (not by the clock): the compiler may visit AST nodes only in proportion to the program
\* it produces.  An AST has at most 3L nodes for a pattern of length L; a visit either emits an instruction somewhere below it
\* (each instruction lies below at most 3L nested visits) or is one of at most 3L barren nodes next to such a visit - unless a
\* body that emits nothing is compiled over and over, once per count of its quantifier.  Generous: (3L)^2 visits per instruction.
\* work[1] = -1: the compiler's internals could not be observed (not judged; the absolute counting cap and the watchdog remain).
WorkFactor(plen) == IF plen >= 10000 THEN 1000000000 ELSE 9 * plen * plen
ConsWorkOK(r) == r.work[1] < 0 \/ r.work[1] \div (r.work[2] + 1) <= WorkFactor(r.plen)
\* bounded construction MEMORY, by counting: work[3] = the largest length of a compiler's program seen at any counted emission
\* (-1: not observable).  A program grows one counted instruction at a time (then work[3] <= work[2], the number of instructions
\* counted so far, which the counting cap ProgCap of the driver bounds), or in bulk under a budget of the implementation's own -
\* which cannot be larger than what the counting cap lets through either.  A program longer than both was produced by something
\* proportional to a number written in the pattern that no budget saw.
ProgCap == 3000000
ConsProgOK(r) == Len(r.work) < 3 \/ r.work[3] < 0 \/ r.work[2] < 0 \/ r.work[3] <= r.work[2] \/ r.work[3] <= ProgCap
\* and as the host measures it: work[4] = growth of the process's peak resident set (KB) over the construction through the package
\* API (-1: not measured).  2 KB per instruction of the largest program the counting cap lets through, i.e. what an implementation
\* may use that represents an instruction as a small tuple or object ten times over; the count written in the pattern is not in it.
MemPerInstrKB == 2
MemBaseKB == 262144
ConsMemOK(r) == Len(r.work) < 4 \/ r.work[4] < 0 \/ r.work[2] < 0 \/ r.work[4] <= MemBaseKB + MemPerInstrKB * (r.work[2] + r.plen)
\* as-is (regex/parser.py _parse_unicode_escape): the payload of \u{...} goes through the host's integer-literal conversion
\* int(text, 16), which also takes blanks around the numeral, a sign, a 0x prefix and single underscores between digits; a value
\* outside 0..10FFFF is refused.  With the u flag ECMA-262 wants one or more hexadecimal digits and nothing else.
RECURSIVE TrimBlank(_)
TrimBlank(d) == IF d # <<>> /\ d[1] = 32 THEN TrimBlank(Tail(d)) ELSE IF d # <<>> /\ d[Len(d)] = 32 THEN TrimBlank(SubSeq(d, 1, Len(d) - 1)) ELSE d
AsIsIntLiteral(d) ==
  LET t == TrimBlank(d)
      sgn == t # <<>> /\ t[1] \in {43, 45}
      u == IF sgn THEN Tail(t) ELSE t
      pre == Len(u) >= 2 /\ u[1] = 48 /\ u[2] \in {120, 88}
      v == IF pre THEN SubSeq(u, 3, Len(u)) ELSE u
      w == IF pre /\ v # <<>> /\ v[1] = 95 THEN Tail(v) ELSE v
      digits == SelectSeq(w, IsHexUnit)
  IN /\ w # <<>> /\ IsHexUnit(w[1]) /\ IsHexUnit(w[Len(w)])
     /\ \A k \in 1..Len(w) : IsHexUnit(w[k]) \/ (w[k] = 95 /\ k < Len(w) /\ w[k + 1] # 95)
     /\ HexAtMostMaxCp(digits)
     /\ (sgn /\ t[1] = 45 => \A k \in 1..Len(digits) : digits[k] = 48)
\* why does the engine disagree with the acceptor?  the grammar with one rule relaxed at a time
HugeNames == {"quant-huge", "quant-huge-range"}
ConsVerdict(r) ==
  LET cls == IF "expect" \in DOMAIN r THEN r.expect ELSE Classify(r.p)
      \* ref: what new RegExp(P) did in the same form (caught / uncaught)
      Bad(c, o, ref) ==                             \* -> "" (fine) | deviation name | "!..." (unexplained)
        IF o = "skip" THEN ""
        ELSE IF ~TotalOutcome(c, o)
             THEN (IF o = "hang" /\ "name" \in DOMAIN r /\ r.name \in HugeNames THEN "Dev_QuantifierUnroll"   \* the compiler unrolls counted quantifiers: {10^8} never finishes
                   \* the parser's private error type leaks out of eval at the three constructor sites (the finding names them; the
                   \* string-pattern channels are not covered by it: there the same leak is reported)
                   ELSE IF c \in ConstructorChannels /\ o = "host:RegExpError" /\ cls # "accept" THEN "Dev_RegExpErrorHost"
                   ELSE IF c \in ConstructorChannels /\ o = "host:RegExpError" THEN "!accept-rejected"
                   ELSE "!")
        ELSE IF c = 1 /\ "work" \in DOMAIN r /\ ~ConsWorkOK(r) THEN "!compile-work"
        ELSE IF c = 1 /\ "work" \in DOMAIN r /\ ~ConsProgOK(r) THEN "!program-size"
        ELSE IF c = 1 /\ "work" \in DOMAIN r /\ ~ConsMemOK(r) THEN "!memory"
        \* lexer.py: "/=" is always taken as the divide-assign token, so a literal whose pattern starts with "=" is a syntax error
        ELSE IF c = 2 /\ cls # "reject" /\ "p" \in DOMAIN r /\ r.p # <<>> /\ r.p[1] = 61 /\ RejectOutcome(c, o) THEN "Dev_LiteralSlashAssign"
        ELSE IF cls = "accept" /\ ~AcceptOutcome(o) THEN "!accept-rejected"
        ELSE IF cls = "reject" /\ AcceptOutcome(o) /\ "numrule" \in DOMAIN r /\ r.numrule \in {"cp", "cpclass"} /\ AsIsIntLiteral(r.payload) THEN "Dev_UnicodeEscapeDigits"
        \* as-is (regex/parser.py _parse_class_char): inside a class \x, \u and \c are identity escapes, the text after them is literal
        \* class text - so [\u{H}] is a class of the characters u { H } whatever H is (unless that text has a range out of order)
        ELSE IF cls = "reject" /\ AcceptOutcome(o) /\ "numrule" \in DOMAIN r /\ r.numrule = "cpclass" /\ (\A k \in 1..Len(r.payload) : r.payload[k] # 45) THEN "Dev_ClassEscapeLiteral"
        ELSE IF cls = "reject" /\ AcceptOutcome(o) THEN "!reject-accepted"
        \* whatever the class (also outside the judged grammar): a string pattern is accepted iff new RegExp(pattern) accepts it
        ELSE IF c \in StringChannels /\ ref # "skip" /\ TotalOutcome(4, ref) /\ AcceptOutcome(o) # AcceptOutcome(ref) THEN "!string-channel-disagrees"
        ELSE ""
      RefOf(seq, k) == IF k <= Len(seq) THEN seq[k] ELSE "skip"
  IN [id |-> r.id, cls |-> cls, bad |-> [c \in 1..Len(r.ch) |-> Bad(c, r.ch[c], RefOf(r.ch, 4))],
      un |-> [c \in 1..Len(r.un) |-> Bad(c + 1, r.un[c], RefOf(r.un, 3))]]
HasFwd(a) == Fwd(a, 0).bad
\* second pass over the disagreements only: name the rule of the grammar the engine gets wrong
\*   rec: [id, p, kind ("accept-rejected" | "reject-accepted")]
RelaxedAccepts(p, opt) == ParseOpt(p, {opt}).ok
WhyVerdict(r) ==
  [id |-> r.id,
   dev |-> IF r.kind = "accept-rejected"
           THEN (IF Parse(r.p).ok /\ HasFwd(Parse(r.p).a) THEN "Dev_ForwardRef" ELSE "")
           ELSE (IF RelaxedAccepts(r.p, "rangeOrder") THEN "Dev_ClassRangeOrder"
                 ELSE IF RelaxedAccepts(r.p, "quantOrder") THEN "Dev_QuantOrder"
                 ELSE IF RelaxedAccepts(r.p, "lbQuant") THEN "Dev_LookbehindQuantified"
                 ELSE IF RelaxedAccepts(r.p, "asQuant") THEN "Dev_AssertionQuantified"
                 ELSE IF RelaxedAccepts(r.p, "looseEscape") THEN "Dev_LooseEscape"
                 ELSE "")]
\* flags: valid iff letters of gimsuy (d, v: newer editions, not judged), no duplicates
FlagVerdict(r) ==
  LET fs == r.fl
      known == \A k \in 1..Len(fs) : fs[k] \in {103, 105, 109, 115, 117, 121}
      newer == \E k \in 1..Len(fs) : fs[k] \in {100, 118}
      dup == \E j, k \in 1..Len(fs) : j # k /\ fs[j] = fs[k]
      cls == IF newer THEN "outside" ELSE IF known /\ ~dup THEN "accept" ELSE "reject"
      Bad(c, o) == IF o = "skip" THEN ""
                   \* a literal with a letter that is no flag: the lexer stops before it and the program goes on with an identifier
                   ELSE IF c = 2 /\ cls = "reject" /\ ~known /\ o \in {"caught:ReferenceError", "jserror"} THEN "Dev_FlagsNotValidated"
                   ELSE IF ~TotalOutcome(c, o) THEN "!"
                   ELSE IF cls = "accept" /\ ~AcceptOutcome(o) THEN "!accept-rejected"
                   \* as-is: the package API and the lexer take any letters; RegExp() / new RegExp() validate them
                   ELSE IF cls = "reject" /\ AcceptOutcome(o) THEN (IF c \in {1, 2} THEN "Dev_FlagsNotValidated" ELSE "!reject-accepted")
                   ELSE ""
  IN [id |-> r.id, cls |-> cls, bad |-> [c \in 1..Len(r.ch) |-> Bad(c, r.ch[c])]]

ConsInit == /\ rec_i \in 1..Len(Recs) /\ ph = "cons" /\ cur = <<>>
            /\ LET r == Recs[rec_i]
                   v == IF "fl" \in DOMAIN r THEN FlagVerdict(r) ELSE ConsVerdict(r)
                   quiet == \A c \in 1..Len(v.bad) : v.bad[c] = ""
               IN PrintT(ToJson(IF quiet /\ ("un" \notin DOMAIN v \/ \A c \in 1..Len(v.un) : v.un[c] = "") THEN [id |-> v.id, cls |-> v.cls] ELSE v))
WhyInit == /\ rec_i \in 1..Len(Recs) /\ ph = "why" /\ cur = <<>> /\ PrintT(ToJson(WhyVerdict(Recs[rec_i])))

\* ---------------- JudgeRun ----------------------------------------------------------------------------
\* (the real budgets StepLimit, StackLimit, RealPollInterval: see the matching grid)
Slack == 2       \* the step in flight when the deadline passes
ErrorClasses == {"RangeError", "TypeError", "SyntaxError", "ReferenceError", "EvalError", "URIError", "Error"}
\* a run record: [id, fam, n, cfg: the run configuration, out, ty, attempts, steps: [re, la, lb], maxstep: [re, la, lb], maxstack, polls,
\*                late: regex steps (all loop kinds) counted after the deadline had passed, len]
RunVerdict(r) ==
  LET total == r.steps.re + r.steps.la + r.steps.lb
      c == r.cfg
      api == c.mode = "api"
      dl == c.deadline > 0
      clauses ==
        <<IF r.maxstep.re <= StepLimit + 1 THEN "" ELSE "!step-bound",                        \* RegexVM.StepBound
          IF ~SingleSearch(c) \/ r.attempts <= r.len + 1 THEN "" ELSE "!attempts",
          IF (r.steps.re + StepLimit) \div (StepLimit + 1) <= r.attempts THEN "" ELSE "!work-bound",   \* RegexVM.WorkBound: steps.re <= attempts * (StepLimit + 1), without a product beyond 2^31
          IF r.maxstack <= StackLimit + 1 THEN "" ELSE "!stack-bound",                        \* RegexVM.StackBound
          \* RegexVM.PollBound: never `interval` steps without a callback, counted over all attempts and sub-matcher runs of the search
          IF ~api \/ r.polls >= total \div c.interval THEN "" ELSE "!poll-bound",
          IF r.maxstep.la <= StepLimit + 1 /\ r.maxstep.lb <= StepLimit + 1 THEN "" ELSE "Dev_SubNoStepLimit",   \* RegexVM.SubStepBound
          \* the same two bounds on what the OBSERVER counted per activation of the matcher loop (own[kind] = most hook calls between the
          \* start and the end of one run, runs nested in it not counted; -1: activations could not be told apart, not judged): the
          \* matcher's own counter, which the clauses above read, is the thing under test
          IF r.own.re <= StepLimit + 1 THEN "" ELSE "!step-bound-observed",
          IF r.own.la <= StepLimit + 1 /\ r.own.lb <= StepLimit + 1 THEN "" ELSE "!sub-step-bound-observed",
          \* outcome: a match, null (also: step budget exhausted), another defined value of the entry point, or an error of the JSError family
          CASE r.out \in {"match", "null"} -> ""
            [] r.out = "value" -> IF ~api /\ c.op \in {"search", "split", "replace", "replaceAll"} THEN "" ELSE "!outcome"
            [] r.out = "jserror" -> IF ~api THEN "" ELSE "!outcome"                              \* e.g. RangeError for an exhausted stack
            [] r.out = "caught" -> IF ~api /\ c.form = "try" /\ r.ty \in ErrorClasses THEN "" ELSE "!outcome"   \* the script's catch clause received it
            [] r.out = "overflow" -> IF api /\ r.maxstack > StackLimit THEN "" ELSE "!overflow-below-limit"
            [] r.out = "capped" -> ""                                                          \* bounded by counting: every clause above held on the observed prefix
            [] r.out = "timeout" -> IF dl THEN "" ELSE "!timeout-without-deadline"
            [] r.out = "host" /\ r.ty = "RegexStackOverflow" -> IF r.maxstack > StackLimit THEN "Dev_StackOverflowHost" ELSE "!overflow-below-limit"
            [] OTHER -> "!outcome",
          \* a deadline must end the run: the poll callback said stop, the matcher may not go on
          IF dl /\ r.out = "capped" THEN "!deadline-ignored" ELSE "",
          \* RegexVM.LateBound: once the deadline has passed the matcher runs at most one poll interval of steps, however the run
          \* ends (stopped, or finished on its own just before the next poll) and however the steps are spread over attempts and
          \* sub-matcher runs.  Judged in steps: the clock of the run is virtual.
          IF dl /\ r.late > (IF api THEN c.interval ELSE RealPollInterval) + Slack THEN "!deadline-overrun" ELSE "">>
  IN [id |-> r.id, bad |-> SelectSeq(clauses, LAMBDA x : x # "")]
RunInit == /\ rec_i \in 1..Len(Recs) /\ ph = "run" /\ cur = <<>> /\ PrintT(ToJson(RunVerdict(Recs[rec_i])))

\* ---------------- JudgeFold ---------------------------------------------------------------------------
\* a fold record: [id, src (units), fl (units), subj (units), exact, ops, out: one code per op, ty: detail (recorded, not judged)]
\* outcome codes: "match" | "null" | "caught" (script catch received an error) | "jserror" | "host" | "hang" | "timelimit" | "noresult"
\* Totality: a match, null or - at script level - an error of the JSError family; a host exception (the defect this grid was
\* added for: ord() of the two-character upper case of U+00DF) or a hang never.
FoldTyped(c, o) == o \in {"match", "null"} \/ (c > 1 /\ o \in {"caught", "jserror"})
\* The documented folding rule (/repo/spec.md "RegExp: case folding only for ASCII"; DESIGN 4.4 item 6) = RegexSem's Canon:
\* only ASCII letters are folded, so an ASCII letter or range of the pattern never takes a non-ASCII subject unit through
\* folding and a negated ASCII class takes every one of them.  For these characters ECMA-262's Canonicalize agrees (a mapping
\* to several units, or from a non-ASCII to an ASCII unit, is not applied).  Only match / null is compared: positions would
\* depend on how an astral character is counted (C16's business).
FoldExpect(r) ==
  LET t == Parse(r.src)
      f == Flags(\E k \in 1..Len(r.fl) : r.fl[k] = 105, \E k \in 1..Len(r.fl) : r.fl[k] = 109, FALSE)
  IN IF ~t.ok THEN "?" ELSE IF Search(t.a, r.subj, f, 0, {}).ok THEN "match" ELSE "null"
FoldVerdict(r) ==
  LET exp == IF r.exact THEN FoldExpect(r) ELSE "-"
      Bad(c) == IF ~FoldTyped(c, r.out[c]) THEN "!outcome"
                ELSE IF r.exact /\ r.out[c] # exp THEN "!folding"
                ELSE ""
  IN [id |-> r.id, exp |-> exp, bad |-> [c \in 1..Len(r.out) |-> Bad(c)]]
FoldInit == /\ rec_i \in 1..Len(Recs) /\ ph = "fold" /\ cur = <<>> /\ PrintT(ToJson(FoldVerdict(Recs[rec_i])))
\* ---------------- JudgePos ----------------------------------------------------------------------------
\* a position record: [id, pat, fl (units), subj (units), li (name), out: one code per op, ty: detail per op (recorded, not judged)]
\* outcome codes: "null" | "false" | "true" | "v" (another value of the entry point) | "caught" (the script's catch clause received
\*   an error; ty = its class) | "rejected" (new RegExp(P, F) refused the pattern: not an accepted pattern, nothing to judge)
\*   | "jserror" | "host" | "hang" | "timelimit" | "noresult"
PosTyped(o, ty) == o \in {"null", "false", "true", "v", "rejected"} \/ (o = "caught" /\ ty \in ErrorClasses) \/ o = "jserror"
PosVerdict(r) == [id |-> r.id, bad |-> [c \in 1..Len(r.out) |-> IF PosTyped(r.out[c], r.ty[c]) THEN "" ELSE "!outcome"]]
PosInit == /\ rec_i \in 1..Len(Recs) /\ ph = "pos" /\ cur = <<>> /\ PrintT(ToJson(PosVerdict(Recs[rec_i])))
JudgeNext == UNCHANGED vars
=============================================================================
