#!/usr/bin/env python3
"""Group the mismatches of the last run of a check:  tools/triage.py C16 [field-path ...]"""
import sys, json, collections
pid = sys.argv[1]
g = collections.Counter(); ex = {}
for line in open("/verif/.work/%s/mismatches.ndjson" % pid):
    d = json.loads(line)
    det = d["detail"]
    a = det.get("actual", {}) if isinstance(det, dict) else {}
    c = det.get("case", {}) if isinstance(det, dict) else {}
    k = (c.get("m", c.get("op", "")), a.get("o", ""), a.get("cls", ""))
    g[k] += 1
    ex.setdefault(k, []).append(d["case"])
for k, n in g.most_common():
    print(n, k, ex[k][:3])
