-------------------------------- MODULE C19 --------------------------------
(* C19 - JSON.parse / JSON.stringify implement the JSON / ECMAScript contract.       *)
(*   Enum  : the case spaces, generated as a tree so that 16 workers share the work:  *)
(*           token-class sequences, full-vocabulary sequences, single-token mutations *)
(*           of valid texts, value structures, key strings, cycles, shared nodes,     *)
(*           strings by shape (unit-class sequences) as operands and as string tokens,*)
(*           number tokens by shape (digit runs by length / pattern / binary           *)
(*           neighbourhood x token forms; mantissa x exponent grid) and the numbers     *)
(*           they denote as operands; histories (two calls in one context with an edit *)
(*           of the first result / the operand in between).                             *)
(*   Laws  : properties of the reference (JsJSON) itself, INVARIANT on every state.   *)
(*   Judge : records observed on the real engine, judged against JsJSON.              *)
EXTENDS JsJSON, Json, IOUtils
SX == INSTANCE SequencesExt

Tier == IF "TIER" \in DOMAIN IOEnv THEN IOEnv.TIER ELSE "quick"
Quick == Tier = "quick"
\* optional overrides (benchmarks, mutant hunting): C19_CLS / C19_FULL = maximal sequence lengths
EnvInt(name, dflt) == IF name \in DOMAIN IOEnv THEN DigitsVal(U(IOEnv[name])) ELSE dflt
\* C19_ONLY = one family root (tokc tokf vgrp sgrp mgrp ngrp hgrp ugrp): partial runs for benchmarks (the check refuses to give a verdict)
Only == IF "C19_ONLY" \in DOMAIN IOEnv THEN IOEnv.C19_ONLY ELSE ""
Want(f) == Only = "" \/ Only = f

\* ---------------- token sequences ---------------------------------------------------------------
\* classes 1..6 punctuation, 7 string, 8 number, 9 literal, 10 white space
TokTable == <<
  << <<123>> >>, << <<125>> >>, << <<91>> >>, << <<93>> >>, << <<44>> >>, << <<58>> >>,
  << <<34, 115, 34>>, <<34, 233, 34>>, <<34, 92, 110, 34>> >>,
  << U("1"), U("-0"), U("1.5"), U("1e2"), U("1E+2") >>,
  << UTrue, UFalse, UNull >>,
  << <<32>>, <<9>>, <<10>>, <<13>> >> >>
NClasses == Len(TokTable)
FullToks == Flatten(TokTable)                                    \* the 21 concrete tokens
RECURSIVE SumSeq(_)
SumSeq(q) == IF q = <<>> THEN 0 ELSE Head(q) + SumSeq(Tail(q))
\* a class sequence is made concrete by rotating through each class's tokens (every token kind occurs at
\* every position of every shape somewhere in the space; the choice is a function of the sequence)
ClassText(cs) == LET rot == SumSeq(cs)
                 IN Flatten([j \in 1..Len(cs) |-> LET ts == TokTable[cs[j]] IN ts[((j + rot) % Len(ts)) + 1]])
FullText(fs) == Flatten([j \in 1..Len(fs) |-> FullToks[fs[j]]])
\* every sequence up to the "full" length; beyond it only the one-token extensions of viable prefixes (a prefix that
\* is already dead only grows longer dead texts: the first offending token of every rejected text is still visited)
ClassFullLen == EnvInt("C19_CLSFULL", IF Quick THEN 4 ELSE 5)
MaxClassLen == EnvInt("C19_CLS", 6)
FullFullLen == EnvInt("C19_FULLFULL", IF Quick THEN 2 ELSE 3)
MaxFullLen == EnvInt("C19_FULL", IF Quick THEN 3 ELSE 4)

\* ---------------- single-token mutations of valid texts --------------------------------------------
TS(ss) == [j \in 1..Len(ss) |-> U(ss[j])]
QS(u) == <<34>> \o u \o <<34>>                                   \* a string token with raw content u
Deep(open, close, mid, n) == [j \in 1..n |-> open] \o mid \o [j \in 1..n |-> close]
DeepObjOpen == <<U("{"), U("\"k\""), U(":")>>
MutBases == <<
  TS(<<"{", "\"a\"", ":", "[", "1", ",", "-0", ",", "1.5", ",", "1e2", ",", "1E+2", "]", ",", "\"b\"", ":", "{",
       "\"c\"", ":", "\"x\\ny\"", ",", "\"d\"", ":", "null", "}", ",", "\"e\"", ":", "true", ",">>)
     \o << QS(<<233>>), U(":"), UFalse, U("}") >>,
  << <<32>>, U("["), <<9>>, QS(<<233>>), <<10>>, U(","), <<13>>, U("\"\\u00e9\\ud83d\\ude00\""), U(","), U("\"\\ud800\""), <<32>>, U("]"), <<10>> >>,
  TS(<<"{", "\"k\"", ":", "1", ",", "\"k\"", ":", "2", "}">>),
  TS(<<"{", "\"a\"", ":", "1", ",", "\"b\"", ":", "2", ",", "\"a\"", ":", "[", "]", "}">>),
  TS(<<"{", "\"__proto__\"", ":", "{", "\"x\"", ":", "1", "}", ",", "\"y\"", ":", "[", "]", "}">>),
  TS(<<"[", "{", "}", ",", "[", "[", "]", "]", ",", "\"\"", "]">>),
  TS(<<"1">>), TS(<<"-0">>), TS(<<"\"s\"">>), TS(<<"null">>), TS(<<"[", "]">>), TS(<<"{", "}">>),
  TS(<<"1.5">>), TS(<<"1E+2">>), TS(<<"0">>),
  \* one key spelled three ways: raw pair, both halves escaped, raw high half + escaped low half (one string in ECMAScript)
  << U("{"), QS(<<55357, 56832>>), U(":"), U("1"), U(","), U("\"\\ud83d\\ude00\""), U(":"), U("2"), U(","),
     <<34, 55357>> \o U("\\ude00\""), U(":"), U("3"), U(","), U("\"\\ud83d") \o <<56832, 34>>, U(":"), U("4"), U("}") >>,
  Deep(U("["), U("]"), <<U("1")>>, 30),
  JFlatLong(Deep(DeepObjOpen, <<U("}")>>, <<<<U("\"s\"")>>>>, 30)),
  JFlatLong(Deep(<<U("["), U("{"), U("\"k\""), U(":")>>, <<U("}"), U("]")>>, <<<<UNull>>>>, 15))
>>
FirstDeepBase == 17
Mutants == {
  U("{"), U("}"), U("["), U("]"), U(","), U(":"), <<32>>,
  U("'a'"), U("a"), U("01"), U("-"), U("NaN"), U("Infinity"), U("-Infinity"), U("-NaN"), U("undefined"),
  QS(<<1>>), QS(<<9>>), QS(<<10>>), QS(<<31>>), QS(<<127>>), QS(<<8232>>), QS(<<55357>>), QS(<<56832>>), QS(<<55357, 56832>>),
  U("\"\\x41\""), U("\"\\u12\""), U("\"\\u12G4\""), U("\"\\ud800\""), U("\"\\udc00\""), U("\"\\ud83d\\ude00\""),
  U("\"\\udc00\\ud800\""), U("\"\\u+123\""), U("\"\\u1_2f\""), U("\"\\'\""), U("\"\\a\""), U("\"\\0\""), U("\"\\U0041\""),
  U("\"abc"), U("abc\""), U("\""), U("\"\\\""), U("\"\\/\\b\\f\\r\\t\\\"\\\\\""), U("\"\\u00E9\\u00e9\""), U("\"\\u0000\""),
  <<65279>>, <<11>>, <<12>>, <<160>>, <<8232>>, <<8233>>, <<133>>, <<0>>, <<28>>, <<12288>>,
  U("1."), U(".5"), U("1e"), U("1e+"), U("+1"), U("0x10"), U("1_0"), U("1n"), U("--1"), U("00"), U("-01"), U("-.5"),
  U("1.5.5"), U("1e1.5"), U("0e0"), U("-0.0"), U("-0e-0"), U("2.50"), U("1E-2"), U("0.1"), U("1e21"), U("1e-7"), U("5e-324"),
  U("1e400"), U("-1e400"), U("9007199254740993"), U("123456789012345678901234567890"), U("4.35"), U("0.000001"), U("1e-5"), U("1e16"),
  U("True"), U("NULL"), U("nul"), U("truee"), U("tru"), U("//c"), U("/**/"), U("(1)"), U("1;"), U("=") }
QuickMutants == {
  U("}"), U("]"), U(","), U(":"), <<32>>,
  U("'a'"), U("a"), U("01"), U("-"), U("NaN"), U("Infinity"), U("-Infinity"), U("undefined"),
  QS(<<1>>), QS(<<9>>), QS(<<127>>), QS(<<55357>>), QS(<<55357, 56832>>),
  U("\"\\x41\""), U("\"\\u12\""), U("\"\\ud800\""), U("\"\\udc00\""), U("\"\\ud83d\\ude00\""), U("\"\\u+123\""), U("\"\\'\""),
  U("\"abc"), U("\"\\/\\b\\f\\r\\t\\\"\\\\\""), U("\"\\u00E9\\u00e9\""), U("\"\\u0000\""),
  <<65279>>, <<11>>, <<12>>, <<160>>, <<8232>>,
  U("1."), U(".5"), U("1e"), U("+1"), U("0x10"), U("00"), U("-01"), U("-0.0"), U("2.50"), U("0.1"), U("1e21"), U("1e-7"),
  U("123456789012345678901234567890"), U("1e16"), U("True"), U("nul"), U("truee"), U("//c") }
\* quick: the reduced token set on the long bases, EVERY mutant token on the short ones (a scalar root, a two-member object,
\* an array of containers): no token of the vocabulary exists in the thorough tier only
ShortBases == {3, 6, 7}
MutSetFor(bi) == IF Quick /\ bi \notin ShortBases THEN QuickMutants ELSE Mutants
ReplaceTok(b, j, m) == [b EXCEPT ![j] = m]
InsertTok(b, j, m) == SubSeq(b, 1, j - 1) \o <<m>> \o SubSeq(b, j, Len(b))
DeleteTok(b, j) == SubSeq(b, 1, j - 1) \o SubSeq(b, j + 1, Len(b))
MutationsAt(bi, j) ==
  LET b == MutBases[bi]
      MutSet == MutSetFor(bi) IN
  {InsertTok(b, j, m) : m \in MutSet}
    \cup (IF j <= Len(b) THEN {ReplaceTok(b, j, m) : m \in MutSet} \cup {DeleteTok(b, j), InsertTok(b, j, b[j])} ELSE {})
    \cup (IF j < Len(b) THEN {[b EXCEPT ![j] = b[j + 1], ![j + 1] = b[j]]} ELSE {})
    \cup (IF j = 1 THEN {b} ELSE {})
\* deep bases are mutated at their ends and around the middle (quick), additionally at every 4th position (thorough)
MutPositions(bi) ==
  LET n == Len(MutBases[bi])
      ends == {1, 2, 3, n \div 2, n \div 2 + 1, n \div 2 + 2, n - 1, n, n + 1}
  IN IF bi < FirstDeepBase THEN 1..(n + 1)
     ELSE IF Quick THEN ends ELSE ends \cup {j \in 1..(n + 1) : j % 4 = 1}
MutGroups == UNION {{<<bi, j>> : j \in MutPositions(bi)} : bi \in 1..Len(MutBases)}

\* ---------------- values for JSON.stringify ------------------------------------------------------------
W1p5 == <<16376, 0, 0, 0>>
PairU == <<55357, 56832>>
KA == U("a")
KB == U("b")
LeafGrid == { VInt(0), VNumW(WNegZero), VInt(1), VInt(-1), VNumW(W1p5), VNumW(WNaN), VNumW(WPosInf), VNumW(WNegInf),
              VStr(<<>>), VStr(U("a\"b\\c")), VStr(<<0>>), VStr(<<31>>), VStr(<<127>>), VStr(<<233>>), VStr(PairU),
              VStr(<<55357>>), VStr(<<56832>>), VBool(TRUE), VBool(FALSE), Null, Undef, VFn, VNative }
\* numbers whose text needs the shortest-digits algorithm and the notation rules (JsConv)
HardNums == { VNumW(JNumSlow(U("1e21"))), VNumW(JNumSlow(U("1e-7"))), VNumW(JNumSlow(U("0.1"))), VNumW(JNumSlow(U("9007199254740992"))),
              VNumW(JNumSlow(U("123456789012"))), VNumW(JNumSlow(U("-1e-5"))), VNumW(JNumSlow(U("1e16"))), VNumW(JNumSlow(U("0.000001"))),
              VNumW(JNumSlow(U("4.35"))), VNumW(JNumSlow(U("5e-324"))), VNumW(JNumSlow(U("1.7976931348623157e308"))), VNumW(JNumSlow(U("-1e21"))),
              VNumW(JNumSlow(U("100"))), VNumW(JNumSlow(U("0.0625"))), VNumW(JNumSlow(U("1073741824"))), VNumW(JNumSlow(U("4294967296"))) }
\* one level of containers over the kid set K, generated group-wise: the members whose FIRST kid is x.
\* (The spaces are generated per group inside the enumeration actions, in parallel by TLC's workers; as global
\* constants TLC evaluated them once per worker at start-up, single-threaded: 100 s for the 26 682 shapes.)
ArrsFrom(x, K) == {VArr(<<x>>)} \cup {VArr(<<x, y>>) : y \in K}
ObjsFrom(x, K) == {VObj(<<[n |-> KA, v |-> x]>>)} \cup {VObj(<<[n |-> KA, v |-> x], [n |-> KB, v |-> y]>>) : y \in K}
LvlFrom(x, K) == ArrsFrom(x, K) \cup ObjsFrom(x, K)
Empties == {VArr(<<>>), VObj(<<>>)}
Lvl(K) == Empties \cup UNION {LvlFrom(x, K) : x \in K}
\* width <= 2 with one leaf (the shape space); T3 = Lvl(T2) has 26682 elements and is never built as one set
T1(l) == {l} \cup Lvl({l})
T2(l) == {l} \cup Lvl(T1(l))
RECURSIVE Nodes(_)
Nodes(v) == CASE v.k = "arr" -> 1 + SumSeq([j \in 1..Len(v.e) |-> Nodes(v.e[j])])
              [] v.k = "obj" -> 1 + SumSeq([j \in 1..Len(v.p) |-> Nodes(v.p[j].v)])
              [] OTHER -> 1
RECURSIVE MaxSeq(_)
MaxSeq(q) == IF q = <<>> THEN 0 ELSE Max(Head(q), MaxSeq(Tail(q)))
RECURSIVE Depth(_)
Depth(v) == CASE v.k = "arr" -> 1 + MaxSeq([j \in 1..Len(v.e) |-> Depth(v.e[j])])
              [] v.k = "obj" -> 1 + MaxSeq([j \in 1..Len(v.p) |-> Depth(v.p[j].v)])
              [] OTHER -> 0
SmallKids == {VInt(1), Undef, VStr(<<233>>)}
D2Kids == SmallKids \cup {VFn, Null} \cup Lvl(SmallKids)
ShapeLeaves == IF Quick THEN {VInt(1)} ELSE {VInt(1), Undef}
ShapeKeep(v) == IF Quick THEN Depth(v) = 3 /\ Nodes(v) <= 7 ELSE TRUE
\* key strings that need escapes
KeyGrid == {KA, <<>>, U("a\"b\\c"), <<10>>, <<31>>, <<127>>, <<233>>, PairU, <<55357>>, <<56832>>, U("__proto__"), U("toJSON"), U("length")}
KeyCasesFrom(x) == {VObj(<<[n |-> x, v |-> VInt(1)]>>)} \cup {VObj(<<[n |-> x, v |-> VInt(1)], [n |-> y, v |-> VStr(y)]>>) : y \in KeyGrid}
\* cycles of length 1..3: a chain of containers whose innermost member refers back to the d-th enclosing container
Wrap(kind, child, sib) ==
  IF kind = "A" THEN VArr(CASE sib = 0 -> <<child>> [] sib = 1 -> <<VInt(1), child>> [] OTHER -> <<child, VInt(1)>>)
  ELSE VObj(CASE sib = 0 -> <<[n |-> KA, v |-> child]>>
              [] sib = 1 -> <<[n |-> KB, v |-> VInt(1)], [n |-> KA, v |-> child]>>
              [] OTHER -> <<[n |-> KA, v |-> child], [n |-> KB, v |-> VInt(1)]>>)
RECURSIVE Chain(_, _, _)
Chain(kinds, inner, sib) == IF kinds = <<>> THEN inner ELSE Wrap(Head(kinds), Chain(Tail(kinds), inner, sib), sib)
KindSeqs == UNION {[1..n -> {"A", "O"}] : n \in 1..3}
CycleCasesFrom(ks) == {Chain(ks, VBack(d), sib) : d \in 1..3, sib \in 0..2}
\* the same (acyclic) object referenced twice is not a cycle: [k |-> "shared", id, v] nodes with one id are ONE engine object
VShared(id, v) == [k |-> "shared", id |-> id, v |-> v]
SharedSubs == {VObj(<<>>), VArr(<<>>), VObj(<<[n |-> KA, v |-> VInt(1)]>>), VArr(<<VArr(<<>>)>>)}
SharedCasesFrom(x) == { VArr(<<VShared(1, x), VShared(1, x)>>),
                        VObj(<<[n |-> KA, v |-> VShared(1, x)], [n |-> KB, v |-> VShared(1, x)]>>),
                        VObj(<<[n |-> KA, v |-> VShared(1, x)], [n |-> KB, v |-> VArr(<<VShared(1, x)>>)]>>),
                        VArr(<<VArr(<<VShared(1, x)>>), VObj(<<[n |-> KA, v |-> VShared(1, x)]>>), VShared(1, x)>>) }
\* shared nodes mean their content
RECURSIVE Unshare(_)
Unshare(v) == CASE v.k = "shared" -> Unshare(v.v)
                [] v.k = "arr" -> VArr([j \in 1..Len(v.e) |-> Unshare(v.e[j])])
                [] v.k = "obj" -> VObj([j \in 1..Len(v.p) |-> [n |-> v.p[j].n, v |-> Unshare(v.p[j].v)]])
                [] OTHER -> v
\* the value groups: <<tag, first kid / key / kinds>>; the union over all groups is
\*   leaves, hard numbers, one level over each (D1) | depth 2 over the reduced grid (D2) | the shapes of depth <= 3 (D3)
\*   | key strings | cycles | shared nodes
ValGroups == {<<"e", 0>>}
               \cup {<<"l", x>> : x \in LeafGrid} \cup {<<"h", x>> : x \in HardNums} \cup {<<"m", x>> : x \in D2Kids}
               \cup UNION {{<<"s", x, l>> : x \in T2(l)} : l \in ShapeLeaves}
               \cup {<<"k", x>> : x \in KeyGrid} \cup {<<"c", ks>> : ks \in KindSeqs} \cup {<<"sh", x>> : x \in SharedSubs}
ValGroupRaw(g) ==
  CASE g[1] = "e" -> Empties
    [] g[1] = "l" -> {g[2]} \cup LvlFrom(g[2], LeafGrid)
    [] g[1] = "h" -> {g[2]} \cup LvlFrom(g[2], HardNums)
    [] g[1] = "m" -> LvlFrom(g[2], D2Kids)
    [] g[1] = "s" -> {v \in LvlFrom(g[2], T2(g[3])) : ShapeKeep(v)}
    [] g[1] = "k" -> KeyCasesFrom(g[2])
    [] g[1] = "c" -> CycleCasesFrom(g[2])
ValGroup(g) == IF g[1] = "sh" THEN SharedCasesFrom(g[2]) ELSE {c \in ValGroupRaw(g) : JWellFormed(c, 0)}

\* ---------------- strings by shape: sequences of code-unit CLASSES (for stringify: sv; as string tokens: st) ---
\* The leaf and key grids hold one string per special unit; QuoteJSONString and the decoder's string scanner decide per
\* POSITION (a surrogate is escaped or kept depending on its neighbours, a unit is first / inner / last).  This family has
\* every sequence of unit classes up to a length: 1 plain, 2 quote / backslash, 3 controls with a short escape,
\* 4 other controls, 5 DEL / non-ASCII BMP (never escaped), 6 lead surrogates, 7 trail surrogates (boundaries of both ranges).
StrClassTable == << <<97, 47, 32, 126>>, <<34, 92>>, <<8, 9, 10, 12, 13>>, <<0, 31, 11, 27>>, <<127, 233, 8232, 65279, 65535>>,
                    <<55296, 55357, 56319>>, <<56320, 56832, 57343>> >>
NStrClasses == Len(StrClassTable)
StrUnitsAll == UNION {{StrClassTable[c][j] : j \in 1..Len(StrClassTable[c])} : c \in 1..NStrClasses}
StrValLen == EnvInt("C19_SVLEN", IF Quick THEN 3 ELSE 4)           \* stringify operands
StrTokLen == EnvInt("C19_STLEN", 3)                                 \* string tokens of texts
StrClassSeqs == UNION {[1..n -> 1..NStrClasses] : n \in 0..Max(StrValLen, StrTokLen)}
\* concrete units by rotation through each class (as ClassText); r shifts the rotation
StrUnits(cs, r) == LET rot == SumSeq(cs) + r
                   IN [j \in 1..Len(cs) |-> LET ts == StrClassTable[cs[j]] IN ts[((j + rot) % Len(ts)) + 1]]
StrRots == IF Quick THEN {0} ELSE {0, 1}
\* placements of a string u in a stringify operand: root; key and value of one property; (thorough) after a sibling in an
\* array, second key of an object
StrPlacements(u) ==
  {VStr(u), VObj(<<[n |-> u, v |-> VStr(u)]>>)}
    \cup (IF Quick THEN {} ELSE {VArr(<<VInt(1), VStr(u)>>), VArr(<<VStr(u), VStr(u)>>)}
                                  \cup (IF u = KA THEN {} ELSE {VObj(<<[n |-> KA, v |-> VInt(1)], [n |-> u, v |-> Null]>>)}))
StrValCases(cs) == IF Len(cs) > StrValLen THEN {} ELSE UNION {StrPlacements(StrUnits(cs, r)) : r \in StrRots}
\* every concrete unit of the table alone (the rotation shows one unit of a class per shape)
StrUnitCases == UNION {StrPlacements(<<c>>) : c \in StrUnitsAll}
\* spellings of one unit inside a string token: 0 raw, 1 \uxxxx, 2 \uXXXX (upper-case hex), 3 the short escape where JSON has one
UpHex(h) == [j \in 1..Len(h) |-> IF h[j] >= 97 THEN h[j] - 32 ELSE h[j]]
ShortEsc(c) == CASE c = 34 -> <<92, 34>> [] c = 92 -> <<92, 92>> [] c = 47 -> <<92, 47>> [] c = 8 -> <<92, 98>> [] c = 12 -> <<92, 102>>
                 [] c = 10 -> <<92, 110>> [] c = 13 -> <<92, 114>> [] c = 9 -> <<92, 116>> [] OTHER -> <<c>>
Spell(c, m) == CASE m = 0 -> <<c>> [] m = 1 -> <<92, 117>> \o JHex4(c) [] m = 2 -> <<92, 117>> \o UpHex(JHex4(c)) [] OTHER -> ShortEsc(c)
StrTok(u, ms) == <<34>> \o JFlatLong([j \in 1..Len(u) |-> Spell(u[j], ms[j])]) \o <<34>>
\* quick: every raw / escaped vector up to length 2, and for every shape the vector chosen by rotation over all four spellings;
\* thorough: every vector over the four spellings
SpellVecs(cs) ==
  LET n == Len(cs) IN
  IF Quick THEN (IF n <= 2 THEN [1..n -> {0, 1}] ELSE {}) \cup {[j \in 1..n |-> (j + SumSeq(cs)) % 4]}
  ELSE [1..n -> 0..3]
\* a string token as the whole text, and as key and value of one property
StrTokTexts(cs) ==
  IF Len(cs) > StrTokLen THEN {}
  ELSE UNION {LET tok == StrTok(StrUnits(cs, 0), ms) IN {tok, <<123>> \o tok \o <<58>> \o tok \o <<125>>} : ms \in SpellVecs(cs)}

\* ---------------- strings by concrete UNIT at every position (su: stringify operands, sx: string tokens) --------------
\* sv / st choose ONE concrete unit per class and shape (rotation): a unit CLASS occurs at every position, a concrete unit only
\* alone.  Host string machinery decides per concrete character and per position (a pattern anchor that also matches before
\* a FINAL line feed, blanks and line boundaries of the host - FS RS NEL NBSP PS U+3000 -, letters / digits beyond ASCII,
\* identifier characters that take a shortcut).  This family has EVERY ordered pair of concrete units of an enlarged table
\* (each unit first and last, before and after every other unit) and every unit at the end / start / inside / doubled at the
\* end of an identifier-like word; as stringify operands (root; name and value of a property) and as string tokens of a text.
SuExtraUnits == {65, 122, 48, 57, 95, 36, 28, 30, 133, 160, 8233, 12288, 1632, 960}    \* A z 0 9 _ $ FS RS NEL NBSP PS U+3000 U+0660 pi
SuUnits == StrUnitsAll \cup SuExtraUnits
SuWords == IF Quick THEN {U("x_1$")} ELSE {U("x_1$"), U("id"), U("0")}
SuFrames(x) == UNION {{w \o <<x>>, <<x>> \o w, w \o <<x>> \o w, w \o <<x, x>>} : w \in SuWords}
SuStrings(x) == {<<x, y>> : y \in SuUnits} \cup SuFrames(x)
SuPlacements(u) ==
  {VStr(u), VObj(<<[n |-> u, v |-> VStr(u)]>>)}
    \cup (IF Quick THEN {} ELSE {VArr(<<VObj(<<[n |-> u, v |-> VInt(1)]>>)>>), VArr(<<VStr(u), VStr(u)>>),
                                 VObj(<<[n |-> KA, v |-> VInt(1)], [n |-> u, v |-> Null]>>)})
SuValCases(x) == UNION {SuPlacements(u) : u \in SuStrings(x)}
\* the token of a string: every unit raw where JSON allows it, otherwise its short escape / \u00xx (an accepted text);
\* thorough: additionally all raw (near misses when a unit is a control, quote or backslash) and all \uXXXX
SuLegalRaw(c) == c >= 32 /\ c \notin {34, 92}
SuSpell(c) == IF SuLegalRaw(c) THEN <<c>> ELSE IF ShortEsc(c) # <<c>> THEN ShortEsc(c) ELSE Spell(c, 1)
SuTok(u) == <<34>> \o JFlatLong([j \in 1..Len(u) |-> SuSpell(u[j])]) \o <<34>>
SuTokTexts(x) ==
  UNION {LET tok == SuTok(u) IN
         {<<123>> \o tok \o <<58>> \o tok \o <<125>>}
           \cup (IF Quick THEN {} ELSE {tok, QS(u), StrTok(u, [j \in 1..Len(u) |-> 2]), <<123>> \o QS(u) \o U(":1}")})
         : u \in SuStrings(x)}
\* the quick sub-grid holds every pair and every unit in every frame position, as a root, a property name and a token
SuGridLaw == \A x \in SuUnits :
               /\ \A y \in SuUnits : /\ VStr(<<x, y>>) \in SuValCases(x)
                                     /\ \E c \in SuValCases(x) : c.k = "obj" /\ c.p[1].n = <<x, y>>
               /\ \A w \in SuWords : /\ \E c \in SuValCases(x) : c.k = "obj" /\ c.p[1].n = w \o <<x>>
                                     /\ \E c \in SuValCases(x) : c.k = "obj" /\ c.p[1].n = <<x>> \o w
               /\ SuTokTexts(x) # {}

\* ---------------- numbers by shape: number TOKENS of a text (nt) and the numbers they denote as operands (nv) -----
\* The token tables above hold five number tokens and the mutant set a dozen more; the decoder decides per token SYNTAX
\* (integer syntax / fraction / exponent go through different conversions) and per MAGNITUDE (how many digits, which side
\* of 2^53, of a rounding tie, of the notation switch at 1e21, of the largest / smallest double).  This family has
\*   digit runs  by length x pattern (10^(n-1), 10^n - 1, 10^(n-1) + 1, 1234567890...)  and  2^k + d (every rounding case
\*               around a power of two: below, exact, tie to even downwards, above the tie, tie upwards ...),
\*   each run in every token form: integer syntax, ".0", "e0", "E+00", scientific (d.ddd e n-1), "0e-1", a sticky
\*               fraction 1e-20 behind the run, "0.ddd E n", and the near misses (leading zero, bare point, bare exponent, +),
\*   a mantissa x exponent-spelling grid (boundaries of the double range, of the notation rules, huge / padded exponents),
\*   signs and placements (whole text, array element, property value, between white space).
NtRunPat(n, p) ==
  CASE p = 1 -> <<49>> \o CvZeros(n - 1)                                              \* 10^(n-1)
    [] p = 2 -> [j \in 1..n |-> 57]                                                   \* 10^n - 1
    [] p = 3 -> IF n = 1 THEN <<50>> ELSE <<49>> \o CvZeros(n - 2) \o <<49>>            \* 10^(n-1) + 1
    [] OTHER -> [j \in 1..n |-> 48 + (j % 10)]                                         \* 1234567890123...
NtRunBin(k, d) == CvDigitUnits(IF d >= 0 THEN BnAdd(BnPow2(k), BnOfInt(d)) ELSE BnSub(BnPow2(k), BnOfInt(0 - d)))
NtPats == 1..4
NtLens == IF Quick THEN (1..24) \cup {30, 100, 309, 310} ELSE (1..40) \cup {100, 200, 308, 309, 310, 400}
NtBinK == IF Quick THEN {31, 53, 54, 64, 70} ELSE 24..72
NtBinD == IF Quick THEN -2..7 ELSE -4..9
\* run specifications: <<"p", length, pattern>> | <<"b", k, d + 10>> | <<"m", mantissa index, 0>> (the grid below)
NtRunSpecs == {<<"p", n, p>> : n \in NtLens, p \in NtPats} \cup {<<"b", k, d + 10>> : k \in NtBinK, d \in NtBinD}
NtRun(g) == IF g[1] = "p" THEN NtRunPat(g[2], g[3]) ELSE NtRunBin(g[2], g[3] - 10)
\* runs next to a boundary get every form in the quick tier: around 2^k, and the lengths around 2^53 (16 digits) .. 1e21 (22)
NtBoundary(g) == g[1] = "b" \/ (g[2] >= 15 /\ g[2] <= 23)
NtRot(g) == g[2] + g[3]
NtGoodForms == 0..7
NtBadForms == 8..15
NtForm(D, f) ==
  LET n == Len(D) IN
  CASE f = 0 -> D
    [] f = 1 -> D \o U(".0")
    [] f = 2 -> D \o U("e0")
    [] f = 3 -> D \o U("E+00")
    [] f = 4 -> <<D[1], 46>> \o (IF n = 1 THEN <<48>> ELSE SubSeq(D, 2, n)) \o <<101>> \o DigitsOf(n - 1)
    [] f = 5 -> D \o U("0e-1")
    [] f = 6 -> D \o U(".00000000000000000001")
    [] f = 7 -> U("0.") \o D \o <<69>> \o DigitsOf(n)
    [] f = 8 -> <<48>> \o D                          \* near misses from here on
    [] f = 9 -> D \o <<46>>
    [] f = 10 -> D \o <<101>>
    [] f = 11 -> <<43>> \o D
    [] f = 12 -> <<46>> \o D
    [] f = 13 -> D \o U(".e1")
    [] f = 14 -> D \o U("E+")
    [] OTHER -> D \o U("e1.0")
NtSigned(tok, sg) == IF sg = 1 THEN <<45>> \o tok ELSE tok
NtPlace(tok, q) == CASE q = 0 -> tok
                     [] q = 1 -> <<91>> \o tok \o <<93>>
                     [] q = 2 -> U("{\"n\":") \o tok \o <<125>>
                     [] OTHER -> <<10, 32>> \o tok \o <<9, 13>>
\* <<token, placement>> pairs of one run.  thorough: every form x sign x placement.  quick: integer syntax with both signs;
\* every valid form (boundary runs) or one chosen by rotation (other runs), one near miss by rotation; sign of these by
\* rotation; each token as the whole text and in one further placement by rotation.
NtFormsOf(g) == IF ~Quick THEN NtGoodForms \cup NtBadForms
                ELSE {0, 8 + (NtRot(g) % 8)} \cup (IF NtBoundary(g) THEN NtGoodForms ELSE {1 + (NtRot(g) % 7)})
NtSignsOf(g, f) == IF ~Quick \/ f = 0 THEN {0, 1} ELSE {(g[2] + f) % 2}
NtPlacesOf(g, f, sg) == IF ~Quick THEN 0..3 ELSE {0, 1 + ((NtRot(g) + f + sg) % 3)}
NtRunToks(g) == LET D == NtRun(g) IN {<<NtSigned(NtForm(D, f), sg), f, sg>> : f \in NtFormsOf(g), sg \in {0, 1}}
\* the mantissa x exponent grid
NtMants == << U("1"), U("5"), U("9"), U("0"), U("1.5"), U("2.5"), U("4.35"), U("0.1"), U("1.0"), U("10"), U("0.000001"), U("0.0"),
              U("123456789"), U("1.7976931348623157"), U("1.7976931348623158"), U("1.7976931348623159"),
              U("4.9406564584124654"), U("2.4703282292062327"), U("2.4703282292062328"), U("2.2250738585072014"),
              U("2.2250738585072011"), U("9.999999999999999"), U("9.9999999999999999"), U("8.5"), U("1.2345678901234567890123") >>
NtExps == << <<>>, U("e0"), U("E0"), U("e+0"), U("e-0"), U("e00"), U("e1"), U("E+1"), U("e-1"), U("e2"), U("e5"), U("e-5"), U("e-6"), U("e-7"),
             U("e6"), U("e15"), U("e16"), U("e20"), U("e21"), U("E21"), U("e+21"), U("e22"), U("e23"), U("e-023"), U("e100"), U("e-100"),
             U("e307"), U("e308"), U("E+308"), U("e309"), U("e310"), U("e-307"), U("e-308"), U("e-309"), U("e-323"), U("e-324"), U("E-324"),
             U("e-325"), U("e-326"), U("e400"), U("e-400"), U("e0400"), U("e99999"), U("e-99999"), U("e4294967296"), U("e-4294967296"),
             U("e99999999999999999999"), U("e-99999999999999999999") >>
NtMantSpecs == {<<"m", mi, 0>> : mi \in 1..Len(NtMants)}
\* quick: the first two mantissas with every exponent spelling, every other mantissa with every 6th (shifted by its index:
\* every mantissa and every spelling occurs, NtGridLaw below); sign and placement by rotation
NtMantExps(mi) == IF ~Quick \/ mi <= 2 THEN 1..Len(NtExps) ELSE {xi \in 1..Len(NtExps) : (xi + mi) % 6 = 0}
NtMantToks(g) == {<<NtSigned(NtMants[g[2]] \o NtExps[xi], sg), xi, sg>> : xi \in NtMantExps(g[2]), sg \in {0, 1}}
NtToks(g) ==
  IF g[1] = "m" THEN {x \in NtMantToks(g) : ~Quick \/ x[3] = (g[2] + x[2]) % 2}
  ELSE {x \in NtRunToks(g) : x[3] \in NtSignsOf(g, x[2])}
NtGroups == NtRunSpecs \cup NtMantSpecs
NtTexts(g) == UNION {{NtPlace(x[1], q) : q \in (IF g[1] = "m" THEN (IF ~Quick THEN 0..3 ELSE {0, 1 + ((g[2] + x[2] + x[3]) % 3)})
                                                  ELSE NtPlacesOf(g, x[2], x[3]))} : x \in NtToks(g)}
\* the numbers the valid tokens of a group denote, as stringify operands: root, and array element / property value (quick: one
\* of the two, by the parity of the last word)
NvPlacements(w) ==
  {VNumW(w)} \cup (IF ~Quick \/ w[4] % 2 = 0 THEN {VArr(<<VNumW(w)>>)} ELSE {})
             \cup (IF ~Quick \/ w[4] % 2 = 1 THEN {VObj(<<[n |-> KA, v |-> VNumW(w)]>>)} ELSE {})
NvCases(g) == UNION {LET r == JParse(x[1], {}) IN IF r.o = "value" THEN NvPlacements(r.v.w) ELSE {} : x \in NtToks(g)}
\* the quick sub-grid contains every class of every dimension (a dropped class fails the specification run, not silently)
NtLawMant == \A mi \in 1..Len(NtMants) : NtMantExps(mi) # {}
NtLawExp == \A xi \in 1..Len(NtExps) : \E mi \in 1..Len(NtMants) : xi \in NtMantExps(mi)
NtLawForm == \A f \in NtGoodForms \cup NtBadForms : \A sg \in {0, 1} : \A q \in 0..3 :
               \E g \in NtRunSpecs : f \in NtFormsOf(g) /\ sg \in NtSignsOf(g, f) /\ q \in NtPlacesOf(g, f, sg)
NtLawRun == \A g \in NtRunSpecs : /\ 0 \in NtFormsOf(g) /\ NtSignsOf(g, 0) = {0, 1}
                                   /\ NtFormsOf(g) \cap NtBadForms # {} /\ NtFormsOf(g) \cap (NtGoodForms \ {0}) # {}
                                   /\ (NtBoundary(g) => NtGoodForms \subseteq NtFormsOf(g))
NtLawMut == \A m \in Mutants : \E bi \in 1..Len(MutBases) : m \in MutSetFor(bi)
NtGridLaw == NtLawMant /\ NtLawExp /\ NtLawForm /\ NtLawRun /\ NtLawMut

\* ---------------- histories: two JSON calls in ONE context, the script edits the first result / operand in between ----
\* Every other family makes one call on one input.  The property speaks about every text and every value, whatever the
\* context did before: JSON.parse BUILDS the value of its text (a new structure each time), JSON.stringify prints the value
\* as it is NOW.  This family has, for every container shape of a grid and every edit (append, overwrite first / last,
\* truncate, new key, delete first / last key; at the root and in every nested container), the histories
\*   hp:  r1 = parse(t1); edit r1; r2 = parse(t2)      t2 = t1 | another spelling of the same value | t1 the other spelling
\*                                                      | a text that contains t1;   also scalars and rejected texts as t1
\*   hs:  s1 = stringify(v); edit v; s2 = stringify(v)
\* observed: both results, r1 / v re-read after the second call, whether r1 and r2 share a container (===).
HX == VStr(U("x"))
HNew == VArr(<<VInt(9)>>)
HKZ == U("z")
\* quick: a scalar, the empty and a non-empty container of both kinds; thorough: further scalars and containers of depth 2 (paths of length 2)
HistKids == {VInt(1), VArr(<<>>), VObj(<<>>), VArr(<<VInt(2)>>), VObj(<<[n |-> KB, v |-> VInt(3)]>>)}
                \cup (IF Quick THEN {} ELSE {VStr(U("s")), Null, VArr(<<VArr(<<VInt(4)>>), VInt(5)>>),
                                            VObj(<<[n |-> KA, v |-> VObj(<<[n |-> KB, v |-> VInt(5)]>>)]>>)})
HistVals == Lvl(HistKids)
HistOddTexts == {U("1"), U("\"s\""), UNull, UTrue, U("-0"), U("[1,]"), U("{\"a\":1,}"), U("["), U("{\"a\":[1]"), <<>>}
HOps == {"none", "push", "seti", "trunc", "put", "del"}
HRels == {"same", "ws", "wsfirst", "other"}
HEd(op, path, n, i, x) == [op |-> op, path |-> path, n |-> n, i |-> i, x |-> x]
HNone == HEd("none", <<>>, <<>>, 0, HX)
HIsCont(v) == v.k \in {"arr", "obj"}
HWidth(v) == IF v.k = "arr" THEN Len(v.e) ELSE Len(v.p)
HKid(v, j) == IF v.k = "arr" THEN v.e[j] ELSE v.p[j].v
HStep(v, j) == IF v.k = "arr" THEN [a |-> "i", i |-> j - 1, n |-> <<>>] ELSE [a |-> "k", i |-> 0, n |-> v.p[j].n]
\* the edits of the container v that the script reaches by path
HEditsAt(v, path) ==
  IF v.k = "arr"
  THEN {HEd("push", path, <<>>, 0, HNew), HEd("seti", path, <<>>, Len(v.e), HX)}
         \cup (IF Len(v.e) > 0 THEN {HEd("seti", path, <<>>, 0, HX), HEd("seti", path, <<>>, Len(v.e) - 1, HNew), HEd("trunc", path, <<>>, 0, HX)} ELSE {})
  ELSE {HEd("put", path, HKZ, 0, HNew)}
         \cup (IF Len(v.p) > 0 THEN {HEd("put", path, v.p[1].n, 0, HX), HEd("put", path, v.p[Len(v.p)].n, 0, HNew),
                                     HEd("del", path, v.p[1].n, 0, HX), HEd("del", path, v.p[Len(v.p)].n, 0, HX)} ELSE {})
RECURSIVE HEditsIn(_, _)
HEditsIn(v, path) == IF ~HIsCont(v) THEN {}
                     ELSE HEditsAt(v, path) \cup UNION {HEditsIn(HKid(v, j), Append(path, HStep(v, j))) : j \in 1..HWidth(v)}
HEdits(v) == {HNone} \cup HEditsIn(v, <<>>)
\* the value after the edit (reference semantics of push / indexed store / length = 0 / keyed store / delete on plain data)
RECURSIVE HApply(_, _, _)
HApply(v, path, ed) ==
  IF Len(path) = 0
  THEN CASE ed.op = "push" -> VArr(Append(v.e, ed.x))
         [] ed.op = "seti" -> IF ed.i < Len(v.e) THEN VArr([j \in 1..Len(v.e) |-> IF j = ed.i + 1 THEN ed.x ELSE v.e[j]]) ELSE VArr(Append(v.e, ed.x))
         [] ed.op = "trunc" -> VArr(<<>>)
         [] ed.op = "put" -> IF \E j \in 1..Len(v.p) : v.p[j].n = ed.n
                             THEN VObj([j \in 1..Len(v.p) |-> IF v.p[j].n = ed.n THEN [n |-> ed.n, v |-> ed.x] ELSE v.p[j]])
                             ELSE VObj(Append(v.p, [n |-> ed.n, v |-> ed.x]))
         [] ed.op = "del" -> VObj(SelectSeq(v.p, LAMBDA q : q.n # ed.n))
         [] OTHER -> v
  ELSE LET st == path[1]  rest == SubSeq(path, 2, Len(path)) IN
       IF st.a = "i" THEN VArr([j \in 1..Len(v.e) |-> IF j = st.i + 1 THEN HApply(v.e[j], rest, ed) ELSE v.e[j]])
       ELSE VObj([j \in 1..Len(v.p) |-> IF v.p[j].n = st.n THEN [n |-> st.n, v |-> HApply(v.p[j].v, rest, ed)] ELSE v.p[j]])
HCanon(v) == JStringify(v, {}, TRUE).v.u
\* another spelling of the same value: white space around the value and inside the outermost container
HWs(c) == IF Len(c) >= 2 /\ c[1] \in {91, 123} THEN <<32, c[1], 10>> \o SubSeq(c, 2, Len(c) - 1) \o <<9, c[Len(c)], 13>>
          ELSE <<32>> \o c \o <<10>>
HPair(c, rel) == CASE rel = "same" -> <<c, c>> [] rel = "ws" -> <<c, HWs(c)>> [] rel = "wsfirst" -> <<HWs(c), c>>
                   [] OTHER -> <<c, <<91>> \o c \o <<93>>>>
HOpIdx(op) == CASE op = "none" -> 0 [] op = "push" -> 1 [] op = "seti" -> 2 [] op = "trunc" -> 3 [] op = "put" -> 4 [] OTHER -> 5
HRot(v, ed) == Nodes(v) + Len(ed.path) + ed.i + Len(ed.n) + HOpIdx(ed.op)
\* quick: the equal text for every (shape, edit), one of the three other relations by rotation; thorough: all four
HRelsOf(v, ed) == IF ~Quick THEN HRels ELSE {"same", CASE HRot(v, ed) % 3 = 0 -> "ws" [] HRot(v, ed) % 3 = 1 -> "wsfirst" [] OTHER -> "other"}
HistGroups == {<<"v", v>> : v \in HistVals} \cup {<<"t", t>> : t \in HistOddTexts}
HpCases(g) ==
  IF g[1] = "v"
  THEN LET c == HCanon(g[2]) IN
       UNION {{LET tt == HPair(c, rel) IN [t |-> tt[1], ed |-> ed, t2 |-> tt[2]] : rel \in HRelsOf(g[2], ed)} : ed \in HEdits(g[2])}
  ELSE {LET tt == HPair(g[2], rel) IN [t |-> tt[1], ed |-> HNone, t2 |-> tt[2]] : rel \in HRels}
         \cup {[t |-> g[2], ed |-> HNone, t2 |-> U("{\"a\":[1]}")], [t |-> U("{\"a\":[1]}"), ed |-> HNone, t2 |-> g[2]]}
HsCases(g) == IF g[1] = "v" THEN {[v |-> g[2], ed |-> ed] : ed \in HEdits(g[2])} ELSE {}
\* the quick sub-grid contains every edit at the root and in a nested container, of arrays and of objects, under every relation
HEdClass(v, ed) == <<ed.op, IF Len(ed.path) = 0 THEN 0 ELSE 1>>
HistGridLaw ==
  /\ \A op \in HOps \ {"none"} : \A d \in {0, 1} : \A rel \in HRels :
       \E v \in HistVals : \E ed \in HEdits(v) : HEdClass(v, ed) = <<op, d>> /\ rel \in HRelsOf(v, ed)
  /\ \A rk \in {"arr", "obj"} : \A nk \in {"arr", "obj"} : \E v \in HistVals : v.k = rk /\ \E ed \in HEdits(v) :
       Len(ed.path) = 1 /\ HKid(v, IF ed.path[1].a = "i" THEN ed.path[1].i + 1 ELSE CHOOSE j \in 1..Len(v.p) : v.p[j].n = ed.path[1].n).k = nk

\* ---------------- Enum: a tree of states, one printed case per leaf state ---------------------------------
VARIABLES ph, cur, rec_i          \* rec_i: never a name that library operators bind
vars == <<ph, cur, rec_i>>
EnumInit == ph = "start" /\ cur = <<>> /\ rec_i = 0
EnumNext ==
  /\ UNCHANGED rec_i
  /\ \/ /\ ph = "start"
        /\ \/ (Want("tokc") /\ ph' = "tokc" /\ cur' = <<>>)
           \/ (Want("tokf") /\ ph' = "tokf" /\ \E c \in 1..Len(FullToks) : cur' = <<c>>)
           \/ (Want("vgrp") /\ ph' = "vgrp" /\ \E g \in ValGroups : cur' = g)
           \/ (Want("sgrp") /\ ph' = "sgrp" /\ \E cs \in StrClassSeqs : cur' = cs)
           \/ (Want("sgrp") /\ ph' = "sv" /\ \E v \in StrUnitCases : cur' = v)
           \/ (Want("mgrp") /\ ph' = "mgrp" /\ \E g \in MutGroups : cur' = g)
           \/ (Want("ngrp") /\ ph' = "ngrp" /\ \E g \in NtGroups : cur' = g)
           \/ (Want("hgrp") /\ ph' = "hgrp" /\ \E g \in HistGroups : cur' = g)
           \/ (Want("ugrp") /\ ph' = "ugrp" /\ \E x \in SuUnits : cur' = <<x>>)
     \/ /\ ph = "tokc" /\ Len(cur) < MaxClassLen /\ ph' = ph
        /\ (Len(cur) < ClassFullLen \/ JViablePrefix(ClassText(cur)))
        /\ \E c \in 1..NClasses : cur' = Append(cur, c)
     \/ /\ ph = "tokf" /\ Len(cur) < MaxFullLen /\ ph' = ph
        /\ (Len(cur) < FullFullLen \/ JViablePrefix(FullText(cur)))
        /\ \E c \in 1..Len(FullToks) : cur' = Append(cur, c)
     \/ /\ ph = "vgrp" /\ ph' = "val"
        /\ \E v \in ValGroup(cur) : cur' = v
     \/ /\ ph = "sgrp"
        /\ \/ (ph' = "sv" /\ \E v \in StrValCases(cur) : cur' = v)
           \/ (ph' = "st" /\ \E t \in StrTokTexts(cur) : cur' = t)
     \/ /\ ph = "mgrp" /\ ph' = "mut"
        /\ \E m \in MutationsAt(cur[1], cur[2]) : cur' = JFlatLong(m)
     \/ /\ ph = "ngrp"
        /\ \/ (ph' = "nt" /\ \E t \in NtTexts(cur) : cur' = t)
           \/ (ph' = "nv" /\ \E v \in NvCases(cur) : cur' = v)
     \/ /\ ph = "hgrp"
        /\ \/ (ph' = "hp" /\ \E c \in HpCases(cur) : cur' = c)
           \/ (ph' = "hs" /\ \E c \in HsCases(cur) : cur' = c)
     \/ /\ ph = "ugrp"
        /\ \/ (ph' = "su" /\ \E v \in SuValCases(cur[1]) : cur' = v)
           \/ (ph' = "sx" /\ \E t \in SuTokTexts(cur[1]) : cur' = t)
IsTextState == ph \in {"tokc", "tokf", "mut", "st", "nt", "sx"}
IsValState == ph \in {"val", "sv", "nv", "su"}
TextOf == CASE ph = "tokc" -> ClassText(cur) [] ph = "tokf" -> FullText(cur) [] OTHER -> cur
EnumEmit == CASE IsTextState -> PrintT(ToJson([kind |-> "parse", fam |-> ph, t |-> TextOf]))
              [] IsValState -> PrintT(ToJson([kind |-> "str", fam |-> ph, v |-> cur]))
              [] ph = "hp" -> PrintT(ToJson([kind |-> "hp", fam |-> ph, t |-> cur.t, ed |-> cur.ed, t2 |-> cur.t2]))
              [] ph = "hs" -> PrintT(ToJson([kind |-> "hs", fam |-> ph, v |-> cur.v, ed |-> cur.ed]))
              [] OTHER -> TRUE

\* ---------------- Laws of the reference ------------------------------------------------------------------
\* every text: the two formulations of the grammar agree; stringify(parse(t)) is a fixed point (canonical form)
TextLaw(t0) ==
  LET t == t0
      r == JParse(t, {}) IN
  /\ (r.o = "value") = JAccepts2(t)
  /\ r.o = "value" =>
       LET c == JStringify(r.v, {}, TRUE) IN
       /\ c.o = "value" /\ c.v.k = "str"
       /\ LET r2 == JParse(c.v.u, {}) IN
          /\ r2.o = "value"
          /\ JStringify(r2.v, {}, TRUE) = c                                   \* idempotent
          /\ (JRepresentable(r.v) => SameVal(r2.v, r.v))                      \* the canonical text denotes the same value
       /\ \A j \in 1..Len(c.v.u) : c.v.u[j] \notin {9, 10, 13}                   \* canonical: no layout
\* every value: parse(stringify(v)) = v on the representable ones; the result kinds
ValueLaw(v0) ==
  LET v == Unshare(v0)
      s == JStringify(v, {}, TRUE)
      ls == JLeaves(v)
      hasBack == \E j \in 1..Len(ls) : ls[j].k = "back"
  IN /\ (s.o = "throw") = hasBack
     /\ s.o = "throw" => s.cls = "TypeError"
     /\ s.o = "value" => (s.v.k = "undef") = (v.k \in {"undef", "fn", "native"})
     /\ JStringify(v, {}, FALSE) = s                                          \* independent of the host representation
     /\ (s.o = "value" /\ s.v.k = "str") =>
          /\ JAccepts2(s.v.u)
          /\ (JRepresentable(v) => LET r == JParse(s.v.u, {}) IN r.o = "value" /\ SameVal(r.v, v))
\* the fast number path agrees with the bignum formulation (JsConv) in both directions
FastNums == {VInt(0).w, WNegZero, VInt(1).w, VInt(-1).w, W1p5, WNeg(W1p5), VInt(100).w, VInt(1073741823).w, VInt(-123456).w,
             JNumSlow(U("0.0625")), JNumSlow(U("2.5")), JNumSlow(U("-0.015625")), JNumSlow(U("1234.5625"))}
NumLaw == \A w \in FastNums :
            /\ JTextFast(w) # <<>> \/ WIsZero(w)
            /\ JNumToString(w) = NumToText(DFromW(w))
            /\ JParse(JNumToString(w), {}).v.w = (IF w = WNegZero THEN WPosZero ELSE w)
            /\ JNumSlow(JNumToString(w)) = (IF w = WNegZero THEN WPosZero ELSE w)
            /\ JPyRepr(w, FALSE) = JNumToString(w)
\* laws of a history case: the texts denote what the case says, an edit is visible (the case can tell a result that is built
\* anew from one that is handed out again), edited values stay plain data
HpLaw(c) ==
  LET p1 == JParse(c.t, {})  p2 == JParse(c.t2, {}) IN
  /\ (c.ed.op # "none") => (p1.o = "value" /\ HIsCont(p1.v))
  /\ (c.ed.op # "none") =>
       LET a == HApply(p1.v, c.ed.path, c.ed) IN
       /\ ~SameVal(a, p1.v) /\ JWellFormed(a, 0) /\ JRepresentable(a)
       /\ (p2.o = "value" => ~SameVal(a, p2.v))
  /\ (c.t2 = c.t) => p2 = p1
HsLaw(c) ==
  LET a == HApply(c.v, c.ed.path, c.ed) IN
  /\ JWellFormed(a, 0)
  /\ (c.ed.op # "none") => (~SameVal(a, c.v) /\ JStringify(a, {}, FALSE) # JStringify(c.v, {}, FALSE))
  /\ ValueLaw(a)
LawsHold == CASE IsTextState -> LET txt == TextOf IN TextLaw(txt)
              [] IsValState -> ValueLaw(cur)
              [] ph = "start" -> NumLaw /\ NtGridLaw /\ HistGridLaw /\ SuGridLaw
              [] ph = "hp" -> HpLaw(cur) /\ TextLaw(cur.t) /\ TextLaw(cur.t2)
              [] ph = "hs" -> HsLaw(cur)
              [] OTHER -> TRUE

\* ---------------- Judge ----------------------------------------------------------------------------------
Recs == ndJsonDeserialize(IOEnv.OBS_FILE)
\* parse records     [id, kind |-> "parse", t, out, rt, protos]   rt = JSON.stringify(result) when there is one
\* stringify records [id, kind |-> "str", v, ir, out, rt]         rt = JSON.parse(text) when the result is a string
OutMatches(act, exp) ==
  /\ act.o = exp.o
  /\ CASE exp.o = "value" -> SameVal(act.v, exp.v)
       [] exp.o \in {"throw", "escape"} -> act.cls = exp.cls
       [] OTHER -> TRUE
HasUnit(u, P(_)) == \E j \in 1..Len(u) : P(u[j])
HasSub(u, pat) == \E j \in 0..(Len(u) - Len(pat)) : OccursAt(u, pat, j)
Above126(c) == c >= 127
IsSurrogate(c) == c >= 55296 /\ c <= 57343
\* prediction for a parse record under the deviation set d
ParsePred(t0, d) ==
  LET t == t0
      p == JParse(t, d) IN
  [out |-> p,
   rt |-> IF p.o = "value" THEN JStringify(p.v, d, TRUE) ELSE JNone,
   protos |-> ~(p.o = "value" /\ p.v.k \in {"arr", "obj"} /\ DevParseNoProto \in d)]
ParseOK(r, pr) == OutMatches(r.out, pr.out) /\ OutMatches(r.rt, pr.rt) /\ r.protos = pr.protos
\* Explanations.  Candidates are chosen by cheap textual / structural tests, then kept only if switching the deviation
\* on or off changes the prediction for THIS input (differential relevance); every subset of the relevant ones is
\* evaluated and all smallest subsets that predict the observation exactly are returned.
ResEq(a, b) == /\ a.o = b.o
               /\ (a.o = "value" => SameVal(a.v, b.v))
               /\ (a.o \in {"throw", "escape"} => a.cls = b.cls)
HasDigitRun16(t) == \E j \in 1..(Len(t) - 15) : \A x \in j..(j + 15) : JIsDigit(t[x])
ParseCands(t, refout) ==
  (IF refout.o # "value" THEN {DevParseEscapes} ELSE {})
  \cup (IF HasSub(t, <<78, 97, 78>>) \/ HasSub(t, <<73, 110, 102>>) THEN {DevParseConstants, DevParseEscapes} ELSE {})
  \cup (IF HasSub(t, <<45, 48>>) THEN {DevParseNegZero} ELSE {})
  \cup (IF HasDigitRun16(t) THEN {DevParseBigInt} ELSE {})
  \cup (IF HasUnit(t, IsSurrogate) /\ HasSub(t, <<92, 117>>) THEN {DevParseSplitPair} ELSE {})
ParseRel(t, refout) ==
  LET cands == ParseCands(t, refout)
      all == JParse(t, cands)
  IN {d \in cands : ~ResEq(JParse(t, {d}), refout) \/ ~ResEq(JParse(t, cands \ {d}), all)}
SerCands(v) ==
  LET ls == JLeaves(v) IN
  (IF \E j \in 1..Len(ls) : ls[j].k = "num" /\ ~WIsNaN(ls[j].w) /\ ~WIsInf(ls[j].w) THEN {DevFloatRepr, DevToStringRepr} ELSE {})
  \cup (IF \E j \in 1..Len(ls) : ls[j].k = "num" /\ (WIsNaN(ls[j].w) \/ WIsInf(ls[j].w)) THEN {DevNonFinite} ELSE {})
  \cup (IF \E j \in 1..Len(ls) : ls[j].k = "str" /\ HasUnit(ls[j].u, Above126) THEN {DevEnsureAscii} ELSE {})
  \cup (IF v.k \in {"undef", "fn", "native"} THEN {DevRootNull} ELSE {})
  \cup (IF \E j \in 1..Len(ls) : ls[j].k \in {"fn", "native"} THEN {DevFnNull} ELSE {})
  \cup (IF \E j \in 1..Len(ls) : ls[j].k = "back" THEN {DevCycle} ELSE {})
\* relevant = switching it changes the text, starting from none or from all candidates (a function printed as null
\* under Dev_StringifyFunctionNull makes its key visible to Dev_DumpsEnsureAscii: the effects are not independent)
SerRel(v, ir) ==
  LET cands == SerCands(v)
      base == JStringify(v, {}, ir)
      all == JStringify(v, cands, ir)
  IN {d \in cands : ~ResEq(JStringify(v, {d}, ir), base) \/ ~ResEq(JStringify(v, cands \ {d}, ir), all)}
\* Dev_DumpsFloatRepr subsumes Dev_ToStringReprLayout
SerSubsets(v, ir) == {x \in SUBSET SerRel(v, ir) : ~(DevFloatRepr \in x /\ DevToStringRepr \in x)}
IsContainer(v) == v.k \in {"arr", "obj"}
\* two stages: first the deviations that change what the text parses to, then those that change how the result prints
ParseExplain(r, refout) ==
  UNION { LET p == JParse(r.t, d1) IN
          IF ~OutMatches(r.out, p) THEN {}
          ELSE IF p.o # "value" THEN (IF r.rt.o = "none" THEN {d1} ELSE {})
          ELSE IF ~r.protos /\ ~IsContainer(p.v) THEN {}
          ELSE LET pd == IF ~r.protos THEN {DevParseNoProto} ELSE {}
               IN {d1 \cup pd \cup x : x \in {y \in SerSubsets(p.v, TRUE) : OutMatches(r.rt, JStringify(p.v, y, TRUE))}}
        : d1 \in SUBSET ParseRel(r.t, refout) } \ {{}}
\* prediction for a stringify record
StrPred(v, ir, d) ==
  LET s == JStringify(v, d, ir) IN
  [out |-> s,
   rt |-> IF s.o = "value" /\ s.v.k = "str" THEN JParse(s.v.u, d) ELSE JNone]
StrOK(r, pr) == OutMatches(r.out, pr.out) /\ OutMatches(r.rt, pr.rt)
\* a bare NaN / Infinity in the text brings the decoder's extensions into the round trip
StrExplain(r, v) ==
  UNION { {x \cup y : y \in {z \in (IF DevNonFinite \in x THEN SUBSET {DevParseConstants, DevParseEscapes} ELSE {{}}) :
                                StrOK(r, StrPred(v, r.ir, x \cup z))}}
        : x \in SerSubsets(v, r.ir) } \ {{}}
\* the explaining subsets of minimal size, as sequences (the caller reports the one whose deviations are all listed)
Alts(S) == IF S = {} THEN <<>>
           ELSE LET least == CHOOSE n \in 1..Cardinality(AllDevs) : (\E x \in S : Cardinality(x) = n) /\ (\A y \in S : Cardinality(y) >= n)
                IN SX!SetToSeq({SX!SetToSeq(x) : x \in {y \in S : Cardinality(y) = least}})
\* history records [id, kind |-> "hp", t, ed, t2, p1, p2, rt2, after1, alias, edit, esc] / [kind |-> "hs", v, ed, p1, p2, after1, edit, esc]
\* p1 / p2: the two calls; after1: the first result (hp) / the operand (hs) re-read after the second call; alias: the two parse
\* results share a container; edit: "ok" | "none" | the class the edit threw; esc: class of an exception that left the script
HistOK(r, e) == /\ OutMatches(r.p1, e.p1) /\ OutMatches(r.p2, e.p2) /\ OutMatches(r.after1, e.after1)
                /\ r.edit = e.edit /\ r.esc = e.esc
                /\ (r.kind = "hp" => (OutMatches(r.rt2, e.rt2) /\ r.alias = e.alias))
HpExp(r) ==
  LET p1 == JParse(r.t, {})  p2 == JParse(r.t2, {})
      applies == r.ed.op # "none" /\ p1.o = "value" /\ HIsCont(p1.v) IN
  [p1 |-> p1, p2 |-> p2, rt2 |-> IF p2.o = "value" THEN JStringify(p2.v, {}, TRUE) ELSE JNone,
   after1 |-> IF p1.o = "value" THEN JVal(IF applies THEN HApply(p1.v, r.ed.path, r.ed) ELSE p1.v) ELSE JNone,
   alias |-> FALSE, edit |-> IF applies THEN "ok" ELSE "none", esc |-> ""]
HsExp(r) ==
  LET a == IF r.ed.op # "none" THEN HApply(r.v, r.ed.path, r.ed) ELSE r.v IN
  [p1 |-> JStringify(r.v, {}, FALSE), p2 |-> JStringify(a, {}, FALSE), rt2 |-> JNone, after1 |-> JVal(a),
   alias |-> FALSE, edit |-> IF r.ed.op # "none" THEN "ok" ELSE "none", esc |-> ""]
HistVerdict(r) ==
  LET e == IF r.kind = "hp" THEN HpExp(r) ELSE HsExp(r) IN
  IF HistOK(r, e) THEN [v |-> "pass", alts |-> <<>>, exp |-> JNone] ELSE [v |-> "mismatch", alts |-> <<>>, exp |-> e]
Verdict(r) ==
  IF r.kind \in {"hp", "hs"} THEN HistVerdict(r) ELSE
  IF r.kind = "parse"
  THEN LET ref == ParsePred(r.t, {}) IN
       IF ParseOK(r, ref) THEN [v |-> "pass", alts |-> <<>>, exp |-> JNone]
       ELSE [v |-> "mismatch", alts |-> Alts(ParseExplain(r, ref.out)), exp |-> ref]
  ELSE LET v == Unshare(r.v) IN
       IF ~JWellFormed(v, 0) THEN [v |-> "unsupported", alts |-> <<>>, exp |-> JNone]
       ELSE LET ref == StrPred(v, r.ir, {}) IN
            IF StrOK(r, ref) THEN [v |-> "pass", alts |-> <<>>, exp |-> JNone]
            ELSE [v |-> "mismatch", alts |-> Alts(StrExplain(r, v)), exp |-> ref]
JudgeInit == /\ rec_i \in 1..Len(Recs) /\ ph = "judge" /\ cur = <<>>
             /\ LET r == Recs[rec_i]  vd == Verdict(r)
                IN PrintT(ToJson([id |-> r.id, v |-> vd.v, alts |-> vd.alts, exp |-> vd.exp]))
JudgeNext == UNCHANGED vars
=============================================================================
