-------------------------------- MODULE C11 --------------------------------
(* C11 - values cross the Python/JavaScript boundary faithfully.                           *)
(*   Laws  : properties of Boundary itself, model-checked over all Python values of depth  *)
(*           <= 2 on a 12-leaf grid and depth <= 3 on a 4-leaf grid (width <= 2), plus     *)
(*           hand-checked int -> double vectors.                                           *)
(*   Enum  : (B) boundary traces: round trips of boundary values with aliasing probes,     *)
(*           script results, exposed callables; (I) ALL interleavings of set / get / eval  *)
(*           on two names of exactly L events (shorter ones are their prefixes); (C) ALL   *)
(*           call histories: one function value made from the exposed callable, invoked    *)
(*           L times through every invocation form; (P) ALL property histories: one object *)
(*           whose properties are assigned / redefined as data or accessor / deleted in    *)
(*           every sequence of L steps, then converted; (D) ALL declaration histories: a   *)
(*           name bound by set / by a script / not at all, then every sequence of L evals  *)
(*           of scripts that declare or merely mention the name; (N) ints that are not     *)
(*           doubles at every position of a container.                                     *)
(*   Judge : every recorded trace is folded through the store of copies, event by event;   *)
(*           a mismatch records clause + index, adopts the observation and keeps going.    *)
EXTENDS Boundary, Json, IOUtils

Tier == IF "TIER" \in DOMAIN IOEnv THEN IOEnv.TIER ELSE "quick"
Quick == Tier = "quick"
CONSTANT L                         \* length of the enumerated interleavings

\* ---------------- grids ---------------------------------------------------------------------------
W1p5 == <<16376, 0, 0, 0>>
I2p53    == PyInt(0, <<0, 0, 0, 32>>)
I2p53p1  == PyInt(0, <<1, 0, 0, 32>>)
I2p53p2  == PyInt(0, <<2, 0, 0, 32>>)
I2p53m1  == PyInt(0, <<65535, 65535, 65535, 31>>)
IN2p53p1 == PyInt(1, <<1, 0, 0, 32>>)
I2p63    == PyInt(0, <<0, 0, 0, 32768>>)
I2p63m1  == PyInt(0, <<65535, 65535, 65535, 32767>>)
IN2p63   == PyInt(1, <<0, 0, 0, 32768>>)
I2p64    == PyInt(0, <<0, 0, 0, 0, 1>>)
I2p64x   == PyInt(0, <<2049, 0, 0, 0, 1>>)
I2p31    == PyInt(0, <<0, 32768>>)
IBig     == PyInt(0, <<2770, 60191, 43404, 43860>>)          \* 12345678901234567890
Smile == <<55357, 56832>>                                     \* one non-BMP character (U+1F600)
Leaves12 == {PyNone, PyBool(TRUE), PyBool(FALSE), PySmall(0), PySmall(1), PySmall(-1), I2p53p1,
             PyFloat(W1p5), PyFloat(WNaN), PyFloat(WNegZero), PyStr(<<>>), PyStr(U("a"))}
Leaves4 == {PyNone, PyBool(TRUE), PySmall(1), PyStr(U("a"))}
\* keys: pairwise different as Python keys (1 == True == 1.0 in Python, so 1 and True never meet in one dict);
\* "1" and 1 collide only after stringification
Keys4 == {PyStr(U("a")), PyStr(U("1")), PySmall(1), PyNone}
Keys3 == {PyStr(U("a")), PyStr(U("1")), PySmall(1)}
Lists1(S) == {PyList(<<>>)} \cup {PyList(<<x>>) : x \in S} \cup {PyList(<<x, y>>) : x \in S, y \in S}
Dicts1(S, K) == {PyDict(<<>>)} \cup {PyDict(<<[kk |-> k1, v |-> x]>>) : k1 \in K, x \in S}
                \cup {PyDict(<<[kk |-> kp[1], v |-> x], [kk |-> kp[2], v |-> y]>>) :
                        kp \in {q \in K \X K : q[1] # q[2]}, x \in S, y \in S}
Depth2on12 == Leaves12 \cup Lists1(Leaves12) \cup Dicts1(Leaves12, Keys4)
W1 == Leaves4 \cup Lists1(Leaves4) \cup Dicts1(Leaves4, Keys3)

\* ---------------- Laws ----------------------------------------------------------------------------
Law(v) ==
  /\ PySupported(v)
  /\ \A ks \in KeyStyles :
       LET j == ToJs(v, ks)  n == Norm(v, ks)
       IN /\ ToPy(j) = n                                   \* round trip = normal form
          /\ Norm(n, ks) = n                               \* idempotent
          /\ ToJs(n, ks) = j                               \* the normal form converts to the same script value
          /\ ToJs(ToPy(j), ks) = j                         \* ToJs o ToPy is the identity on the image of ToJs
          /\ EqPy(n, n) /\ EqPy(n, ToPy(j))                \* observed-equality is reflexive on normal forms
          /\ PySupported(n) /\ SameJs(j, j)
  /\ (v.k = "bool" => ~EqPy(v, PySmall(IF v.b THEN 1 ELSE 0)) /\ ~EqPy(PySmall(IF v.b THEN 1 ELSE 0), v))   \* bool is not int
  /\ (v.k = "none" => \A x \in Leaves12 \ {PyNone} : ~EqPy(v, x) /\ ~EqPy(x, v))
  /\ (v.k \in {"list", "dict"} => \A x \in Leaves12 : ~EqPy(v, x))
\* hand-checked vectors (CPython float(n), struct.pack('>d')): exact, ties-to-even both ways, carry into the exponent
ASSUME /\ IntToDouble(0, <<1>>) = <<16368, 0, 0, 0>> /\ IntToDouble(0, <<3>>) = <<16392, 0, 0, 0>>
       /\ IntToDouble(0, <<0, 1>>) = <<16624, 0, 0, 0>> /\ IntToDouble(0, <<>>) = WPosZero
       /\ IntToDouble(0, <<0, 0, 0, 32>>) = <<17216, 0, 0, 0>> /\ IntToDouble(0, <<1, 0, 0, 32>>) = <<17216, 0, 0, 0>>
       /\ IntToDouble(0, <<2, 0, 0, 32>>) = <<17216, 0, 0, 1>> /\ IntToDouble(0, <<3, 0, 0, 32>>) = <<17216, 0, 0, 2>>
       /\ IntToDouble(0, <<0, 0, 0, 32768>>) = <<17376, 0, 0, 0>> /\ IntToDouble(1, <<0, 0, 0, 32768>>) = <<50144, 0, 0, 0>>
       /\ IntToDouble(0, <<65535, 65535, 65535, 32767>>) = <<17376, 0, 0, 0>>
       /\ IntToDouble(0, <<0, 0, 0, 0, 1>>) = <<17392, 0, 0, 0>> /\ IntToDouble(0, <<2048, 0, 0, 0, 1>>) = <<17392, 0, 0, 0>>
       /\ IntToDouble(0, <<2049, 0, 0, 0, 1>>) = <<17392, 0, 0, 1>>
       /\ IntToDouble(0, <<65535, 65535, 65535, 65535, 63>>) = <<17488, 0, 0, 0>>
       /\ IntToDouble(0, <<2770, 60191, 43404, 43860>>) = <<17381, 27285, 12701, 25569>>
       /\ ExactInt(0, <<0, 0, 0, 32>>) /\ ~ExactInt(0, <<1, 0, 0, 32>>) /\ ExactInt(0, <<2, 0, 0, 32>>)
       /\ ExactInt(0, <<0, 0, 0, 0, 1>>) /\ ~ExactInt(0, <<65535, 65535, 65535, 32767>>)
       /\ NumEq(I2p53p1, I2p53p1) /\ NumEq(I2p53p1, PyFloat(<<17216, 0, 0, 0>>)) /\ ~NumEq(I2p53p1, I2p53)
       /\ ~NumEq(PyFloat(<<17216, 0, 0, 0>>), I2p53p1) /\ NumEq(PyFloat(<<17216, 0, 0, 0>>), I2p53)
       /\ ~NumEq(PyFloat(WNegZero), PySmall(0)) /\ NumEq(PyFloat(WPosZero), PySmall(0)) /\ NumEq(PySmall(0), PyFloat(WPosZero))
       /\ ~NumEq(PyFloat(WNegZero), PyFloat(WPosZero)) /\ NumEq(PyFloat(WNaN), PyFloat(<<32760, 0, 0, 1>>))
       /\ KeyText(PySmall(-12), "py") = U("-12") /\ KeyText(PySmall(0), "py") = U("0") /\ KeyText(PyBool(TRUE), "json") = U("true")

\* ---------------- "a value EQUAL to the one given" for ints (round 4) ------------------------------
\* Python compares an int with a float by exact value: 2^53+1 == 9007199254740992.0 is False.  An expected int is
\* therefore met by the same int, or by a float only when the int IS that double (representable, inside the double
\* range); the nearest double of an int that is not a double is a different number.  Same the other way round.
XInRange(m) == Len(MagBits(NormLimbs(m))) <= 1024
XIsDouble(v) == ExactInt(v.sg, v.m) /\ XInRange(v.m)
XNumEq(a, b) ==
  CASE a.k = "int" /\ b.k = "float" -> XIsDouble(a) /\ NumEq(a, b)
    [] a.k = "float" /\ b.k = "int" -> XIsDouble(b) /\ NumEq(a, b)
    [] OTHER -> NumEq(a, b)
RECURSIVE XEqPy(_, _)
XEqPy(a, b) ==      \* a: expected (keys are strings), b: observed
  IF a.k \in {"int", "float"} THEN b.k \in {"int", "float"} /\ XNumEq(a, b)
  ELSE /\ a.k = b.k
       /\ CASE a.k = "none" -> TRUE
            [] a.k = "bool" -> a.b = b.b
            [] a.k = "str"  -> a.u = b.u
            [] a.k = "list" -> Len(a.e) = Len(b.e) /\ \A i \in 1..Len(a.e) : XEqPy(a.e[i], b.e[i])
            [] a.k = "dict" -> /\ Len(a.p) = Len(b.p)
                               /\ \A i \in 1..Len(b.p) : b.p[i].kk.k = "str"
                               /\ \A i \in 1..Len(a.p) : \E j \in 1..Len(b.p) :
                                     b.p[j].kk.u = a.p[i].kk.u /\ XEqPy(a.p[i].v, b.p[j].v)
            [] OTHER -> FALSE
I2p53p3  == PyInt(0, <<3, 0, 0, 32>>)
I2p64p1  == PyInt(0, <<1, 0, 0, 0, 1>>)
I1e20p7  == PyInt(0, <<7, 25360, 24109, 27591, 5>>)                                   \* 10^20 + 7
I3p70    == PyInt(0, <<14297, 63976, 40709, 8146, 61328, 17319, 31594>>)              \* 3^70
I2p1024p1 == PyInt(0, [j \in 1..65 |-> IF j \in {1, 65} THEN 1 ELSE 0])               \* 2^1024 + 1: beyond the largest double
IN2p1024  == PyInt(1, [j \in 1..65 |-> IF j = 65 THEN 1 ELSE 0])                      \* -(2^1024)
I2p1023p1 == PyInt(0, [j \in 1..64 |-> IF j = 1 THEN 1 ELSE IF j = 64 THEN 32768 ELSE 0])   \* 2^1023 + 1: in range, not a double
ASSUME /\ XNumEq(I2p53p1, I2p53p1) /\ ~XNumEq(I2p53p1, PyFloat(<<17216, 0, 0, 0>>)) /\ ~XNumEq(I2p53p1, I2p53)
       /\ ~XNumEq(PyFloat(<<17216, 0, 0, 0>>), I2p53p1) /\ XNumEq(PyFloat(<<17216, 0, 0, 0>>), I2p53) /\ XNumEq(I2p53, PyFloat(<<17216, 0, 0, 0>>))
       /\ XNumEq(I2p53p2, PyFloat(<<17216, 0, 0, 1>>)) /\ ~XNumEq(I2p53p3, PyFloat(<<17216, 0, 0, 2>>)) /\ ~XNumEq(I2p53p3, PyFloat(<<17216, 0, 0, 1>>))
       /\ ~XNumEq(I2p64p1, PyFloat(<<17392, 0, 0, 0>>)) /\ XNumEq(I2p64, PyFloat(<<17392, 0, 0, 0>>))
       /\ IntToDouble(0, I1e20p7.m) = <<17429, 44829, 30901, 35904>> /\ ~XNumEq(I1e20p7, PyFloat(<<17429, 44829, 30901, 35904>>))
       /\ IntToDouble(0, I3p70.m) = <<18142, 55952, 59899, 58376>> /\ ~XNumEq(I3p70, PyFloat(<<18142, 55952, 59899, 58376>>))
       /\ IntToDouble(0, I2p1024p1.m) = WPosInf /\ ~XNumEq(I2p1024p1, PyFloat(WPosInf)) /\ XNumEq(I2p1024p1, I2p1024p1)
       /\ IntToDouble(1, IN2p1024.m) = WNegInf /\ ~XNumEq(IN2p1024, PyFloat(WNegInf)) /\ ~XNumEq(PyFloat(WNegInf), IN2p1024)
       /\ ~XNumEq(I2p1023p1, PyFloat(<<32736, 0, 0, 0>>)) /\ IntToDouble(0, I2p1023p1.m) = <<32736, 0, 0, 0>>
       /\ XNumEq(PySmall(0), PyFloat(WPosZero)) /\ ~XNumEq(PySmall(0), PyFloat(WNegZero)) /\ XNumEq(PySmall(7), PyFloat(<<16412, 0, 0, 0>>))
       /\ XNumEq(PyFloat(WNaN), PyFloat(<<32760, 0, 0, 1>>)) /\ XNumEq(PyFloat(W1p5), PyFloat(W1p5))


VARIABLES ph, cur, ehist, est, eheld, rec_i
vars == <<ph, cur, ehist, est, eheld, rec_i>>
Names == {"a", "b"}

\* Initial-state enumeration is single-threaded in TLC: the grid sits behind a first action.  A seed is a value x
\* of the level below; its successors are all grid values whose first component is x (plus x itself), so the
\* 16 workers share the evaluation of the laws.
SeedKeys(lv) == IF lv = 2 THEN Keys4 ELSE IF Quick THEN {PyStr(U("a"))} ELSE {PyStr(U("1")), PySmall(1)}    \* collide after stringification
SeedPeers(lv) == IF lv = 2 THEN Leaves12 ELSE W1
Expand(lv, x) ==
  {x, PyList(<<>>), PyDict(<<>>), PyList(<<x>>)} \cup {PyList(<<x, y>>) : y \in SeedPeers(lv)}
  \cup {PyDict(<<[kk |-> k1, v |-> x]>>) : k1 \in SeedKeys(lv)}
  \cup {PyDict(<<[kk |-> kp[1], v |-> x], [kk |-> kp[2], v |-> y]>>) :
           kp \in {q \in SeedKeys(lv) \X SeedKeys(lv) : q[1] # q[2]}, y \in SeedPeers(lv)}
ASSUME (UNION {Expand(2, x) : x \in Leaves12}) = Depth2on12 \cup {PyList(<<>>), PyDict(<<>>)}      \* the seeds cover the grid
LawInit == /\ ph = "lawseed" /\ cur \in ({[lv |-> 2, x |-> x] : x \in Leaves12} \cup {[lv |-> 3, x |-> x] : x \in W1})
           /\ ehist = <<>> /\ est = <<>> /\ eheld = <<>> /\ rec_i = 0
LawNext == /\ ph = "lawseed" /\ ph' = "law"
           /\ cur' \in Expand(cur.lv, cur.x)
           /\ UNCHANGED <<ehist, est, eheld, rec_i>>
LawX(v) == \A ks \in KeyStyles : LET n == Norm(v, ks) IN XEqPy(n, n) /\ XEqPy(n, ToPy(ToJs(v, ks)))    \* the exact equality is reflexive on normal forms, too
LawsHold == ph # "law" \/ (Law(cur) /\ LawX(cur))

\* ---------------- Enum (B): boundary traces -----------------------------------------------------
ESet(nm, v)      == [op |-> "set", nm |-> nm, v |-> v]
EGet(nm)         == [op |-> "get", nm |-> nm]
EName(nm)        == [op |-> "evalname", nm |-> nm]
EExpr(form, e)   == [op |-> "evalexpr", form |-> form, e |-> e]
EEvalSet(nm, e)  == [op |-> "evalset", nm |-> nm, e |-> e]
EMut(nm, x, how) == [op |-> "evalmut", nm |-> nm, x |-> x, how |-> how]
EMutRet(nm)      == [op |-> "mutret", nm |-> nm]
EMutPassed(nm)   == [op |-> "mutpassed", nm |-> nm]
EView(nm)        == [op |-> "jsview", nm |-> nm]          \* the script hands the value of the name to a host function
ECall(form, args, ret) == [op |-> "hostcall", form |-> form, args |-> args, ret |-> ret]

RECURSIVE NestList(_, _)
NestList(v, n) == IF n = 0 THEN v ELSE PyList(<<NestList(v, n - 1)>>)
RECURSIVE NestMixed(_, _)
NestMixed(v, n) == IF n = 0 THEN v
                   ELSE IF n % 2 = 0 THEN PyList(<<NestMixed(v, n - 1)>>)
                   ELSE PyDict(<<[kk |-> PyStr(U("d")), v |-> NestMixed(v, n - 1)]>>)
D(ps) == PyDict(ps)
KV(k1, x) == [kk |-> k1, v |-> x]
BoundaryVals ==
  Leaves12 \cup
  {I2p53, I2p53p2, I2p53m1, IN2p53p1, I2p63, I2p63m1, IN2p63, I2p64, I2p64x, I2p31, IBig, PySmall(-2147483647), PySmall(65535), PySmall(65536),
   PyFloat(WPosInf), PyFloat(WNegInf), PyFloat(WPosZero), PyFloat(<<32760, 0, 0, 1>>), PyFloat(<<0, 0, 0, 1>>),
   PyFloat(<<32751, 65535, 65535, 65535>>), PyFloat(<<17216, 0, 0, 0>>), PyFloat(<<16329, 39321, 39321, 39322>>),
   PyStr(Smile), PyStr(<<97>> \o Smile \o <<98>>), PyStr(<<55357>>), PyStr(<<56832>>), PyStr(<<56832, 55357>>), PyStr(<<0>>),
   PyStr(<<233, 8232, 65535, 34, 39, 92, 10>>), PyStr(U("__proto__")), PyStr(U("constructor")),
   PyList(<<>>), D(<<>>), PyList(<<PyList(<<>>), D(<<>>)>>),
   PyList(<<PyNone, PyBool(TRUE), PySmall(1), PyFloat(W1p5), PyStr(U("s")), PyList(<<PySmall(2)>>), D(<<KV(PyStr(U("k")), PyNone)>>)>>),
   D(<<KV(PyStr(U("a")), PySmall(1)), KV(PyStr(U("b")), PyList(<<PyBool(FALSE), PyNone>>)), KV(PyStr(<<>>), PyStr(<<>>))>>),
   D(<<KV(PySmall(1), PyStr(U("int"))), KV(PyStr(U("1")), PyStr(U("str")))>>),         \* collide after stringification
   D(<<KV(PyStr(U("1")), PyStr(U("str"))), KV(PySmall(1), PyStr(U("int"))), KV(PySmall(2), PySmall(2))>>),
   D(<<KV(PySmall(0), PySmall(0)), KV(PySmall(-5), PySmall(5)), KV(PySmall(65535), PyNone)>>),
   D(<<KV(PyBool(TRUE), PySmall(1)), KV(PyBool(FALSE), PySmall(0)), KV(PyNone, PyNone)>>),
   D(<<KV(PyStr(U("length")), PySmall(3)), KV(PyStr(U("__proto__")), PySmall(4)), KV(PyStr(U("toString")), PySmall(5))>>),
   D(<<KV(PyStr(Smile), PyStr(Smile)), KV(PyStr(<<55357>>), PySmall(1))>>),
   [k |-> "list", e |-> <<PyList(<<PySmall(1)>>), PyList(<<PySmall(1)>>)>>, sh |-> TRUE],     \* one list object, twice
   [k |-> "list", e |-> <<D(<<KV(PyStr(U("k")), PyList(<<>>))>>), D(<<KV(PyStr(U("k")), PyList(<<>>))>>)>>, sh |-> TRUE],
   NestList(PySmall(1), 30), NestMixed(PyStr(U("x")), 30), NestMixed(PyList(<<>>), 7)}
\* keys that are ordinary JSON text but mean something to a script (prototype, inherited methods, array length), holding
\* every kind of value (a script-side "__proto__" distinguishes null / object / anything else), next to a second key and nested
SpecialNames == {"__proto__", "constructor", "prototype", "toString", "valueOf", "hasOwnProperty", "length", "get", "set"}
SpecialHeld == {PyNone, PySmall(7), D(<<KV(PyStr(U("admin")), PyBool(TRUE))>>), PyList(<<PySmall(1), PySmall(2)>>)}
SpecialKeyVals == {D(<<KV(PyStr(U(sn)), x), KV(PyStr(U("name")), PyStr(U("guest")))>>) : sn \in SpecialNames, x \in SpecialHeld}
                  \cup {PyList(<<D(<<KV(PyStr(U(sn)), x)>>)>>) : sn \in SpecialNames, x \in SpecialHeld}
RoundTrip(v) == <<ESet("a", v), EView("a"), EGet("a"), EName("a"), EMutRet("a"), EGet("a"), EName("a"), EMutPassed("a"), EGet("a"), EName("a")>>

\* (N, round 4) ints that are not doubles - next to 2^53, at 2^63 / 2^64, far beyond, beyond the double range, both signs -
\* alone and at every kind of position of a container (list element, dict value, two levels down).  The script's own
\* view of an int beyond the double range is not judged (harness/wire.py has a class of its own for it): no jsview there.
BigInts == {I2p53p1, IN2p53p1, I2p53p3, I2p63m1, I2p64p1, I2p64x, I1e20p7, I3p70, I2p1023p1, I2p1024p1, IN2p1024}
BigPositions == {"top", "list", "dictval", "deep"}
BigAt(v, pos) ==
  CASE pos = "top"     -> v
    [] pos = "list"    -> PyList(<<PySmall(1), v>>)
    [] pos = "dictval" -> D(<<KV(PyStr(U("n")), v), KV(PyStr(U("s")), PyStr(U("s")))>>)
    [] pos = "deep"    -> D(<<KV(PyStr(U("a")), PyList(<<v, PyList(<<v, D(<<KV(PyStr(U("b")), v)>>)>>)>>)), KV(PyStr(U("c")), v)>>)
RoundTripNV(v) == <<ESet("a", v), EGet("a"), EName("a"), EMutRet("a"), EGet("a"), EName("a"), EMutPassed("a"), EGet("a"), EName("a")>>
BigTraces == {IF XInRange(v.m) THEN RoundTrip(BigAt(v, pos)) ELSE RoundTripNV(BigAt(v, pos)) : v \in BigInts, pos \in BigPositions}
ASSUME /\ \A v \in BigInts : ~XIsDouble(v)
       /\ \E v \in BigInts : ~XInRange(v.m) /\ v.sg = 0
       /\ \E v \in BigInts : ~XInRange(v.m) /\ v.sg = 1 /\ ExactInt(v.sg, v.m)          \* a power of two beyond the range
       /\ \E v \in BigInts : XInRange(v.m) /\ v.sg = 1
       /\ \E v \in BigInts : Len(MagBits(v.m)) = 1024                                  \* at the top of the range

\* script results
JsLeaves == {Undef, Null, VBool(TRUE), VBool(FALSE), VInt(0), VInt(1), VInt(-7), VNumW(WNegZero), VNumW(WNaN), VNumW(WPosInf),
             VNumW(WNegInf), VNumW(W1p5), VNumW(<<17216, 0, 0, 0>>), VStr(<<>>), VStr(U("a b")), VStr(Smile), VStr(<<55357>>),
             VStr(<<233, 8232, 34, 39, 92, 10, 0>>)}
OP(n, v) == [n |-> n, v |-> v]
JsStructs == {VArr(<<>>), VObj(<<>>), VArr(<<Undef, Null, VInt(1)>>), VArr(<<VArr(<<>>), VObj(<<>>), VArr(<<VArr(<<VInt(2)>>)>>)>>),
              VObj(<<OP(U("a"), VInt(1)), OP(U("b"), VObj(<<OP(U("c"), VArr(<<Null, Undef>>))>>))>>),
              VObj(<<OP(U("length"), VInt(2)), OP(U("0"), VStr(U("z")))>>), VObj(<<OP(Smile, VStr(Smile))>>),
              VObj(<<OP(U("u"), Undef), OP(U("n"), Null), OP(U("nan"), VNumW(WNaN)), OP(U("nz"), VNumW(WNegZero))>>)}
ExprTraces == {<<EExpr("lit", e)>> : e \in JsLeaves \cup JsStructs}
              \cup {<<EExpr("inherit", e)>> : e \in {x \in JsStructs : x.k = "obj"}}     \* own data properties only
              \cup {<<EExpr("accessor", e)>> : e \in {x \in JsStructs : x.k = "obj"}}
              \cup {<<EEvalSet("a", e), EGet("a"), EName("a"), EMutRet("a"), EGet("a"), EName("a")>> : e \in JsStructs}

\* exposed callables: argument vectors (order, arity) x call forms x return values
CallForms == {"call", "method", "fcall", "apply", "bind", "foreach", "map"}
ArgVecs == {<<>>, <<VInt(1)>>, <<VInt(1), VInt(2)>>, <<VInt(2), VInt(1)>>, <<VStr(U("x")), VInt(1), VBool(TRUE), Null>>,
            <<Undef>>, <<Undef, VInt(1)>>, <<VInt(1), Undef>>, <<Null, Undef, Null>>,
            <<VArr(<<VInt(1), VArr(<<VInt(2)>>)>>), VObj(<<OP(U("k"), VStr(U("v")))>>)>>,
            <<VNumW(WNaN), VNumW(WNegZero), VNumW(WPosInf), VNumW(W1p5)>>, <<VStr(Smile), VStr(<<>>)>>,
            <<VInt(1), VInt(2), VInt(3), VInt(4), VInt(5), VInt(6), VInt(7), VInt(8)>>}
Rets == {PyNone, PyBool(TRUE), PyBool(FALSE), PySmall(0), PySmall(7), I2p53p1, PyFloat(W1p5), PyFloat(WNaN), PyFloat(WNegZero),
         PyStr(<<>>), PyStr(Smile), PyList(<<PySmall(1), PyList(<<>>)>>), D(<<KV(PyStr(U("k")), PySmall(1))>>)}
FormOK(form, args) == form = "bind" => Len(args) >= 1          \* h.bind(null, a1)(a2, ...)
CallTraces == {<<ECall(f, a, r)>> : f \in CallForms, a \in ArgVecs, r \in (IF Quick THEN {PyNone, PySmall(7), PyStr(Smile), PyList(<<PySmall(1), PyList(<<>>)>>)} ELSE Rets)}
BoundaryTraces == {RoundTrip(v) : v \in BoundaryVals \cup SpecialKeyVals} \cup BigTraces \cup ExprTraces \cup {t \in CallTraces : FormOK(t[1].form, t[1].args)}

EnumBInit == /\ ph = "enumB" /\ cur \in BoundaryTraces /\ ehist = <<>> /\ est = <<>> /\ eheld = <<>> /\ rec_i = 0
             /\ PrintT(ToJson([t |-> cur]))
EnumBNext == UNCHANGED vars

\* ---------------- Enum (C): call histories ---------------------------------------------------------
\* "for all argument vectors passed to exposed callables" is a statement about every invocation, not about the first one
\* of a function value.  ONE function value obtained from the exposed callable - the callable itself, h.bind(this, pre..),
\* or a bound function bound again - is invoked L times, every time through any invocation form with 0..2 arguments, in
\* one script or with one eval per step on the same context.  The arguments of invocation n carry n and the callable
\* returns a different value on every call, so arguments or results left over from an earlier invocation show.
ECallSeq(mk, thisv, pre, pre2, inv, rets, split) ==
  [op |-> "callseq", mk |-> mk, thisv |-> thisv, pre |-> pre, pre2 |-> pre2, inv |-> inv, rets |-> rets, split |-> split]
Inv(form, args) == [form |-> form, args |-> args]
InvForms == CallForms \ {"bind"}                \* binding is how the function value is made (mk), not how it is invoked
Callee(mk, pre, pre2) == [mk |-> mk, pre |-> pre, pre2 |-> pre2]
SP == VStr(U("p"))
SQ == VStr(U("q"))
Callees == {Callee("direct", <<>>, <<>>),
            Callee("bind", <<>>, <<>>), Callee("bind", <<SP>>, <<>>), Callee("bind", <<SP, Undef>>, <<>>),
            Callee("bindbind", <<>>, <<SQ>>), Callee("bindbind", <<SP>>, <<>>), Callee("bindbind", <<SP>>, <<SQ, VInt(8)>>)}
ThisVals == {Null, VInt(5), VObj(<<OP(U("t"), VInt(1))>>)}
Arities == 0..2
ArgsAt(n, ar) == SubSeq(<<VInt(10 * n + 1), VStr(<<115, 48 + n>>)>>, 1, ar)
\* the callable's return values, call after call (cyclic): distinct, with falsy ones and None in between
RetCycle == <<PySmall(101), PySmall(0), PyStr(U("r3")), PyNone, PyBool(FALSE), PyStr(<<>>), PyFloat(W1p5)>>
RECURSIVE Hists(_)
Hists(n) == IF n = 0 THEN {<<>>}
            ELSE {Append(hh, Inv(f, ArgsAt(n, ar))) : hh \in Hists(n - 1), f \in InvForms, ar \in Arities}
CalleeOK(c) == /\ c.mk \in {"direct", "bind", "bindbind"}
               /\ (c.mk = "direct" => c.pre = <<>>) /\ (c.mk # "bindbind" => c.pre2 = <<>>)
\* coverage law of the grid (both tiers enumerate the full product of these sets; only L differs): every way of making the
\* function value, with and without pre-filled arguments at either stage, every invocation form, every arity
ASSUME /\ \A c \in Callees : CalleeOK(c)
       /\ {c.mk : c \in Callees} = {"direct", "bind", "bindbind"}
       /\ \E c \in Callees : c.mk = "bind" /\ c.pre = <<>>
       /\ \E c \in Callees : c.mk = "bind" /\ Len(c.pre) >= 2
       /\ \E c \in Callees : c.mk = "bindbind" /\ c.pre = <<>> /\ c.pre2 # <<>>
       /\ \E c \in Callees : c.mk = "bindbind" /\ c.pre # <<>> /\ c.pre2 = <<>>
       /\ \E c \in Callees : c.mk = "bindbind" /\ c.pre # <<>> /\ c.pre2 # <<>>
       /\ InvForms = {"call", "method", "fcall", "apply", "foreach", "map"}
       /\ {tv.k : tv \in ThisVals} = {"null", "num", "obj"}
       /\ Len(RetCycle) > 2 * 3                      \* no value repeats within a history of three map invocations
EnumCInit == /\ ph = "enumC" /\ cur \in {[c |-> c, tv |-> tv, sp |-> sp] : c \in Callees, tv \in ThisVals, sp \in BOOLEAN}
             /\ ehist = <<>> /\ est = <<>> /\ eheld = <<>> /\ rec_i = 0
EnumCNext == /\ ph = "enumC" /\ ph' = "enumC2"
             /\ \E hh \in Hists(L) : cur' = <<ECallSeq(cur.c.mk, cur.tv, cur.c.pre, cur.c.pre2, hh, RetCycle, cur.sp)>>
             /\ UNCHANGED <<ehist, est, eheld, rec_i>>
EnumCEmit == ph # "enumC2" \/ (PrintT(ToJson([t |-> cur])) /\ FALSE)

\* ---------------- Enum (P): property histories of one object ----------------------------------------
\* "plain objects to dicts of own DATA properties" quantifies over objects, and which of an object's properties are data
\* properties is the outcome of a HISTORY: a name may be created by the literal / by Context.set / by Object.create, assigned,
\* redefined as a data property, redefined as an accessor (getter only, setter only, both; Object.defineProperty or
\* Object.defineProperties), deleted and created again.  ONE object (held by a name, or nested in the array held by the name)
\* goes through ALL sequences of exactly L such steps on a name that starts as a data property and on a name that does not
\* exist; the conversion is then observed by get / eval, with the aliasing probes.  The value written by step n carries n.
\* Descriptors always say enumerable / configurable (/ writable): the engine documents no attributes, ECMA-262 defaults to
\* false, so only the fully permissive descriptor means the same in both.
EDefProps(nm, path, steps) == [op |-> "defprops", nm |-> nm, path |-> path, steps |-> steps]
ECreate(nm, wrap, descs)   == [op |-> "evalcreate", nm |-> nm, wrap |-> wrap, descs |-> descs]
PStep(act, via, n, v) == [act |-> act, via |-> via, n |-> n, v |-> v]
PActs == {"assign", "delete", "data", "get", "set", "getset"}
DefineActs == {"data", "get", "set", "getset"}
AccActs == {"get", "set", "getset"}
PVias == {"one", "many"}                       \* Object.defineProperty / Object.defineProperties
PActVias == {<<a, "one">> : a \in PActs} \cup {<<a, "many">> : a \in DefineActs}
PNames == {U("x"), U("z")}                     \* x: a data property of the base object; z: not a property of it
PValAt(n) == VArr(<<VInt(n), VObj(<<OP(U("k"), VInt(n))>>)>>)
RECURSIVE PHists(_)
PHists(n) == IF n = 0 THEN {<<>>}
             ELSE {Append(hh, PStep(av[1], av[2], pn, PValAt(n))) : hh \in PHists(n - 1), av \in PActVias, pn \in PNames}
PBasePy == D(<<KV(PyStr(U("x")), PySmall(1)), KV(PyStr(U("y")), PyList(<<PySmall(2)>>))>>)
PBaseJs == VObj(<<OP(U("x"), VInt(1)), OP(U("y"), VArr(<<VInt(2)>>))>>)
PBaseDescs == <<PStep("data", "many", U("x"), VInt(1)), PStep("data", "many", U("y"), VArr(<<VInt(2)>>)), PStep("get", "many", U("w"), Undef)>>
PBases == {"pyset", "lit", "create"}           \* where the object comes from: Context.set(dict) / a literal / Object.create(proto, descriptors)
PPaths == {"top", "first"}                     \* the object is the value of the name / the first element of the array the name holds
PBaseEvent(base, path) ==
  CASE base = "pyset"  -> ESet("a", IF path = "top" THEN PBasePy ELSE PyList(<<PBasePy>>))
    [] base = "lit"    -> EEvalSet("a", IF path = "top" THEN PBaseJs ELSE VArr(<<PBaseJs>>))
    [] base = "create" -> ECreate("a", path = "first", PBaseDescs)
PTrace(base, path, hh) == <<PBaseEvent(base, path), EDefProps("a", path, hh), EGet("a"), EName("a"), EMutRet("a"), EGet("a"), EName("a")>>
\* quick: a sub-grid of (base, path) that still contains every base and every path; thorough: the full product
PGrid == IF Quick THEN {<<"pyset", "top">>, <<"lit", "first">>, <<"create", "top">>, <<"lit", "top">>} ELSE PBases \X PPaths
ASSUME /\ PGrid \subseteq PBases \X PPaths                                   \* coverage law of the sub-grid
       /\ {g[1] : g \in PGrid} = PBases /\ {g[2] : g \in PGrid} = PPaths
       /\ {av[1] : av \in PActVias} = PActs /\ \A a \in DefineActs : \A via \in PVias : <<a, via>> \in PActVias
       /\ \E d \in 1..Len(PBaseDescs) : PBaseDescs[d].act \in AccActs
EnumPInit == /\ ph = "enumP" /\ cur \in {[b |-> g[1], pa |-> g[2], s1 |-> s1] : g \in PGrid, s1 \in PHists(1)}
             /\ ehist = <<>> /\ est = <<>> /\ eheld = <<>> /\ rec_i = 0
EnumPNext == /\ ph = "enumP" /\ ph' = "enumP2"
             /\ \E hh \in {q \in PHists(L) : q[1] = cur.s1[1]} : cur' = PTrace(cur.b, cur.pa, hh)
             /\ UNCHANGED <<ehist, est, eheld, rec_i>>
EnumPEmit == ph # "enumP2" \/ (PrintT(ToJson([t |-> cur])) /\ FALSE)

\* ---------------- Enum (D): declaration histories of one name (round 4) --------------------------------
\* "for all interleavings of set / eval / get on one context": the evals of an interleaving are SCRIPTS, and a script can
\* mention a name without assigning it.  A program-level `var nm` (no initialiser; at the top level, in a block that runs or
\* does not run, in a for / for-in head, in a switch case, under a label, in try, in a list of declarators, in the source
\* given to a script-level eval) CREATES the binding as undefined when the name is not bound and is NO OPERATION on a
\* name that is bound - whatever the value is.  A declaration or parameter of that name inside a function, a catch
\* parameter, typeof, or a declaration of another name do nothing to it.  ONE name - not bound / bound by Context.set /
\* bound by an earlier script - over a grid of values that contains every falsy one of every kind, goes through ALL
\* sequences of exactly L such evals; get + eval(name) after every step, the script's own view at the end.
EDecl(nm, form) == [op |-> "evaldecl", nm |-> nm, form |-> form]
\* form |-> what it does to the binding of the name: "declare" (create as undefined unless bound) | "none"
DeclEffect == [var |-> "declare", block |-> "declare", deadblock |-> "declare", forinit |-> "declare", forin |-> "declare",
               multi |-> "declare", trycatch |-> "declare", while |-> "declare", switch |-> "declare", labeled |-> "declare",
               evalvar |-> "declare", selfinit |-> "declare",
               other |-> "none", fnlocal |-> "none", fnparam |-> "none", typeof |-> "none", catchparam |-> "none",
               fndecl |-> "none", newfunc |-> "none"]
DeclForms == DOMAIN DeclEffect
DeclFormsSub == {"var", "deadblock", "forinit", "evalvar", "selfinit", "fnlocal", "typeof"}
DFormsName == IF "DFORMS" \in DOMAIN IOEnv THEN IOEnv.DFORMS ELSE "all"
DForms == IF DFormsName = "all" THEN DeclForms ELSE DeclFormsSub
DHeldPy == {PyNone, PyBool(TRUE), PyBool(FALSE), PySmall(0), PySmall(1), PyFloat(WPosZero), PyFloat(WNegZero), PyFloat(W1p5),
            PyFloat(WNaN), PyStr(<<>>), PyStr(U("a")), PyList(<<>>), D(<<>>), PyList(<<PySmall(0)>>),
            D(<<KV(PyStr(U("k")), PyBool(FALSE))>>), I2p53p1}
DHeldJs == {Undef, Null, VBool(FALSE), VBool(TRUE), VInt(0), VNumW(WNegZero), VNumW(WNaN), VInt(7), VStr(<<>>), VStr(U("a")),
            VArr(<<>>), VObj(<<>>), VArr(<<VInt(0), Null>>)}
DBases == {<<>>} \cup {<<ESet("a", v)>> : v \in DHeldPy} \cup {<<EEvalSet("a", e)>> : e \in DHeldJs}
RECURSIVE DHists(_)
DHists(n) == IF n = 0 THEN {<<>>} ELSE {Append(hh, f) : hh \in DHists(n - 1), f \in DForms}
DSteps(hh) == Flatten([n \in 1..Len(hh) |-> <<EDecl("a", hh[n]), EGet("a"), EName("a")>>])
DTrace(base, hh) == base \o DSteps(hh) \o (IF base = <<>> THEN <<>> ELSE <<EView("a"), EMutRet("a"), EGet("a")>>)
\* coverage law: the sub-grid of forms used for the longer histories has both effects, a declaration in code that does not
\* run and one in code that runs, one inside eval source; the value grids contain every falsy value of every kind
ASSUME /\ DeclFormsSub \subseteq DeclForms /\ {DeclEffect[f] : f \in DeclFormsSub} = {"declare", "none"}
       /\ {DeclEffect[f] : f \in DeclForms} = {"declare", "none"}
       /\ {PyNone, PyBool(FALSE), PySmall(0), PyFloat(WPosZero), PyFloat(WNegZero), PyFloat(WNaN), PyStr(<<>>), PyList(<<>>), D(<<>>)} \subseteq DHeldPy
       /\ {Undef, Null, VBool(FALSE), VInt(0), VNumW(WNegZero), VNumW(WNaN), VStr(<<>>), VArr(<<>>), VObj(<<>>)} \subseteq DHeldJs
       /\ \E v \in DHeldPy : v.k = "bool" /\ v.b /\ \E w \in DHeldPy : w.k = "str" /\ w.u # <<>>
EnumDInit == /\ ph = "enumD" /\ cur \in DBases /\ ehist = <<>> /\ est = <<>> /\ eheld = <<>> /\ rec_i = 0
EnumDNext == /\ ph = "enumD" /\ ph' = "enumD2"
             /\ \E hh \in DHists(L) : cur' = DTrace(cur, hh)
             /\ UNCHANGED <<ehist, est, eheld, rec_i>>
EnumDEmit == ph # "enumD2" \/ (PrintT(ToJson([t |-> cur])) /\ FALSE)

\* ---------------- Enum (I): all interleavings on two names ----------------------------------------
\* the value written by event number n carries n; containers are nested so that shallow copies show
ValAt(n) == IF n % 2 = 1 THEN PyList(<<PySmall(n), PyList(<<PySmall(n)>>)>>)
            ELSE D(<<KV(PyStr(U("k")), PySmall(n)), KV(PyStr(U("n")), D(<<KV(PyStr(U("k")), PySmall(n))>>))>>)
LitAt(n) == IF n % 2 = 1 THEN VArr(<<VInt(n), VArr(<<VInt(n)>>)>>)
            ELSE VObj(<<OP(U("k"), VInt(n)), OP(U("n"), VObj(<<OP(U("k"), VInt(n))>>))>>)
AlphabetName == IF "ALPHABET" \in DOMAIN IOEnv THEN IOEnv.ALPHABET ELSE "small"
Ops == IF AlphabetName = "small" THEN {"set", "get", "evalname", "evalmut"}
       ELSE {"set", "get", "evalname", "evalmut", "mutret", "mutpassed"}
EnumIInit == /\ ph = "enumI" /\ cur = <<>> /\ ehist = <<>> /\ est = NewStore(Names) /\ eheld = [nm \in Names |-> FALSE] /\ rec_i = 0
EnumINext ==
  /\ ph = "enumI"
  /\ \E nm \in Names : \E op \in Ops :
       LET n == Len(ehist) + 1 IN
       /\ (op = "evalmut" => Mutable(est, nm))
       /\ (op = "mutret" => Mutable(est, nm))
       /\ (op = "mutpassed" => eheld[nm])
       /\ est' = CASE op = "set" -> StoreSet(est, nm, ValAt(n), "py")
                   [] op = "evalmut" -> StoreMut(est, nm, n)
                   [] OTHER -> est
       /\ eheld' = IF op = "set" THEN [eheld EXCEPT ![nm] = TRUE] ELSE eheld
       /\ ehist' = Append(ehist, IF op = "evalmut" THEN <<op, nm, IF est[nm].k = "arr" THEN "push" ELSE "prop">> ELSE <<op, nm>>)
  /\ UNCHANGED <<ph, cur, rec_i>>
\* the driver looks the values up in this table: the specification stays the only source of values
ASSUME PrintT(ToJson([vals |-> [n \in 1..8 |-> ValAt(n)]]))
EnumIEmit == Len(ehist) < L \/ (PrintT(ToJson([h |-> ehist])) /\ FALSE)

\* ---------------- Judge ---------------------------------------------------------------------------
Recs == ndJsonDeserialize(IOEnv.OBS_FILE)          \* [tid, ev: <<event + observation>>]
\* README: "To return objects that JavaScript can use, return JSObject instances" - a documented restriction:
\* a list / dict returned by an exposed callable may also arrive unconverted (the statement wants it converted;
\* both are accepted, DESIGN 4.4 / HARNESS rule 1)
RetAccept(ret, got, ks) == RetOK(ret, got, ks) \/ (ret.k \in {"list", "dict"} /\ got.k = "hostval" /\ got.t = ret.k)
ExpectedCalls(form, args) ==
  IF form \in {"foreach", "map"} THEN [i \in 1..Len(args) |-> <<args[i], VInt(i - 1), VArr(args)>>]
  ELSE <<args>>
CallsOK(exp, got) == /\ Len(exp) = Len(got)
                     /\ \A i \in 1..Len(exp) : Len(exp[i]) = Len(got[i]) /\ \A j \in 1..Len(exp[i]) : SameJs(exp[i][j], got[i][j])
GotOK(form, nargs, ret, got, ks) ==
  CASE form = "foreach" -> got.k = "undef"
    [] form = "map" -> got.k = "arr" /\ Len(got.e) = nargs /\ \A i \in 1..nargs : RetAccept(ret, got.e[i], ks)
    [] OTHER -> RetAccept(ret, got, ks)

\* call histories: every call receives the pre-filled arguments followed by the arguments of ITS invocation, nothing else
Prefill(ev) == CASE ev.mk = "direct" -> <<>> [] ev.mk = "bind" -> ev.pre [] OTHER -> ev.pre \o ev.pre2
InvCalls(pf, iv) == IF iv.form \in {"foreach", "map"} THEN [ix \in 1..Len(iv.args) |-> pf \o <<iv.args[ix], VInt(ix - 1), VArr(iv.args)>>]
                    ELSE <<pf \o iv.args>>
RECURSIVE SeqCalls(_, _)
SeqCalls(pf, inv) == IF inv = <<>> THEN <<>> ELSE InvCalls(pf, Head(inv)) \o SeqCalls(pf, Tail(inv))
NCalls(iv) == IF iv.form \in {"foreach", "map"} THEN Len(iv.args) ELSE 1
RECURSIVE CallsBefore(_, _)
CallsBefore(inv, n) == IF n <= 1 THEN 0 ELSE CallsBefore(inv, n - 1) + NCalls(inv[n - 1])
RetAt(rets, n) == rets[((n - 1) % Len(rets)) + 1]                  \* what the callable returned on its n-th call
SeqGotOK(ev, ks) ==
  /\ Len(ev.gots) = Len(ev.inv)
  /\ \A n \in 1..Len(ev.inv) :
       LET iv == ev.inv[n]  g == ev.gots[n]  off == CallsBefore(ev.inv, n)
       IN CASE iv.form = "foreach" -> g.k = "undef"
            [] iv.form = "map" -> g.k = "arr" /\ Len(g.e) = Len(iv.args) /\ \A jx \in 1..Len(iv.args) : RetAccept(RetAt(ev.rets, off + jx), g.e[jx], ks)
            [] OTHER -> RetAccept(RetAt(ev.rets, off + 1), g, ks)
SeqSupported(ev) == /\ ev.mk \in {"direct", "bind", "bindbind"} /\ Len(ev.rets) >= 1
                    /\ \A n \in 1..Len(ev.inv) : ev.inv[n].form \in InvForms

\* property histories: the object's own data properties after a sequence of steps.  An accessor of that name takes an
\* assignment (the setter runs, or the write is refused / ignored: no data property either way); a data descriptor makes a
\* data property whatever was there; an accessor descriptor (any of get / set / both) makes the name an accessor whatever
\* was there; delete removes either kind.
ObjDel(p, n) == SelectSeq(p, LAMBDA q : q.n # n)
PropStep(s, stp) ==
  CASE stp.act = "assign" -> IF stp.n \in s.acc THEN s ELSE [p |-> ObjSet(s.p, stp.n, stp.v), acc |-> s.acc]
    [] stp.act = "data"   -> [p |-> ObjSet(s.p, stp.n, stp.v), acc |-> s.acc \ {stp.n}]
    [] stp.act \in AccActs -> [p |-> ObjDel(s.p, stp.n), acc |-> s.acc \cup {stp.n}]
    [] stp.act = "delete" -> [p |-> ObjDel(s.p, stp.n), acc |-> s.acc \ {stp.n}]
RECURSIVE PropRun(_, _, _)
PropRun(s, steps, n) == IF n > Len(steps) THEN s ELSE PropRun(PropStep(s, steps[n]), steps, n + 1)
StepsSupported(steps) == \A n \in 1..Len(steps) : steps[n].act \in PActs /\ steps[n].via \in PVias /\ (steps[n].via = "many" => steps[n].act \in DefineActs)
PTargetOK(st, nm, path) == IF path = "top" THEN st[nm].k = "obj"
                           ELSE path = "first" /\ st[nm].k = "arr" /\ Len(st[nm].e) >= 1 /\ st[nm].e[1].k = "obj"
DefPropsStore(st, ev) ==
  LET tgt == IF ev.path = "top" THEN st[ev.nm] ELSE st[ev.nm].e[1]
      obj == VObj(PropRun([p |-> tgt.p, acc |-> {}], ev.steps, 1).p)
  IN [st EXCEPT ![ev.nm] = IF ev.path = "top" THEN obj ELSE VArr(<<obj>> \o Tail(st[ev.nm].e))]
DescsSupported(descs) == /\ \A n \in 1..Len(descs) : descs[n].act \in DefineActs
                         /\ \A n \in 1..Len(descs) : \A m \in 1..Len(descs) : n # m => descs[n].n # descs[m].n
CreateStore(st, ev) ==
  LET obj == VObj(PropRun([p |-> <<>>, acc |-> {}], ev.descs, 1).p)
  IN [st EXCEPT ![ev.nm] = IF ev.wrap THEN VArr(<<obj>>) ELSE obj]

\* one event: [st (store after), good, clause, exp]
R(st, good, clause, exp) == [st |-> st, good |-> good, clause |-> clause, exp |-> exp]
ValueOK(exp, ev) == ev.o = "value" /\ XEqPy(exp, ev.out)
AdoptObs(st, nm, ev, ks) == IF ev.o = "value" /\ PySupported(ev.out) THEN StoreSet(st, nm, ev.out, ks) ELSE st
JStep(ev, st, ks) ==
  CASE ev.op = "set" -> R(StoreSet(st, ev.nm, ev.v, ks), ev.o = "value", "set-failed", PyNone)
    [] ev.op = "get" -> LET exp == StoreGet(st, ev.nm)  g == ValueOK(exp, ev)
                        IN R(IF g THEN st ELSE AdoptObs(st, ev.nm, ev, ks), g, "get", exp)
    [] ev.op = "evalname" ->
         IF st[ev.nm].k = "unset" THEN R(st, ev.o = "jserror", "unset-name", PyNone)
         ELSE LET exp == StoreGet(st, ev.nm)  g == ValueOK(exp, ev)
              IN R(IF g THEN st ELSE AdoptObs(st, ev.nm, ev, ks), g, "evalname", exp)
    [] ev.op = "jsview" -> R(st, ev.o = "value" /\ JsMatches(st[ev.nm], ev.got), "jsview", StoreGet(st, ev.nm))
    [] ev.op = "evalexpr" -> LET exp == ToPy(ev.e) IN R(st, ValueOK(exp, ev), "evalexpr", exp)
    [] ev.op = "evalset" -> R([st EXCEPT ![ev.nm] = ev.e], ev.o = "value", "evalset-failed", PyNone)
    [] ev.op = "evalmut" -> R(StoreMut(st, ev.nm, ev.x), ev.o = "value", "evalmut-failed", PyNone)
    [] ev.op = "evaldecl" ->
         IF ev.form \notin DeclForms THEN R(st, FALSE, "unsupported", PyNone)
         ELSE R(IF DeclEffect[ev.form] = "declare" /\ st[ev.nm].k = "unset" THEN [st EXCEPT ![ev.nm] = Undef] ELSE st,
                ev.o = "value", "evaldecl-failed", PyNone)
    [] ev.op \in {"mutret", "mutpassed"} -> R(st, ev.o = "value", "mutate-failed", PyNone)      \* no effect on the store of copies
    [] ev.op = "hostcall" ->
         LET exp == ExpectedCalls(ev.form, ev.args)
         IN IF ev.o # "value" THEN R(st, FALSE, "call-failed", PyNone)
            ELSE IF ~CallsOK(exp, ev.calls) THEN R(st, FALSE, "call-arguments", PyNone)
            ELSE R(st, GotOK(ev.form, Len(ev.args), ev.ret, ev.got, ks), "call-return", PyNone)
    [] ev.op = "defprops" ->
         IF ~(StepsSupported(ev.steps) /\ PTargetOK(st, ev.nm, ev.path)) THEN R(st, FALSE, "unsupported", PyNone)
         ELSE R(DefPropsStore(st, ev), ev.o = "value", "defprops-failed", PyNone)
    [] ev.op = "evalcreate" ->
         IF ~DescsSupported(ev.descs) THEN R(st, FALSE, "unsupported", PyNone)
         ELSE R(CreateStore(st, ev), ev.o = "value", "evalcreate-failed", PyNone)
    [] ev.op = "callseq" ->
         IF ~SeqSupported(ev) THEN R(st, FALSE, "unsupported", PyNone)
         ELSE IF ev.o # "value" THEN R(st, FALSE, "callseq-failed", PyNone)
         ELSE IF ~CallsOK(SeqCalls(Prefill(ev), ev.inv), ev.calls) THEN R(st, FALSE, "callseq-arguments", PyNone)
         ELSE R(st, SeqGotOK(ev, ks), "callseq-return", PyNone)
    [] OTHER -> R(st, FALSE, "unsupported", PyNone)
RECURSIVE JRun(_, _, _, _, _, _)
JRun(evs, n, st, ok, why, ks) ==
  IF n > Len(evs) THEN [ok |-> ok, why |-> why]
  ELSE LET r == JStep(evs[n], st, ks)
       IN JRun(evs, n + 1, r.st, ok /\ r.good,
               IF ok /\ ~r.good THEN [at |-> n, clause |-> r.clause, exp |-> r.exp] ELSE why, ks)
NoWhy == [at |-> 0, clause |-> "", exp |-> PyNone]
Verdict(tr) ==
  LET p == JRun(tr.ev, 1, NewStore(Names), TRUE, NoWhy, "py")
  IN IF p.ok THEN [v |-> "pass", why |-> NoWhy, dev |-> ""]
     ELSE IF p.why.clause = "unsupported" THEN [v |-> "unsupported", why |-> p.why, dev |-> ""]
     ELSE LET q == JRun(tr.ev, 1, NewStore(Names), TRUE, NoWhy, "json")
          IN IF q.ok THEN [v |-> "pass", why |-> NoWhy, dev |-> ""]
             ELSE [v |-> "mismatch", why |-> p.why, dev |-> ""]
JudgeInit == /\ rec_i \in 1..Len(Recs) /\ ph = "judge" /\ cur = <<>> /\ ehist = <<>> /\ est = <<>> /\ eheld = <<>>
             /\ LET tr == Recs[rec_i]  v == Verdict(tr)
                IN PrintT(ToJson([tid |-> tr.tid, v |-> v.v, why |-> v.why, dev |-> v.dev]))
JudgeNext == UNCHANGED vars
=============================================================================
