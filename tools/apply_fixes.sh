#!/bin/bash
# tools/apply_fixes.sh name1 name2 ...   (names without extension, in /verif/proposed_fixes)
# applies each patch to /tmp/wt_lead (branch lead-fixes), runs the baseline, commits with the .txt subject,
# then fast-forwards /repo main.  Stops at the first failure.
set -u
[ -d /tmp/wt_lead ] || git -C /repo worktree add -q -B lead-fixes /tmp/wt_lead main   # scratch worktree for fixes (removed at the end of a session)
cd /tmp/wt_lead || exit 2
git merge -q --ff-only main 2>/dev/null
for n in "$@"; do
  p=/verif/proposed_fixes/$n.patch; t=/verif/proposed_fixes/$n.txt
  if ! git apply --check "$p" 2>/dev/null; then
     if git apply --3way "$p" 2>/dev/null; then echo "3way $n"; else echo "CONFLICT $n"; git checkout -q -- . ; exit 1; fi
  else git apply "$p"; fi
  if python3 /verif/tools/baseline_check.py /tmp/wt_lead | tee /root/scratch/bl.out | grep -q "missing 0"; then
     git add -A; git commit -qm "$(head -1 $t)"; echo "applied $n -> $(git log --format=%h -1)"
     mkdir -p /verif/proposed_fixes/applied; mv "$p" "$t" /verif/proposed_fixes/applied/
  else echo "BASELINE-FAIL $n: $(cat /root/scratch/bl.out)"; git checkout -q -- .; git clean -fdq; exit 1; fi
done
cd /repo && git merge -q --ff-only lead-fixes && echo "merged: $(git log --format=%h -1)"
