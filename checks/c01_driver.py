"""C01 driver: renders (loop, place, wrap) to a script and runs it under the virtual clock."""

SUBJ = "'" + "a" * 28 + "c'"


TINY = {
    "replaceAll_empty": "'abc'.replaceAll('', '-').length", "replaceAll_empty_fn": "'abc'.replaceAll('', function(){ return '-' }).length",
    "replace_empty": "'abc'.replace('', '-').length", "split_empty": "'abc'.split('').length", "split_empty_rx": "'abc'.split(/(?:)/).length",
    "split_lookahead": "'abc'.split(/(?=b)/).length", "match_empty_g": "'abc'.match(/x*/g).length", "replace_empty_rx_g": "'abc'.replace(/x*/g, '-').length",
    "replaceAll_empty_rx": "'abc'.replaceAll(/(?:)/g, '-').length", "search_empty": "'abc'.search('')", "indexOf_empty_far": "'abc'.indexOf('', 99)",
    "lastIndexOf_empty": "'abc'.lastIndexOf('')", "repeat_zero": "'abc'.repeat(0).length", "repeat_empty_big": "''.repeat(1e9).length",
    "padlike_concat": "'a'.concat().length", "join_empty": "[].join('').length", "slice_nan": "'abc'.slice(NaN, NaN).length",
    "substring_swap": "'abc'.substring(5, -5).length", "exec_empty_g_loop": "(function(){ var r = /x*/g, n = 0; while (r.exec('ab') && n < 5) { n++; if (r.lastIndex === 0) break; r.lastIndex++ } return n })()",
    "test_sticky_empty": "(/(?:)/y.test('') ? 1 : 0)", "matchall_like": "'aXbX'.split('X').length", "array_splice_zero": "[1,2,3].splice(1, 0).length",
    "array_fill_like": "[].concat([], []).length", "array_indexOf_nan": "[NaN].indexOf(NaN)", "sort_equal": "[1,1,1].sort(function(){ return 0 }).length",
    "stringify_empty": "JSON.stringify({}).length", "parse_ws": "JSON.parse('  [ ]  ').length", "toFixed_zero": "(0).toFixed(0).length",
    "parseInt_empty": "(isNaN(parseInt('')) ? 1 : 0)", "trim_ws_only": "'   '.trim().length", "includes_empty": "('abc'.includes('') ? 1 : 0)",
    "startsWith_empty_far": "('abc'.startsWith('', 99) ? 1 : 0)", "charAt_big": "'abc'.charAt(1e9).length", "fromCharCode_none": "String.fromCharCode().length",
    "concat_none": "[].concat().length", "keys_empty": "Object.keys({}).length", "reduce_single": "[5].reduce(function(a, b){ return a + b })",
}


def loop_src(loop, finite):
    """statement(s) that keep running (or, finite twin, stop after a few hundred steps); leaves a number in r"""
    if loop.startswith("tiny_"):
        return "r = %s;" % TINY[loop[5:]]
    if loop == "while":
        return "var i=0; while (%s) { i++ } r = i;" % ("i<40" if finite else "true")
    if loop == "for":
        return "for (var i=0; %s; i++) { r = i }" % ("i<40" if finite else "")
    if loop == "dowhile":
        return "var i=0; do { i++ } while (%s); r = i;" % ("i<40" if finite else "true")
    if loop == "labelled":
        return "var i=0; out: while (%s) { i++; while (true) { continue out } } r = i;" % ("i<40" if finite else "true")
    if loop == "recursion":
        return "var rec = function (n) { return %s rec(n+1) }; r = rec(0);" % ("n>30 ? n :" if finite else "")
    if loop == "mutual":
        return "var ra = function (n) { return %s rb(n+1) }; var rb = function (n) { return ra(n+1) }; r = ra(0);" % ("n>30 ? n :" if finite else "")
    if loop == "ctor_recursion":
        # the only control transfer on the cycle is NEW
        return "var F = function (n) { %s new F(n+1) }; new F(0); r = 30;" % ("if (n<30)" if finite else "")
    if loop == "ctor_mutual":
        return "var A = function (n) { %s new B(n+1) }; var B = function (n) { new A(n+1) }; new A(0); r = 30;" % ("if (n<30)" if finite else "")
    if loop == "method_recursion":
        # ... CALL_METHOD
        return "var o = { m: function (n) { return %s this.m(n+1) } }; r = o.m(0);" % ("n>30 ? n :" if finite else "")
    if loop == "ctor_method_mutual":
        return "var P = function (n) { this.n = n; %s this.go() }; P.prototype.go = function () { new P(this.n+1) }; new P(0); r = 30;" % ("if (n<30)" if finite else "")
    if loop == "forof_growing":
        # ... FOR_OF_NEXT over an array the body keeps extending
        return "var a = [1]; var i = 0; for (var x of a) { i++; %s a.push(1) } r = i;" % ("if (i<40)" if finite else "")
    if loop == "switch_continue":
        return "var i=0; while (%s) { switch (i & 1) { case 0: i++; continue; default: i++; continue } } r = i;" % ("i<40" if finite else "true")
    if loop == "logical_for":
        return "var i=0; for (; %s; ) i++; r = i;" % ("i<40 && i>=0" if finite else "i<0 || i>=0")
    if loop == "native_nest":
        # built-ins driving built-ins: no interpreter instruction is executed while the nest runs (60^4 callback calls)
        return ("var a = []; for (var i=0;i<%d;i++) a.push(i); var f = Math.abs; for (var d=0; d<%d; d++) f = a.forEach.bind(a, f); f(); r = a.length;"
                % ((3, 1) if finite else (60, 4)))
    if loop == "native_nest_map":
        return ("var a = []; for (var i=0;i<%d;i++) a.push(i); var f = String; for (var d=0; d<%d; d++) f = a.map.bind(a, f); f(); r = a.length;"
                % ((3, 1) if finite else (40, 5)))
    if loop == "regex_backtrack":
        return "r = /(a+)+b/.test(%s) ? 1 : 0;" % ("'aaab'" if finite else SUBJ)
    if loop == "regex_loop":
        # many short regex calls: no single attempt reaches the regex poll interval
        return "var i=0; var s='%s'; while (%s) { i++; /a{20}b/.test(s) } r = i;" % ("a" * 30, "i<3" if finite else "true")
    if loop == "regex_lookahead":
        return "r = /(?=(a+)+b)a/.test(%s) ? 1 : 0;" % ("'aab'" if finite else SUBJ)
    if loop == "regex_short_runs":
        # a lookbehind is tried from every start position at every position: ~n^2/2 steps in runs of 2-3 steps
        return "var s = 'a'.repeat(%d); r = /(?<=b)c/.test(s) ? 1 : 0;" % (12 if finite else 400)
    if loop == "regex_many_attempts":
        # every attempt of the search fails after ~21 steps: no single run reaches the poll interval
        return "var s = 'aaaaaaaaaaaaaaaaaaaac'.repeat(%d); r = /a{20}b/.test(s) ? 1 : 0;" % (2 if finite else 400)
    if loop == "regex_lookbehind_in_loop":
        return "var s = 'ab'.repeat(%d); r = /(?:(?<=a)b|a)+c/.test(s) ? 1 : 0;" % (4 if finite else 900)
    if loop == "nested_eval_loop":
        return "var i=0; while (%s) { i++; (1,eval)('var q=0; for (var j=0;j<20;j++) q+=j') } r = i;" % ("i<3" if finite else "true")
    if loop.startswith("rx_"):
        _, api, ctor = loop.split("_", 2)
        pat, flags = "(a+)+b", ("g" if api == "replaceAll" else "")
        if ctor == "lookahead_copy":
            pat = "(?=(a+)+b)a"
        lit = "/%s/%s" % (pat, flags)
        rx = {"literal": lit, "RegExp_str": "RegExp('%s', '%s')" % (pat, flags), "new_RegExp_str": "new RegExp('%s', '%s')" % (pat, flags),
              "new_RegExp_regex": "new RegExp(%s)" % lit, "RegExp_regex": "RegExp(%s, '%s')" % (lit, flags),
              "string_pattern": "'%s'" % pat, "lookahead_copy": "new RegExp(%s)" % lit}[ctor]
        ROUTES = {"testdetached": "var t = rx.test; r = t(%s) ? 1 : 0;", "execdetached": "var t = rx.exec; r = t(%s) ? 1 : 0;",
                  "testcall": "r = rx.test.call(rx, %s) ? 1 : 0;", "testapply": "r = rx.test.apply(rx, [%s]) ? 1 : 0;",
                  "sometest": "r = [%s].some(rx.test) ? 1 : 0;", "mapexec": "r = [%s].map(rx.exec)[0] ? 1 : 0;"}
        SROUTES = {"replaceapply": "var q = S.replace.apply(S, [rx, 'z']); r = q.length;", "matchcall": "var q = S.match.call(S, rx); r = q ? 1 : 0;",
                   "splitapply": "var q = S.split.apply(S, [rx]); r = q.length;"}
        if api in ROUTES or api in SROUTES:
            if ctor == "string_pattern" and api in ROUTES:
                rx = "new RegExp(%s)" % rx
            if api in ROUTES:
                return "var rx = %s; %s" % (rx, ROUTES[api] % SUBJ)
            return "var rx = %s; var S = %s; %s" % (rx, SUBJ, SROUTES[api])
        if api in ("test", "exec"):
            if ctor == "string_pattern":
                rx = "new RegExp(%s)" % rx
            return "var rx = %s; r = rx.%s(%s) ? 1 : 0;" % (rx, api, SUBJ)
        if api in ("match", "search", "split"):
            return "var rx = %s; var q = %s.%s(rx); r = q ? 1 : 0;" % (rx, SUBJ, api)
        return "var rx = %s; var q = %s.%s(rx, 'z'); r = q.length;" % (rx, SUBJ, api)
    raise ValueError(loop)


def wrap_src(wrap, L):
    if wrap == "bare":
        return L
    if wrap == "try_catch":
        return "try { %s } catch (e) { r = -1 }" % L
    if wrap == "try_finally":
        return "try { %s } finally { r = -2 }" % L
    if wrap == "try_catch_finally":
        return "try { %s } catch (e) { r = -1 } finally { r = -2 }" % L
    if wrap == "catch_loops_again":
        return "try { %s } catch (e) { while (true) { r = -3 } }" % L
    if wrap == "finally_loops_again":
        return "try { %s } finally { for (var z=0; z<100000; z++) { r = -4 } }" % L
    if wrap == "inner_fn_try":
        return "var guard = function () { try { %s } catch (e) { return -5 } return r }; r = guard();" % L
    raise ValueError(wrap)


def place_src(place, W):
    """W: statements computing r; returns a program whose completion value is r"""
    pre = "var r = 0; "
    if place == "top":
        return pre + W + " r"
    if place == "function":
        return pre + "function f() { %s return r } f()" % W
    if place == "arrow":
        return pre + "var f = () => { %s return r }; f()" % W
    if place == "ctor":
        return pre + "function F() { %s this.v = r } new F().v" % W
    if place.startswith("cb_"):
        m = place[3:]
        if m == "sort":
            return pre + "[2,1].sort(function (a, b) { %s return a - b }); r" % W
        if m in ("reduce", "reduceRight"):
            return pre + "[1,2].%s(function (a, b) { %s return a }); r" % (m, W)
        if m == "in_cb":
            return pre + "[1].forEach(function () { [1].map(function () { %s return 0 }) }); r" % W
        return pre + "[1].%s(function (x) { %s return false }); r" % (m, W)
    if place == "getter":
        return pre + "var o = { get g() { %s return r } }; o.g" % W
    if place == "setter":
        return pre + "var o = { set s(v) { %s } }; o.s = 1; r" % W
    if place == "valueOf":
        return pre + "var o = { valueOf: function () { %s return 1 } }; o + 1; r" % W
    if place == "call":
        return pre + "function f() { %s return r } f.call(null)" % W
    if place == "apply":
        return pre + "function f() { %s return r } f.apply(null, [])" % W
    if place == "bind":
        return pre + "function f() { %s return r } f.bind(null)()" % W
    if place == "eval":
        return pre + "(1,eval)(%s); r" % js_str(W)
    if place == "Function":
        return pre + "new Function(%s)(); r" % js_str(W)
    if place == "eval_in_eval":
        return pre + "(1,eval)(%s); r" % js_str("(1,eval)(%s)" % js_str(W))
    raise ValueError(place)


def js_str(s):
    return "'" + s.replace("\\", "\\\\").replace("'", "\\'") + "'"


def render(c):
    return place_src(c["place"], wrap_src(c["wrap"], loop_src(c["loop"], c["finite"])))


CARRY = {
    # (first evaluation, later evaluation): the later one must return a number
    "carry_regex_literal": ("var rx = /a+b/g; var n = 0; 1", "rx.test('xxaab') ? 1 : 0"),
    "carry_regex_ctor": ("var rx = new RegExp('a+b'); 1", "rx.exec('xxaab') ? 1 : 0"),
    "carry_regex_in_closure": ("var f = (function(){ var rx = /a+b/; return function(s){ return rx.test(s) ? 1 : 0 } })(); 1", "f('aab')"),
    "carry_function": ("function work(k){ var t=0; for (var i=0;i<k;i++) t+=i; return t } 1", "work(50)"),
    "carry_string_method_regex": ("var rx = /a+b/g; 1", "'xaabaab'.replace(rx, 'z').length"),
    "carry_string_pattern": ("'xaab'.match('a+b') ? 1 : 0", "'xaab'.match('a+b') ? 1 : 0"),
    # fresh_*: the later evaluation runs on a NEW context of the same process (nothing may be cached across contexts)
    "fresh_string_pattern": ("'xaab'.search('a+b') + ('xaab'.match('a+b') ? 1 : 0)", "'xaab'.search('a+b') + ('xaab'.match('a+b') ? 1 : 0)"),
    "fresh_regex_literal": ("/a+b/g.test('xaab') ? 1 : 0", "/a+b/g.test('xaab') ? 1 : 0"),
    "fresh_regex_ctor": ("new RegExp('a+b').test('xaab') ? 1 : 0", "new RegExp('a+b').test('xaab') ? 1 : 0"),
}


def driver(case, api):
    T = float(case["t"])
    ctx = api.new_context(time_limit=T, memory_limit=(case["m"] or None))
    if case["loop"] in CARRY:
        first, src = CARRY[case["loop"]]
        pre = api.run(lambda: ctx.eval(first), wall=40.0, cap=3_000_000, tick=1.0, deadline=T)
        api.vclock.now += 3 * T          # virtual time passes between the two evaluations
        start = api.vclock.now
        if case["loop"].startswith("fresh_"):
            ctx = api.new_context(time_limit=T, memory_limit=(case["m"] or None))
        out = api.run(lambda: ctx.eval(src), wall=40.0, cap=int(T) + 3_000_000, tick=1.0, deadline=start + T, keep_clock=True)
        if pre["o"] != "value":
            out = {"o": "host", "type": "PreludeFailed", "where": pre["o"], "steps": 0}
    else:
        src = render(case)
        # virtual clock: one tick per hooked step; the deadline passes after T ticks
        if case.get("prof", "uniform") == "cheap_then_costly":
            # cost profile: the first 60 % of T pass in cheap steps (100 per tick), then every step costs a whole tick.
            # An interpreter that spaces its clock reads by the rate measured so far reads the clock far too late.
            out = api.run(lambda: ctx.eval(src), wall=40.0, cap=int(T) * 100 + 3_000_000, tick=0.01, deadline=T,
                          sched=[(int(T * 0.6 * 100), 1.0)])
        else:
            out = api.run(lambda: ctx.eval(src), wall=40.0, cap=int(T) + 3_000_000, tick=1.0, deadline=T)
    late = dict(api.steps.late)
    res = {"id": case["id"], "finite": bool(case["finite"]), "o": out["o"], "steps": out["steps"], "t": case["t"],
           "lateV": late["main"] + late["cb"] + late.get("native", 0), "lateR": late["re"] + late["la"] + late["lb"],
           "isnum": out["o"] == "value" and isinstance(out.get("pv"), (int, float)) and not isinstance(out.get("pv"), bool),
           "info": (out.get("type", "") + " " + out.get("where", "") + " " + out.get("msg", ""))[:160], "src": src,
           "clockreads": api.vclock.reads}
    return res
