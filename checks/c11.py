"""C11 - values cross the Python/JavaScript boundary faithfully (DESIGN 5/C11)."""
import json, random, struct, time
from harness import tlc, engine, wire
from harness.common import Machinery

LAW_CFG = "INIT LawInit\nNEXT LawNext\nINVARIANT LawsHold\nCONSTANT L = 5\nCHECK_DEADLOCK FALSE\n"
ENUMB_CFG = "INIT EnumBInit\nNEXT EnumBNext\nCONSTANT L = 5\nCHECK_DEADLOCK FALSE\n"
ENUMI_CFG = "INIT EnumIInit\nNEXT EnumINext\nCONSTRAINT EnumIEmit\nCONSTANT L = %d\nCHECK_DEADLOCK FALSE\n"
ENUMC_CFG = "INIT EnumCInit\nNEXT EnumCNext\nCONSTRAINT EnumCEmit\nCONSTANT L = %d\nCHECK_DEADLOCK FALSE\n"
ENUMP_CFG = "INIT EnumPInit\nNEXT EnumPNext\nCONSTRAINT EnumPEmit\nCONSTANT L = %d\nCHECK_DEADLOCK FALSE\n"
ENUMD_CFG = "INIT EnumDInit\nNEXT EnumDNext\nCONSTRAINT EnumDEmit\nCONSTANT L = %d\nCHECK_DEADLOCK FALSE\n"
JUDGE_CFG = "INIT JudgeInit\nNEXT JudgeNext\nCONSTANT L = 5\nCHECK_DEADLOCK FALSE\n"


# ---------------- seeded generators: spec-level JSON only (pw values, wire values, events) -------------
def pw_int(n):
    m, limbs = abs(n), []
    while m:
        limbs.append(m & 0xFFFF)
        m >>= 16
    return {"k": "int", "sg": 1 if n < 0 else 0, "m": limbs}


def pw_str(u):
    return {"k": "str", "u": list(u)}


def rnd_units(rng):
    n = rng.choice([0, 1, 1, 2, 3, 5, 9])
    u = []
    for _ in range(n):
        c = rng.random()
        if c < 0.5:
            u.append(rng.randrange(32, 127))
        elif c < 0.65:
            u.append(rng.choice([0, 9, 10, 13, 34, 39, 92, 127, 160, 233, 8232, 8233, 65279, 65535, 12354]))
        elif c < 0.8:
            u.append(rng.randrange(128, 55296))
        elif c < 0.9:
            u += [rng.randrange(55296, 56320), rng.randrange(56320, 57344)]      # one non-BMP character
        else:
            u.append(rng.randrange(55296, 57344))                                   # lone surrogate
    return u


def rnd_float_words(rng):
    c = rng.random()
    if c < 0.25:
        return rng.choice([[32760, 0, 0, 0], [32752, 0, 0, 0], [65520, 0, 0, 0], [32768, 0, 0, 0], [0, 0, 0, 0],
                           [0, 0, 0, 1], [32768, 0, 0, 1], [32751, 65535, 65535, 65535], [65528, 0, 0, 7], [16, 0, 0, 0]])
    if c < 0.5:
        return wire.dbl_words(rng.choice([1, -1, 2, 3, 0.5, 1.5, -2.25, 0.1, 1e21, 1e-7, 2.0 ** 53, 2.0 ** 53 + 2, -2.0 ** 63, 1e308, 123456.789]))
    if c < 0.7:
        return wire.dbl_words(float(rng.randrange(-1000, 1000)))
    return [rng.randrange(65536) for _ in range(4)]


def rnd_int(rng):
    c = rng.random()
    if c < 0.3:
        return rng.randrange(-100, 100)
    if c < 0.6:
        b = rng.choice([15, 16, 31, 32, 52, 53, 54, 63, 64, 65])
        return rng.choice([1, -1]) * (2 ** b + rng.choice([-2, -1, 0, 1, 2, 3]))
    return rng.choice([1, -1]) * rng.getrandbits(rng.randrange(1, 71))


SPECIAL_NAMES = ["__proto__", "constructor", "prototype", "toString", "valueOf", "hasOwnProperty", "length", "get", "set",
                 "__defineGetter__", "__lookupGetter__", "isPrototypeOf", "toJSON", "then", "caller", "arguments", "name"]


def rnd_key(rng, allow01):
    c = rng.random()
    if c < 0.06:
        return pw_str(wire.units(rng.choice(SPECIAL_NAMES)))     # ordinary JSON text that means something to a script
    if c < 0.6:
        return pw_str(rnd_units(rng))
    if c < 0.8:
        n = rng.choice([rng.randrange(2, 65536), -rng.randrange(1, 65536), 2, 10])
        if allow01 and rng.random() < 0.3:
            n = rng.choice([0, 1])
        return pw_int(n)
    if c < 0.9 and not allow01:
        return {"k": "bool", "b": rng.random() < 0.5}
    return {"k": "none"}


def rnd_py(rng, depth):
    c = rng.random()
    if depth <= 0 or c < 0.45:
        c = rng.random()
        if c < 0.1:
            return {"k": "none"}
        if c < 0.25:
            return {"k": "bool", "b": rng.random() < 0.5}
        if c < 0.5:
            return pw_int(rnd_int(rng))
        if c < 0.75:
            return {"k": "float", "w": rnd_float_words(rng)}
        return pw_str(rnd_units(rng))
    if c < 0.72:
        n = rng.choice([0, 1, 2, 2, 3, 5])
        if n >= 2 and rng.random() < 0.15:
            one = rnd_py(rng, depth - 1)
            return {"k": "list", "e": [one] * n, "sh": True}       # the same Python object n times
        return {"k": "list", "e": [rnd_py(rng, depth - 1) for _ in range(n)]}
    n = rng.choice([0, 1, 2, 3, 4])
    allow01 = rng.random() < 0.5          # a dict has int keys 0/1 or bool keys, never both (1 == True in Python)
    ps, seen = [], set()
    for _ in range(n):
        k = rnd_key(rng, allow01)
        ident = json.dumps(k, sort_keys=True)
        if ident in seen:
            continue
        seen.add(ident)
        ps.append({"kk": k, "v": rnd_py(rng, depth - 1)})
    return {"k": "dict", "p": ps}


def rnd_js_num(rng):
    c = rng.random()
    if c < 0.3:
        return rng.choice([[32760, 0, 0, 0], [32752, 0, 0, 0], [65520, 0, 0, 0], [32768, 0, 0, 0], [0, 0, 0, 0]])
    if c < 0.7:
        return wire.dbl_words(float(rng.choice([rng.randrange(-1000, 1000), 2 ** 31, -2 ** 31, 2 ** 32, 2 ** 53, -2 ** 53, 2 ** 53 - 1])))
    return wire.dbl_words(rng.randrange(-8000, 8000) / 8.0)


def rnd_js(rng, depth, undef=True):
    c = rng.random()
    if depth <= 0 or c < 0.5:
        c = rng.random()
        if c < 0.1 and undef:
            return {"k": "undef"}
        if c < 0.2:
            return {"k": "null"}
        if c < 0.35:
            return {"k": "bool", "b": rng.random() < 0.5}
        if c < 0.7:
            return {"k": "num", "w": rnd_js_num(rng)}
        return {"k": "str", "u": rnd_units(rng)}
    if c < 0.75:
        return {"k": "arr", "e": [rnd_js(rng, depth - 1, undef) for _ in range(rng.choice([0, 1, 2, 3]))]}
    ps, seen = [], set()
    for _ in range(rng.choice([0, 1, 2, 3])):
        u = rnd_units(rng)
        if tuple(u) in seen or u == [95, 95, 112, 114, 111, 116, 111, 95, 95]:      # "__proto__" is special in a literal
            continue
        seen.add(tuple(u))
        ps.append({"n": u, "v": rnd_js(rng, depth - 1, undef)})
    return {"k": "obj", "p": ps}


DECL_FORMS = ["var", "block", "deadblock", "forinit", "forin", "multi", "trycatch", "while", "switch", "labeled", "evalvar", "selfinit",
              "other", "fnlocal", "fnparam", "typeof", "catchparam", "fndecl", "newfunc"]


def round_trip(v):
    return [{"op": "set", "nm": "a", "v": v}, {"op": "jsview", "nm": "a"}, {"op": "get", "nm": "a"}, {"op": "evalname", "nm": "a"},
            {"op": "mutret", "nm": "a"}, {"op": "get", "nm": "a"}, {"op": "evalname", "nm": "a"},
            {"op": "mutpassed", "nm": "a"}, {"op": "get", "nm": "a"}, {"op": "evalname", "nm": "a"}]


def rnd_prop_history(rng):
    """a property history: a literal object (random data properties), 1-5 random steps on a small pool of names, then converted"""
    pool = [wire.units(n) for n in ("x", "y", "z", "k", "length", "constructor")]
    for _ in range(2):
        u = rnd_units(rng)
        if u != wire.units("__proto__") and u not in pool:      # "__proto__" is special in a literal (also in a descriptor map)
            pool.append(u)
    names = rng.sample(pool, rng.choice([0, 1, 2, 3]))
    base = {"k": "obj", "p": [{"n": n, "v": rnd_js(rng, 2)} for n in names]}
    path = rng.choice(["top", "first"])
    steps = []
    for _ in range(rng.choice([1, 2, 3, 4, 5])):
        act = rng.choice(["assign", "delete", "data", "get", "set", "getset"])
        via = rng.choice(["one", "many"]) if act in ("data", "get", "set", "getset") else "one"
        steps.append({"act": act, "via": via, "n": rng.choice(pool), "v": rnd_js(rng, 2)})
    return [{"op": "evalset", "nm": "a", "e": base if path == "top" else {"k": "arr", "e": [base, rnd_js(rng, 1)]}},
            {"op": "defprops", "nm": "a", "path": path, "steps": steps},
            {"op": "get", "nm": "a"}, {"op": "evalname", "nm": "a"}, {"op": "mutret", "nm": "a"}, {"op": "get", "nm": "a"}]


def random_traces(rng, n):
    out = []
    forms = ["call", "method", "fcall", "apply", "bind", "foreach", "map"]
    for i in range(n):
        c = i % 10
        if c < 5:
            out.append(round_trip(rnd_py(rng, rng.choice([1, 2, 3, 4]))))
        elif c < 7:
            e = rnd_js(rng, rng.choice([1, 2, 3]))
            out.append([{"op": "evalexpr", "form": "lit", "e": e}] if rng.random() < 0.6 or e["k"] not in ("arr", "obj") else
                       [{"op": "evalset", "nm": "b", "e": e}, {"op": "get", "nm": "b"}, {"op": "mutret", "nm": "b"},
                        {"op": "evalname", "nm": "b"}, {"op": "get", "nm": "b"}])
        elif c < 8:
            # two names, a longer mixed history
            evs = []
            for _ in range(rng.randrange(3, 9)):
                nm = rng.choice(["a", "b"])
                k = rng.random()
                if k < 0.35:
                    evs.append({"op": "set", "nm": nm, "v": rnd_py(rng, 2)})
                elif k < 0.55:
                    evs.append({"op": "get", "nm": nm})
                elif k < 0.7:
                    evs.append({"op": "evalname", "nm": nm})
                elif k < 0.8:
                    evs.append({"op": "evalset", "nm": nm, "e": rnd_js(rng, 2)})
                elif k < 0.9:
                    evs.append({"op": "mutpassed", "nm": nm})
                elif k < 0.95:
                    evs.append({"op": "evaldecl", "nm": nm, "form": rng.choice(DECL_FORMS)})
                else:
                    evs.append({"op": "get", "nm": nm})
            out.append(evs)
        elif i % 20 == 9:
            # a call history: one function value, several invocations, random argument vectors and return values
            mk = rng.choice(["direct", "bind", "bind", "bindbind"])
            pre = [rnd_js(rng, 1) for _ in range(rng.choice([0, 1, 2, 3]))] if mk != "direct" else []
            pre2 = [rnd_js(rng, 1) for _ in range(rng.choice([0, 1, 2]))] if mk == "bindbind" else []
            inv = [{"form": rng.choice(["call", "method", "fcall", "apply", "foreach", "map"]),
                    "args": [rnd_js(rng, 2) for _ in range(rng.choice([0, 1, 1, 2, 3, 5]))]} for _ in range(rng.choice([1, 2, 3, 4, 5]))]
            out.append([{"op": "callseq", "mk": mk, "thisv": rnd_js(rng, 1), "pre": pre, "pre2": pre2, "inv": inv,
                         "rets": [rnd_py(rng, rng.choice([0, 0, 1, 2])) for _ in range(rng.choice([1, 2, 3, 7]))],
                         "split": rng.random() < 0.5}])
        elif i % 40 == 19:
            out.append(rnd_prop_history(rng))
        else:
            form = rng.choice(forms)
            args = [rnd_js(rng, 2) for _ in range(rng.choice([0, 1, 2, 3, 4, 6]))]
            if form == "bind" and not args:
                form = "call"
            ret = rnd_py(rng, rng.choice([0, 0, 1, 2]))
            out.append([{"op": "hostcall", "form": form, "args": args, "ret": ret}])
    return out


# ---------------- reporting helpers ---------------------------------------------------------------------
def show_pw(w, depth=0):
    k = w.get("k")
    if depth > 6:
        return "..."
    if k == "none":
        return "None"
    if k == "bool":
        return "True" if w["b"] else "False"
    if k == "int":
        n = sum(int(l) << (16 * i) for i, l in enumerate(w["m"]))
        return str(-n if w["sg"] else n)
    if k == "float":
        return repr(wire.words_dbl(w["w"]))
    if k == "str":
        return ascii(wire.from_units(w["u"]))
    if k == "list":
        return "[" + ", ".join(show_pw(e, depth + 1) for e in w["e"]) + "]" + ("(shared)" if w.get("sh") else "")
    if k == "dict":
        return "{" + ", ".join(show_pw(p["kk"], depth + 1) + ": " + show_pw(p["v"], depth + 1) for p in w["p"]) + "}"
    return "<%s %s>" % (k, w.get("t", ""))


def show_event(ev):
    op = ev["op"]
    if op == "set":
        return "set(%s, %s)" % (ev["nm"], show_pw(ev["v"]))
    if op in ("evalexpr", "evalset"):
        return "%s(%s%s)" % (op, (ev.get("nm", "") + " = ") if op == "evalset" else ev.get("form", "") + " ", wire.show(ev["e"]))
    if op == "callseq":
        mk = {"direct": "h", "bind": "h.bind(%s)", "bindbind": "h.bind(%s).bind(%s)"}[ev["mk"]]
        pres = [", ".join([wire.show(ev["thisv"])] + [wire.show(a) for a in ev[p]]) for p in ("pre", "pre2")]
        mk = mk % tuple(pres[:mk.count("%s")])
        return "callseq[f = %s%s] %s" % (mk, ", one eval per step" if ev["split"] else "",
                                         " ; ".join("%s(%s)" % (iv["form"], ", ".join(wire.show(a) for a in iv["args"])) for iv in ev["inv"]))
    if op == "defprops":
        def one(st):
            n = wire.from_units(st["n"])
            if st["act"] == "assign":
                return "%s = %s" % (n, wire.show(st["v"]))
            if st["act"] == "delete":
                return "delete " + n
            return "%s(%s: %s)" % ("defineProperty" if st["via"] == "one" else "defineProperties", n,
                                   "value " + wire.show(st["v"]) if st["act"] == "data" else st["act"])
        return "defprops[%s%s] %s" % (ev["nm"], "" if ev["path"] == "top" else "[0]", " ; ".join(one(st) for st in ev["steps"]))
    if op == "evalcreate":
        return "evalcreate(%s = %sObject.create(proto, {%s}))" % (ev["nm"], "[..] of " if ev["wrap"] else "", ", ".join(
            "%s: %s" % (wire.from_units(d["n"]), "value " + wire.show(d["v"]) if d["act"] == "data" else d["act"]) for d in ev["descs"]))
    if op == "evaldecl":
        return "evaldecl[%s](%s)" % (ev["form"], ev["nm"])
    if op == "hostcall":
        return "hostcall[%s](%s) returning %s" % (ev["form"], ", ".join(wire.show(a) for a in ev["args"]), show_pw(ev["ret"]))
    return "%s(%s)" % (op, ev.get("nm", ""))


def show_trace(evs):
    return " ; ".join(show_event(e) for e in evs)[:400].encode("ascii", "backslashreplace").decode()


def run(rep):
    T = {}
    t0 = time.time()
    # 1. laws of the Boundary specification
    res = tlc.run(rep.pid, "C11", LAW_CFG, env={"TIER": rep.tier}, timeout=1500, tag="laws", heap="4g")
    rep.add_tlc("C11.Laws(Boundary)", res)
    if res.distinct < 2000:
        raise Machinery("law run covered only %d values" % res.distinct)
    T["laws"] = round(time.time() - t0, 1)
    t0 = time.time()
    # 2. enumeration: boundary traces + all interleavings (kept as text until their chunk is replayed)
    traces = []                  # compact JSON text of one event list each
    res = tlc.run(rep.pid, "C11", ENUMB_CFG, env={"TIER": rep.tier}, timeout=900, tag="enumB", heap="3g")
    rep.add_tlc("C11.Enum(boundary traces)", res)
    seen = set()
    for r in res.records:
        if "t" in r:
            k = json.dumps(r["t"], sort_keys=True, separators=(",", ":"))
            if k not in seen:
                seen.add(k)
                traces.append(k)
    nb = len(traces)
    if nb < 300:
        raise Machinery("boundary enumeration produced only %d traces" % nb)
    rep.spaces.append({"space": "boundary values x (set, script view, get, eval, mutate returned, mutate passed), script results, "
                                "call forms x argument vectors x return values (TLC-enumerated)", "cases": nb, "complete": True})
    plan = [("small", 5)] if rep.tier == "quick" else [("small", 6), ("full", 5)]
    for alpha, length in plan:
        res = tlc.run(rep.pid, "C11", ENUMI_CFG % length, env={"TIER": rep.tier, "ALPHABET": alpha}, timeout=1500,
                      tag="enumI_%s_%d" % (alpha, length), heap="4g")
        rep.add_tlc("C11.Enum(interleavings,%s,L=%d)" % (alpha, length), res)
        vals, seen = None, set()
        for r in res.records:
            if "vals" in r:
                vals = r["vals"]
        if vals is None:
            raise Machinery("the specification did not print its value table")
        n0 = len(traces)
        for r in res.records:
            if "h" not in r:
                continue
            k = json.dumps(r["h"], separators=(",", ":"))
            if k in seen:
                continue
            seen.add(k)
            evs = []
            for n, e in enumerate(r["h"], start=1):
                ev = {"op": e[0], "nm": e[1]}
                if e[0] == "set":
                    ev["v"] = vals[n - 1]           # the specification's table: value written by event n
                elif e[0] == "evalmut":
                    ev["x"], ev["how"] = n, e[2]
                evs.append(ev)
            traces.append(json.dumps(evs, separators=(",", ":")))
        del res
        if len(traces) - n0 < 1000:
            raise Machinery("interleaving enumeration produced %d histories" % (len(traces) - n0))
        rep.spaces.append({"space": "all interleavings of %s on two names, exactly %d events (TLC-enumerated; shorter "
                                    "ones are prefixes)" % ("set/get/eval(name)/eval(mutate)" if alpha == "small" else
                                                            "set/get/eval(name)/eval(mutate)/mutate-returned/mutate-passed", length),
                           "cases": len(traces) - n0, "complete": True})
    # call histories: one function value made from the exposed callable, invoked L times
    hl = 2 if rep.tier == "quick" else 3
    res = tlc.run(rep.pid, "C11", ENUMC_CFG % hl, env={"TIER": rep.tier}, timeout=1500, tag="enumC_%d" % hl, heap="4g")
    rep.add_tlc("C11.Enum(call histories,L=%d)" % hl, res)
    n0, seen = len(traces), set()
    for r in res.records:
        if "t" in r:
            k = json.dumps(r["t"], sort_keys=True, separators=(",", ":"))
            if k not in seen:
                seen.add(k)
                traces.append(k)
    del res, seen
    if len(traces) - n0 < 5000:
        raise Machinery("call-history enumeration produced %d histories" % (len(traces) - n0))
    rep.spaces.append({"space": "call histories: function value made from the exposed callable (itself / bind with 0-2 pre-filled "
                                "arguments / bound twice) x this value x one script or one eval per step x ALL sequences of exactly "
                                "%d invocations over 6 invocation forms x 0..2 arguments (TLC-enumerated)" % hl,
                       "cases": len(traces) - n0, "complete": True})
    # property histories: one object, every sequence of L steps (assign / delete / redefine as data or accessor), then converted
    pl = 2 if rep.tier == "quick" else 3
    res = tlc.run(rep.pid, "C11", ENUMP_CFG % pl, env={"TIER": rep.tier}, timeout=1500, tag="enumP_%d" % pl, heap="4g")
    rep.add_tlc("C11.Enum(property histories,L=%d)" % pl, res)
    n0, seen = len(traces), set()
    for r in res.records:
        if "t" in r:
            k = json.dumps(r["t"], sort_keys=True, separators=(",", ":"))
            if k not in seen:
                seen.add(k)
                traces.append(k)
    del res, seen
    if len(traces) - n0 < 1000:
        raise Machinery("property-history enumeration produced %d histories" % (len(traces) - n0))
    rep.spaces.append({"space": "property histories: one object (from Context.set / a literal / Object.create with descriptors; held by "
                                "the name or nested in an array) x ALL sequences of exactly %d steps over assign / delete / redefine as "
                                "data, getter, setter, getter+setter (Object.defineProperty and Object.defineProperties) on an existing "
                                "data property and on a new name, then get / eval with aliasing probes (TLC-enumerated)" % pl,
                       "cases": len(traces) - n0, "complete": True})
    # declaration histories: one name (unbound / set / bound by a script) x every sequence of L evals that declare or mention it
    dplan = [("all", 1), ("sub", 2)] if rep.tier == "quick" else [("all", 2), ("sub", 3)]
    n0, seen = len(traces), set()
    for dforms, dl in dplan:
        res = tlc.run(rep.pid, "C11", ENUMD_CFG % dl, env={"TIER": rep.tier, "DFORMS": dforms}, timeout=1500,
                      tag="enumD_%s_%d" % (dforms, dl), heap="3g")
        rep.add_tlc("C11.Enum(declaration histories,%s forms,L=%d)" % (dforms, dl), res)
        for r in res.records:
            if "t" in r:
                k = json.dumps(r["t"], sort_keys=True, separators=(",", ":"))
                if k not in seen:
                    seen.add(k)
                    traces.append(k)
        del res
    del seen
    if len(traces) - n0 < 1500:
        raise Machinery("declaration-history enumeration produced %d histories" % (len(traces) - n0))
    rep.spaces.append({"space": "declaration histories: one name (not bound / bound by Context.set over 16 values / bound by a script over 13 "
                                "values, every falsy value of every kind among them) x ALL sequences of exactly %d evals over 19 script forms "
                                "and of exactly %d evals over 7 of them (program-level var without initialiser at the top level, in live and dead "
                                "blocks, loop heads, switch, label, try, eval source; the name inside a function, as catch parameter, under "
                                "typeof, another name), get + eval(name) after every step (TLC-enumerated)" % (dplan[0][1], dplan[1][1]),
                       "cases": len(traces) - n0, "complete": True})
    ne = len(traces)
    rng = random.Random(rep.seed)
    nrand = 3000 if rep.tier == "quick" else 60000
    rep.spaces.append({"space": "seeded random traces (values to depth 4, script results, exposed callables, mixed histories), seed %d" % rep.seed,
                       "cases": nrand, "complete": False})
    T["enumerate"] = round(time.time() - t0, 1)
    T["replay"] = T["judge"] = 0.0
    # 3. replay + 4. judge, in chunks
    CH = 40000
    total = ne + nrand
    nev = 0
    for b in range(0, total, CH):
        t0 = time.time()
        part = []
        for i in range(b, min(b + CH, total)):
            part.append(json.loads(traces[i]) if i < ne else None)
        nr = sum(1 for x in part if x is None)
        if nr:
            rnd = random_traces(rng, nr)
            part = [x for x in part if x is not None] + rnd
        cases = [{"id": b + i, "ev": evs} for i, evs in enumerate(part)]
        results = engine.run_cases(rep.pid, cases, driver="checks.c11_driver:run_trace", timeout=3000, tag="eng_%d" % (b // CH))
        if len(results) != len(cases):
            raise Machinery("replay returned %d traces for %d cases" % (len(results), len(cases)))
        for r in results:
            r.pop("id", None)
        T["replay"] += time.time() - t0
        t0 = time.time()
        verdicts, st, tr, _ = tlc.judge(rep.pid, "C11", results, JUDGE_CFG, timeout=3000, tag="judge_%d" % (b // CH))
        verdicts = [v for v in verdicts if "tid" in v]
        rep.add_judge(len(results), st, tr)
        nev += sum(len(r["ev"]) for r in results)
        T["judge"] += time.time() - t0
        got = {v["tid"]: v for v in verdicts}
        if len(got) != len(results):
            raise Machinery("judge returned %d verdicts for %d traces" % (len(got), len(results)))
        byid = {r["tid"]: r for r in results}
        for tid in sorted(got):
            v, r = got[tid], byid[tid]
            if v["v"] == "pass":
                if len(rep.samples) < 5 and tid % 1777 == 0:
                    rep.sample({"trace": show_trace(r["ev"]), "verdict": "pass"})
                continue
            if v["v"] == "unsupported":
                raise Machinery("the judge cannot interpret trace %d: %s" % (tid, show_trace(r["ev"])))
            w = v["why"]
            ev = r["ev"][w["at"] - 1]
            detail = {"clause": w["clause"], "at": w["at"], "event": show_event(ev).encode("ascii", "backslashreplace").decode(),
                      "outcome": ev.get("o"), "error": ev.get("err"),
                      "expected": show_pw(w["exp"]) if w["clause"] in ("get", "evalname", "evalexpr", "jsview") else None,
                      "actual": show_pw(ev["out"]) if "out" in ev else {"calls": ev.get("calls"), "got": ev.get("got", ev.get("gots"))},
                      "trace": r["ev"]}
            rep.mismatch("t%d: %s @%d %s" % (tid, show_trace(r["ev"]), w["at"], w["clause"]), detail, dev=v.get("dev", ""))
        del results, verdicts, got, byid, cases, part
    rep.evaluations = nev
    rep.notes["stage_wall_s"] = {k: round(v, 1) for k, v in T.items()}
    rep.exhaustive = True
    rep.notes["events_judged"] = rep.evaluations
    rep.assumptions += ["text is compared as UTF-16 code units (a non-BMP character and its surrogate pair are the same text)",
                        "a number may come back as Python int or float with the same value (exact comparison, as Python's ==: an int "
                        "that is not a double must come back as that int)",
                        "non-string dict keys: Python str() or JSON spelling of True/False/None accepted; float keys not generated",
                        "README restriction: containers returned by exposed callables may arrive unconverted (accepted)",
                        "cyclic values are not JSON-like: their conversion belongs to C04 (host RecursionError), not generated here"]
