"""Verdict bookkeeping: violations, known findings, evidence file, exit code."""
import os, json, time, hashlib
from .common import VERIF, Machinery

LEVEL = "model_checking"


def load_findings(pid):
    """known_findings/<pid>.json: committed, never written at run time"""
    path = os.path.join(VERIF, "known_findings", pid + ".json")
    if not os.path.exists(path):
        return []
    with open(path) as f:
        d = json.load(f)
    return [x for x in d.get("findings", []) if x.get("property") == pid]


class Report:
    def __init__(self, pid, tier, seed):
        self.pid, self.tier, self.seed = pid, tier, seed
        self.t0 = time.time()
        self.states = 0
        self.transitions = 0
        self.validated = 0            # cases/traces of the real engine judged by TLC
        self.evaluations = 0
        self.samples = []
        self.violations = []          # (case id, replay path)
        self.known = {}               # finding id -> [count, example]
        self.findings = {} if os.environ.get("VERIF_IGNORE_FINDINGS") == "1" else {f["deviation"]: f for f in load_findings(pid)}
        self.exhaustive = None
        self.notes = {}
        self.spaces = []              # description of each enumerated space
        self.assumptions = []
        self.mc_runs = []             # per TLC model-checking run: name, states, ok
        self.coverage_actions = {}
        self._all = []

    # -- TLC model-checking runs on the specification itself -----------------------------
    def add_tlc(self, name, res, must_hold=True):
        self.states += res.distinct
        self.transitions += res.generated
        self.mc_runs.append({"run": name, "distinct": res.distinct, "generated": res.generated,
                             "violated": res.violated, "wall_s": round(res.wall, 1)})
        for a, c in res.coverage.items():
            self.coverage_actions[name + "." + a] = c[1]
        if res.errors or res.rc not in (0, 12, 13):
            if not res.violated:
                raise Machinery("TLC run %s failed (rc=%s):\n%s" % (name, res.rc, res.stdout[-4000:]))
        if must_hold and res.violated:
            # an invariant of the specification itself fails: the spec is wrong, not the engine
            raise Machinery("specification law/invariant violated in %s: %s\n%s" % (name, res.violated, res.stdout[-4000:]))
        return res

    def add_judge(self, n_records, states, transitions):
        self.validated += n_records
        self.states += states
        self.transitions += transitions

    # -- verdicts -------------------------------------------------------------------------
    def mismatch(self, case_id, detail, dev=""):
        """A judged case that disagrees with the reference. dev = deviation the spec says explains it."""
        if dev and dev in self.findings:
            k = self.known.setdefault(dev, [0, None])
            k[0] += 1
            if k[1] is None:
                k[1] = detail
            return "known"
        self._dev_of_last = dev
        self.violation(case_id, detail)
        return "violation"

    def dump_mismatches(self):
        """all violations of this run, for triage (scratch, not evidence)"""
        from .common import workdir
        path = os.path.join(workdir(self.pid), "mismatches.ndjson")
        with open(path, "w") as f:
            for cid, detail, dev in self._all:
                f.write(json.dumps({"case": cid, "dev": dev, "detail": detail}, default=str) + "\n")
        return path

    def violation(self, case_id, detail):
        d = os.path.join(VERIF, "replay", self.pid)
        os.makedirs(d, exist_ok=True)
        name = hashlib.sha1(str(case_id).encode()).hexdigest()[:12] + ".json"
        path = os.path.join(d, name)
        if len(self.violations) < 200:
            with open(path, "w") as f:
                json.dump({"property": self.pid, "case": case_id, "detail": detail}, f, indent=1, default=str)
        self.violations.append((case_id, path))
        self._all.append((case_id, detail, getattr(self, "_dev_of_last", "")))
        self._dev_of_last = ""

    def sample(self, s, limit=6):
        if len(self.samples) < limit:
            self.samples.append(s)

    # -- output ---------------------------------------------------------------------------
    def finish(self):
        wall = time.time() - self.t0
        for dev, (n, ex) in sorted(self.known.items()):
            f = self.findings[dev]
            print("KNOWN-FINDING: property=%s %s %s: %d case(s), e.g. %s" %
                  (self.pid, f["id"], f.get("site", ""), n, json.dumps(ex, default=str)[:300]))
        for cid, path in self.violations[:20]:
            print("VIOLATION property=%s replay=%s" % (self.pid, path))
        if self.violations:
            print("(all mismatches of this run: %s)" % self.dump_mismatches())
        if len(self.violations) > 20:
            print("... %d further violations counted in evidence" % (len(self.violations) - 20))
        cov = {
            "states": int(self.states), "transitions": int(self.transitions),
            "traces_validated_against_impl": int(self.validated),
            "samples": self.samples or ["(no sample recorded)"],
            "evaluations": int(self.evaluations or self.validated),
            "exhaustive": bool(self.exhaustive) if self.exhaustive is not None else False,
            "spaces": self.spaces, "model_checking_runs": self.mc_runs,
            "action_coverage": self.coverage_actions,
            "known_findings_observed": {self.findings[d]["id"]: n for d, (n, _) in self.known.items()},
        }
        cov.update(self.notes)
        ev = {"property_id": self.pid, "tier": self.tier, "seed": int(self.seed), "level": LEVEL,
              "coverage": cov, "assumptions": self.assumptions, "wall_s": round(wall, 2),
              "violations": len(self.violations)}
        os.makedirs(os.path.join(VERIF, "evidence"), exist_ok=True)
        with open(os.path.join(VERIF, "evidence", self.pid + ".json"), "w") as f:
            json.dump(ev, f, indent=1, default=str)
        print("%s %s: states=%d transitions=%d judged=%d known=%d violations=%d wall=%.1fs" %
              (self.pid, self.tier, self.states, self.transitions, self.validated,
               sum(n for n, _ in self.known.values()), len(self.violations), wall))
        return 1 if self.violations else 0
