"""C19 driver (runs inside the engine child): JSON.parse / JSON.stringify cases.

parse case      {id, kind:"parse", t:[code units]}
    the text is handed to the script as a string value (ctx.set), never rendered into source
    -> out    = value(wire) | throw(cls)   [a script catch received it] | escape(cls) [it left the script]
       rt     = JSON.stringify(result) outcome (when there is a result), else {"o":"none"}
       protos = every object / array of the result is linked to Object.prototype / Array.prototype
stringify case  {id, kind:"str", v:<spec value tree>, ir:bool}
    plain data goes through ctx.set; functions, back references (cycles) and shared nodes are wired by
    path assignments in the script; the value actually built is re-read and compared with the tree
    -> out = value(str wire | undef) | throw | escape ;  rt = JSON.parse(text) outcome when out is a string
history case    {id, kind:"hp", t, ed, t2}    r1 = JSON.parse(t); the script edits r1 as ed says; r2 = JSON.parse(t2)
                {id, kind:"hs", v, ed}        s1 = JSON.stringify(v); the script edits v; s2 = JSON.stringify(v)
    ed = {op: none|push|seti|trunc|put|del, path: [{a:"i",i}|{a:"k",n}], n: key units, i: index, x: spec value}
    -> p1, p2 = outcomes of the two calls (snapshots taken at the moment of the call), rt2 = JSON.stringify(r2) (hp),
       after1 = r1 / v re-read after the second call, alias = r1 and r2 share a container (===, hp),
       edit = "ok" | "none" | class the edit threw, esc = class of an exception that left the script ("" = none)
The driver computes no expectation: it only builds operands and records what the engine did.

Contexts: parsing and compiling the helper prelude (__cls, __protos) cost 4 ms per case, 20 times the JSON calls
under test (216 of the quick tier's 670 CPU-s).  A context is therefore kept for C19_CTX_CASES consecutive cases
(default 48; 1 = a fresh context for every case): the prelude is evaluated once, every case evaluates only its own
short script; operands are always fresh (ctx.set).  A context is dropped as soon as anything left a script
(exception that escaped, watchdog), so whatever follows starts clean.
"""
import os
from harness import wire
from harness.drivers import CLASSIFY_JS

_CTX_CASES = max(1, int(os.environ.get("C19_CTX_CASES", "48")))

_PRELUDE = CLASSIFY_JS + (
    "var __OP = Object.getPrototypeOf({}), __AP = Object.getPrototypeOf([]);"
    "var __protos = function(x) {"
    "  if (x === null || typeof x !== 'object') return true;"
    "  var i;"
    "  if (Array.isArray(x)) {"
    "    if (Object.getPrototypeOf(x) !== __AP) return false;"
    "    for (i = 0; i < x.length; i++) { if (!__protos(x[i])) return false; }"
    "    return true;"
    "  }"
    "  if (Object.getPrototypeOf(x) !== __OP) return false;"
    "  var ks = Object.keys(x);"
    "  for (i = 0; i < ks.length; i++) { if (!__protos(x[ks[i]])) return false; }"
    "  return true;"
    "};"
)

_PARSE_BODY = (
    "var __r, __ok = false;"
    "try { __r = JSON.parse(__t); __ok = true; } catch (e) { __out('p', 't', __cls(e)); }"
    "if (__ok) {"
    "  __out('p', 'v', __r, __protos(__r));"
    "  try { __out('rt', 'v', JSON.stringify(__r)); } catch (e2) { __out('rt', 't', __cls(e2)); }"
    "}"
)

_STR_BODY = (
    "__out('built', __v);"
    "var __s, __ok = false;"
    "try { __s = JSON.stringify(__v); __ok = true; } catch (e) { __out('p', 't', __cls(e)); }"
    "if (__ok) {"
    "  __out('p', 'v', __s);"
    "  if (typeof __s === 'string') {"
    "    try { __out('rt', 'v', JSON.parse(__s)); } catch (e2) { __out('rt', 't', __cls(e2)); }"
    "  }"
    "}"
)

# the two procedures are part of the prelude (parsed and compiled once per context); a case's script is one call
_PRELUDE += ("var __runParse = function() {" + _PARSE_BODY + "};"
             "var __runStr = function() {" + _STR_BODY + "};")
# histories: __snap converts its arguments to wire values AT THE CALL (the structure is edited afterwards)
_PRELUDE += (
    "var __nav = function(root, path) { var x = root; for (var i = 0; i < path.length; i++) { x = x[path[i]]; } return x; };"
    "var __edit = function(root) {"
    "  if (__op === 'none') return;"
    "  try {"
    "    var c = __nav(root, __path);"
    "    if (__op === 'push') c.push(__x);"
    "    else if (__op === 'seti') c[__idx] = __x;"
    "    else if (__op === 'trunc') c.length = 0;"
    "    else if (__op === 'put') c[__key] = __x;"
    "    else if (__op === 'del') delete c[__key];"
    "    __snap('edit', 'v', true);"
    "  } catch (e) { __snap('edit', 't', __cls(e)); }"
    "};"
    "var __conts = function(x, acc) {"
    "  if (x !== null && typeof x === 'object') {"
    "    acc.push(x); var i;"
    "    if (Array.isArray(x)) { for (i = 0; i < x.length; i++) __conts(x[i], acc); }"
    "    else { var ks = Object.keys(x); for (i = 0; i < ks.length; i++) __conts(x[ks[i]], acc); }"
    "  }"
    "  return acc;"
    "};"
    "var __alias = function(a, b) {"
    "  var ca = __conts(a, []), cb = __conts(b, []), i, j;"
    "  for (i = 0; i < ca.length; i++) { for (j = 0; j < cb.length; j++) { if (ca[i] === cb[j]) return true; } }"
    "  return false;"
    "};"
    "var __runHP = function() {"
    "  var r1, ok1 = false, r2, ok2 = false;"
    "  try { r1 = JSON.parse(__t); ok1 = true; } catch (e) { __snap('p1', 't', __cls(e)); }"
    "  if (ok1) { __snap('p1', 'v', r1); __edit(r1); }"
    "  try { r2 = JSON.parse(__t2); ok2 = true; } catch (e3) { __snap('p2', 't', __cls(e3)); }"
    "  if (ok2) {"
    "    __snap('p2', 'v', r2);"
    "    try { __snap('rt2', 'v', JSON.stringify(r2)); } catch (e2) { __snap('rt2', 't', __cls(e2)); }"
    "  }"
    "  if (ok1) __snap('after1', 'v', r1);"
    "  if (ok1 && ok2) __snap('alias', 'v', __alias(r1, r2));"
    "};"
    "var __runHS = function() {"
    "  try { __snap('p1', 'v', JSON.stringify(__v)); } catch (e) { __snap('p1', 't', __cls(e)); }"
    "  __edit(__v);"
    "  try { __snap('p2', 'v', JSON.stringify(__v)); } catch (e3) { __snap('p2', 't', __cls(e3)); }"
    "  __snap('after1', 'v', __v);"
    "};"
)
_PARSE_JS = "__out('start'); __runParse();"
_STR_TAIL = "__runStr();"


def to_wire_deep(v, depth=0, seen=frozenset()):
    """wire.to_wire, but following plain arrays / objects to depth 200 (wire.to_wire stops at 12: nesting-30 cases)"""
    from microjs import values as V
    if isinstance(v, V.JSObject) and type(v) in (V.JSObject, V.JSArray):
        if id(v) in seen or depth > 200:
            return {"k": "cyc"}
        seen = seen | {id(v)}
        if isinstance(v, V.JSArray):
            return {"k": "arr", "e": [to_wire_deep(e, depth + 1, seen) for e in v._elements]}
        props = []
        for key, val in v._properties.items():
            if not isinstance(key, str):
                return {"k": "hostval", "t": "non-string key " + type(key).__name__}
            props.append({"n": wire.units(key), "v": to_wire_deep(val, depth + 1, seen)})
        return {"k": "obj", "p": props}
    return wire.to_wire(v)


def _escape_of(out):
    """an exception that left the script: which class the embedder saw"""
    o = out["o"]
    if o == "syntax":
        return {"o": "escape", "cls": "SyntaxError"}
    if o == "jserror":
        return {"o": "escape", "cls": out.get("name") or "Error"}
    if o == "host":
        return {"o": "escape", "cls": out.get("type", "host")}
    # timelimit / memlimit / hang: one JSON call is a few host operations; under a loaded machine the
    # watchdogs are the only way to get here, which says nothing about the engine (machinery failure)
    raise RuntimeError("watchdog outcome %r on a JSON call" % (out,))


class _Builder:
    """spec value tree -> Python operand for ctx.set plus the assignments the script has to make"""

    def __init__(self, ir):
        self.ir = ir
        self.patches = []          # (path, ("fn"|"native"|"path", target path))
        self.shared = {}           # id -> path of the first occurrence
        self.keys = []             # key strings referenced by paths

    def build(self, v, path):
        import microjs
        k = v["k"]
        if k == "undef":
            return microjs.UNDEFINED
        if k == "null":
            return None
        if k == "bool":
            return v["b"]
        if k == "num":
            x = wire.words_dbl(v["w"])
            if self.ir and x == x and abs(x) <= 2 ** 53 and x == int(x) and not (x == 0 and str(x)[0] == "-"):
                return int(x)
            return x
        if k == "str":
            return wire.from_units(v["u"])
        if k == "arr":
            return [self.build(e, path + [("i", i)]) for i, e in enumerate(v["e"])]
        if k == "obj":
            d = {}
            for p in v["p"]:
                key = wire.from_units(p["n"])
                d[key] = self.build(p["v"], path + [("k", key)])
            return d
        if k in ("fn", "native"):
            self.patches.append((path, (k, None)))
            return None
        if k == "back":
            if v["d"] > len(path):
                raise ValueError("back reference beyond the root")
            self.patches.append((path, ("path", path[:len(path) - v["d"]])))
            return None
        if k == "shared":
            if v["id"] in self.shared:
                self.patches.append((path, ("path", self.shared[v["id"]])))
                return None
            self.shared[v["id"]] = path
            return self.build(v["v"], path)
        raise ValueError("cannot build spec value kind " + k)

    def ref(self, path):
        s = "__v"
        for kind, x in path:
            if kind == "i":
                s += "[%d]" % x
            else:
                if x not in self.keys:
                    self.keys.append(x)
                s += "[__k%d]" % self.keys.index(x)
        return s

    def script(self):
        out = []
        for path, (kind, target) in self.patches:
            if kind == "fn":
                rhs = "function(){ return 1; }"
            elif kind == "native":
                rhs = "Math.abs"
            else:
                rhs = self.ref(target)
            if not path:
                out.append("__v = %s;" % rhs)
            else:
                out.append("%s = %s;" % (self.ref(path), rhs))
        return "".join(out)


def _shape(v, stack=()):
    """what the tree must look like when the built engine value is re-read with wire.to_wire"""
    k = v["k"]
    if k in ("fn", "native"):
        return {"k": k}
    if k == "back":
        return {"k": "cyc"}
    if k == "shared":
        return _shape(v["v"], stack)
    if k == "arr":
        return {"k": "arr", "e": [_shape(e) for e in v["e"]]}
    if k == "obj":
        return {"k": "obj", "p": [{"n": p["n"], "v": _shape(p["v"])} for p in v["p"]]}
    return v


def _same_shape(a, b):
    if a.get("k") != b.get("k"):
        return False
    k = a["k"]
    if k == "arr":
        return len(a["e"]) == len(b["e"]) and all(_same_shape(x, y) for x, y in zip(a["e"], b["e"]))
    if k == "obj":
        return len(a["p"]) == len(b["p"]) and all(x["n"] == y["n"] and _same_shape(x["v"], y["v"])
                                                  for x, y in zip(a["p"], b["p"]))
    if k == "num":
        return a["w"] == b["w"] or (a["w"][0] & 0x7ff0 == 0x7ff0 and b["w"][0] & 0x7ff0 == 0x7ff0)
    if k == "str":
        return a["u"] == b["u"]
    if k == "bool":
        return a["b"] == b["b"]
    return True


def _context(case, api):
    """the context of this child's current batch (helpers defined), or a new one"""
    st = getattr(api, "_c19_state", None)
    if st is None or st["left"] <= 0:
        ctx = api.new_context(time_limit=case.get("time_limit", 120.0))
        got = {}

        def out_fn(name, *a):
            got[name] = a
            return None
        ctx.set("__out", out_fn)

        def snap_fn(name, tag, a):
            got[name] = (tag, str(a) if tag == "t" else to_wire_deep(a))
            return None
        ctx.set("__snap", snap_fn)
        ev = api.eval_outcome(ctx, _PRELUDE + "__out('prelude');", wall=240.0, cap=2_000_000)
        if ev["o"] != "value" or "prelude" not in got:
            raise RuntimeError("helper prelude did not run: %r" % (ev,))
        st = {"ctx": ctx, "got": got, "left": _CTX_CASES}
        api._c19_state = st
    st["left"] -= 1
    st["got"].clear()
    return st


def c19_driver(case, api):
    try:
        res, clean = _run_case(case, api)
    except BaseException:
        api._c19_state = None
        raise
    if not clean:
        api._c19_state = None          # something left the script: the next case gets a new context
    return res


def _run_case(case, api):
    st = _context(case, api)
    ctx, got = st["ctx"], st["got"]
    if case["kind"] in ("hp", "hs"):
        return _run_hist(case, api, ctx, got)
    if case["kind"] == "parse":
        ctx.set("__t", wire.from_units(case["t"]))
        src = _PARSE_JS
    else:
        b = _Builder(bool(case.get("ir")))
        root = b.build(case["v"], [])
        patch_js = b.script()
        ctx.set("__v", root)
        for i, key in enumerate(b.keys):
            ctx.set("__k%d" % i, key)
        src = "__out('start');" + patch_js + _STR_TAIL
    ev = api.eval_outcome(ctx, src, wall=case.get("wall", 240.0), cap=case.get("cap", 2_000_000))
    clean = ev["o"] == "value"
    return _result(case, ev, got), clean


def _result(case, ev, got):
    if "start" not in got:
        raise RuntimeError("driver script did not run: %r" % (ev,))
    res = {"id": case["id"], "rt": {"o": "none"}, "protos": True}
    if case["kind"] == "str":
        if "built" not in got:
            raise RuntimeError("operand construction failed: %r" % (ev,))
        built = to_wire_deep(got["built"][0])
        if not _same_shape(built, _shape(case["v"])):
            raise RuntimeError("operand is not the value of the case: built %r" % (built,))
    if "p" not in got:
        # the call under test neither returned nor reached the script's catch
        if ev["o"] == "value":
            raise RuntimeError("no outcome recorded although the script completed")
        res["out"] = _escape_of(ev)
        return res
    p = got["p"]
    if p[0] == "t":
        res["out"] = {"o": "throw", "cls": str(p[1])}
        return res
    res["out"] = {"o": "value", "v": to_wire_deep(p[1])}
    if case["kind"] == "parse":
        res["protos"] = bool(p[2])
    second = case["kind"] == "parse" or isinstance(p[1], str)
    if second:
        if "rt" in got:
            r = got["rt"]
            res["rt"] = {"o": "throw", "cls": str(r[1])} if r[0] == "t" else {"o": "value", "v": to_wire_deep(r[1])}
        else:
            if ev["o"] == "value":
                raise RuntimeError("no round-trip outcome recorded although the script completed")
            res["rt"] = _escape_of(ev)
    elif ev["o"] != "value":
        raise RuntimeError("script failed after the call under test: %r" % (ev,))
    return res


def _plain(v):
    """spec value (plain data only) -> Python operand for ctx.set; numbers as host floats"""
    return _Builder(False).build(v, [])


def _run_hist(case, api, ctx, got):
    ed = case["ed"]
    ctx.set("__op", ed["op"])
    ctx.set("__path", [wire.from_units(st["n"]) if st["a"] == "k" else int(st["i"]) for st in ed["path"]])
    ctx.set("__key", wire.from_units(ed["n"]))
    ctx.set("__idx", int(ed["i"]))
    ctx.set("__x", _plain(ed["x"]))
    if case["kind"] == "hp":
        ctx.set("__t", wire.from_units(case["t"]))
        ctx.set("__t2", wire.from_units(case["t2"]))
        src = "__out('start'); __runHP();"
    else:
        ctx.set("__v", _plain(case["v"]))
        src = "__out('start'); __runHS();"
    ev = api.eval_outcome(ctx, src, wall=case.get("wall", 240.0), cap=case.get("cap", 2_000_000))
    if "start" not in got:
        raise RuntimeError("driver script did not run: %r" % (ev,))
    res = {"id": case["id"], "esc": "" if ev["o"] == "value" else _escape_of(ev)["cls"], "edit": "none", "alias": False}
    for name in ("p1", "p2", "rt2", "after1"):
        if name in got:
            tag, a = got[name]
            res[name] = {"o": "throw", "cls": a} if tag == "t" else {"o": "value", "v": a}
        else:
            res[name] = {"o": "none"}
    if "edit" in got:
        res["edit"] = "ok" if got["edit"][0] == "v" else got["edit"][1]
    if "alias" in got:
        a = got["alias"][1]
        if a.get("k") != "bool":
            raise RuntimeError("alias probe returned %r" % (a,))
        res["alias"] = bool(a["b"])
    return res, ev["o"] == "value"
