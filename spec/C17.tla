-------------------------------- MODULE C17 --------------------------------
(* C17 - Array and typed-array methods compute, mutate and alias as specified.          *)
(*   Enum   : the case spaces (single calls on a store; typed-array scripts), printed.   *)
(*   Laws   : properties of the references (JsArray, TypedArr), model-checked on every   *)
(*            enumerated case and on the reachable states of the array state machine.    *)
(*   Judge  : single-call observations of the real engine judged against JsArray.       *)
(*   Trace  : histories (arrays) and scripts (typed arrays) validated event by event by  *)
(*            a total trace specification.                                                *)
EXTENDS JsArray, Json, IOUtils
TA == INSTANCE TypedArr

Tier == IF "TIER" \in DOMAIN IOEnv THEN IOEnv.TIER ELSE "quick"
Quick == Tier = "quick"
SeqSet(s) == {s[i] : i \in 1..Len(s)}

\* ---------------- value grid and receivers ---------------------------------------------------------
N1 == VInt(1)  N2 == VInt(2)  N9 == VInt(9)  SA == VStr(U("a"))  S10 == VStr(U("10"))
UN == Undef    NL == Null     NAN == VNaN    AR == Ref(2)        TR == VBool(TRUE)
Nested == <<VInt(1)>>                          \* store[2]: the nested array [1]
MkStore(rv) == <<rv, Nested>>
Family == <<
  <<>>,
  <<N1>>, <<UN>>, <<AR>>, <<NAN>>, <<NL>>, <<TR>>, <<SA>>,
  <<N1, N2>>, <<N2, N1>>, <<UN, N1>>, <<N1, UN>>, <<TR, N1>>, <<N1, TR>>, <<NAN, NAN>>, <<AR, AR>>, <<S10, N9>>, <<NL, UN>>,
  <<N1, N2, N9>>, <<N9, N2, N1>>, <<N1, N1, N1>>, <<UN, UN, N1>>, <<SA, S10, N9>>, <<N1, AR, N1>>, <<NAN, N1, NAN>>, <<TR, NL, UN>>,
  <<N1, N2, N9, S10>>, <<N9, S10, N2, N1>>, <<N1, UN, N2, UN>>, <<N2, N1, N2, N1>>, <<SA, NL, NAN, TR>>, <<AR, N1, S10, UN>>,
  <<N1, N2, N9, SA, S10>>, <<N9, UN, N2, NL, N1>>, <<N1, N2, N1, N2, N1>>, <<TR, N1, AR, NAN, SA>>,
  <<N1, N2, N9, SA, S10, UN>>, <<N9, N2, S10, N1, SA, N2>>, <<UN, NL, NAN, AR, TR, N1>>, <<N2, N2, N1, N1, N9, N9>>,
  <<S10, N9, N1, N2, SA, TR>>, <<N1, N2, N9, N1, N2, N9>>,
  <<VStr(<<65535>>), VStr(<<55296, 56320>>)>>, <<VStr(<<55296, 56320>>), VStr(<<65535>>), VStr(U("b"))>>
>>
QuickFamily == {1, 2, 3, 4, 9, 12, 13, 19, 24, 26, 29, 31, 34, 39, 41, 43}
FamIdx == IF Quick THEN QuickFamily ELSE 1..Len(Family)
CbFamily == IF Quick THEN {1, 2, 9, 19, 34} ELSE {1, 2, 3, 9, 12, 19, 24, 29, 31, 34, 36, 39}

W0p5 == <<16352, 0, 0, 0>>
W1p5 == <<16376, 0, 0, 0>>
W2p5 == <<16388, 0, 0, 0>>
W2p31 == <<16864, 0, 0, 0>>
W2p53 == <<17216, 0, 0, 0>>
IdxNumsFull == {VInt(-7), VInt(-2), VInt(-1), VInt(0), VInt(1), VInt(2), VInt(3), VInt(5), VInt(6), VInt(7),
                VNaN, VNumW(WPosInf), VNumW(WNegInf), VNumW(WNegZero), VNumW(W0p5), VNumW(WNeg(W0p5)), VNumW(W1p5),
                VNumW(W2p31), VNumW(WNeg(W2p31)), VNumW(W2p53)}
IdxNumsQuick == {VInt(-7), VInt(-1), VInt(0), VInt(1), VInt(3), VInt(6), VInt(7),
                 VNaN, VNumW(WPosInf), VNumW(WNegInf), VNumW(WNeg(W0p5)), VNumW(W2p31)}
IdxVals == IF Quick THEN IdxNumsQuick \cup {Undef, Null, VStr(U("1")), VStr(U("x"))}
           ELSE IdxNumsFull \cup {Undef, Null, VBool(TRUE), VStr(U("1")), VStr(U("x")), VStr(<<>>)}
IdxFew == {VInt(-1), VInt(0), VInt(1), VInt(2), VInt(7), VNaN, Undef}
Vecs0to2(S) == {<<>>} \cup {<<x>> : x \in S} \cup {<<x, y>> : x \in S, y \in S}
SearchVals == IF Quick THEN {Undef, N1, VInt(0), NAN, TR, AR, S10, NL}
              ELSE {Undef, N1, N2, N9, VInt(0), VNumW(WNegZero), NAN, TR, VBool(FALSE), AR, Ref(1), S10, SA, VStr(U("1")), NL}

\* ---------------- scripted responders -------------------------------------------------------------------
Truthy(p) == <<VInt(7), VStr(U("0")), VBool(TRUE)>>[((p - 1) % 3) + 1]
Falsy(p)  == <<VInt(0), VStr(<<>>), Undef, VNaN, Null, VBool(FALSE)>>[((p - 1) % 6) + 1]
Cont(m, p) == IF m \in {"some", "find", "findIndex"} THEN Falsy(p) ELSE Truthy(p)     \* a result that lets the loop go on
Ent(act, v, x, n) == [act |-> act, v |-> v, x |-> x, n |-> n]
MkEntry(m, sym, p) ==
  CASE sym = "T" -> Ent("ret", Truthy(p), Undef, 0)       [] sym = "F" -> Ent("ret", Falsy(p), Undef, 0)
    [] sym = "throw" -> Ent("throw", VInt(40 + p), Undef, 0)
    [] sym = "push" -> Ent("push", Cont(m, p), VInt(70 + p), 0)
    [] sym = "pop" -> Ent("pop", Cont(m, p), Undef, 0)
    [] sym = "shorten" -> Ent("len", Cont(m, p), Undef, 1)
Syms == {"T", "F", "throw", "push", "pop", "shorten"}
Tabs(n) == UNION {[1..k -> Syms] : k \in 0..n}
NoCb == [kind |-> "na", v |-> Undef, tab |-> <<>>, dflt |-> Ent("ret", Undef, Undef, 0), this |-> Undef, hasThis |-> FALSE, cmp |-> ""]
FnCb(m, syms, thisv, hasThis) ==
  [kind |-> "fn", v |-> Undef, tab |-> [p \in 1..Len(syms) |-> MkEntry(m, syms[p], p)],
   dflt |-> Ent("ret", Cont(m, 1), Undef, 0), this |-> thisv, hasThis |-> hasThis, cmp |-> ""]
ValCb(kind, v) == [NoCb EXCEPT !.kind = kind, !.v = v]
CmpCb(c) == [NoCb EXCEPT !.kind = "fn", !.cmp = c]
NonFns == {ValCb("none", Undef), ValCb("val", Undef), ValCb("val", Null), ValCb("val", VInt(1)), ValCb("val", VStr(U("f")))}

CallCase(m, rv, a, cb) == [ty |-> "call", store |-> MkStore(rv), m |-> m, r |-> 1, a |-> a, cb |-> cb]
OkCase(c) == Supported(c.m, c.store, c.r, c.a, c.cb)

\* ---------------- typed-array scripts -------------------------------------------------------------------
Ev(op, kind, vi, i, x, a, src) == [op |-> op, kind |-> kind, vi |-> vi, i |-> i, x |-> x, a |-> a, src |-> src]
NoSrc == [t |-> "arr", vals |-> <<>>, id |-> 0]
ArrSrc(vals) == [t |-> "arr", vals |-> vals, id |-> 0]
ViewSrc(j) == [t |-> "view", vals |-> <<>>, id |-> j]
ENewLen(kd, a) == Ev("newlen", kd, 0, 0, Undef, a, NoSrc)
ENewArr(kd, vals) == Ev("newarr", kd, 0, 0, Undef, <<>>, ArrSrc(vals))
ENewBuf(n) == Ev("newbuf", "", 0, n, Undef, <<>>, NoSrc)
EView(kd, b, a) == Ev("view", kd, b, 0, Undef, a, NoSrc)
EWrite(vi, i, x) == Ev("write", "", vi, i, x, <<>>, NoSrc)
ESet(vi, src, a) == Ev("set", "", vi, 0, Undef, a, src)
ESub(vi, a) == Ev("subarray", "", vi, 0, Undef, a, NoSrc)
EJoin(vi, a) == Ev("join", "", vi, 0, Undef, a, NoSrc)
EToStr(vi) == Ev("tostr", "", vi, 0, Undef, <<>>, NoSrc)
ELen(vi) == Ev("len", "", vi, 0, Undef, <<>>, NoSrc)
W2p32p1 == <<16880, 0, 16, 0>>
W0p1 == <<16313, 39321, 39321, 39322>>
W16777217 == <<16752, 0, 4096, 0>>
W1e39 == <<18439, 33415, 62620, 18973>>
W1em46 == <<13922, 17614, 9260, 21857>>
WF32Max == <<18415, 65535, 57344, 0>>
WF32Over == <<18415, 65535, 61440, 0>>          \* the midpoint between the largest binary32 and 2^128: rounds to Infinity
WF32UnderOver == <<18415, 65535, 61439, 65535>> \* just below it: rounds to the largest binary32
WF32MinSub == <<13984, 0, 0, 0>>                \* 2^-149
WF32HalfMinSub == <<13968, 0, 0, 0>>            \* 2^-150: a tie, rounds to even = 0
WF32Tie == <<16368, 0, 4096, 0>>                \* 1 + 2^-24: a tie, rounds to even = 1
W1p0000001 == <<16368, 0, 6871, 62107>>
W2p31m1 == <<16863, 65535, 65472, 0>>
W2p31p1 == <<16864, 0, 32, 0>>
W2p32 == <<16880, 0, 0, 0>>
W2p32m1 == <<16879, 65535, 65504, 0>>
W1e21 == <<17483, 6884, 55010, 61264>>
W2p63 == <<17376, 0, 0, 0>>
W254p5 == <<16495, 53248, 0, 0>>
W255p5 == <<16495, 61440, 0, 0>>
W123456789p7 == <<16797, 28468, 22220, 52429>>
StoredQuick == {VInt(0), VInt(1), VInt(-1), VInt(127), VInt(128), VInt(255), VInt(256), VNumW(W0p5), VNumW(W1p5), VNumW(W2p5),
                VNumW(WNeg(W0p5)), VNumW(W2p31), VNumW(W2p32p1), VNaN, VNumW(WPosInf), VNumW(WNegInf), VStr(U("7")), Undef}
StoredFull == StoredQuick \cup
               {VInt(-128), VInt(-129), VInt(32767), VInt(32768), VInt(65535), VInt(65536), VInt(-32769), VNumW(W2p31m1), VNumW(WNeg(W2p31)),
                VNumW(WNeg(W2p31p1)), VNumW(W2p32m1), VNumW(W2p32), VNumW(W2p53), VNumW(W1e21), VNumW(WNeg(W1e21)), VNumW(W2p63), VNumW(W254p5), VNumW(W255p5),
                VNumW(W0p1), VNumW(W16777217), VNumW(W1e39), VNumW(WNeg(W1e39)), VNumW(W1em46), VNumW(WF32Max), VNumW(WF32Over), VNumW(WF32UnderOver),
                VNumW(WF32MinSub), VNumW(WF32HalfMinSub), VNumW(WF32Tie), VNumW(W1p0000001), VNumW(W123456789p7), VNumW(WNeg(W1p5)), VNumW(WNeg(W2p5)),
                VNumW(WNegZero), Null, VBool(TRUE), VStr(U("x")), VStr(<<>>), VStr(U("256"))}
Stored == IF Quick THEN StoredQuick ELSE StoredFull
KindsOf(q) == IF q THEN {"Int8Array", "Uint8ClampedArray", "Uint16Array", "Int32Array", "Float32Array"} ELSE TA!KindSet
IsNaNVal(v) == LET w == TA!ToNumW(v) IN WIsNaN(w)
TACase(evs) == [ty |-> "ta", evs |-> evs]
SubArgs == IF Quick THEN Vecs0to2({VInt(-1), VInt(1), VInt(3), VNaN, Undef, VNumW(WPosInf)})
           ELSE Vecs0to2({VInt(-5), VInt(-1), VInt(0), VInt(1), VInt(2), VInt(4), VInt(5), VNaN, Undef, VNumW(WPosInf), VNumW(WNegInf), VNumW(W1p5), VStr(U("1"))})
OffArgs == {<<>>, <<VInt(0)>>, <<VInt(1)>>, <<VInt(2)>>, <<VInt(3)>>, <<VInt(4)>>, <<VInt(-1)>>, <<Undef>>, <<VNumW(W1p5)>>, <<VNumW(WPosInf)>>, <<VStr(U("1"))>>}

RECURSIVE RunTA(_, _, _)
RunTA(evs, k, ts) == IF k > Len(evs) THEN ts ELSE RunTA(evs, k + 1, TA!Step(evs[k], ts, {}).ts)
\* every event of the script lies inside the fragment TypedArr specifies (texts of the rendered elements, ...)
RECURSIVE RunOK(_, _, _)
RunOK(evs, k, ts) == IF k > Len(evs) THEN TRUE ELSE IF ~TA!EvOK(evs[k], ts) THEN FALSE ELSE RunOK(evs, k + 1, TA!Step(evs[k], ts, {}).ts)

\* ---------------- RW: read paths x write paths x what happened before, on the views of ONE buffer -------------------
\* "Views over one buffer see each other's writes" quantifies over HOW a view is read (element by element, rendered by
\* join / toString, copied out by another array's set), THROUGH WHICH view object and method the bytes were written (the
\* observer itself, another view of the buffer, a subarray of the observer; index assignment, set from an array, set from a
\* typed array), and over the HISTORY of the observer: whether it was read the same way before the write, and whether the
\* writing view existed at that time.  A script of the family:
\*   views  1 = A (kind ka, the whole buffer: two elements of the wider kind, filled 1..n through A)     2 = D (the observer's kind, private: copy target)
\*          3 = P (private Int8Array [x]: source of set-from-a-typed-array)       4 = B (kind kb, the whole buffer)
\*          5 = S = A.subarray(1)
\*   <read obs by r1> ; <write the LAST element of view w by meth> ; <read obs by r2>      (obs, w in {A, B, S})
\*   late: B and S are created after the first read (observer A only).
\* The last elements of A, B and S cover the last byte of the buffer, so every write is visible through every observer.
\* Index reads of every view follow every event anyway (the snapshot).
RWReadsPre  == {"none", "join", "tostr", "copy"}
RWReadsPost == {"join", "sep", "tostr", "copy"}
RWCore      == {"join", "tostr", "copy"}
RWMeths     == {"idx", "setarr", "setview"}
RWViews     == {1, 4, 5}
RWObs       == {<<1, FALSE>>, <<1, TRUE>>, <<4, FALSE>>, <<5, FALSE>>}
RWBytes(ka, kb) == 2 * Max(TA!Size(ka), TA!Size(kb))            \* two elements of the wider kind
Iota(n)     == [i \in 1..n |-> VInt(i)]
RWCell(ka, kb, o, r1, w, meth, r2, x) == [ka |-> ka, kb |-> kb, obs |-> o[1], late |-> o[2], r1 |-> r1, w |-> w, meth |-> meth, r2 |-> r2, x |-> x]
RWObsKind(g) == IF g.obs = 4 THEN g.kb ELSE g.ka
RWLen(g, v)  == LET n == RWBytes(g.ka, g.kb) IN IF v = 4 THEN n \div TA!Size(g.kb) ELSE IF v = 5 THEN n \div TA!Size(g.ka) - 1 ELSE n \div TA!Size(g.ka)
RWRead(v, r) == CASE r = "none" -> <<>>
                  [] r = "join" -> <<EJoin(v, <<>>)>>
                  [] r = "sep" -> <<EJoin(v, <<VStr(U("-"))>>)>>
                  [] r = "tostr" -> <<EToStr(v)>>
                  [] r = "copy" -> <<ESet(2, ViewSrc(v), <<>>)>>
RWEvs(g) ==
  LET setup == <<ENewBuf(RWBytes(g.ka, g.kb)), EView(g.ka, 1, <<>>), ESet(1, ArrSrc(Iota(RWLen(g, 1))), <<>>),
                 ENewLen(RWObsKind(g), <<VInt(RWLen(g, g.obs))>>), ENewArr("Int8Array", <<g.x>>)>>
      mk == <<EView(g.kb, 1, <<>>), ESub(1, <<VInt(1)>>)>>
      pre == RWRead(g.obs, g.r1)
      last == RWLen(g, g.w) - 1
      wr == CASE g.meth = "idx" -> <<EWrite(g.w, last, g.x)>>
              [] g.meth = "setarr" -> <<ESet(g.w, ArrSrc(<<g.x>>), <<VInt(last)>>)>>
              [] OTHER -> <<ESet(g.w, ViewSrc(3), <<VInt(last)>>)>>
  IN setup \o (IF g.late THEN pre \o mk ELSE mk \o pre) \o wr \o RWRead(g.obs, g.r2)
RWProduct(pairs, R1, R2, M, X) ==
  {RWCell(p[1], p[2], o, r1, w, m, r2, x) : p \in pairs, o \in RWObs, r1 \in R1, w \in RWViews, m \in M, r2 \in R2, x \in X}
\* quick: the full product of read paths x writers x methods x observers for one lead pair of kinds (different element
\* sizes; observer B turns the pair round); every kind as the observer's and the writer's kind (the diagonal: rendering stays
\* inside the specified number -> text fragment for every kind) and a second mixed pair with every read path (the same before
\* and after), writer and observer.  RWLaw (model-checked) states that no class is lost to the fragment filter RunOK.
\* (operators with a parameter: TLC evaluates zero-arity constants eagerly in every JVM and worker)
RWLead  == {<<"Uint8Array", "Uint16Array">>}
RWLead2 == {<<"Int16Array", "Uint8Array">>}
RWDiag  == {<<kd, kd>> : kd \in TA!KindSet}
RWMixed == {<<"Int32Array", "Uint8Array">>, <<"Uint8ClampedArray", "Int16Array">>, <<"Uint32Array", "Uint16Array">>, <<"Int8Array", "Int32Array">>}
RWSame(G) == {g \in G : g.r1 = g.r2}
RWQuickGrid(q) == RWProduct(RWLead, RWReadsPre, RWCore, RWMeths, {VInt(9)})
                  \cup RWSame(RWProduct(RWDiag \cup RWLead2, RWCore, RWCore, {"idx"}, {VInt(9)}))
                  \cup RWProduct(RWLead, {"join"}, {"sep"}, {"idx"}, {VInt(9)})
RWFullGrid(q) == RWSame(RWProduct(TA!KindSet \X TA!KindSet, RWCore, RWCore, {"idx"}, {VInt(9)}))
                 \cup RWProduct(RWLead \cup RWLead2 \cup RWDiag \cup RWMixed, RWReadsPre, RWReadsPost, RWMeths, {VInt(9)})
                 \cup RWSame(RWProduct(RWLead \cup RWLead2 \cup RWDiag, RWCore, RWCore, {"idx", "setarr"}, {VInt(-2), VNumW(W1p5), VInt(300)}))
RWGrid(q) == IF q THEN RWQuickGrid(q) ELSE RWFullGrid(q)
RWOk(g) == (g.late => g.obs = 1) /\ RunOK(RWEvs(g), 1, TA!EmptyTS)
\* the quick sub-grid contains every class of the family, inside the specified fragment:
RWLaw(q) ==
  LET QG == RWQuickGrid(q) IN
         /\ \A kd \in TA!KindSet : \A r \in RWCore : \A w \in RWViews : \A o \in RWObs :                    \* every kind observes ...
             \E g \in QG : RWObsKind(g) = kd /\ g.r1 = r /\ g.r2 = r /\ g.w = w /\ <<g.obs, g.late>> = o /\ RWOk(g)
         /\ \A kd \in TA!KindSet : \E g \in QG : g.w = 4 /\ g.obs # 4 /\ g.kb = kd /\ RWOk(g)             \* ... and writes
         /\ \A r1 \in RWReadsPre : \A r2 \in RWCore : \A w \in RWViews : \A m \in RWMeths : \A o \in RWObs :      \* every combination
             \E g \in QG : g.r1 = r1 /\ g.r2 = r2 /\ g.w = w /\ g.meth = m /\ <<g.obs, g.late>> = o /\ g.ka # g.kb /\ RWOk(g)
         /\ \E g \in QG : g.r2 = "sep" /\ RWOk(g)
         /\ (~q => QG \subseteq RWFullGrid(q))

\* ---------------- Enum: print the case spaces ------------------------------------------------------------
VARIABLES ph, cur, rec_i, tr_l, tr_st, tr_v       \* never names that library operators bind
vars == <<ph, cur, rec_i, tr_l, tr_st, tr_v>>
Idle == /\ tr_l = 0 /\ tr_st = <<>> /\ tr_v = <<>>
EnumInit == ph = "start" /\ cur = <<>> /\ rec_i = 0 /\ Idle
Emit(c) == ph' = "case" /\ cur' = c /\ UNCHANGED <<rec_i, tr_l, tr_st, tr_v>>
ItemVecs == {<<>>, <<VInt(7)>>, <<VInt(7), VStr(U("b"))>>, <<AR>>, <<Undef>>, <<Ref(1)>>}
EnumPlain ==
  \E f \in FamIdx :
    LET rv == Family[f] IN
    \/ \E m \in {"pop", "shift", "reverse", "toString", ".length"} : Emit(CallCase(m, rv, <<>>, NoCb))
    \/ \E m \in {"push", "unshift"} : \E a \in ItemVecs : Emit(CallCase(m, rv, a, NoCb))
    \/ \E a \in ItemVecs \cup {<<AR, VInt(7)>>, <<AR, AR>>, <<Undef, Null>>, <<Ref(1), AR>>} : Emit(CallCase("concat", rv, a, NoCb))
    \/ \E s \in {<<>>, <<Undef>>, <<Null>>, <<VStr(<<>>)>>, <<VStr(U("-"))>>, <<VStr(U(", "))>>, <<VInt(1)>>, <<VBool(TRUE)>>} :
         Emit(CallCase("join", rv, s, NoCb))
    \/ \E a \in Vecs0to2(IdxVals) : Emit(CallCase("slice", rv, a, NoCb))
    \/ \E a \in Vecs0to2(IdxVals) : Emit(CallCase("splice", rv, a, NoCb))
    \/ \E a \in Vecs0to2(IdxFew) : \E it \in {<<VInt(7)>>, <<VInt(7), AR>>, <<Undef, VStr(U("b")), VInt(8)>>} :
         Len(a) = 2 /\ Emit(CallCase("splice", rv, a \o it, NoCb))
    \/ \E m \in {"indexOf", "lastIndexOf", "includes"} : \E x \in SearchVals :
         \/ Emit(CallCase(m, rv, <<x>>, NoCb))
         \/ \E k \in IdxVals : Emit(CallCase(m, rv, <<x, k>>, NoCb))
    \/ \E m \in {"indexOf", "lastIndexOf", "includes"} : Emit(CallCase(m, rv, <<>>, NoCb))
    \/ \E v \in IdxVals \cup {VInt(2), VInt(5), VInt(8), VNumW(W1p5), VBool(TRUE)} :
         LET c == CallCase(".length=", rv, <<v>>, NoCb) IN OkCase(c) /\ Emit(c)
    \/ \E k \in {x \in IdxNumsFull : TRUE} : LET c == CallCase("[]", rv, <<k>>, NoCb) IN OkCase(c) /\ Emit(c)
    \/ \E k \in {0, 1, 2, 3, 5, 6, 7, 8, 12} : \E v \in {VInt(7), Undef, AR} : Emit(CallCase("[]=", rv, <<VInt(k), v>>, NoCb))
EnumCallbacks ==
  \E f \in CbFamily :
    LET rv == Family[f] IN
    \/ \E m \in IterMethods : \E t \in Tabs(3) : Emit(CallCase(m, rv, <<>>, FnCb(m, t, Undef, FALSE)))
    \/ (~Quick /\ f \in {24, 34} /\ \E m \in IterMethods : \E t \in [1..4 -> Syms] : Emit(CallCase(m, rv, <<>>, FnCb(m, t, Undef, FALSE))))
    \/ \E m \in {"reduce", "reduceRight"} : \E t \in Tabs(3) : \E a \in {<<>>, <<VInt(100)>>, <<Undef>>} :
         Emit(CallCase(m, rv, a, FnCb(m, t, Undef, FALSE)))
    \/ \E m \in IterMethods : \E t \in Tabs(1) : \E th \in {VInt(5), AR, Undef, Ref(1)} :
         Emit(CallCase(m, rv, <<>>, FnCb(m, t, th, TRUE)))
    \/ \E m \in CbMethods \cup {"sort"} : \E cb \in NonFns : \E a \in {<<>>, <<VInt(100)>>} :
         (Len(a) = 0 \/ (m \in {"reduce", "reduceRight"} /\ cb.kind # "none")) /\ Emit(CallCase(m, rv, a, cb))
\* sort: every array of length <= L over small integers (with ties modulo 3) and undefined, each comparator
SortVals == {VInt(0), VInt(1), VInt(2), VInt(3), VInt(4), Undef}
SortLen == IF Quick THEN 3 ELSE 4
DefVals == {N1, N2, N9, SA, S10, UN, NL, NAN, AR, TR}
EnumSort ==
  \/ \E k \in 0..SortLen : \E rv \in [1..k -> SortVals] : \E c \in ConsistentCmp \cup InconsistentCmp :
       (c \in ConsistentCmp \/ k <= 3) /\ Emit(CallCase("sort", rv, <<>>, CmpCb(c)))
  \/ \E k \in 0..3 : \E rv \in [1..k -> DefVals] : Emit(CallCase("sort", rv, <<>>, ValCb("none", Undef)))
  \/ \E f \in 1..Len(Family) : Emit(CallCase("sort", Family[f], <<>>, ValCb("none", Undef)))
  \/ \E f \in FamIdx : \E c \in InconsistentCmp : Emit(CallCase("sort", Family[f], <<>>, CmpCb(c)))
EnumTA ==
  \/ \E kd \in TA!KindSet : \E x \in Stored :                                  \* element coercion, seen through a byte view
       \/ Emit(TACase(<<ENewLen(kd, <<VInt(2)>>), EWrite(1, 0, x), EWrite(1, 1, VInt(5)), EWrite(1, 1, x), EWrite(1, 2, x)>>))
       \/ (~(IsNaNVal(x) /\ kd \in {"Float32Array", "Float64Array"})
            /\ Emit(TACase(<<ENewBuf(16), EView(kd, 1, <<VInt(8)>>), EView("Uint8Array", 1, <<>>), EWrite(1, 0, x)>>)))
       \/ Emit(TACase(<<ENewArr(kd, <<x>>)>>))
       \/ \E y \in {VInt(3), VNaN, VStr(U("7"))} : Emit(TACase(<<ENewArr(kd, <<VInt(1), x, y>>)>>))
  \/ \E kd \in KindsOf(Quick) : \E n \in {VInt(0), VInt(1), VInt(3), VNumW(W1p5), VInt(-1), VNaN, VNumW(WPosInf), Undef, Null, VBool(TRUE), VStr(U("2")), VNumW(WNeg(W0p5))} :
       \/ Emit(TACase(<<ENewLen(kd, <<n>>), ELen(1)>>))
       \/ (n = VInt(0) /\ Emit(TACase(<<ENewLen(kd, <<>>), ELen(1)>>)))
  \/ \E kd \in KindsOf(Quick) : \E bl \in {0, 7, 8, 16} : \E off \in {-2, -1, 0, 1, 2, 4, 8, 9, 16, 17} : \E ln \in {-1, 0, 1, 2, 3} :
       LET a == (IF off = -2 THEN <<>> ELSE <<VInt(off)>>) \o (IF ln = -1 \/ off = -2 THEN <<>> ELSE <<VInt(ln)>>)
       IN Emit(TACase(<<ENewBuf(bl), EView(kd, 1, a), ELen(1)>>))
  \/ \E ka \in KindsOf(Quick) : \E kb \in KindsOf(Quick) : \E off \in {0, 8} :          \* two views of one buffer
     \E x \in {VInt(258), VInt(-2), VNumW(W1p5), VNumW(W2p32p1)} : \E y \in {VInt(-1), VNumW(W0p5), VInt(65537)} :
       Emit(TACase(<<ENewBuf(16), EView(ka, 1, <<>>), EView(kb, 1, <<VInt(off)>>), EWrite(1, 1, x), EWrite(2, 0, y), EWrite(1, 0, y)>>))
  \/ \E kd \in KindsOf(Quick) : \E a \in OffArgs : \E vals \in {<<VInt(1), VInt(2)>>, <<VInt(300), VStr(U("7")), VNaN>>, <<>>, <<VNumW(WPosInf)>>} :
       Emit(TACase(<<ENewLen(kd, <<VInt(4)>>), ESet(1, ArrSrc(vals), a)>>))
  \/ \E ka \in KindsOf(Quick) : \E kb \in KindsOf(Quick) : \E a \in {<<>>, <<VInt(1)>>, <<VInt(2)>>} :
       Emit(TACase(<<ENewArr(ka, <<VInt(1), VInt(-2), VInt(300)>>), ENewLen(kb, <<VInt(4)>>), ESet(2, ViewSrc(1), a)>>))
  \/ \E kd \in {"Uint8Array", "Int16Array"} : \E o2 \in {0, 2, 4} : \E o3 \in {0, 2, 4} : \E a \in {<<>>, <<VInt(1)>>} :   \* overlapping set
       Emit(TACase(<<ENewBuf(12), EView("Uint8Array", 1, <<>>), ESet(1, ArrSrc(<<VInt(1), VInt(2), VInt(3), VInt(4), VInt(5), VInt(6), VInt(7), VInt(8), VInt(9), VInt(10), VInt(11), VInt(12)>>), <<>>),
                      EView(kd, 1, <<VInt(o2), VInt(3)>>), EView(kd, 1, <<VInt(o3), VInt(2)>>), ESet(2, ViewSrc(3), a)>>))
  \/ \E kd \in KindsOf(Quick) : \E a \in SubArgs :                                     \* subarray shares the buffer
       \/ Emit(TACase(<<ENewArr(kd, <<VInt(1), VInt(2), VInt(3), VInt(4)>>), ESub(1, a), EWrite(2, 0, VInt(9)), EWrite(1, 1, VInt(8)), ELen(2)>>))
       \/ Emit(TACase(<<ENewBuf(32), EView(kd, 1, <<VInt(8), VInt(3)>>), ESet(1, ArrSrc(<<VInt(1), VInt(2), VInt(3)>>), <<>>), ESub(1, a), EWrite(3, 0, VInt(9)),
                        EView("Uint8Array", 1, <<>>)>>))
  \/ \E kd \in TA!KindSet : \E s \in {<<>>, <<Undef>>, <<VStr(U("-"))>>, <<VStr(<<>>)>>} :
     \E vals \in {<<>>, <<VInt(1)>>, <<VInt(1), VInt(2), VInt(3)>>, <<VNumW(W1p5), VInt(-1)>>, <<VNaN, VNumW(WPosInf), VNumW(WNegZero)>>} :
       LET c == TACase(<<ENewArr(kd, vals), EJoin(1, s), EToStr(1)>>)
       IN TA!EvOK(c.evs[2], RunTA(c.evs, 1, TA!EmptyTS)) /\ Emit(c)
\* ---------------- K: element reads and writes BY PROPERTY KEY (round 3) -------------------------------------------------------
\* "Element assignment follows the documented rules" quantifies over the KEY of a[k] and a[k] = v, not only over integer
\* numbers: the key kind (boolean, undefined, null, string naming an index, string naming no index, number naming an index
\* incl. -0, integer number naming none (-1), non-integer number) x read / write x where the key's numeric image lies
\* (inside, at length, beyond, receiver empty) x how the effect is looked at afterwards (the elements, the named properties,
\* a read through ANOTHER key of the same or of a different name: a write and a read through the same key can mask each
\* other).  A case is a short script on one receiver; after every event the driver records the result, every array's
\* elements, the receiver's own named properties and the reads of every script key's NAME as a string.
KStr(t) == VStr(U(t))
KeyValsFull == {VBool(TRUE), VBool(FALSE), Undef, Null, KStr("0"), KStr("1"), KStr("2"), KStr("x"), KStr("true"), KStr("false"), KStr("null"),
                KStr("01"), KStr("-1"), KStr("1.0"), VStr(<<>>), VInt(0), VInt(1), VInt(2), VInt(3), VInt(-1), VNumW(WNegZero),
                VNaN, VNumW(W1p5), VNumW(WPosInf)}
KeyValsQuick == {VBool(TRUE), VBool(FALSE), Undef, Null, KStr("1"), KStr("x"), KStr("true"), KStr("01"), KStr("-1"),
                 VInt(0), VInt(1), VInt(-1), VNumW(WNegZero), VNaN, VNumW(W1p5)}
KeyVals(q) == IF q THEN KeyValsQuick ELSE KeyValsFull
KeyClass(kv) == CASE kv.k = "str" -> (IF KeyIndex(kv.u) >= 0 THEN "str-index" ELSE "str-name")
                  [] kv.k = "num" -> (IF KeyIndex(KeyU(kv)) >= 0 THEN (IF kv.w = WNegZero THEN "num-negzero" ELSE "num-index")
                                      ELSE IF StrictRejectKey(kv) THEN "num-nonint" ELSE "num-negative")
                  [] OTHER -> kv.k
KeyRecvQuick == {<<>>, <<N1>>, <<N1, N2>>, <<N9, N2, N1>>}
KeyRecv(q) == IF q THEN KeyRecvQuick ELSE KeyRecvQuick \cup {<<UN, NL, NAN, AR, TR, N1>>, <<TR, N1>>}
KeyStored(q) == IF q THEN {VInt(7)} ELSE {VInt(7), Undef, AR}
KGet(kv) == [op |-> "get", k |-> kv, v |-> Undef]
KSet(kv, x) == [op |-> "set", k |-> kv, v |-> x]
KeyCase(rv, evs) == [ty |-> "key", store |-> MkStore(rv), r |-> 1, evs |-> evs, probes |-> [j \in 1..Len(evs) |-> VStr(KeyU(evs[j].k))]]
KeyScripts(q) ==
  {<<KGet(kv)>> : kv \in KeyVals(q)}                                                               \* a read that no write precedes
  \cup {<<KSet(kv, x)>> : kv \in KeyVals(q), x \in KeyStored(q)}
  \cup {<<KSet(kv, x), KGet(k2)>> : kv \in KeyVals(q), k2 \in KeyVals(q), x \in KeyStored(q)}      \* read back through any key
  \cup {<<KSet(kv, VInt(7)), KSet(k2, VInt(8)), KGet(kv), KGet(k2)>> : kv \in KeyValsQuick, k2 \in (IF q THEN {VBool(TRUE), KStr("1"), VInt(0), KStr("x")} ELSE KeyValsQuick)}
KeyGrid(q) == {KeyCase(rv, evs) : rv \in KeyRecv(q), evs \in KeyScripts(q)}
KeyCaseOK(c) == \A j \in 1..Len(c.evs) : KeyEvOK(c.evs[j])
\* the quick sub-grid contains every class of the family (a dropped class is a Machinery failure, not silence)
KeyGridLaw(q) ==
  /\ KeyValsQuick \subseteq KeyValsFull /\ KeyScripts(TRUE) \subseteq KeyScripts(FALSE) /\ KeyRecv(TRUE) \subseteq KeyRecv(FALSE)
  /\ {KeyClass(kv) : kv \in KeyValsQuick} = {KeyClass(kv) : kv \in KeyValsFull}
  /\ {"bool", "undef", "null", "str-index", "str-name", "num-index", "num-negzero", "num-negative", "num-nonint"} \subseteq {KeyClass(kv) : kv \in KeyValsQuick}
  /\ \A kv \in KeyValsFull : KeyEvOK(KGet(kv))
  /\ \A kv \in KeyValsQuick : \A n \in 0..3 :                \* every key meets a receiver of every length 0..3, read and written, alone and read back
       \E rv \in KeyRecvQuick : Len(rv) = n /\ <<KGet(kv)>> \in KeyScripts(TRUE) /\ <<KSet(kv, VInt(7))>> \in KeyScripts(TRUE)
                                /\ \A k2 \in KeyValsQuick : <<KSet(kv, VInt(7)), KGet(k2)>> \in KeyScripts(TRUE)
EnumKeys == \E c \in KeyGrid(Quick) : KeyCaseOK(c) /\ Emit(c)
\* ---------------- B: WHEN the method is looked up - between the lookup and the call the receiver changes (round 4) -----------
\* "Each implemented method leaves the receiver with exactly the specified contents" quantifies over the state of the receiver
\* AT THE TIME OF THE CALL.  A method is a value: `a.m` is evaluated first (the lookup), then the arguments, then the call
\* happens; and the value can be kept (`var f = a.m`) and called later on the same receiver (`f.call(a, ...)`,
\* `f.apply(a, [...])`, and - this engine binds a method to the array it was read from - `f(...)`).  Whatever is done to the
\* receiver between the lookup and the call (by an argument expression or by statements in between) the call acts on the
\* receiver as it is THEN.  A case: store, receiver r, pre = the calls made on the receiver between lookup and call (each
\* succeeds), the method m with arguments a / callback cb, and the construction form:
\*   inarg    : r.m((pre[1], ..., pre[n], x1), x2, ...)     x1.. = the call's arguments (a zero-argument pop / shift / reverse /
\*              toString gets one ignored argument)
\*   call     : f = r.m ; pre[1] ; ... ; pre[n] ; f.call(r, x1, ...)
\*   apply    : f = r.m ; pre ... ; f.apply(r, [x1, ...])
\*   detached : f = r.m ; pre ... ; f(x1, ...)               ECMA-262: this = undefined -> TypeError, nothing changes; the engine's
\*              documented binding to the receiver: as f.call(r, ...).  Both accepted.
\* Kinds of intervening change: element-wise in place (push pop shift unshift reverse sort, an element write), removing /
\* inserting in the middle (splice), truncation and extension through length.
BEv(m, a, cb) == [m |-> m, a |-> a, cb |-> cb]
BCb(m) == FnCb(m, <<>>, Undef, FALSE)
BForms == {"inarg", "call", "apply", "detached"}
BMutators == {"push", "pop", "shift", "unshift", "reverse", "splice", "sort"}
BFinals(q) ==
  {BEv("push", <<VInt(7)>>, NoCb), BEv("push", <<VInt(7), VStr(U("b"))>>, NoCb), BEv("push", <<>>, NoCb), BEv("pop", <<>>, NoCb),
   BEv("shift", <<>>, NoCb), BEv("unshift", <<VInt(7)>>, NoCb), BEv("unshift", <<VInt(7), AR>>, NoCb), BEv("reverse", <<>>, NoCb),
   BEv("concat", <<VInt(7)>>, NoCb), BEv("concat", <<>>, NoCb), BEv("join", <<>>, NoCb), BEv("join", <<VStr(U("-"))>>, NoCb),
   BEv("toString", <<>>, NoCb), BEv("slice", <<VInt(1)>>, NoCb), BEv("slice", <<>>, NoCb), BEv("splice", <<VInt(1), VInt(1)>>, NoCb),
   BEv("splice", <<VInt(0), VInt(0), VInt(7)>>, NoCb), BEv("indexOf", <<N1>>, NoCb), BEv("lastIndexOf", <<N1>>, NoCb),
   BEv("includes", <<N1>>, NoCb), BEv("sort", <<>>, ValCb("none", Undef)), BEv("sort", <<>>, CmpCb("undef"))}
  \cup {BEv(m, <<>>, BCb(m)) : m \in IterMethods}
  \cup {BEv("reduce", <<VInt(100)>>, BCb("reduce")), BEv("reduceRight", <<>>, BCb("reduceRight"))}
BPreInPlace == {BEv("push", <<VInt(8)>>, NoCb), BEv("pop", <<>>, NoCb), BEv("shift", <<>>, NoCb), BEv("unshift", <<VInt(8)>>, NoCb),
                BEv("reverse", <<>>, NoCb), BEv("sort", <<>>, ValCb("none", Undef)), BEv("[]=", <<VInt(0), VInt(8)>>, NoCb)}
BPreMiddle  == {BEv("splice", <<VInt(0), VInt(1)>>, NoCb), BEv("splice", <<VInt(1), VInt(2)>>, NoCb), BEv("splice", <<VInt(1), VInt(0), VInt(8)>>, NoCb),
                BEv("splice", <<>>, NoCb)}
BPreLength  == {BEv(".length=", <<VInt(0)>>, NoCb), BEv(".length=", <<VInt(1)>>, NoCb), BEv(".length=", <<VInt(6)>>, NoCb)}
BPreEvs == BPreInPlace \cup BPreMiddle \cup BPreLength
BPreClass(ev) == IF ev \in BPreInPlace THEN "inplace" ELSE IF ev \in BPreMiddle THEN "middle" ELSE "length"
BPreQuick == {<<>>} \cup {<<e>> : e \in BPreEvs}
             \cup {<<BEv("splice", <<VInt(0), VInt(1)>>, NoCb), BEv("push", <<VInt(8)>>, NoCb)>>, <<BEv("push", <<VInt(8)>>, NoCb), BEv(".length=", <<VInt(1)>>, NoCb)>>}
BPrePairs == {<<e, f>> : e \in BPreEvs, f \in BPreEvs}
BRecvQuick == {<<>>, <<N1>>, <<N9, S10, N2, N1>>}
BRecv(q) == IF q THEN BRecvQuick ELSE BRecvQuick \cup {<<N1, N2>>, <<N2, N1, N9>>, <<UN, N1, AR, N2, N1>>}
BindCase(rv, pre, f, form) == [ty |-> "bind", store |-> MkStore(rv), r |-> 1, pre |-> pre, m |-> f.m, a |-> f.a, cb |-> f.cb, form |-> form]
BindGrid(q) ==
  {BindCase(rv, pre, f, form) : rv \in BRecv(q), pre \in BPreQuick, f \in BFinals(q), form \in BForms}
  \cup (IF q THEN {} ELSE {BindCase(rv, pre, f, form) : rv \in BRecv(q), pre \in BPrePairs, f \in {g \in BFinals(q) : g.m \in BMutators}, form \in {"inarg", "call"}})
\* the form is expressible: the mutation sits inside the first argument, so there must be one (or the method ignores it)
BInargOK(c) == Len(c.a) >= 1 \/ c.cb.kind = "fn" \/ c.m \in {"pop", "shift", "reverse", "toString"}
RECURSIVE BPreOK(_, _, _, _)
BPreOK(st, r, pre, k) == IF k > Len(pre) THEN TRUE
                         ELSE /\ Supported(pre[k].m, st, r, pre[k].a, pre[k].cb)
                              /\ LET x == Call(pre[k].m, st, r, pre[k].a, pre[k].cb, {}) IN x.out.o = "value" /\ BPreOK(x.store, r, pre, k + 1)
RECURSIVE BPreStore(_, _, _, _)
BPreStore(st, r, pre, k) == IF k > Len(pre) THEN st ELSE BPreStore(Call(pre[k].m, st, r, pre[k].a, pre[k].cb, {}).store, r, pre, k + 1)
BindOK(c) == /\ (c.form = "inarg" => BInargOK(c)) /\ BPreOK(c.store, c.r, c.pre, 1)
             /\ Supported(c.m, BPreStore(c.store, c.r, c.pre, 1), c.r, c.a, c.cb)
\* the quick sub-grid contains every class of the family (a dropped class is a Machinery failure, not silence)
BindGridLaw(q) ==
  LET QG == {c \in BindGrid(TRUE) : BindOK(c)} IN
  /\ (~q => BindGrid(TRUE) \subseteq BindGrid(FALSE))
  /\ {"inplace", "middle", "length"} = {BPreClass(e) : e \in BPreEvs}
  /\ \A form \in BForms : \A e \in BPreEvs : \A f \in BFinals(q) :            \* every form x every intervening change x every method, on a receiver of length >= 4
       (form # "inarg" \/ BInargOK(BindCase(<<>>, <<>>, f, form))) =>
         \E c \in QG : c.form = form /\ c.pre = <<e>> /\ c.m = f.m /\ c.a = f.a /\ c.cb = f.cb /\ Len(c.store[1]) >= 4
  /\ \A form \in BForms : \A mm \in BMutators \cup IterMethods \cup {"concat", "slice", "join", "indexOf", "includes", "reduce"} :
       \E c \in QG : c.form = form /\ c.m = mm /\ c.pre = <<>>                                            \* the control: nothing in between
  /\ \A n \in {0, 1, 4} : \A e \in BPreEvs : \E c \in QG : Len(c.store[1]) = n /\ c.pre = <<e>> /\ c.m = "push"
  /\ \E c \in QG : Len(c.pre) = 2
BindLaw(c) ==
  LET st == BPreStore(c.store, c.r, c.pre, 1)
      res == Call(c.m, st, c.r, c.a, c.cb, {})
  IN /\ BindOK(c) /\ StoreOK(st) /\ Len(st) = Len(c.store)
     /\ \A i \in 1..Len(st) : (i # c.r => st[i] = c.store[i] /\ res.store[i] = c.store[i])       \* frame: only the receiver changes
     /\ res.out.o \in {"value", "throw"} /\ StoreOK(res.store)
     /\ (c.m = "push" => res.store[c.r] = st[c.r] \o c.a /\ res.out.v = VInt(Len(st[c.r]) + Len(c.a)))   \* on the receiver as it is at the call
     /\ (c.m = "unshift" => res.store[c.r] = c.a \o st[c.r])
     /\ (c.m = "pop" /\ st[c.r] # <<>> => res.store[c.r] = SubSeq(st[c.r], 1, Len(st[c.r]) - 1) /\ SameX(res.out.v, st[c.r][Len(st[c.r])]))
     /\ (c.m = "shift" /\ st[c.r] # <<>> => res.store[c.r] = Tail(st[c.r]) /\ SameX(res.out.v, st[c.r][1]))
EnumBind == \E c \in {d \in BindGrid(Quick) : BindOK(d)} : Emit(c)      \* (the filter is a set: inside an action TLC explores both sides of a disjunction)
EnumRW == \E g \in RWGrid(Quick) : RWOk(g) /\ Emit([ty |-> "ta", evs |-> RWEvs(g), fam |-> "rw"])
Parts == IF "C17_PARTS" \in DOMAIN IOEnv THEN IOEnv.C17_PARTS ELSE "all"          \* development switch: anything but "all" = this family only
EnumNext == ph = "start" /\ (IF Parts = "key" THEN EnumKeys ELSE IF Parts = "bind" THEN EnumBind ELSE IF Parts # "all" THEN EnumRW
                              ELSE (EnumPlain \/ EnumCallbacks \/ EnumSort \/ EnumTA \/ EnumRW \/ EnumKeys \/ EnumBind))
EnumEmit == ph = "start" \/ PrintT(ToJson(cur))

\* ---------------- Laws of the references (INVARIANT LawsHold in the Enum configuration) ------------------
IsSorted(kind, st, xs) == \A i \in 1..(Len(xs) - 1) : CmpSign(kind, st, xs[i], xs[i + 1], {}) <= 0
\* stable: elements the comparator calls equal keep their original relative order
IsStable(kind, st, before, after) ==
  \A v \in SeqSet(before) :
     LET cls(xs) == SelectSeq(xs, LAMBDA x : x.k # "undef" /\ v.k # "undef" /\ CmpSign(kind, st, x, v, {}) = 0)
     IN v.k = "undef" \/ SameSeq(cls(before), cls(after))
CallLaw(c) ==
  LET st == c.store  r == c.r  a == c.a  m == c.m  arr == st[r]  len == Len(arr)
      res == Call(m, st, r, a, c.cb, {})
      new == res.store[r]
      val == res.out.o = "value"
  IN /\ res.out.o \in {"value", "throw"}                                                \* the reference never produces a host error
     /\ StoreOK(res.store) /\ Len(res.store) = Len(st)
     /\ \A i \in 1..Len(st) : (i # r => res.store[i] = st[i])                        \* frame: only the receiver changes
     /\ (m \in FreshMethods /\ val => res.out.v.k = "arr")                              \* a fresh array, never the receiver
     /\ (m \in SelfMethods /\ val => res.out.v = Ref(r))                                \* the receiver itself
     /\ (m \in {"concat", "slice", "join", "toString", "indexOf", "lastIndexOf", "includes", ".length", "[]"} => new = arr)
     /\ (m = "slice" /\ val => LET e == res.out.v.e IN Len(e) <= len /\ \E k \in 0..len : Slice(arr, k, k + Len(e)) = e)
     /\ (m = "splice" /\ val => LET e == res.out.v.e  items == SubSeq(a, 3, Len(a))          \* splice length law and reconstruction
                                IN /\ Len(new) = len - Len(e) + Len(items)
                                   /\ \E k \in 0..len : /\ Slice(arr, k, k + Len(e)) = e
                                                        /\ new = Slice(arr, 0, k) \o items \o Slice(arr, k + Len(e), len))
     /\ (m = "concat" => Len(res.out.v.e) >= len /\ SubSeq(res.out.v.e, 1, len) = arr)
     /\ (m = "push" => new = arr \o a /\ res.out.v = VInt(len + Len(a)))
     /\ (m = "push" /\ Len(a) = 1 => Call("pop", res.store, r, <<>>, c.cb, {}).store = st)    \* pop undoes push
     /\ (m = "unshift" /\ Len(a) = 1 => Call("shift", res.store, r, <<>>, c.cb, {}).store = st)
     /\ (m = "reverse" => Call("reverse", res.store, r, <<>>, c.cb, {}).store = st)            \* involution
     /\ (m \in {"indexOf", "lastIndexOf"} =>
           LET k == WTruncClamp(res.out.v.w) IN k = -1 \/ (k >= 0 /\ k < len /\ StrictEq(arr[k + 1], Arg(a, 1))))   \* witness
     /\ (m = "includes" /\ Len(a) <= 1 => (res.out.v.b <=> \E i \in 1..len : StrictEq(arr[i], Arg(a, 1)) \/ BothNaN(arr[i], Arg(a, 1))))
     /\ (m = ".length=" /\ val => LET n == Len(new)  w == JS!ToNumberW(a[1]) IN new = SetLen(arr, n) /\ (WOfInt(n) = w \/ (n = 0 /\ WIsZero(w))))
     /\ (m = "[]=" => (val <=> WTruncClamp(a[1].w) <= len) /\ (val => Len(new) = Max(len, WTruncClamp(a[1].w) + 1)) /\ (~val => new = arr))
     /\ (m = "sort" /\ val /\ res.perm = "" =>
           LET kind == IF c.cb.kind = "fn" THEN c.cb.cmp ELSE "default"
               defs(xs) == SelectSeq(xs, LAMBDA v : v.k # "undef")
           IN /\ IsPermUndefLast(arr, new)
              /\ IsSorted(kind, st, defs(new))
              /\ IsStable(kind, st, arr, new))
     /\ (m \in IterMethods /\ c.cb.kind = "fn" /\ ~(\E p \in 1..Len(c.cb.tab) : c.cb.tab[p].act \in {"push", "pop", "len"}) =>
           \* without mutation the live iteration and the ECMA-262 iteration coincide, and every index is visited at most once, in order
           /\ Call(m, st, r, a, c.cb, {"Dev_LiveIteration"}) = res
           /\ \A i \in 1..Len(res.log) : res.log[i].args = <<arr[i], VInt(i - 1), Ref(r)>> /\ res.log[i].n = i
           /\ Len(res.log) <= len /\ new = arr)
     /\ (m \in IterMethods /\ c.cb.kind = "fn" => Len(res.log) <= len)               \* ECMA-262 never visits past the initial length
     /\ (m \in {"map", "filter"} /\ val => Len(res.out.v.e) <= len)
\* hand-checked vectors and algebraic laws of the element codec
KnownF32 == <<  \* <<double words, bytes of its binary32 image>>
  <<W0p1, <<205, 204, 204, 61>>>>, <<W16777217, <<0, 0, 128, 75>>>>, <<W1e39, <<0, 0, 128, 127>>>>, <<WF32Over, <<0, 0, 128, 127>>>>,
  <<WF32UnderOver, <<255, 255, 127, 127>>>>, <<WF32Max, <<255, 255, 127, 127>>>>, <<W1em46, <<0, 0, 0, 0>>>>, <<WF32HalfMinSub, <<0, 0, 0, 0>>>>,
  <<WF32MinSub, <<1, 0, 0, 0>>>>, <<WF32Tie, <<0, 0, 128, 63>>>>, <<W1p5, <<0, 0, 192, 63>>>>, <<WNeg(W2p31), <<0, 0, 0, 207>>>>, <<W1p0000001, <<1, 0, 128, 63>>>> >>
CodecLaws ==
  /\ \A i \in 1..Len(KnownF32) : TA!Encode("Float32Array", KnownF32[i][1]) = KnownF32[i][2]
  /\ \A kd \in TA!KindSet : \A v \in StoredFull :
       LET w == TA!ToNumW(v)  y == TA!Encode(kd, w)  back == TA!Decode(kd, y)
       IN /\ Len(y) = TA!Size(kd) /\ \A j \in 1..Len(y) : y[j] \in 0..255
          /\ (WIsNaN(w) /\ kd \in {"Float32Array", "Float64Array"} => WIsNaN(back))
          /\ (~WIsNaN(back) => TA!Encode(kd, back) = y)                                  \* stored values are fixed points
          /\ (kd = "Float64Array" /\ ~WIsNaN(w) => back = w)
          /\ (kd \in {"Uint8Array", "Uint8ClampedArray"} => WIsSmallInt(back) /\ WTruncClamp(back) \in 0..255)
          /\ (kd = "Int8Array" => WTruncClamp(back) \in -128..127)
          /\ (kd = "Uint8Array" /\ WIsSmallInt(w) => WTruncClamp(back) = WTruncClamp(w) % 256)   \* modular wrap
          /\ (kd = "Int16Array" /\ WIsSmallInt(w) => (WTruncClamp(back) - WTruncClamp(w)) % 65536 = 0)
          /\ (kd = "Uint8ClampedArray" /\ WIsSmallInt(w) => WTruncClamp(back) = Clamp(WTruncClamp(w), 0, 255))
  /\ TA!Decode("Uint32Array", TA!Encode("Uint32Array", WNeg(WOfInt(1)))) = W2p32m1
  /\ TA!Decode("Int32Array", TA!Encode("Int32Array", W2p31)) = WNeg(W2p31)
  /\ TA!Decode("Int32Array", TA!Encode("Int32Array", W2p32p1)) = WOfInt(1)
  /\ TA!Decode("Uint8ClampedArray", TA!Encode("Uint8ClampedArray", W254p5)) = WOfInt(254)    \* ties to even
  /\ TA!Decode("Uint8ClampedArray", TA!Encode("Uint8ClampedArray", W255p5)) = WOfInt(255)
  /\ TA!Decode("Uint8ClampedArray", TA!Encode("Uint8ClampedArray", W1p5)) = WOfInt(2)
  /\ TA!Decode("Uint8ClampedArray", TA!Encode("Uint8ClampedArray", W2p5)) = WOfInt(2)
  /\ TA!Decode("Uint8ClampedArray", TA!Encode("Uint8ClampedArray", W0p5)) = WOfInt(0)
TALaw(c) ==
  LET ts == RunTA(c.evs, 1, TA!EmptyTS)
  IN /\ \A j \in 1..Len(ts.views) : LET v == ts.views[j] IN v.off >= 0 /\ v.off + v.len * TA!Size(v.kind) <= Len(ts.bufs[v.buf])   \* views stay inside their buffer
     /\ \A i, j \in 1..Len(ts.views) :                                                   \* aliasing: same kind, same bytes => same elements
          LET v == ts.views[i]  u == ts.views[j]
          IN (v.kind = u.kind /\ v.buf = u.buf /\ v.off = u.off /\ v.len = u.len) => TA!ViewElems(ts, v) = TA!ViewElems(ts, u)
\* family K: laws of the reference on every enumerated script
RECURSIVE KeyLawFrom(_, _, _, _)
KeyLawFrom(c, k, ks, st) ==
  k > Len(c.evs) \/
  LET ev == c.evs[k]  cands == KeyStep(ev, ks)  x == cands[1]  u == KeyU(ev.k)  isIdx == KeyIndex(u) >= 0
  IN /\ \A j \in 1..Len(cands) : cands[j].out.o \in {"value", "throw"}                               \* never a host error
     /\ \A j \in 2..Len(cands) : cands[j].out.o = "throw" /\ cands[j].ks = ks                        \* a refusal changes nothing
     /\ (ev.op = "get" => x.ks = ks)
     /\ (ev.op = "set" /\ ~isIdx => x.ks.el = ks.el /\ x.out = ValOut(ev.v))                         \* a name never touches the elements
     /\ (ev.op = "set" /\ isIdx => x.ks.pr = ks.pr /\ Len(x.ks.el) \in {Len(ks.el), Len(ks.el) + 1}   \* an index never makes a property
                                   /\ (x.out.o = "throw" <=> KeyIndex(u) > Len(ks.el)) /\ (x.out.o = "throw" => x.ks = ks))
     /\ (ev.op = "set" /\ x.out.o = "value" => SameX(KeyGet(ev.k, x.ks), ev.v))                       \* read back through the same key
     /\ SameX(KeyGet(VStr(u), x.ks), KeyGet(ev.k, x.ks))                                             \* the key and its name are one property
     /\ (~isIdx => \A i \in 0..(Len(x.ks.el) - 1) : SameX(KeyGet(VInt(i), x.ks), x.ks.el[i + 1]))
     /\ \A i, j \in 1..Len(x.ks.pr) : (i # j => x.ks.pr[i].n # x.ks.pr[j].n)                          \* one property per name
     /\ \A i \in 1..Len(x.ks.pr) : KeyIndex(x.ks.pr[i].n) < 0
     /\ KeyLawFrom(c, k + 1, x.ks, st)
KeyLaw(c) == KeyCaseOK(c) /\ KeyLawFrom(c, 1, [el |-> c.store[c.r], pr |-> <<>>], c.store)
LawsHold == CASE ph = "start" -> CodecLaws /\ RWLaw(Quick) /\ KeyGridLaw(Quick) /\ BindGridLaw(Quick)
              [] ph = "case" -> IF cur.ty = "call" THEN CallLaw(cur) ELSE IF cur.ty = "key" THEN KeyLaw(cur)
                                ELSE IF cur.ty = "bind" THEN BindLaw(cur) ELSE TALaw(cur)
              [] OTHER -> TRUE

\* ---------------- the array store as a state machine (INIT SMInit, NEXT SMNext, INVARIANT SMInv) -----------------
\* tr_st = store, tr_v = last step [m, r, pre, res], tr_l = number of calls made
SMVals == {N1, N2, UN, Ref(1), Ref(2)}
SMInit == /\ ph = "sm" /\ cur = <<>> /\ rec_i = 0 /\ tr_l = 0 /\ tr_v = <<>>
          /\ tr_st \in {<<<<>>, <<N1>>>>, <<<<N2, N1>>, <<UN>>>>, <<<<N1, UN, N2>>, <<>>>>}
SMArgs(m) == CASE m \in {"push", "unshift", "concat"} -> {<<x>> : x \in SMVals} \cup {<<>>}
               [] m \in {"slice", "splice"} -> Vecs0to2({VInt(-1), VInt(0), VInt(1), VInt(2)})
               [] m = ".length=" -> {<<VInt(0)>>, <<VInt(1)>>, <<VInt(3)>>}
               [] m = "[]=" -> {<<VInt(k), x>> : k \in {0, 1, 2, 3}, x \in {N2, Ref(2)}}
               [] m \in IterMethods -> {<<>>}
               [] OTHER -> {<<>>}
SMMethods == {"push", "pop", "shift", "unshift", "reverse", "concat", "slice", "splice", ".length=", "[]=", "sort", "map", "filter", "forEach"}
SMCb(m) == IF m \in IterMethods THEN {FnCb(m, t, Undef, FALSE) : t \in {<<>>, <<"push">>, <<"pop", "T">>, <<"shorten">>}}
           ELSE IF m = "sort" THEN {ValCb("none", Undef)} ELSE {NoCb}
SMDepth == IF Quick THEN 2 ELSE 3
SMNext == /\ ph = "sm" /\ tr_l < SMDepth
          /\ \E m \in SMMethods : \E r \in 1..2 : \E a \in SMArgs(m) : \E cb \in SMCb(m) :
               /\ Supported(m, tr_st, r, a, cb)
               /\ LET res == Call(m, tr_st, r, a, cb, {})
                      st2 == IF res.out.o = "value" /\ res.out.v.k = "arr" /\ Len(res.store) < 4 THEN Append(res.store, res.out.v.e) ELSE res.store
                  IN /\ tr_st' = st2 /\ tr_l' = tr_l + 1
                     /\ tr_v' = [m |-> m, r |-> r, pre |-> tr_st, res |-> res]
               /\ UNCHANGED <<ph, cur, rec_i>>
SMInv == /\ StoreOK(tr_st)                                                              \* dense, every reference resolves
         /\ (tr_v # <<>> =>
              LET res == tr_v.res  pre == tr_v.pre  r == tr_v.r  m == tr_v.m
              IN /\ \A i \in 1..Len(pre) : i # r => res.store[i] = pre[i]
                 /\ (m \in FreshMethods /\ res.out.o = "value" => res.out.v.k = "arr")
                 /\ (m \in SelfMethods => res.out.v = Ref(r))
                 /\ (m = "[]=" /\ res.out.o = "throw" => res.store = pre))
SMConstraint == Len(tr_st) <= 4

\* ---------------- Judge: single calls ------------------------------------------------------------------------
Recs == ndJsonDeserialize(IOEnv.OBS_FILE)           \* [id, ty, store, m, r, a, cb, obs] / [id, ty, store0, evs (with obs)]
HasMut(cb) == \E p \in 1..Len(cb.tab) : cb.tab[p].act \in {"push", "pop", "len"}
HasShrink(cb) == \E p \in 1..Len(cb.tab) : cb.tab[p].act \in {"pop", "len"}
RecvHasRef(st, r) == \E i \in 1..Len(st[r]) : IsRef(st[r][i])
RecvHasAstral(st, r) == \E i \in 1..Len(st[r]) : st[r][i].k = "str" /\ \E j \in 1..Len(st[r][i].u) : st[r][i].u[j] >= 55296
IdxArgsOf(m, a) == IF m \in {"slice", "splice"} THEN SubSeq(a, 1, Min(Len(a), 2))
                   ELSE IF m \in {"indexOf", "lastIndexOf", "includes"} THEN SubSeq(a, 2, Min(Len(a), 2)) ELSE <<>>
Relevant(c) ==
  LET m == c.m  a == c.a  cb == c.cb  st == c.store  r == c.r
      defaultSort == m = "sort" /\ (cb.kind # "fn" \/ cb.cmp = "default")
  IN (IF FirstIntErr(IdxArgsOf(m, a)) # "" THEN {"Dev_IntArg"} ELSE {})
     \cup (IF m = "splice" /\ a = <<>> THEN {"Dev_SpliceNoArgs"} ELSE {})
     \cup (IF m = "join" /\ Len(a) >= 1 /\ IsUndef(a[1]) THEN {"Dev_JoinSep"} ELSE {})
     \cup (IF (m \in {"join", "toString"} \/ defaultSort) /\ RecvHasRef(st, r) THEN {"Dev_ArrayToString"} ELSE {})
     \cup (IF defaultSort /\ RecvHasAstral(st, r) THEN {"Dev_CodePoints"} ELSE {})
     \cup (IF m \in CbMethods \cup {"sort"} /\ cb.kind # "fn" THEN {"Dev_NoCallbackCheck"} ELSE {})
     \cup (IF m \in IterMethods /\ cb.hasThis /\ ~IsUndef(cb.this) THEN {"Dev_ThisArgIgnored"} ELSE {})
     \cup (IF m = "includes" /\ Arg(a, 1).k = "num" /\ WIsNaN(Arg(a, 1).w) THEN {"Dev_IncludesStrict"} ELSE {})
     \cup (IF m \in {"indexOf", "lastIndexOf", "includes"} /\ Arg(a, 1).k \in {"bool", "num"} THEN {"Dev_StrictEqualsBool"} ELSE {})
     \cup (IF m \in IterMethods /\ cb.kind = "fn" /\ HasMut(cb) THEN {"Dev_LiveIteration"} ELSE {})
     \cup (IF m \in {"reduce", "reduceRight"} /\ Len(a) >= 1 /\ IsUndef(a[1]) THEN {"Dev_ReduceUndefInit"} ELSE {})
     \cup (IF m \in {"reduce", "reduceRight"} /\ cb.kind = "fn" /\ HasShrink(cb) THEN {"Dev_ReduceIndexError"} ELSE {})
     \cup (IF m = "sort" /\ cb.kind = "fn" /\ cb.cmp \in {"nan", "str", "quarter"} THEN {"Dev_SortCmpInt"} ELSE {})
     \cup (IF m = "[]=" /\ WTruncClamp(a[1].w) > Len(st[r]) THEN {"Dev_OobWriteSilent"} ELSE {})
     \cup (IF m = ".length=" /\ ~ValidLen(a[1]) THEN {"Dev_LengthAssign"} ELSE {})
OutOK(act, exp) ==
  /\ act.o = exp.o
  /\ CASE exp.o = "value" -> SameX(act.v, exp.v)
       [] exp.o = "throw" -> (exp.cls = "any") \/ (act.cls = exp.cls /\ (exp.cls = "value" => SameX(act.v, exp.v)))
       [] OTHER -> act.cls = exp.cls
LogOK(alog, elog) == /\ Len(alog) = Len(elog)
                     /\ \A i \in 1..Len(elog) : /\ alog[i].n = elog[i].n /\ SameX(alog[i].this, elog[i].this)
                                                /\ SameSeq(alog[i].args, elog[i].args)
\* obs = [out, store, log].  reg: a new array returned by the call was registered as the next identity (histories)
StoreFor(res, out, reg) == IF reg /\ out.o = "value" /\ out.v.k = "arr" THEN Append(res.store, out.v.e) ELSE res.store
MatchOne(c, obs, res, out, reg) ==
  LET est == StoreFor(res, out, reg)
  IN /\ OutOK(obs.out, out)
     /\ Len(obs.store) = Len(est)
     /\ \A i \in 1..Len(est) : IF res.perm = "last" /\ i = c.r THEN IsPermUndefLast(c.store[i], obs.store[i])
                                ELSE IF res.perm = "any" /\ i = c.r THEN IsPerm(c.store[i], obs.store[i])
                                ELSE SameSeq(obs.store[i], est[i])
     /\ (c.m = "sort" \/ LogOK(obs.log, res.log))              \* the comparator's call sequence is implementation-defined
Matches(c, obs, res, reg) == MatchOne(c, obs, res, res.out, reg) \/ \E i \in 1..Len(res.alt) : MatchOne(c, obs, res, res.alt[i], reg)
InFamily(out) == out.o \in {"value", "throw", "jserror"}
\* what an opaque deviation (a throw inside a callback) may end in: any JavaScript outcome, or the host error of another
\* listed deviation the same call can reach afterwards
HostOf(rel) == (IF "Dev_ReduceIndexError" \in rel THEN {"IndexError"} ELSE {}) \cup (IF "Dev_SortCmpInt" \in rel THEN {"ValueError"} ELSE {})
OpaqueOK(out, rel) == InFamily(out) \/ (out.o = "host" /\ out.cls \in HostOf(rel))
RECURSIVE ObsTypeOK(_)
ObsTypeOK(v) == v.k \in PrimKinds \cup {"ref", "arr"} /\ (v.k = "arr" => \A i \in 1..Len(v.e) : ObsTypeOK(v.e[i]))
ObsOK(obs) == /\ \A i \in 1..Len(obs.store) : \A j \in 1..Len(obs.store[i]) : ObsTypeOK(obs.store[i][j])
              /\ (obs.out.o = "value" => ObsTypeOK(obs.out.v))
CallVerdict(c, obs) ==
  LET ref == Call(c.m, c.store, c.r, c.a, c.cb, {})
      V(v, dev, why) == [v |-> v, dev |-> dev, why |-> why, exp |-> ref.out, expstore |-> ref.store]
  IN IF ~Supported(c.m, c.store, c.r, c.a, c.cb) THEN V("unsupported", "", "")
     ELSE IF Matches(c, obs, ref, FALSE) THEN V("pass", "", "")
     ELSE IF ref.opaque # "" /\ OpaqueOK(obs.out, Relevant(c)) THEN V("known", ref.opaque, "")
     ELSE LET rel == Relevant(c)
              Expl == {D \in SUBSET rel : D # {} /\ LET x == Call(c.m, c.store, c.r, c.a, c.cb, D)
                                                   IN Matches(c, obs, x, FALSE) \/ (x.opaque # "" /\ OpaqueOK(obs.out, rel))}
              why == IF ~ObsOK(obs) THEN "typeok"
                     ELSE IF ~(OutOK(obs.out, ref.out) \/ \E i \in 1..Len(ref.alt) : OutOK(obs.out, ref.alt[i])) THEN "result"
                     ELSE IF ~(c.m = "sort" \/ LogOK(obs.log, ref.log)) THEN "callbacks" ELSE "receiver"
          IN IF Expl = {} \/ ~ObsOK(obs) THEN V("violation", "", why)
             ELSE LET D == CHOOSE D \in Expl : \A D2 \in Expl : Cardinality(D) <= Cardinality(D2)
                      x == Call(c.m, c.store, c.r, c.a, c.cb, D)
                  IN V("known", IF Matches(c, obs, x, FALSE) THEN (CHOOSE d \in D : TRUE) ELSE x.opaque, why)
\* family K: rc = [id, ty = "key", store, r, evs (each with obs = [out, store, pr, probes]), probes]
KeyObsOK(o) == /\ \A i \in 1..Len(o.store) : \A j \in 1..Len(o.store[i]) : ObsTypeOK(o.store[i][j])
               /\ \A i \in 1..Len(o.pr) : ObsTypeOK(o.pr[i].v)
               /\ \A i \in 1..Len(o.probes) : ObsTypeOK(o.probes[i])
               /\ (o.out.o = "value" => ObsTypeOK(o.out.v))
KeyFrameOK(c, o) == Len(o.store) = Len(c.store) /\ \A i \in 1..Len(c.store) : (i # c.r => SameSeq(o.store[i], c.store[i]))
KeyPropsOK(o, ks) == Len(o.pr) = Len(ks.pr) /\ \A i \in 1..Len(ks.pr) : o.pr[i].n = ks.pr[i].n /\ SameX(o.pr[i].v, ks.pr[i].v)
KeyProbesOK(c, o, ks) == Len(o.probes) = Len(c.probes) /\ \A j \in 1..Len(c.probes) : SameX(o.probes[j], KeyGet(c.probes[j], ks))
KeyMatch(c, o, x) == /\ OutOK(o.out, x.out) /\ KeyFrameOK(c, o) /\ SameSeq(o.store[c.r], x.ks.el)
                     /\ KeyPropsOK(o, x.ks) /\ KeyProbesOK(c, o, x.ks)
KV(v, at, why, x) == [v |-> v, dev |-> "", why |-> why, at |-> at, exp |-> x.out, expstore |-> <<x.ks.el, x.ks.pr>>]
RECURSIVE KeyRun(_, _, _)
KeyRun(c, k, ks) ==
  IF k > Len(c.evs) THEN KV("pass", 0, "", KR(ValOut(Undef), ks))
  ELSE LET ev == c.evs[k]  o == ev.obs  cands == KeyStep(ev, ks)  x == cands[1]
           good == {j \in 1..Len(cands) : KeyMatch(c, o, cands[j])}
       IN IF ~KeyEvOK(ev) THEN KV("unsupported", k, "", x)
          ELSE IF ~KeyObsOK(o) THEN KV("violation", k, "typeok", x)
          ELSE IF good = {} THEN KV("violation", k, IF ~OutOK(o.out, x.out) THEN "result"
                                                     ELSE IF ~(KeyFrameOK(c, o) /\ SameSeq(o.store[c.r], x.ks.el)) THEN "elements"
                                                     ELSE IF ~KeyPropsOK(o, x.ks) THEN "properties" ELSE "read-by-name", x)
          ELSE KeyRun(c, k + 1, cands[CHOOSE j \in good : \A j2 \in good : j <= j2].ks)
KeyVerdict(c) == KeyRun(c, 1, [el |-> c.store[c.r], pr |-> <<>>])
\* family B: rc = [id, ty = "bind", store, r, pre, m, a, cb, form, obs = [pre |-> <<obs of pre[k]>>, fin |-> obs of the call]]
\* (form inarg: only the results of the intervening calls are observable, the arrays are seen after the whole expression)
BV(v, at) == [v |-> v.v, dev |-> v.dev, why |-> v.why, at |-> at, exp |-> v.exp, expstore |-> v.expstore]
RECURSIVE BindRun(_, _, _)
BindRun(c, k, st) ==
  IF k > Len(c.pre)
  THEN LET fc == [m |-> c.m, store |-> st, r |-> c.r, a |-> c.a, cb |-> c.cb]
           o == c.obs.fin
           v == CallVerdict(fc, o)
           unbound == /\ c.form = "detached" /\ o.out.o = "throw" /\ o.out.cls = "TypeError" /\ o.log = <<>>      \* ECMA-262: this = undefined
                      /\ Len(o.store) = Len(st) /\ \A i \in 1..Len(st) : SameSeq(o.store[i], st[i])
       IN IF v.v # "pass" /\ ObsOK(o) /\ unbound THEN BV([v EXCEPT !.v = "pass", !.why = ""], k) ELSE BV(v, k)
  ELSE LET ev == c.pre[k]
           pc == [m |-> ev.m, store |-> st, r |-> c.r, a |-> ev.a, cb |-> ev.cb]
           ref == Call(ev.m, st, c.r, ev.a, ev.cb, {})
           o == c.obs.pre[k]
       IN IF c.form = "inarg"
          THEN IF (o.out.o = "value" => ObsTypeOK(o.out.v)) /\ OutOK(o.out, ref.out) THEN BindRun(c, k + 1, ref.store)
               ELSE BV([v |-> "violation", dev |-> "", why |-> "intervening-result", exp |-> ref.out, expstore |-> ref.store], k)
          ELSE LET v == CallVerdict(pc, o) IN IF v.v = "pass" THEN BindRun(c, k + 1, ref.store) ELSE BV(v, k)
BindVerdict(c) == IF ~BindOK(c) THEN BV([v |-> "unsupported", dev |-> "", why |-> "", exp |-> ValOut(Undef), expstore |-> c.store], 0)
                  ELSE BindRun(c, 1, c.store)
JudgeInit == /\ rec_i \in 1..Len(Recs) /\ ph = "judge" /\ cur = <<>> /\ Idle
             /\ LET rc == Recs[rec_i]
                IN IF rc.ty = "bind"
                   THEN LET v == BindVerdict(rc) IN PrintT(ToJson([id |-> rc.id, v |-> v.v, dev |-> v.dev, why |-> v.why, at |-> v.at, exp |-> v.exp, expstore |-> v.expstore]))
                   ELSE IF rc.ty = "key"
                   THEN LET v == KeyVerdict(rc) IN PrintT(ToJson([id |-> rc.id, v |-> v.v, dev |-> v.dev, why |-> v.why, at |-> v.at, exp |-> v.exp, expstore |-> v.expstore]))
                   ELSE LET v == CallVerdict(rc, rc.obs) IN PrintT(ToJson([id |-> rc.id, v |-> v.v, dev |-> v.dev, why |-> v.why, exp |-> v.exp, expstore |-> v.expstore]))
JudgeNext == UNCHANGED vars

\* ---------------- Trace: histories over shared arrays, typed-array scripts -------------------------------------
\* one behaviour per record; tr_l = next event, tr_st = model state, tr_v = verdict so far
V0 == [viol |-> FALSE, at |-> 0, why |-> "", devs |-> {}, exp |-> <<>>, stop |-> FALSE]
TraceInit == /\ rec_i \in 1..Len(Recs) /\ ph = "trace" /\ cur = <<>> /\ tr_l = 1 /\ tr_v = V0
             /\ tr_st = IF Recs[rec_i].ty = "hist" THEN Recs[rec_i].store ELSE {[devs |-> {}, ts |-> TA!EmptyTS, stop |-> FALSE]}
\* arrays: ev = [m, r, a, cb, obs]; a new array returned by a call is registered as the next identity by the driver
HistStep(ev) ==
  LET c == [m |-> ev.m, store |-> tr_st, r |-> ev.r, a |-> ev.a, cb |-> ev.cb]
      obs == ev.obs
      ref == Call(c.m, c.store, c.r, c.a, c.cb, {})
      rel == Relevant(c)
      Expl == {D \in SUBSET rel : D # {} /\ LET x == Call(c.m, c.store, c.r, c.a, c.cb, D)
                                           IN Matches(c, obs, x, TRUE) \/ (x.opaque # "" /\ OpaqueOK(obs.out, rel))}
      known == (ref.opaque # "" /\ OpaqueOK(obs.out, rel)) \/ Expl # {}
      dev == IF ref.opaque # "" THEN ref.opaque
             ELSE LET D == CHOOSE D \in Expl : \A D2 \in Expl : Cardinality(D) <= Cardinality(D2)
                      x == Call(c.m, c.store, c.r, c.a, c.cb, D)
                  IN IF Matches(c, obs, x, TRUE) THEN (CHOOSE d \in D : TRUE) ELSE x.opaque
      ok == ObsOK(obs)
  IN /\ tr_v' = IF ~Supported(c.m, c.store, c.r, c.a, c.cb) THEN [tr_v EXCEPT !.viol = TRUE, !.why = "unsupported", !.at = tr_l, !.stop = TRUE]
                ELSE IF Matches(c, obs, ref, TRUE) THEN tr_v
                ELSE IF known /\ ok THEN [tr_v EXCEPT !.devs = @ \cup {dev}]
                ELSE IF tr_v.viol THEN tr_v
                ELSE [tr_v EXCEPT !.viol = TRUE, !.at = tr_l, !.why = IF ok THEN "event" ELSE "typeok", !.exp = <<ref.out, ref.store>>]
     /\ tr_st' = IF ok THEN obs.store ELSE StoreFor(ref, ref.out, TRUE)       \* adopt what the engine did and keep going
\* typed arrays: ev = [op, kind, vi, i, x, a, src, obs]; obs = [out, snap]
SnapOK(osnap, ts) == LET s == TA!Snap(ts)
                     IN Len(osnap) = Len(s) /\ \A j \in 1..Len(s) : Len(osnap[j]) = Len(s[j]) /\ \A k \in 1..Len(s[j]) : SameVal(osnap[j][k], s[j][k])
TAMatches(obs, res) == OutOK(obs.out, res.out) /\ SnapOK(obs.snap, res.ts)
\* The elements are not the whole state (which views share bytes is hidden), so the trace specification keeps every
\* hypothesis [devs, ts] that explains the events so far: devs = {} is ECMA-262, anything else names deviations.
Smaller(h, H) == \E g \in H : g.ts = h.ts /\ g.stop = h.stop /\ Cardinality(g.devs) < Cardinality(h.devs)
TAStep(ev) ==
  LET obs == ev.obs
      rel == TA!Relevant(ev)
      live == {h \in tr_st : ~h.stop}
      \* deviations that change only what later events can see are tried even when ECMA-262 explains this event
      Hidden == IF ev.op = "subarray" THEN SUBSET rel ELSE {{}}
      \* one evaluation of the model's step and of the comparison per (hypothesis, deviation set): [h, D, x = the step, m = it matches]
      Try(DS) == {LET x == TA!Step(ev, h.ts, D) IN [h |-> h, D |-> D, x |-> x, m |-> TAMatches(obs, x)] : h \in live, D \in DS}
      Ok(c) == c.m \/ (c.x.opaque # "" /\ InFamily(obs.out))
      Plain == {c \in Try(Hidden) : Ok(c)}
      Good == IF \E c \in Plain : c.D = {} THEN Plain ELSE {c \in Try(SUBSET rel) : Ok(c)}
      New == {[devs |-> c.h.devs \cup c.D \cup (IF c.m THEN {} ELSE {c.x.opaque}), ts |-> c.x.ts, stop |-> ~c.m] : c \in Good}
             \cup {h \in tr_st : h.stop}
      anyh == CHOOSE h \in live : \A g \in live : Cardinality(h.devs) <= Cardinality(g.devs)
      ref == TA!Step(ev, anyh.ts, {})
  IN IF \E h \in live : ~TA!EvOK(ev, h.ts) THEN tr_v' = [tr_v EXCEPT !.viol = TRUE, !.why = "unsupported", !.at = tr_l, !.stop = TRUE] /\ tr_st' = tr_st
     ELSE IF live = {} THEN tr_v' = tr_v /\ tr_st' = tr_st
     ELSE IF Good # {} THEN tr_v' = tr_v /\ tr_st' = {h \in New : ~Smaller(h, New)}
     ELSE /\ tr_v' = [tr_v EXCEPT !.viol = TRUE, !.at = tr_l, !.why = IF OutOK(obs.out, ref.out) THEN "elements" ELSE "result",
                                  !.exp = <<ref.out, TA!Snap(ref.ts)>>, !.stop = TRUE]
          /\ tr_st' = tr_st
TraceNext == /\ ph = "trace" /\ tr_l <= Len(Recs[rec_i].evs) /\ ~tr_v.stop
             /\ IF Recs[rec_i].ty = "hist" THEN HistStep(Recs[rec_i].evs[tr_l]) ELSE TAStep(Recs[rec_i].evs[tr_l])
             /\ tr_l' = tr_l + 1 /\ UNCHANGED <<ph, cur, rec_i>>
TraceDone == tr_l = Len(Recs[rec_i].evs) + 1 \/ tr_v.stop
\* typed arrays: the verdict is that of the surviving hypothesis with the fewest deviations
TADevs == IF Recs[rec_i].ty = "ta" /\ ~tr_v.viol
          THEN (CHOOSE h \in tr_st : \A g \in tr_st : Cardinality(h.devs) <= Cardinality(g.devs)).devs ELSE {}
TraceReport == ph # "trace" \/ ~TraceDone
               \/ LET devs == tr_v.devs \cup TADevs
                  IN PrintT(ToJson([id |-> Recs[rec_i].id, v |-> IF tr_v.viol THEN "violation" ELSE IF devs # {} THEN "known" ELSE "pass",
                                    devs |-> devs, at |-> tr_v.at, why |-> tr_v.why, exp |-> tr_v.exp, n |-> tr_l - 1]))
=============================================================================
