"""Wire format between the engine and the TLA+ specifications.

Every JavaScript value is a tagged record with a distinct payload field per kind,
numbers travel as the four 16-bit words of their IEEE-754 binary64 image (TLC
integers are 32 bit), text as UTF-16 code-unit sequences.
"""
import math
import struct


def dbl_words(x):
    b = struct.pack(">d", float(x))
    return [int.from_bytes(b[i:i + 2], "big") for i in range(0, 8, 2)]


def words_dbl(w):
    b = b"".join(int(x).to_bytes(2, "big") for x in w)
    return struct.unpack(">d", b)[0]


def units(s):
    b = s.encode("utf-16-le", "surrogatepass")
    return [int.from_bytes(b[i:i + 2], "little") for i in range(0, len(b), 2)]


def from_units(u):
    b = b"".join(int(x).to_bytes(2, "little") for x in u)
    return b.decode("utf-16-le", "surrogatepass")


def W_undef():
    return {"k": "undef"}


def W_null():
    return {"k": "null"}


def W_bool(b):
    return {"k": "bool", "b": bool(b)}


def W_num(x):
    return {"k": "num", "w": dbl_words(x)}


def W_str(s):
    return {"k": "str", "u": units(s)}


def num_to_wire(v):
    """Python int/float held by the engine as a JS number."""
    if isinstance(v, int):
        try:
            f = float(v)
        except OverflowError:
            return {"k": "hostval", "t": "int(out of double range)"}
        if int(f) != v:
            # an integer the engine holds that is not a double: not a JS number
            return {"k": "hostval", "t": "int(not a double)"}
        return W_num(f)
    return W_num(v)


def to_wire(v, depth=0, seen=None):
    """Classify a raw engine value. Imports the engine lazily (child process only)."""
    from microjs import values as V
    if v is V.UNDEFINED:
        return W_undef()
    if v is V.NULL:
        return W_null()
    if isinstance(v, bool):
        return W_bool(v)
    if isinstance(v, (int, float)):
        return num_to_wire(v)
    if isinstance(v, str):
        return W_str(v)
    if seen is None:
        seen = set()
    if isinstance(v, V.JSFunction):
        return {"k": "fn", "n": str(getattr(v, "name", "") or "")}
    if isinstance(v, V.JSObject):
        if id(v) in seen or depth > 12:
            return {"k": "cyc"}
        seen = seen | {id(v)}
        if isinstance(v, V.JSArray):
            return {"k": "arr", "e": [to_wire(e, depth + 1, seen) for e in v._elements]}
        if isinstance(v, V.JSTypedArray):
            return {"k": "tarr", "t": type(v).__name__, "e": [to_wire(e, depth + 1, seen) for e in list(v._data)]}
        if isinstance(v, V.JSRegExp):
            return {"k": "regex"}
        if hasattr(v, "_call_fn"):
            return {"k": "fn", "n": "<ctor>"}
        props = []
        for key, val in v._properties.items():
            if not isinstance(key, str):
                return {"k": "hostval", "t": "non-string key " + type(key).__name__}
            props.append({"n": units(key), "v": to_wire(val, depth + 1, seen)})
        return {"k": "obj", "p": props}
    if callable(v):
        return {"k": "native"}
    return {"k": "hostval", "t": type(v).__name__}


def py_to_wire(v, depth=0):
    """Classify a plain Python value (what Context.eval/get hand back)."""
    if v is None:
        return {"k": "none"}
    if isinstance(v, bool):
        return W_bool(v)
    if isinstance(v, (int, float)):
        return num_to_wire(v)
    if isinstance(v, str):
        return W_str(v)
    if depth > 40:
        return {"k": "deep"}
    if isinstance(v, list):
        return {"k": "arr", "e": [py_to_wire(e, depth + 1) for e in v]}
    if isinstance(v, dict):
        ps = []
        for k, x in v.items():
            if not isinstance(k, str):
                return {"k": "hostval", "t": "non-string key"}
            ps.append({"n": units(k), "v": py_to_wire(x, depth + 1)})
        return {"k": "obj", "p": ps}
    return {"k": "hostval", "t": type(v).__name__}


def show(w):
    """Human-readable rendering of a wire value (reports only)."""
    k = w.get("k")
    if k == "num":
        x = words_dbl(w["w"])
        return "-0" if (x == 0 and math.copysign(1, x) < 0) else repr(x)
    if k == "str":
        return repr(from_units(w["u"]))
    if k == "bool":
        return "true" if w["b"] else "false"
    if k == "arr":
        return "[" + ", ".join(show(e) for e in w["e"]) + "]"
    if k == "obj":
        return "{" + ", ".join(from_units(p["n"]) + ": " + show(p["v"]) for p in w["p"]) + "}"
    if k in ("undef", "null", "none"):
        return {"undef": "undefined", "null": "null", "none": "None"}[k]
    return "<" + k + ":" + str({a: b for a, b in w.items() if a != "k"}) + ">"
