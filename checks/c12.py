"""C12 - a context keeps its own state: persistent, isolated, usable after errors (DESIGN 5/C12)."""
import json, os, copy, time
from harness import tlc, engine
from harness.common import Machinery, workdir, write_ndjson

ALL_KINDS = ["defvar", "deffun", "assign", "delete", "mut_objproto", "mut_math", "mut_arrproto", "mut_strctor",
             "mut_errproto", "throw", "loop", "recurse", "syntax", "ieval", "ieval_loop", "newfn", "read", "reenter", "set", "get"]
SUB_KINDS = ["defvar", "deffun", "assign", "delete", "mut_objproto", "throw", "loop", "recurse", "syntax", "ieval",
             "newfn", "read", "reenter", "set", "get"]
ACTIONS = ["Effect", "Exit", "EvalDefVar", "EvalDefFun", "EvalAssign", "EvalDelete", "EvalMutObjProto", "EvalMutMath",
           "EvalMutArrProto", "EvalMutStrCtor", "EvalMutErrProto", "EvalThrow", "EvalLoop", "EvalRecurse", "EvalSyntax",
           "EvalIndirect", "EvalIndirectLoop", "EvalNewFunction", "EvalRead", "EvalReenter", "Set", "Get"]


def consts(nc, maxn, vals, kinds):
    return "CONSTANTS NC = %d MAXN = %d Vals = {%s} MCKinds = {%s}\n" % (
        nc, maxn, ", ".join(str(v) for v in vals), ", ".join('"%s"' % k for k in kinds))


MC_CFG = ("SPECIFICATION Spec\n%s" "CONSTRAINT Bound\nINVARIANT TypeOK PointerClear Recovery %s\n"
          "PROPERTY Frame EffectsPersist AtomicAgrees SyntaxNoEffect NestingBalanced\nCHECK_DEADLOCK FALSE\n")
ENUM_CFG = "INIT EnumInit\nNEXT EnumNext\n%sCHECK_DEADLOCK FALSE\n"
TRACE_CFG = ("INIT TraceInit\nNEXT TraceNext\nCONSTRAINT TraceEmit\nINVARIANT TraceTypeOK\n"
             + consts(3, 100, [1], []) + "CHECK_DEADLOCK FALSE\n")


def model_check(rep):
    """TLC on ContextModel itself: frame, recovery, pointer, persistence over all histories up to length 6."""
    runs = []
    if rep.tier == "quick":
        # A: the whole catalogue, every history up to 6 events on two contexts;
        # B: the whole catalogue with two values, short, with -coverage and the spelled-out recovery clause
        runs.append(("catalogue-len6", consts(2, 6, [1], ALL_KINDS), "", False))
        runs.append(("catalogue-len3-coverage", consts(2, 3, [1], ALL_KINDS), "RecoveryBehaviour", True))
    else:
        runs.append(("catalogue-len6-coverage", consts(2, 6, [1], ALL_KINDS), "", True))
        runs.append(("subcatalogue-2values-len6", consts(2, 6, [1, 2], SUB_KINDS), "RecoveryBehaviour", False))
        runs.append(("catalogue-2values-3contexts-len3", consts(3, 3, [1, 2], ALL_KINDS), "RecoveryBehaviour", False))
    fired = {}
    for name, cs, extra_inv, cov in runs:
        res = tlc.run(rep.pid, "ContextModel", MC_CFG % (cs, extra_inv), timeout=1500, tag="mc_" + name, coverage=cov, heap="6g")
        rep.add_tlc("ContextModel." + name, res)
        if res.distinct < 1000:
            raise Machinery("model-checking run %s explored only %d states" % (name, res.distinct))
        if cov:
            for a in ACTIONS:
                if a not in res.coverage:
                    raise Machinery("coverage output has no entry for action %s" % a)
                fired[a] = res.coverage[a][1]
    vac = [a for a in ACTIONS if not fired.get(a)]
    if vac:
        raise Machinery("vacuous model-checking run: actions never fired: %s" % vac)
    rep.notes["actions_fired"] = fired


def enumerate_histories(rep, nc, length, alphabet, tag):
    res = tlc.run(rep.pid, "C12", ENUM_CFG % consts(nc, length, [1], []), env={"ALPHABET": alphabet},
                  timeout=1500, tag=tag, heap="4g")
    rep.add_tlc("C12.Enum(%s,len=%d,nc=%d)" % (alphabet, length, nc), res)
    limits, seen, hs = None, set(), []
    for r in res.records:
        if "limits" in r:
            limits = r["limits"]
        elif "h" in r:
            k = json.dumps(r["h"], separators=(",", ":"))
            if k not in seen:
                seen.add(k)
                hs.append(k)              # kept as text: half a million histories as dicts would cost gigabytes
    if limits is None:
        raise Machinery("the specification did not print the limits")
    return hs, limits


def simulate_histories(rep, nc, length, num, tag):
    """seeded random long histories drawn by TLC's simulator from the same specification"""
    wd = workdir(rep.pid, "sim")
    res = tlc.run(rep.pid, "C12", ENUM_CFG % consts(nc, length, [1], []), env={"ALPHABET": "full"},
                  timeout=900, tag=tag, simulate="num=%d" % max(1, num // 16), depth=length + 2, seed=rep.seed, heap="3g")
    rep.add_tlc("C12.Simulate(len=%d,nc=%d,num=%d)" % (length, nc, num), res)
    seen, hs = set(), []
    for r in res.records:
        if "h" in r:
            k = json.dumps(r["h"], separators=(",", ":"))
            if k not in seen:
                seen.add(k)
                hs.append(k)
    return hs


def validate(rep, traces, tag):
    """C->S: the total trace specification consumes every recorded trace event by event"""
    v, st, tr, _ = tlc.judge(rep.pid, "C12", traces, TRACE_CFG, tag=tag, timeout=3000)
    return [x for x in v if "tid" in x], st, tr


def show(h):
    return " ; ".join("c%d.%s" % (e["c"], e["k"]) for e in h)


def run(rep):
    T = {}
    t0 = time.time()
    model_check(rep)
    T['model_check'] = round(time.time() - t0, 1)
    t0 = time.time()
    # ---- S->C: every history of exactly L events (all shorter ones are their prefixes) ----
    cases = []
    if rep.tier == "quick":
        plan = [(2, 3, "full")]
    else:
        plan = [(2, 3, "full"), (2, 4, "core")]
    limits = None
    for nc, length, alpha in plan:
        hs, limits = enumerate_histories(rep, nc, length, alpha, "enum_%s_%d" % (alpha, length))
        if len(hs) < 1000:
            raise Machinery("enumeration produced only %d histories" % len(hs))
        rep.spaces.append({"space": "all histories of %d events over %d contexts, alphabet %s (TLC-enumerated; "
                                    "every shorter history is a probed prefix)" % (length, nc, alpha),
                           "cases": len(hs), "complete": True})
        cases += [(nc, h) for h in hs]
    if rep.tier == "thorough":
        hs = simulate_histories(rep, 3, 60, 2000, "sim60")
        if len(hs) < 500:
            raise Machinery("simulation produced only %d long histories" % len(hs))
        rep.spaces.append({"space": "seeded random histories of 60 events over 3 contexts (TLC -simulate, seed %d)" % rep.seed,
                           "cases": len(hs), "complete": False})
        cases += [(3, h) for h in hs]
    T['enumerate'] = round(time.time() - t0, 1)
    T['replay'] = T['validate'] = 0.0
    # ---- replay on real contexts (probing everything after every step), then C->S trace validation; in chunks ----
    CH = 60000
    ntr = nev = 0
    keep = None                      # an accepted trace for the binding self-test
    for b in range(0, len(cases), CH):
        t0 = time.time()
        part = [{"id": b + i, "nc": nc, "limits": limits[:nc], "h": json.loads(h)} for i, (nc, h) in enumerate(cases[b:b + CH])]
        traces = engine.run_cases(rep.pid, part, driver="checks.c12_driver:replay", timeout=3000, tag="eng_%d" % (b // CH))
        if len(traces) != len(part):
            raise Machinery("replay returned %d traces for %d histories" % (len(traces), len(part)))
        for t in traces:
            t.pop("id", None)
        T['replay'] += time.time() - t0
        t0 = time.time()
        verdicts, st, tr = validate(rep, traces, "trace_%d" % (b // CH))
        T['validate'] += time.time() - t0
        rep.add_judge(len(traces), st, tr)
        ntr += len(traces)
        nev += sum(len(t["ev"]) for t in traces)
        got = {v["tid"]: v for v in verdicts}
        if len(got) != len(traces):
            raise Machinery("trace validation returned %d verdicts for %d traces" % (len(got), len(traces)))
        bytid = {t["tid"]: t for t in traces}
        hist = {c["id"]: c["h"] for c in part}
        for tid in sorted(got):
            v, t = got[tid], bytid[tid]
            if v["n"] != len(t["ev"]):
                raise Machinery("trace %d: %d of %d events consumed" % (tid, v["n"], len(t["ev"])))
            if v["ok"] and v.get("devs"):
                # every observation is explained, some of them only by a listed deviation (as-is rule of the engine)
                at = next(i for i, e in enumerate(t["ev"]) if e["k"] == "reenter" and e["r"] == 0)
                rep.mismatch("%s @%d deviation" % (show(hist[tid])[:300], at + 1),
                             {"deviation": v["devs"], "event": t["ev"][at], "history": hist[tid][:at + 1]}, dev=v["devs"])
                continue
            if v["ok"]:
                if len(rep.samples) < 4 and tid % 9973 == 0:
                    rep.sample({"history": show(hist[tid]), "last_event": t["ev"][-1], "verdict": "accepted"})
                if keep is None and selftest_shape(t):
                    keep = t
                continue
            w = v["why"]
            if w["clause"] == "unsupported":
                raise Machinery("the model cannot take event %d of history %s" % (w["at"], show(hist[tid])))
            ev = t["ev"][w["at"] - 1]
            rep.mismatch("%s @%d %s(c%d)" % (show(hist[tid])[:300], w["at"], w["clause"], w["c"]),
                         {"clause": w["clause"], "at": w["at"], "context": w["c"], "expected_projection": w["exp"],
                          "event": ev, "history": hist[tid][:w["at"]]}, dev="")
        del traces, verdicts, got, bytid, hist, part
    T = {k: round(v, 1) for k, v in T.items()}
    rep.notes['stage_wall_s'] = T
    rep.evaluations = nev
    selftest(rep, keep)
    rep.exhaustive = True
    rep.notes["probe"] = ("after every event, for every context: get g, typeof g, eval g, get f, typeof f, f(), "
                          "Object.prototype.zo, Math.zm, Array-prototype.za, String.zs, Error.prototype.ze, "
                          "_current_vm is None, unexpected global names")
    rep.notes["events_validated"] = rep.evaluations
    rep.assumptions += ["String.prototype cannot be reached from script code in this engine; the String constructor "
                        "object stands in for it as a mutation target",
                        "the class of a limit error raised inside a nested VM (indirect eval) belongs to C01; here "
                        "only its state effects are judged"]


def selftest_shape(t):
    ks = [e["k"] for e in t["ev"]]
    return len(ks) >= 2 and ks[0] in ("defvar", "set") and "reenter" not in ks and ks[1] not in (
        "defvar", "set", "assign", "throw", "loop", "recurse", "ieval", "ieval_loop")


def selftest(rep, base):
    """The binding must reject a trace with one corrupted field and a trace with one event dropped."""
    if base is None:
        raise Machinery("self-test: no accepted trace of the required shape")
    a = copy.deepcopy(base)
    a["tid"] = 1
    c = a["ev"][-1]["c"]
    other = 1 if c != 1 else 2
    a["ev"][-1]["pr"][other - 1][6] += 7           # corrupt one recorded field: Object.prototype.zo of the other context
    b = copy.deepcopy(base)
    b["tid"] = 2
    del b["ev"][0]                                  # drop one event (the definition of g)
    c0 = copy.deepcopy(base)
    c0["tid"] = 3                                   # control: the untouched trace must still be accepted
    v, st, tr, _ = tlc.judge(rep.pid, "C12", [a, b, c0], TRACE_CFG, tag="selftest", shards=1)
    res = {x["tid"]: x for x in v if "tid" in x}
    ok = (len(res) == 3 and not res[1]["ok"] and res[1]["why"]["clause"] == "frame"
          and not res[2]["ok"] and res[2]["why"]["clause"] == "state" and res[3]["ok"] and not res[3]["devs"])
    rep.notes["binding_selftest"] = {"corrupted_field": res.get(1, {}).get("why"), "dropped_event": res.get(2, {}).get("why"),
                                     "control_accepted": res.get(3, {}).get("ok")}
    if not ok:
        raise Machinery("binding self-test failed: %r" % res)
