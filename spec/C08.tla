-------------------------------- MODULE C08 --------------------------------
EXTENDS ObjModel, Json, IOUtils, SequencesExt

VARIABLE c_cell          \* Part B: the call-form cell being enumerated / judged (Part A keeps it constant)
NoCell == [form |-> "", kind |-> "", ret |-> "", via |-> ""]

EnvOr(n, d) == IF n \in DOMAIN IOEnv THEN IOEnv[n] ELSE d
NatOf == [t \in {ToString(j) : j \in 0..64} |-> CHOOSE j \in 0..64 : ToString(j) = t]
MaxLen == NatOf[EnvOr("MAXLEN", "2")]

\* the operations random generators may draw from: the alphabet of states with 0..3 allocated slots
USt(n) == [State0 EXCEPT !.h = [x \in Ids |-> IF \E j \in 1..n : Slots[j] = x THEN Plain("OP") ELSE State0.h[x]]]
Universe == UNION {Alphabet(USt(n), 1) : n \in 0..3}
EInit == /\ MInit /\ c_cell = NoCell
         /\ PrintT(ToJson([on |-> BatteryOn, objs |-> BatteryObjs, glob |-> BatteryGlob]))
         /\ PrintT(ToJson([universe |-> Universe]))
ENext == Len(m_hist) < MaxLen /\ MNext /\ UNCHANGED c_cell
EmitAll == m_hist = <<>> \/ PrintT(ToJson([h |-> m_hist]))
\* -simulate walks: TLC evaluates invariants on every candidate successor, so a walk is printed by the one
\* extra step taken from the state the walk actually reached
SimInit == MInit /\ c_cell = NoCell
SimNext == /\ UNCHANGED c_cell
           /\ IF Len(m_hist) < MaxLen THEN MNext
              ELSE /\ Len(m_hist) = MaxLen
                   /\ PrintT(ToJson([h |-> m_hist]))
                   /\ m_hist' = Append(m_hist, Op("end", "", "", "", 0, ""))
                   /\ UNCHANGED <<m_st, m_prev>>

\* ==============================================================================================
\* Part B: call form x function kind.  Strict-mode semantics (this is undefined in plain calls).
\* Driver setup (checks/c08_driver.py):  every function takes (a, b) and returns the probe
\*   [this, arguments.length, arguments[0], arguments[1], a, b] and has THREE parameters (a, b, c);  calls pass (1, 2);
\*   bound = fd.bind(bt, 5, 6);  the arrow is created inside host.mk(7, 8);  native = Object.prototype.valueOf;
\*   the getter is a literal accessor of recv (form "method" = the property access recv.f);
\*   form "arrow" calls recv.go() with go = function(){ return (() => this.f(1, 2))(); }.
Forms == {"method", "plain", "call", "apply", "bind", "new", "arrow"}
Kinds == {"decl", "expr", "named", "arrow", "method", "propfn", "getter", "bound", "native"}
Rets  == {"none", "num", "str", "null", "undef", "bool", "obj", "arr", "fn"}
TableCells == {[form |-> f, kind |-> k, ret |-> "", via |-> ""] : f \in Forms, k \in Kinds}
         \cup {[form |-> "newret", kind |-> c, ret |-> r, via |-> ""] : r \in Rets, c \in {"decl", "expr", "bound"}}
         \cup {[form |-> "chain", kind |-> c, ret |-> "", via |-> ""] : c \in {"assign", "setproto", "literal"}}
SeqSetC(sq) == {sq[j] : j \in 1..Len(sq)}
CallDevs == {"Dev_ArrowThis", "Dev_ArrowArguments", "Dev_NonConstructorNew", "Dev_NewBound", "Dev_BindOfBound",
             "Dev_FnNameInference", "Dev_BoundName", "Dev_NativeFn", "Dev_NewReturnFn",
             "Dev_FnProtoAssign", "Dev_FnProtoNoObjectProto",
             "Dev_NativeThis", "Dev_ToStringFnClass", "Dev_FnNotObject", "Dev_PrimitiveNoProto", "Dev_ArrayAccessors"}

ThisOf(form) == CASE form = "method" -> "@recv" [] form = "plain" -> "u" [] form \in {"call", "apply", "bind"} -> "@x1"
                  [] form = "new" -> "@?" [] form = "arrow" -> "@recv"
NonCtor == {"arrow", "method", "getter", "native"}
P(v) == <<v, "">>                                     \* an expected aspect value with no deviation attached
D(v, d) == <<v, d>>
Args(n, x, y, pa, pb) == ("alen" :> P(n)) @@ ("a0" :> P(x)) @@ ("a1" :> P(y)) @@ ("pa" :> P(pa)) @@ ("pb" :> P(pb))
ArgsD(n, x, y, pa, pb, d) == ("alen" :> D(n, d)) @@ ("a0" :> D(x, d)) @@ ("a1" :> D(y, d)) @@ ("pa" :> D(pa, d)) @@ ("pb" :> D(pb, d))
Inst(b) == ("linked" :> P(b)) @@ ("inst" :> P(b))
KindLength(kind) == CASE kind = "getter" -> "n0" [] kind = "bound" -> "n1" [] kind = "native" -> "n0" [] OTHER -> "n3"
KindName(kind) == CASE kind = "decl" -> "'fd" [] kind = "expr" -> "'fe" [] kind = "named" -> "'nm" [] kind = "arrow" -> "'"
                    [] kind = "method" -> "'f" [] kind = "propfn" -> "'f" [] kind = "getter" -> "'get f"
                    [] kind = "bound" -> "'bound fd" [] kind = "native" -> "'valueOf"

\* reference expectation of a product cell: a function aspect -> <<value, "">>
RefCell(form, kind) ==
  LET props == ("length" :> P(KindLength(kind))) @@ ("name" :> P(KindName(kind)))
      okout == "out" :> P("ok")
      throw == ("out" :> P("!TypeError")) @@ ("this" :> P("u")) @@ Inst("false") @@ Args("u", "u", "u", "u", "u")
      isnew == form = "new"
  IN props @@
     (CASE kind \in NonCtor /\ isnew -> throw
        [] kind \in {"decl", "expr", "named", "propfn", "method"} ->
             okout @@ ("this" :> P(ThisOf(form))) @@ Inst(IF isnew THEN "true" ELSE "false") @@ Args("n2", "n1", "n2", "n1", "n2")
        [] kind = "arrow" -> okout @@ ("this" :> P("@host")) @@ Inst("false") @@ Args("n2", "n7", "n8", "n1", "n2")   \* lexical this and arguments
        [] kind = "getter" ->
             IF form \in {"method", "arrow"} THEN okout @@ ("this" :> P("@recv")) @@ Inst("false") @@ Args("n0", "u", "u", "u", "u")
             ELSE okout @@ ("this" :> P(ThisOf(form))) @@ Inst("false") @@ Args("n2", "n1", "n2", "u", "u")
        [] kind = "bound" ->                                  \* bound this wins over every call form; new ignores it
             okout @@ ("this" :> P(IF isnew THEN "@?" ELSE "@bt")) @@ Inst(IF isnew THEN "true" ELSE "false")
                   @@ Args("n4", "n5", "n6", "n5", "n6")
        [] kind = "native" ->
             IF form = "plain" THEN throw
             ELSE okout @@ ("this" :> P(ThisOf(form))) @@ Inst("false") @@ Args("u", "u", "u", "u", "u"))

Ov(c, upd, base) == IF c THEN upd @@ base ELSE base
AsIsCell(form, kind, dv) ==
  LET isnew == form = "new"
      b0 == RefCell(form, kind)
      b1 == Ov("Dev_ArrowArguments" \in dv /\ kind = "arrow", ArgsD("n2", "n1", "n2", "n1", "n2", "Dev_ArrowArguments"), b0)
      b2 == Ov("Dev_ArrowThis" \in dv /\ kind = "arrow" /\ ~isnew, "this" :> D(ThisOf(form), "Dev_ArrowThis"), b1)
      b3 == Ov("Dev_NonConstructorNew" \in dv /\ isnew /\ kind \in {"arrow", "method", "getter"},
               ("out" :> D("ok", "Dev_NonConstructorNew")) @@ ("this" :> D("@?", "Dev_NonConstructorNew"))
               @@ ("linked" :> D("true", "Dev_NonConstructorNew")) @@ ("inst" :> D("true", "Dev_NonConstructorNew"))
               @@ ArgsD("n2", "n1", "n2", IF kind = "getter" THEN "u" ELSE "n1", IF kind = "getter" THEN "u" ELSE "n2", "Dev_NonConstructorNew"), b2)
      b4 == Ov("Dev_NewBound" \in dv /\ kind = "bound" /\ isnew,
               ("this" :> D("@bt", "Dev_NewBound")) @@ ("linked" :> D("false", "Dev_NewBound")) @@ ("inst" :> D("false", "Dev_NewBound")), b3)
      b5 == Ov("Dev_BindOfBound" \in dv /\ kind = "bound" /\ form = "bind",
               ("this" :> D("@x1", "Dev_BindOfBound")) @@ ArgsD("n2", "n1", "n2", "n1", "n2", "Dev_BindOfBound"), b4)
      b6 == Ov("Dev_FnNameInference" \in dv /\ kind \in {"expr", "method", "propfn", "getter"}, "name" :> D("'", "Dev_FnNameInference"), b5)
      b7 == Ov("Dev_BoundName" \in dv /\ kind = "bound", "name" :> D("'fd", "Dev_BoundName"), b6)
      b8 == Ov("Dev_NativeFn" \in dv /\ kind = "native",
               ("length" :> D("u", "Dev_NativeFn")) @@ ("name" :> D("u", "Dev_NativeFn"))
               @@ (IF form = "plain" THEN ("out" :> D("ok", "Dev_NativeFn")) @@ ("this" :> D("n1", "Dev_NativeFn")) ELSE <<>>), b7)
      \* form "arrow": the wrapper arrow does not see the this of go(), so this.f fails
      b9 == Ov("Dev_ArrowThis" \in dv /\ form = "arrow", "out" :> D("!TypeError", "Dev_ArrowThis"), b8)
  IN b9
ProductAspects(kind) == IF kind = "native" THEN <<"out", "this", "length", "name">>
                        ELSE <<"out", "this", "linked", "inst", "alen", "a0", "a1", "pa", "pb", "length", "name">>

\* new-return rules:  function C(){ this.p = 1; return RET }  r = new K()   (K = C, or C.bind(bt))
RefRet(ret, ctor) ==
  IF ret \in {"obj", "arr", "fn"}
  THEN ("out" :> P("ok")) @@ ("this" :> P(CASE ret = "obj" -> "@ro" [] ret = "arr" -> "@ra" [] ret = "fn" -> "@rf"))
       @@ Inst("false") @@ ("p" :> P("u"))                                   \* an object return value is honoured
  ELSE ("out" :> P("ok")) @@ ("this" :> P("@?")) @@ Inst("true") @@ ("p" :> P("n1"))   \* a primitive one is ignored
AsIsRet(ret, ctor, dv) ==
  LET b0 == RefRet(ret, ctor)
      b1 == Ov("Dev_NewReturnFn" \in dv /\ ret = "fn",
               ("this" :> D("@?", "Dev_NewReturnFn")) @@ ("linked" :> D("true", "Dev_NewReturnFn")) @@ ("inst" :> D("true", "Dev_NewReturnFn"))
               @@ ("p" :> D("n1", "Dev_NewReturnFn")), b0)
      b2 == Ov("Dev_NewBound" \in dv /\ ctor = "bound" /\ (ret \notin {"obj", "arr", "fn"} \/ (ret = "fn" /\ "Dev_NewReturnFn" \in dv)),
               ("this" :> D("@?", "Dev_NewBound")) @@ ("linked" :> D("false", "Dev_NewBound")) @@ ("inst" :> D("false", "Dev_NewBound"))
               @@ ("p" :> D("u", "Dev_NewBound")), b1)
  IN b2
RetAspects == <<"out", "this", "linked", "inst", "p">>

\* constructor chains: o = new B() with B.prototype chained to A.prototype by `how`
ChainAspects == <<"out", "r1", "r2", "r3", "r4", "r5", "r6", "r7", "r8", "r9">>
RefChain(how) == ("out" :> P("ok")) @@ ("r1" :> P("true")) @@ ("r2" :> P("true")) @@ ("r3" :> P("n1")) @@ ("r4" :> P("n2"))
                 @@ ("r5" :> P("true")) @@ ("r6" :> P("true")) @@ ("r7" :> P("true")) @@ ("r8" :> P("true")) @@ ("r9" :> P("true"))
AsIsChain(how, dv) ==
  LET b1 == Ov("Dev_FnProtoAssign" \in dv /\ how \in {"assign", "literal"},
               ("r2" :> D("false", "Dev_FnProtoAssign")) @@ ("r6" :> D("false", "Dev_FnProtoAssign")), RefChain(how))
  IN Ov("Dev_FnProtoNoObjectProto" \in dv, "r7" :> D("'!TypeError", "Dev_FnProtoNoObjectProto"), b1)

\* ==============================================================================================
\* Part C: the KIND of the this-value x every call form that takes an explicit this x function kind.
\* The table of Part B hands objects over as this; here the value is an object, an array, a function, a truthy
\* primitive, 0, -0, '', false, NaN, null, undefined, or is not written at all ("absent").  Strict-mode semantics: no
\* boxing, the function sees the very value (typeof this tells a wrapper object from the primitive).
\* Driver (checks/c08_driver.py tv_driver): the probe stores [this, arguments.length, arguments[0..1], a, b, typeof this];
\*   bound = fd.bind(bt, 5, 6);  the arrow is created inside host.mk(7, 8);  native = Object.prototype.toString (answers
\*   with the class of its this);  call forms (TV = the value):
\*   call f.call(TV,1,2) | apply f.apply(TV,[1,2]) | bind f.bind(TV)(1,2) | bindcall f.bind(TV).call(x2,1,2) |
\*   bindmethod recv.g = f.bind(TV), recv.g(1,2) | callcall f.call.call(f,TV,1,2) | callapply f.call.apply(f,[TV,1,2]) |
\*   map/filter/forEach/find/findIndex/some/every [4].m(f,TV) | reduce/reduceRight/sort [4,5].m(f) (no thisArg position) |
\*   primrecv Object.prototype.pm = f, TV.pm(1,2) | primget  accessor pg on Object.prototype with getter f, TV.pg
TVias  == {"call", "apply", "bind", "bindcall", "bindmethod", "callcall", "callapply", "map", "filter", "forEach", "find",
           "findIndex", "some", "every", "reduce", "reduceRight", "sort", "primrecv", "primget"}
TKinds == {"decl", "expr", "method", "getter", "arrow", "bound", "native"}
TVals  == {"obj", "arr", "fn", "num", "str", "true", "zero", "negzero", "empty", "false", "nan", "null", "undef", "absent"}
TPrims == {"num", "str", "true", "zero", "negzero", "empty", "false", "nan"}
ArrVias == {"map", "filter", "forEach", "find", "findIndex", "some", "every"}
NoThisVias == {"reduce", "reduceRight", "sort"}          \* callbacks of methods without a thisArg position
RecvVias == {"primrecv", "primget"}                       \* the this-value is the receiver of a property access
ResultVias == {"call", "apply", "bind", "bindcall", "bindmethod", "callcall", "callapply", "map", "primrecv", "primget"}
TApplicable(via, tk) == IF via \in NoThisVias THEN tk = "absent" ELSE IF via \in RecvVias THEN tk # "absent" ELSE TRUE
TCellsAll == {[form |-> "tv", kind |-> k, ret |-> t, via |-> v] : k \in TKinds, t \in TVals, v \in TVias}
Tier == EnvOr("TIER", "thorough")
\* quick: every call form x every this-value kind for one ordinary function and for the kinds with a rule of their own
\* (arrow, bound, native); the remaining ordinary kinds with a representative of each class of this-value
TCells == {c \in TCellsAll : /\ TApplicable(c.via, c.ret)
                             /\ (Tier # "quick" \/ c.kind \in {"decl", "arrow", "bound", "native"}
                                 \/ c.ret \in {"obj", "zero", "empty", "null", "absent"})}
Cells == TableCells \cup TCells

TVal(tk) == CASE tk = "obj" -> "@x1" [] tk = "arr" -> "@ra" [] tk = "fn" -> "@rf" [] tk = "num" -> "n3" [] tk = "str" -> "'a"
              [] tk = "true" -> "true" [] tk = "zero" -> "n0" [] tk = "negzero" -> "n-0" [] tk = "empty" -> "'"
              [] tk = "false" -> "false" [] tk = "nan" -> "nnan" [] tk = "null" -> "null" [] tk \in {"undef", "absent"} -> "u"
TTypeOf(tk) == CASE tk \in {"obj", "arr", "null"} -> "'object" [] tk = "fn" -> "'function"
                 [] tk \in {"num", "zero", "negzero", "nan"} -> "'number" [] tk \in {"str", "empty"} -> "'string"
                 [] tk \in {"true", "false"} -> "'boolean" [] tk \in {"undef", "absent"} -> "'undefined"
TClassOf(tk) == CASE tk = "obj" -> "'[object Object]" [] tk = "arr" -> "'[object Array]" [] tk = "fn" -> "'[object Function]"
                  [] tk \in {"num", "zero", "negzero", "nan"} -> "'[object Number]" [] tk \in {"str", "empty"} -> "'[object String]"
                  [] tk \in {"true", "false"} -> "'[object Boolean]" [] tk = "null" -> "'[object Null]"
                  [] tk \in {"undef", "absent"} -> "'[object Undefined]"
TGiven(via, tk) == IF via \in NoThisVias THEN "absent" ELSE tk     \* what the call form hands over as this
TReached(via, tk) == ~(via \in RecvVias /\ tk \in {"null", "undef"})   \* a property access on null / undefined throws
NTok(n) == "n" \o ToString(n)
\* the arguments the call form passes: count, first, second
TArgs(via, tk) ==
  CASE via \in {"call", "apply", "callcall", "callapply"} ->
         IF tk = "absent" THEN [n |-> 0, x |-> "u", y |-> "u"] ELSE [n |-> 2, x |-> "n1", y |-> "n2"]
    [] via \in {"bind", "bindcall", "bindmethod", "primrecv"} -> [n |-> 2, x |-> "n1", y |-> "n2"]
    [] via = "primget" -> [n |-> 0, x |-> "u", y |-> "u"]
    [] via \in ArrVias -> [n |-> 3, x |-> "n4", y |-> "n0"]                      \* (element, index, array)
    [] via = "reduce" -> [n |-> 4, x |-> "n4", y |-> "n5"]                      \* (accumulator, element, index, array)
    [] via = "reduceRight" -> [n |-> 4, x |-> "n5", y |-> "n4"]
    [] via = "sort" -> [n |-> 2, x |-> "?", y |-> "?"]                          \* comparator: the order of the pair is not specified
TNone(out) == ("out" :> out) @@ ("ran" :> P("false")) @@ ("this" :> P("u")) @@ ("ttype" :> P("u"))
              @@ Args("u", "u", "u", "u", "u") @@ ("cls" :> P("u"))
RefTV(via, kind, tk) ==
  LET g == TGiven(via, tk)
      ar == TArgs(via, tk)
      th == CASE kind = "arrow" -> <<"@host", "'object">>                        \* lexical this
              [] kind = "bound" -> <<"@bt", "'object">>                          \* the bound this wins
              [] OTHER -> <<TVal(g), TTypeOf(g)>>                               \* the very value, not boxed
      ag == CASE kind = "arrow" -> Args("n2", "n7", "n8", ar.x, ar.y)            \* lexical arguments
              [] kind = "bound" -> Args(NTok(ar.n + 2), "n5", "n6", "n5", "n6")
              [] kind = "getter" -> Args(NTok(ar.n), ar.x, ar.y, "u", "u")
              [] OTHER -> Args(NTok(ar.n), ar.x, ar.y, ar.x, ar.y)
  IN IF ~TReached(via, tk) THEN TNone(P("!TypeError"))
     ELSE IF kind = "native" THEN ("cls" :> P(TClassOf(g))) @@ TNone(P("ok"))
     ELSE ("out" :> P("ok")) @@ ("ran" :> P("true")) @@ ("this" :> P(th[1])) @@ ("ttype" :> P(th[2])) @@ ag @@ ("cls" :> P("-"))
AsIsTV(via, kind, tk, dv) ==
  LET g == TGiven(via, tk)
      ar == TArgs(via, tk)
      reached == TReached(via, tk)
      b0 == RefTV(via, kind, tk)
      \* arrows read this / arguments from their own frame: they see what an ordinary function would see
      b1 == Ov("Dev_ArrowArguments" \in dv /\ kind = "arrow" /\ reached,
               ArgsD(NTok(ar.n), ar.x, ar.y, ar.x, ar.y, "Dev_ArrowArguments"), b0)
      b2 == Ov("Dev_ArrowThis" \in dv /\ kind = "arrow" /\ reached,
               ("this" :> D(TVal(g), "Dev_ArrowThis")) @@ ("ttype" :> D(TTypeOf(g), "Dev_ArrowThis")), b1)
      \* Object.prototype.toString classifies a script function as a plain object
      b3 == Ov("Dev_ToStringFnClass" \in dv /\ kind = "native" /\ g = "fn" /\ reached,
               "cls" :> D("'[object Object]", "Dev_ToStringFnClass"), b2)
      \* a native method invoked as an array callback takes its FIRST ARGUMENT (the element 4) as this; invoked as an
      \* accessor it is called without this and a Python TypeError escapes
      b4 == Ov("Dev_NativeThis" \in dv /\ kind = "native" /\ via \in ArrVias, "cls" :> D("'[object Number]", "Dev_NativeThis"), b3)
      b5 == Ov("Dev_NativeThis" \in dv /\ kind = "native" /\ via = "primget" /\ reached, "out" :> D("host:TypeError", "Dev_NativeThis"), b4)
      \* receivers that do not reach Object.prototype: the method is not found (TypeError), the accessor does not run
      lost(d) == IF via = "primrecv" THEN "out" :> D("!TypeError", d)
                 ELSE ("out" :> D("ok", d)) @@ ("ran" :> D("false", d)) @@ ("this" :> D("u", d)) @@ ("ttype" :> D("u", d))
                      @@ ArgsD("u", "u", "u", "u", "u", d) @@ ("cls" :> D("u", d))
      b6 == Ov("Dev_FnNotObject" \in dv /\ via \in RecvVias /\ tk = "fn", lost("Dev_FnNotObject"), b5)
      b7 == Ov("Dev_PrimitiveNoProto" \in dv /\ via \in RecvVias /\ tk \in TPrims, lost("Dev_PrimitiveNoProto"), b6)
      b8 == Ov("Dev_ArrayAccessors" \in dv /\ via = "primget" /\ tk = "arr", lost("Dev_ArrayAccessors"), b7)
  IN b8
TVAspects(via, kind) ==
  IF kind = "native" THEN (IF via \in ResultVias THEN <<"out", "cls">> ELSE <<"out">>)
  ELSE IF via = "sort" THEN <<"out", "ran", "this", "ttype", "alen">>
  ELSE <<"out", "ran", "this", "ttype", "alen", "a0", "a1", "pa", "pb">>
\* laws of the this-value table (model-checked over all its cells)
TVLaws(c) ==
  LET r(v) == RefTV(v, c.kind, c.ret)
      me == r(c.via)
      ordinary == c.kind \in {"decl", "expr", "method", "getter"}
      same(v1, v2) == (TApplicable(v1, c.ret) /\ TApplicable(v2, c.ret)) => r(v1) = r(v2)
  IN /\ same("call", "apply") /\ same("call", "callcall") /\ same("call", "callapply")     \* one protocol, four spellings
     /\ same("bind", "bindcall") /\ same("bind", "bindmethod")                            \* a bound this is final
     /\ \A v1, v2 \in ArrVias : same(v1, v2)
     \* whatever the call form, the function sees the value that was given (ordinary functions) ...
     /\ (ordinary /\ TReached(c.via, c.ret) =>
           /\ me["this"] = P(TVal(TGiven(c.via, c.ret))) /\ me["ttype"] = P(TTypeOf(TGiven(c.via, c.ret)))
           /\ (c.ret \in TPrims /\ c.via \notin NoThisVias => me["ttype"] # P("'object")))   \* ... and never a wrapper object
     /\ (c.kind = "arrow" /\ TReached(c.via, c.ret) => me["this"] = P("@host"))             \* lexical
     /\ (c.kind = "bound" /\ TReached(c.via, c.ret) => me["this"] = P("@bt"))
     \* an explicit undefined and a this that is not written are the same thing
     /\ (c.ret = "undef" /\ TApplicable(c.via, "absent") =>
           \A a \in {"this", "ttype", "cls"} : me[a] = RefTV(c.via, c.kind, "absent")[a])
     /\ (c.via \in NoThisVias /\ c.kind \notin {"arrow", "bound", "native"} => me["this"] = P("u"))
     /\ (c.kind = "native" /\ TReached(c.via, c.ret) => me["cls"] = P(TClassOf(TGiven(c.via, c.ret))))

CellRef(c) == IF c.form = "tv" THEN RefTV(c.via, c.kind, c.ret) ELSE IF c.form = "chain" THEN RefChain(c.kind) ELSE IF c.form = "newret" THEN RefRet(c.ret, c.kind) ELSE RefCell(c.form, c.kind)
CellAsIs(c, dv) == IF c.form = "tv" THEN AsIsTV(c.via, c.kind, c.ret, dv) ELSE IF c.form = "chain" THEN AsIsChain(c.kind, dv) ELSE IF c.form = "newret" THEN AsIsRet(c.ret, c.kind, dv)
                   ELSE AsIsCell(c.form, c.kind, dv)
CellAspects(c) == IF c.form = "tv" THEN TVAspects(c.via, c.kind) ELSE IF c.form = "chain" THEN ChainAspects ELSE IF c.form = "newret" THEN RetAspects ELSE ProductAspects(c.kind)

\* laws of the table itself (model-checked over all cells)
CallLaws(c) ==
  /\ CellAsIs(c, {}) = CellRef(c)                                                         \* no deviation = reference
  /\ \A a \in SeqSetC(CellAspects(c)) : a \in DOMAIN CellRef(c) /\ a \in DOMAIN CellAsIs(c, CallDevs)
  /\ (c.form = "tv" => TVLaws(c))
  /\ (c.form \in Forms =>
        LET r == RefCell(c.form, c.kind) IN
        /\ RefCell("call", c.kind) = RefCell("apply", c.kind)                             \* call and apply agree
        /\ (c.kind = "arrow" /\ c.form # "new" => r["this"] = P("@host"))                 \* lexical this
        /\ (c.kind = "bound" /\ c.form # "new" => r["this"] = P("@bt"))                   \* bound this wins
        /\ (c.form = "new" => (r["out"] = P("!TypeError")) <=> (c.kind \in NonCtor))
        /\ (c.form = "new" /\ r["out"] = P("ok") => r["linked"] = P("true") /\ r["inst"] = P("true"))
        /\ (c.form = "plain" /\ c.kind \in {"decl", "expr", "named", "method", "propfn", "getter"} => r["this"] = P("u")))

CInit == MInit /\ c_cell \in Cells /\ PrintT(ToJson(c_cell))
CNext == UNCHANGED <<c_cell, m_vars>>
CLawsHold == CallLaws(c_cell)

\* judge: records [id, cell, obs, dv]
ActOf(rec, a) ==
  IF a \in {"r1", "r2", "r3", "r4", "r5", "r6", "r7", "r8", "r9"}
  THEN LET j == CHOOSE m \in 1..9 : a = "r" \o ToString(m) IN IF "r" \in DOMAIN rec.obs /\ j <= Len(rec.obs.r) THEN rec.obs.r[j] ELSE "missing"
  ELSE IF a \in DOMAIN rec.obs THEN rec.obs[a] ELSE "missing"
CellVerdict(rec) ==
  LET c == rec.cell
      dv == SeqSetC(rec.dv)
      ref == CellRef(c)
      asis == CellAsIs(c, dv)
      actout == ActOf(rec, "out")
      always == {"out", "length", "name"}
      judged == SelectSeq(CellAspects(c), LAMBDA a : a \in always \/ actout = "ok")
      \* the engine may have some of the listed defects repaired: an aspect is explained if SOME subset of the
      \* deviations relevant to this cell predicts it (all of them is tried first)
      rel == {d \in dv : CellAsIs(c, {d}) # ref \/ CellAsIs(c, dv) # CellAsIs(c, dv \ {d})}
      \* subsets of the relevant deviations under which EVERY judged aspect is the reference's or the as-is value
      whole == {S \in SUBSET rel : LET x == CellAsIs(c, S) IN
                  \A j \in 1..Len(judged) : LET a == judged[j] act == ActOf(rec, a) IN
                     \/ (a \in always \/ ref["out"][1] = "ok") /\ act = ref[a][1]
                     \/ (a \in always \/ x["out"][1] = "ok") /\ act = x[a][1]}
      one(a) == LET act == ActOf(rec, a)
                    refok == (a \in always \/ ref["out"][1] = "ok") /\ act = ref[a][1]
                    okUnder(S) == LET x == CellAsIs(c, S)
                                  IN (a \in always \/ x["out"][1] = "ok") /\ act = x[a][1]
                                     /\ (x[a][2] # "" \/ x["out"][2] # "")
                    devUnder(S) == LET x == CellAsIs(c, S) IN IF x[a][2] # "" THEN x[a][2] ELSE x["out"][2]
                    good0 == {S \in SUBSET rel : okUnder(S)}
                    good == IF good0 \cap whole # {} THEN good0 \cap whole ELSE good0   \* prefer a set that explains the whole cell
                IN IF refok THEN [aspect |-> a, v |-> "pass", dev |-> "", exp |-> ref[a][1], act |-> act]
                   ELSE IF okUnder(rel) /\ rel \in good THEN [aspect |-> a, v |-> "known", dev |-> devUnder(rel), exp |-> ref[a][1], act |-> act]
                   ELSE IF good # {} THEN [aspect |-> a, v |-> "known", dev |-> devUnder(CHOOSE S \in good : TRUE), exp |-> ref[a][1], act |-> act]
                   ELSE [aspect |-> a, v |-> "violation", dev |-> "", exp |-> ref[a][1], act |-> act]
      all == [j \in 1..Len(judged) |-> one(judged[j])]
  IN [id |-> rec.id, mis |-> SelectSeq(all, LAMBDA r : r.v # "pass"), n |-> Len(judged)]
CJudgeInit == /\ MInit
              /\ LET all == ndJsonDeserialize(IOEnv.OBS_FILE) IN
                 \E j \in 1..Len(all) : c_cell = all[j].cell /\ PrintT(ToJson(CellVerdict(all[j])))
=============================================================================
