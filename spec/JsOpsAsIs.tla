------------------------------ MODULE JsOpsAsIs ------------------------------
(* The engine's operator implementation AS IT IS (vm.py arithmetic opcodes,      *)
(* values.py to_number / to_string, compiler.py lowering of assignments), as a    *)
(* model with one switch per known finding (DESIGN 2.3).  `dv` is the set of      *)
(* deviations switched ON; with dv = {} every rule is the ECMAScript rule and the *)
(* model coincides with JsOps (a law C06 model-checks on the whole grid).         *)
(*                                                                                *)
(* The engine holds a JS number either as a host float or as a host integer of    *)
(* unbounded size; the model keeps that distinction:                              *)
(*   [k |-> "num", r |-> "f", d |-> Dbl]      [k |-> "num", r |-> "i", s, n]      *)
(* Other engine-level results:  [k |-> "exc", t]   a host exception escapes       *)
(*   [k |-> "hostv", t]  a value that is not a JS value ("complex", "hugeint")     *)
(*   [k |-> "approx", s] / [k |-> "approxpy", s]   libm pow away from exact cases  *)
EXTENDS JsOps

ListedDevs == <<"Dev_NoPowAssign", "Dev_MemberCompound", "Dev_PostfixOld", "Dev_NaNCompare", "Dev_BoolIsInt",
                "Dev_ModPy", "Dev_DivZeroNaN", "Dev_PowPy", "Dev_StrToNumPy", "Dev_NumToStrPy", "Dev_IntRep">>
DevPriority(nm) == CHOOSE ai_k \in 1..Len(ListedDevs) : ListedDevs[ai_k] = nm

AF(dd) == [k |-> "num", r |-> "f", d |-> dd, s |-> 0, n |-> <<>>]
AI(sg, nn) == [k |-> "num", r |-> "i", d |-> DNaN, s |-> IF nn = <<>> THEN 0 ELSE sg, n |-> nn]
AExc(nm) == [k |-> "exc", t |-> nm]
AHost(nm) == [k |-> "hostv", t |-> nm]
AApproxPy(sg) == [k |-> "approxpy", s |-> sg]
AIsAbrupt(v) == v.k \in {"exc", "hostv", "approx", "approxpy"}
ANaN == AF(DNaN)
AIntOfSmall(i) == IF i < 0 THEN AI(1, BnOfInt(0 - i)) ELSE AI(0, BnOfInt(i))

\* ---- entering and leaving the model ----------------------------------------------------------
\* the driver passes an integer-valued double of magnitude <= 2^53 (not -0) as a host integer when `intrep` is set
DIntValued(dd) == (dd.c = "zero" /\ dd.s = 0) \/ (dd.c = "fin" /\ DIsInteger(dd) /\ (dd.e + BnBitLen(dd.m) <= 53 \/ (dd.m = DP52 /\ dd.e = 1)))
AToDRaw(x) == IF x.r = "f" THEN x.d ELSE IF x.n = <<>> THEN DZero(0) ELSE DRoundDy(x.s, x.n, 0, FALSE)    \* float(int)
ANorm(x, dv) == IF x.k = "num" /\ x.r = "i" /\ "Dev_IntRep" \notin dv THEN AF(AToDRaw(x)) ELSE x
AIn(v, ir, dv) ==
  IF v.k = "num"
  THEN LET dd == DFromW(v.w)
       IN IF ir /\ DIntValued(dd) THEN ANorm(AI(dd.s, DTruncMag(dd)), dv) ELSE AF(dd)
  ELSE v
AIntIsDouble(nn) == nn = <<>> \/ (BnBitLen(nn) - BnTrailingZeros(nn) <= 53 /\ BnBitLen(nn) <= 1024)
\* what the harness sees (wire.to_wire)
AOut(x) ==
  CASE x.k = "num" /\ x.r = "f" -> VNumW(DToW(x.d))
    [] x.k = "num" /\ x.r = "i" -> IF AIntIsDouble(x.n) THEN VNumW(DToW(AToDRaw(x)))
                                   ELSE [k |-> "hostval", t |-> IF BnBitLen(x.n) > 1024 THEN "int(out of double range)" ELSE "int(not a double)"]
    [] x.k = "hostv" -> [k |-> "hostval", t |-> x.t]
    [] OTHER -> x

\* ---- values.py to_number ------------------------------------------------------------------------
PyWhiteSpace == {9, 10, 11, 12, 13, 28, 29, 30, 31, 32, 133, 160, 5760, 8232, 8233, 8239, 8287, 12288} \cup (8192..8202)
PyStrip(u) == LET keep == {ai_k \in 1..Len(u) : u[ai_k] \notin PyWhiteSpace}
              IN IF keep = {} THEN <<>>
                 ELSE SubSeq(u, CHOOSE ai_k \in keep : \A ai_j \in keep : ai_k <= ai_j, CHOOSE ai_k \in keep : \A ai_j \in keep : ai_k >= ai_j)
AIsHexDigit(c) == CvDigitVal(c) < 16
\* Python accepts single underscores between digits
AUnderscoresOK(t, hex) ==
  \A ai_k \in 1..Len(t) : t[ai_k] = 95 =>
     /\ ai_k > 1 /\ ai_k < Len(t)
     /\ (IF hex THEN AIsHexDigit(t[ai_k - 1]) /\ AIsHexDigit(t[ai_k + 1]) ELSE CvIsDigit(t[ai_k - 1]) /\ CvIsDigit(t[ai_k + 1]))
ADropUnderscores(t) == SelectSeq(t, LAMBDA c : c # 95)
AHas(t, cs) == \E ai_k \in 1..Len(t) : t[ai_k] \in cs
PyStrToNum(u) ==
  LET t == PyStrip(u) IN
  IF t = <<>> THEN AI(0, <<>>)
  ELSE IF AHas(t, {46, 101, 69})
       THEN \* float(s): decimal grammar only (no radix prefixes), underscores allowed
            IF ~AUnderscoresOK(t, FALSE) THEN ANaN
            ELSE LET t2 == ADropUnderscores(t)
                     hasSign == t2[1] \in {43, 45}
                     body == IF hasSign THEN Tail(t2) ELSE t2
                     pr == IF body = <<>> THEN CvNaN ELSE CvDecLit(IF t2[1] = 45 THEN 1 ELSE 0, body)
                 IN IF pr.t = "dec" THEN AF(CvToD(pr)) ELSE ANaN
  ELSE IF Len(t) >= 2 /\ t[1] = 48 /\ CvRadixOf(t[2]) # 0
       THEN IF ~AUnderscoresOK(t, TRUE) THEN ANaN
            ELSE LET pr == CvRadixLit(ADropUnderscores(t)) IN IF pr.t = "int" THEN AI(0, pr.ds) ELSE ANaN
  ELSE \* int(s): optional sign, digits, underscores; no -0
       IF ~AUnderscoresOK(t, FALSE) THEN ANaN
       ELSE LET t2 == ADropUnderscores(t)
                hasSign == t2[1] \in {43, 45}
                body == IF hasSign THEN Tail(t2) ELSE t2
            IN IF body # <<>> /\ \A ai_k \in 1..Len(body) : CvIsDigit(body[ai_k])
               THEN AI(IF t2[1] = 45 THEN 1 ELSE 0, BnFromDigits(CvDigitVals(body), 10)) ELSE ANaN
AToNumber(v, dv) ==
  CASE v.k = "undef" -> ANaN
    [] v.k = "null" -> ANorm(AI(0, <<>>), dv)
    [] v.k = "bool" -> ANorm(AI(0, IF v.b THEN BnOne ELSE <<>>), dv)
    [] v.k = "num" -> v
    [] v.k = "str" -> IF "Dev_StrToNumPy" \in dv THEN ANorm(PyStrToNum(v.u), dv) ELSE AF(StrToD(v.u))

\* ---- values.py to_string -------------------------------------------------------------------------
\* host repr of a float: exponent notation outside 1e-4 <= x < 1e16, two exponent digits at least; ".0" stripped by the engine
PyReprLayout(digs, k, n) ==
  IF n > 16 \/ n <= -4
  THEN LET ex == n - 1
           ax == IF ex < 0 THEN 0 - ex ELSE ex
           et == <<101, IF ex < 0 THEN 45 ELSE 43>> \o (IF ax < 10 THEN <<48>> ELSE <<>>) \o DigitsOf(ax)
       IN IF k = 1 THEN digs \o et ELSE <<digs[1], 46>> \o SubSeq(digs, 2, k) \o et
  ELSE IF k <= n THEN digs \o CvZeros(n - k)
  ELSE IF 0 < n THEN SubSeq(digs, 1, n) \o <<46>> \o SubSeq(digs, n + 1, k)
  ELSE <<48, 46>> \o CvZeros(0 - n) \o digs
ANumToText(x, dv) ==
  IF "Dev_NumToStrPy" \notin dv THEN NumToText(AToDRaw(x))
  ELSE IF x.r = "i" THEN (IF x.s = 1 THEN <<45>> ELSE <<>>) \o CvDigitUnits(x.n)            \* str(int): all digits
  ELSE IF x.d.c # "fin" THEN NumToText(x.d)
  ELSE LET sh == DShortest(DAbs(x.d))
       IN (IF x.d.s = 1 THEN <<45>> ELSE <<>>) \o PyReprLayout(CvDigitUnits(sh.s), sh.k, sh.n)
AToStringU(v, dv) == IF v.k = "num" THEN ANumToText(v, dv) ELSE ToStringU(v)
AToBool(v) == IF v.k = "num" THEN (IF v.r = "i" THEN v.n # <<>> ELSE v.d.c \notin {"nan", "zero"}) ELSE ToBool(v)
ATypeOfU(v) == IF v.k = "num" THEN TypeOfU(VInt(0)) ELSE TypeOfU(v)

\* ---- exact arithmetic on the two representations -------------------------------------------------
AIsNaN(x) == x.r = "f" /\ x.d.c = "nan"
AIsZero(x) == IF x.r = "i" THEN x.n = <<>> ELSE x.d.c = "zero"
\* the exact value as a (non-canonical) Dbl record, for DCmp
AExact(x) == IF x.r = "f" THEN x.d ELSE IF x.n = <<>> THEN DZero(0) ELSE DFin(x.s, x.n, 0)
ACmpNum(x, y) == DCmp(AExact(x), AExact(y))                             \* neither is NaN
ANumEq(x, y) == ~AIsNaN(x) /\ ~AIsNaN(y) /\ ACmpNum(x, y) = 0
AIntAdd(x, y) ==
  IF x.s = y.s THEN AI(x.s, BnAdd(x.n, y.n))
  ELSE LET cm == BnCmp(x.n, y.n)
       IN IF cm = 0 THEN AI(0, <<>>) ELSE IF cm > 0 THEN AI(x.s, BnSub(x.n, y.n)) ELSE AI(y.s, BnSub(y.n, x.n))
AIntNeg(x) == AI(1 - x.s, x.n)
AAdd(x, y, dv) == IF x.r = "i" /\ y.r = "i" THEN ANorm(AIntAdd(x, y), dv) ELSE AF(DAdd(AToDRaw(x), AToDRaw(y)))
ASub(x, y, dv) == IF x.r = "i" /\ y.r = "i" THEN ANorm(AIntAdd(x, AIntNeg(y)), dv) ELSE AF(DSub(AToDRaw(x), AToDRaw(y)))
AMul(x, y) == AF(DMul(AToDRaw(x), AToDRaw(y)))
ADivInt(x, y) ==
  LET sg == DXor(x.s, y.s) IN
  IF x.n = <<>> THEN DZero(y.s)                                         \* 0 / -5 is -0.0 for host integers too
  ELSE LET kk == BnMax(0, 58 + BnBitLen(y.n) - BnBitLen(x.n))
           dm == BnDivMod(BnShl(x.n, kk), y.n)
       IN DRoundDy(sg, dm.q, 0 - kk, dm.r # <<>>)
ADiv(x, y, dv) ==
  IF AIsZero(y) /\ "Dev_DivZeroNaN" \in dv
  THEN \* vm.py DIV: `if a_num == 0: nan  elif (a_num > 0) == (b_sign > 0): inf  else: -inf`  (NaN > 0 is False)
       LET bpos == y.r = "i" \/ y.d.s = 0
           apos == ~AIsNaN(x) /\ ACmpNum(x, AI(0, <<>>)) > 0
       IN IF AIsZero(x) THEN ANaN ELSE IF apos = bpos THEN AF(DInf(0)) ELSE AF(DInf(1))
  ELSE IF x.r = "i" /\ y.r = "i" /\ y.n # <<>> THEN AF(ADivInt(x, y))
  ELSE AF(DDiv(AToDRaw(x), AToDRaw(y)))
\* host `%`: result takes the sign of the divisor
PyFloatMod(vx, wx) ==
  LET md == DFmod(vx, wx) IN
  IF md.c = "nan" THEN DNaN
  ELSE IF md.c = "zero" THEN DZero(wx.s)
  ELSE IF md.s # wx.s THEN DAdd(md, wx) ELSE md
PyIntMod(x, y) ==
  LET rr == BnDivMod(x.n, y.n).r IN
  IF rr = <<>> THEN AI(0, <<>>)
  ELSE IF x.s = y.s THEN AI(y.s, rr) ELSE AI(y.s, BnSub(y.n, rr))
AMod(x, y, dv) ==
  IF AIsZero(y) THEN ANaN
  ELSE IF "Dev_ModPy" \notin dv THEN AF(DFmod(AToDRaw(x), AToDRaw(y)))
  ELSE IF x.r = "i" /\ y.r = "i" THEN ANorm(PyIntMod(x, y), dv)
  ELSE AF(PyFloatMod(AToDRaw(x), AToDRaw(y)))
\* host `**`
ARefPow(a, b) == LET rf == DPow(a, b) IN IF IsApprox(rf) THEN rf ELSE AF(DFromW(rf.w))
PyFloatPow(a, b) ==
  CASE b.c = "zero" -> AF(DOne)
    [] a.c = "nan" -> ANaN
    [] b.c = "nan" -> IF a = DOne THEN AF(DOne) ELSE ANaN
    [] b.c = "inf" -> IF a.c = "fin" /\ DMagCmpOne(a) = 0 THEN AF(DOne) ELSE ARefPow(a, b)
    [] a.c = "inf" -> ARefPow(a, b)
    [] a.c = "zero" -> IF b.s = 1 THEN AExc("ZeroDivisionError") ELSE ARefPow(a, b)
    [] a.s = 1 /\ ~DIsInteger(b) -> AHost("complex")
    [] OTHER -> LET rf == DPow(a, b)
                IN IF IsApprox(rf) THEN AApproxPy(rf.s)
                   ELSE IF WIsInf(rf.w) THEN AExc("OverflowError") ELSE AF(DFromW(rf.w))
APow(x, y, dv) ==
  IF "Dev_PowPy" \notin dv THEN ARefPow(AToDRaw(x), AToDRaw(y))
  ELSE IF x.r = "i" /\ y.r = "i"
       THEN IF y.s = 0
            THEN LET odd == BnIsOdd(y.n)
                     small == BnBitLen(y.n) <= 7 /\ BnToInt(y.n) <= 64
                 IN IF y.n = <<>> THEN AI(0, BnOne)
                    ELSE IF x.n = <<>> THEN AI(0, <<>>)
                    ELSE IF x.n = BnOne THEN AI(IF x.s = 1 /\ odd THEN 1 ELSE 0, BnOne)
                    ELSE IF small THEN ANorm(AI(IF x.s = 1 /\ odd THEN 1 ELSE 0, BnPowS(x.n, BnToInt(y.n))), dv)
                    ELSE IF BnBitLen(x.n) - BnTrailingZeros(x.n) = 1 /\ BnBitLen(y.n) <= 10 /\ BnTrailingZeros(x.n) * BnToInt(y.n) <= 1100
                         THEN ANorm(AI(IF x.s = 1 /\ odd THEN 1 ELSE 0, BnPow2(BnTrailingZeros(x.n) * BnToInt(y.n))), dv)
                    ELSE AHost("hugeint")
            ELSE IF x.n = <<>> THEN AExc("ZeroDivisionError") ELSE PyFloatPow(AToDRaw(x), AToDRaw(y))
  ELSE PyFloatPow(AToDRaw(x), AToDRaw(y))
ANeg(x) == IF AIsZero(x) THEN AF(DZero(IF x.r = "i" \/ x.d.s = 0 THEN 1 ELSE 0))
           ELSE IF x.r = "i" THEN AIntNeg(x) ELSE AF(DNeg(x.d))
\* _to_int32 / _to_uint32: int(n) & 0xFFFFFFFF on the exact value
AToBits32(x) ==
  IF x.r = "f" THEN DToBits32(x.d)
  ELSE LET mag == BnLowBits(x.n, 32)
           uu == IF x.s = 1 /\ mag # <<>> THEN BnSub(DP32, mag) ELSE mag
       IN [ai_k \in 1..32 |-> BnBit(uu, ai_k - 1)]
AOfBitsS(bits) == IF bits[32] = 0 THEN AI(0, DBitsNat(bits)) ELSE AI(1, BnSub(DP32, DBitsNat(bits)))
AOfBitsU(bits) == AI(0, DBitsNat(bits))
AShiftCount(x) == LET bb == AToBits32(x) IN bb[1] + 2 * bb[2] + 4 * bb[3] + 8 * bb[4] + 16 * bb[5]
ABitBin(op, x, y, dv) ==
  LET p == AToBits32(x)  q == AToBits32(y)  n == AShiftCount(y) IN
  ANorm(CASE op = "&" -> AOfBitsS(BitsAnd(p, q))
          [] op = "|" -> AOfBitsS(BitsOr(p, q))
          [] op = "^" -> AOfBitsS(BitsXor(p, q))
          [] op = "<<" -> AOfBitsS(BitsShl(p, n))
          [] op = ">>" -> AOfBitsS(BitsSar(p, n))
          [] op = ">>>" -> AOfBitsU(BitsShr(p, n)), dv)

\* ---- vm.py _compare, _strict_equals, _abstract_equals -----------------------------------------------
\* -1, 0, 1, or 2 for "undefined"
ACompare(a, b, dv) ==
  IF a.k = "str" /\ b.k = "str" THEN (IF UnitsLess(a.u, b.u) THEN -1 ELSE IF a.u = b.u THEN 0 ELSE 1)
  ELSE LET x == AToNumber(a, dv)  y == AToNumber(b, dv)
       IN IF AIsNaN(x) \/ AIsNaN(y) THEN (IF "Dev_NaNCompare" \in dv THEN 1 ELSE 2) ELSE ACmpNum(x, y)
APyNumeric(v) == v.k \in {"num", "bool"}                               \* isinstance(v, (int, float)): bool is a host int
ABoolAsNum(v) == IF v.k = "bool" THEN AI(0, IF v.b THEN BnOne ELSE <<>>) ELSE v
AStrictEq(a, b, dv) ==
  IF a.k = "num" /\ b.k = "num" THEN ANumEq(a, b)
  ELSE IF a.k # b.k THEN "Dev_BoolIsInt" \in dv /\ APyNumeric(a) /\ APyNumeric(b) /\ ANumEq(ABoolAsNum(a), ABoolAsNum(b))
  ELSE StrictEq(a, b)
RECURSIVE ALooseEq(_, _, _)
ALooseEq(a, b, dv) ==
  IF a.k = b.k THEN AStrictEq(a, b, dv)
  ELSE IF a.k \in {"undef", "null"} /\ b.k \in {"undef", "null"} THEN TRUE
  ELSE IF a.k = "num" /\ b.k = "str" THEN ANumEq(a, AToNumber(b, dv))
  ELSE IF a.k = "str" /\ b.k = "num" THEN ANumEq(AToNumber(a, dv), b)
  ELSE IF a.k = "bool" THEN ALooseEq(AToNumber(a, dv), b, dv)
  ELSE IF b.k = "bool" THEN ALooseEq(a, AToNumber(b, dv), dv)
  ELSE FALSE

\* ---- opcodes ------------------------------------------------------------------------------------------
ABinOp(op, a, b, dv) ==
  IF op = "&&" THEN (IF AIsAbrupt(a) THEN a ELSE IF AToBool(a) THEN b ELSE a)
  ELSE IF op = "||" THEN (IF AIsAbrupt(a) THEN a ELSE IF AToBool(a) THEN a ELSE b)
  ELSE IF AIsAbrupt(a) THEN a
  ELSE IF op = "," THEN b
  ELSE IF AIsAbrupt(b) THEN b
  ELSE CASE op = "+" -> IF a.k = "str" \/ b.k = "str" THEN VStr(AToStringU(a, dv) \o AToStringU(b, dv))
                        ELSE AAdd(AToNumber(a, dv), AToNumber(b, dv), dv)
         [] op = "-" -> ASub(AToNumber(a, dv), AToNumber(b, dv), dv)
         [] op = "*" -> AMul(AToNumber(a, dv), AToNumber(b, dv))
         [] op = "/" -> ADiv(AToNumber(a, dv), AToNumber(b, dv), dv)
         [] op = "%" -> AMod(AToNumber(a, dv), AToNumber(b, dv), dv)
         [] op = "**" -> APow(AToNumber(a, dv), AToNumber(b, dv), dv)
         [] op \in BitOps -> ABitBin(op, AToNumber(a, dv), AToNumber(b, dv), dv)
         [] op = "<" -> VBool(ACompare(a, b, dv) = -1)
         [] op = "<=" -> VBool(ACompare(a, b, dv) \in {-1, 0})
         [] op = ">" -> VBool(ACompare(a, b, dv) = 1)
         [] op = ">=" -> VBool(ACompare(a, b, dv) \in {0, 1})
         [] op = "==" -> VBool(ALooseEq(a, b, dv))
         [] op = "!=" -> VBool(~ALooseEq(a, b, dv))
         [] op = "===" -> VBool(AStrictEq(a, b, dv))
         [] op = "!==" -> VBool(~AStrictEq(a, b, dv))
AUnOp(op, a, dv) ==
  IF AIsAbrupt(a) THEN (IF op = "void" THEN Undef ELSE a)
  ELSE CASE op = "neg" -> ANorm(ANeg(AToNumber(a, dv)), dv)
         [] op = "pos" -> AToNumber(a, dv)
         [] op = "!" -> VBool(~AToBool(a))
         [] op = "~" -> ANorm(AOfBitsS(BitsNot(AToBits32(AToNumber(a, dv)))), dv)
         [] op = "typeof" -> VStr(ATypeOfU(a))
         [] op = "void" -> Undef
AOneInt(dv) == ANorm(AI(0, BnOne), dv)
AUpdOp(op, prefix, a, dv) ==
  LET old == AToNumber(a, dv)
      new == IF op = "++" THEN AAdd(old, AOneInt(dv), dv) ELSE ASub(old, AOneInt(dv), dv)
  IN [res |-> IF prefix THEN new ELSE IF "Dev_PostfixOld" \in dv THEN a ELSE old, after |-> new]
MemberTargets == {"dot", "computed", "elem", "elemvar"}
RECURSIVE AEvalTree(_, _)
AEvalTree(tr, dv) ==
  CASE tr.t = "lit" -> AIn(tr.v, tr.ir, dv)
    [] tr.t = "un" -> AUnOp(tr.op, AEvalTree(tr.x, dv), dv)
    [] tr.t = "bin" -> LET l == AEvalTree(tr.l, dv)
                       IN IF tr.op = "&&" /\ ~AIsAbrupt(l) /\ ~AToBool(l) THEN l
                          ELSE IF tr.op = "||" /\ ~AIsAbrupt(l) /\ AToBool(l) THEN l
                          ELSE ABinOp(tr.op, l, AEvalTree(tr.r, dv), dv)
    [] tr.t = "cond" -> LET c == AEvalTree(tr.c, dv)
                        IN IF AIsAbrupt(c) THEN c ELSE IF AToBool(c) THEN AEvalTree(tr.x, dv) ELSE AEvalTree(tr.y, dv)
\* one judged case -> [o, res, after]  (res / after are model values; o = "value" | "syntax")
ACase(r, dv) ==
  LET a == AIn(r.a, r.intrep, dv)  b == AIn(r.b, r.intrep, dv)  c == AIn(r.c, r.intrep, dv)
      val(x, y) == [o |-> "value", res |-> x, after |-> y]
  IN CASE r.f = "bin" -> val(ABinOp(r.op, a, b, dv), Undef)
       [] r.f = "un" -> val(AUnOp(r.op, a, dv), Undef)
       [] r.f = "upd" -> LET u == AUpdOp(r.op, r.pre, a, dv) IN val(u.res, u.after)
       [] r.f = "cmpd" -> IF r.op = "**" /\ "Dev_NoPowAssign" \in dv THEN [o |-> "syntax", res |-> Undef, after |-> Undef]
                          ELSE IF r.tgt \in MemberTargets /\ "Dev_MemberCompound" \in dv THEN val(b, b)      \* compiled as a plain store
                          ELSE LET x == ABinOp(r.op, a, b, dv) IN val(x, x)
       [] r.f = "asg" -> val(b, b)
       [] r.f = "cond" -> val(IF AToBool(c) THEN a ELSE b, Undef)
       [] r.f = "tree" -> val(AEvalTree(r.tree, dv), Undef)
\* does the observation `act` ([o, res, after, type]) match the prediction ?
AValMatches(actv, x) ==
  CASE x.k = "approx" -> actv.k = "num" /\ ~WIsNaN(actv.w) /\ WSign(actv.w) = x.s
    [] OTHER -> LET w == AOut(x) IN IF w.k = "hostval" THEN actv.k = "hostval" /\ actv.t = w.t ELSE SameVal(actv, w)
AMatches(act, pred) ==
  IF pred.o = "syntax" THEN act.o = "syntax"
  ELSE IF pred.res.k = "exc" THEN act.o = "host" /\ act.type = pred.res.t
  ELSE IF pred.res.k = "hostv" /\ pred.res.t = "hugeint"
       THEN act.o = "hang" \/ (act.o = "host" /\ act.type \in {"MemoryError", "OverflowError"})
            \/ (act.o = "value" /\ act.res.k = "hostval" /\ act.res.t \in {"int(not a double)", "int(out of double range)"})
  ELSE IF pred.res.k = "approxpy"
       THEN (act.o = "host" /\ act.type = "OverflowError")
            \/ (act.o = "value" /\ act.res.k = "num" /\ ~WIsNaN(act.res.w) /\ WSign(act.res.w) = pred.res.s
                /\ (pred.after.k = "undef" \/ act.after = act.res))
  ELSE act.o = "value" /\ AValMatches(act.res, pred.res) /\ AValMatches(act.after, pred.after)

\* ---- which deviations can matter for a case (static), and the search for an explanation ------------
RECURSIVE TreeOps(_)
TreeOps(tr) == CASE tr.t = "lit" -> IF tr.v.k = "str" THEN {"str"} ELSE {}
                 [] tr.t = "un" -> {tr.op} \cup TreeOps(tr.x)
                 [] tr.t = "bin" -> {tr.op} \cup TreeOps(tr.l) \cup TreeOps(tr.r)
                 [] tr.t = "cond" -> TreeOps(tr.c) \cup TreeOps(tr.x) \cup TreeOps(tr.y)
CaseOps(r) == IF r.f = "tree" THEN TreeOps(r.tree)
              ELSE {r.op} \cup (IF r.a.k = "str" \/ r.b.k = "str" \/ r.c.k = "str" THEN {"str"} ELSE {})
Relevant(r) ==
  LET ops == CaseOps(r) IN
    (IF r.f = "cmpd" /\ r.op = "**" THEN {"Dev_NoPowAssign"} ELSE {})
    \cup (IF r.f = "cmpd" /\ r.tgt \in MemberTargets THEN {"Dev_MemberCompound"} ELSE {})
    \cup (IF r.f = "upd" /\ ~r.pre THEN {"Dev_PostfixOld"} ELSE {})
    \cup (IF ops \cap RelOps # {} THEN {"Dev_NaNCompare"} ELSE {})
    \cup (IF ops \cap {"===", "!=="} # {} THEN {"Dev_BoolIsInt"} ELSE {})
    \cup (IF "%" \in ops THEN {"Dev_ModPy"} ELSE {})
    \cup (IF "/" \in ops THEN {"Dev_DivZeroNaN"} ELSE {})
    \cup (IF "**" \in ops THEN {"Dev_PowPy"} ELSE {})
    \cup (IF "str" \in ops THEN {"Dev_StrToNumPy"} ELSE {})
    \cup (IF "str" \in ops /\ "+" \in ops THEN {"Dev_NumToStrPy"} ELSE {})
    \cup {"Dev_IntRep"}
\* smallest set of deviations whose as-is model predicts exactly the observation; "" if none does
PickDev(ds) == CHOOSE nm \in ds : \A om \in ds : DevPriority(nm) <= DevPriority(om)
Explain(r, exp) ==
  LET rel == Relevant(r)
      ok(ds) == AMatches(r.out, ACase(r, ds))
      s1 == {nm \in rel : ok({nm})}
  IN IF s1 # {} THEN PickDev(s1)
     ELSE LET s2 == {ds \in SUBSET rel : Cardinality(ds) = 2 /\ ok(ds)}
          IN IF s2 # {} THEN PickDev(CHOOSE ds \in s2 : TRUE)
             ELSE LET s3 == {ds \in SUBSET rel : Cardinality(ds) >= 3 /\ ok(ds)}
                  IN IF s3 = {} THEN ""
                     ELSE PickDev(CHOOSE ds \in s3 : \A es \in s3 : Cardinality(ds) <= Cardinality(es))
=============================================================================
