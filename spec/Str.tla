-------------------------------- MODULE Str --------------------------------
(* UTF-16 code-unit sequences.  Variable-free library module.                 *)
EXTENDS Naturals, Integers, Sequences, FiniteSets, TLC

AsciiChars == " !\"#$%&'()*+,-./0123456789:;<=>?@ABCDEFGHIJKLMNOPQRSTUVWXYZ[\\]^_`abcdefghijklmnopqrstuvwxyz{|}~"
CodeOf == [c \in {SubSeq(AsciiChars, i, i) : i \in 1..Len(AsciiChars)} |->
             31 + (CHOOSE i \in 1..Len(AsciiChars) : SubSeq(AsciiChars, i, i) = c)]
\* U("abc") = <<97, 98, 99>>   (printable ASCII only)
U(s) == [i \in 1..Len(s) |-> CodeOf[SubSeq(s, i, i)]]

Min(a, b) == IF a < b THEN a ELSE b
Max(a, b) == IF a > b THEN a ELSE b
Clamp(x, lo, hi) == Max(lo, Min(x, hi))

\* 0-based half-open slice of a unit sequence
Slice(u, from, to) == IF from >= to THEN <<>> ELSE SubSeq(u, from + 1, to)

\* does pat occur in u at 0-based position k ?
OccursAt(u, pat, k) == k >= 0 /\ k + Len(pat) <= Len(u) /\ \A j \in 1..Len(pat) : u[k + j] = pat[j]
\* smallest 0-based k >= from with an occurrence, or -1
IndexFrom(u, pat, from) ==
  LET S == {k \in from..(Len(u) - Len(pat)) : OccursAt(u, pat, k)}
  IN IF S = {} THEN -1 ELSE CHOOSE k \in S : \A j \in S : k <= j
\* largest 0-based k <= upto with an occurrence, or -1
LastIndexUpTo(u, pat, upto) ==
  LET S == {k \in 0..Min(upto, Len(u) - Len(pat)) : OccursAt(u, pat, k)}
  IN IF S = {} THEN -1 ELSE CHOOSE k \in S : \A j \in S : k >= j

\* ECMAScript WhiteSpace + LineTerminator code units (StrWhiteSpaceChar)
WhiteSpace == {9, 10, 11, 12, 13, 32, 160, 5760, 8232, 8233, 8239, 8287, 12288, 65279} \cup (8192..8202)
TrimStart(u) == LET S == {i \in 1..Len(u) : u[i] \notin WhiteSpace}
                IN IF S = {} THEN <<>> ELSE SubSeq(u, CHOOSE i \in S : \A j \in S : i <= j, Len(u))
TrimEnd(u) == LET S == {i \in 1..Len(u) : u[i] \notin WhiteSpace}
              IN IF S = {} THEN <<>> ELSE SubSeq(u, 1, CHOOSE i \in S : \A j \in S : i >= j)
Trim(u) == TrimEnd(TrimStart(u))

LowerAscii(c) == IF c >= 65 /\ c <= 90 THEN c + 32 ELSE c
UpperAscii(c) == IF c >= 97 /\ c <= 122 THEN c - 32 ELSE c
IsAsciiUnit(c) == c < 128

\* decimal digits of a natural number (n < 2^31)
RECURSIVE DigitsOf(_)
DigitsOf(n) == IF n < 10 THEN <<48 + n>> ELSE Append(DigitsOf(n \div 10), 48 + (n % 10))
IntText(n) == IF n < 0 THEN <<45>> \o DigitsOf(0 - n) ELSE DigitsOf(n)
IsDigitUnit(c) == c >= 48 /\ c <= 57
\* value of a short all-digit sequence (<= 9 digits)
RECURSIVE DigitsVal(_)
DigitsVal(u) == IF u = <<>> THEN 0 ELSE DigitsVal(SubSeq(u, 1, Len(u) - 1)) * 10 + (u[Len(u)] - 48)

RECURSIVE Repeat(_, _)
Repeat(u, n) == IF n <= 0 \/ u = <<>> THEN <<>> ELSE u \o Repeat(u, n - 1)
RECURSIVE Flatten(_)
Flatten(ss) == IF ss = <<>> THEN <<>> ELSE Head(ss) \o Flatten(Tail(ss))
=============================================================================
